#!/usr/bin/env python3
"""tools/mutprompt.py Cnn [N] -> prompt for an independent sub-agent that seeds breaking changes."""
import json, sys
pid = sys.argv[1]; n = int(sys.argv[2]) if len(sys.argv) > 2 else 4
p = {json.loads(l)["id"]: json.loads(l) for l in open("/verif/properties.jsonl") if l.strip()}[pid]
wt = "/tmp/mut/" + pid
print(f"""You are testing a Go library for how well its behaviour is protected against subtle regressions. You have a scratch git worktree of the library mellium/xmpp at {wt} (work ONLY inside that directory; never touch /repo or /verif and do not read anything under /verif; no network: run `export GOFLAGS=-mod=mod GOPROXY=off GOSUMDB=off GOTOOLCHAIN=local` before go commands).

The property under study:

Title: {p['title']}
Statement: {p['statement']}
Quantified: {p['quantifier']['text']}
Relevant files: {', '.join(p['anchors']['files'])}

Task: produce {n} different, independent changes to the library source (non-test .go files; each a separate small patch against the worktree's HEAD) that each BREAK this property while (a) the library still compiles (`go build ./...`) and (b) the existing test suite still passes: `cd {wt} && go test -vet=off -count=1 ./...` (run it twice if a test looks flaky). Prefer realistic regressions a maintainer could plausibly introduce (off-by-one, wrong boundary condition, a dropped check, a swapped order, a missing lock/unlock or re-check, an error no longer propagated, a table entry changed), and prefer ones that need something SPECIFIC to manifest — a particular interleaving, a fault at a particular point, a multi-step sequence of operations, an unusual input, or two cooperating sites that each look fine alone — rather than ones ordinary use would expose at once. The {n} changes should exercise different mechanisms / clauses of the property.

For each change i=1..{n} write into {wt}/out/m<i>/: `patch.diff` (output of `git diff` for that change alone; must apply with `git apply` to the worktree HEAD), `demo_test.go` (a Go test file with build constraint `//go:build seeddemo` that FAILS with the change applied and PASSES without it; it will be copied as zz_demo_test.go into the package directory named in meta.json and run with `go test -tags seeddemo -run <regex> ./<pkgdir>/`; use an external test package name like `xmpp_test`/`jid_test` unless you need internals; give each test a unique name TestSeed{pid}M<i>; bound every wait with a timeout so a hang shows up as a failure, not a stuck run), and `meta.json` {{"property":"{pid}","summary":...,"needs":"what specific circumstance is needed for it to manifest","demo_pkg":"<package directory relative to repo root>","demo_run":"TestSeed{pid}M<i>","ran":"commands you ran and their outcomes"}}. Verify each yourself: apply the patch, run the existing tests (must pass), run the demo (must fail), revert (`git checkout -- .`), run the demo (must pass). Leave the worktree clean (HEAD, no modifications except the untracked out/ directory; remove any copied demo files). Report a short table of the {n} changes at the end.""")
