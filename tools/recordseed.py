#!/usr/bin/env python3
"""tools/recordseed.py <ingest log> — write the coordinator's confirmation and the check's verdict into seeded/<id>/meta.json."""
import json, sys
res = {}
for l in open(sys.argv[1]):
    parts = l.strip().split()
    if parts[:1] == ["CONFIRMED"]:
        res.setdefault(parts[1], {})["confirmed"] = True
    if parts[:1] == ["NOT-CONFIRMED"]:
        res.setdefault(parts[1], {})["confirmed"] = False
    if len(parts) >= 3 and parts[2] in ("CAUGHT", "MISSED"):
        res.setdefault(parts[0], {})["check"] = parts[2]
def check_text(m, sid, verdict):
    prev = m.get("confirmed_by_coordinator", {}).get("check", "")
    if "but CAUGHT by ./check" in prev:
        return prev
    if verdict == "CAUGHT" and "MISSED" in prev:
        return "tools/runseeded.py %s -> MISSED at first (./check %s --tier quick exited 0); after strengthening the machinery (see design/%s.md, section on seeded changes) -> CAUGHT" % (sid, m["property"], m["property"])
    if verdict is None:
        return prev
    return "tools/runseeded.py %s -> %s (./check %s --tier quick)" % (sid, verdict, m["property"])


for sid, r in res.items():
    p = "/verif/seeded/%s/meta.json" % sid
    m = json.load(open(p))
    m["confirmed_by_coordinator"] = {
        "cmd": "tools/confirmseeded.sh %s" % sid,
        "result": ("demo passes on clean tree; existing suite passes with patch; demo fails with patch" if r.get("confirmed") else m.get("confirmed_by_coordinator", {}).get("result", "NOT CONFIRMED")),
        "check": check_text(m, sid, r.get("check"))}
    json.dump(m, open(p, "w"), indent=1)
    print(sid, r)
