#!/bin/sh
# tools/mergeprop.sh Cnn [branch] — bring an engineer's /repo branch onto main (cherry-pick), run the baseline with the tag off,
# rewrite commit hashes in /verif, and run the property's quick check on /repo for seeds 1..3.
set -u
export GOFLAGS=-mod=mod GOPROXY=off GOSUMDB=off GOTOOLCHAIN=local
p=$1; b=${2:-verif-$p}
cd /repo || exit 2
commits=$(git log --reverse --format=%h main..$b)
echo "commits: $commits"
for c in $commits; do
  s=$(git log -1 --format=%s $c)
  if git log --format=%s main | grep -qxF "$s"; then echo "skip (subject already on main): $c $s"; continue; fi
  git cherry-pick $c >/dev/null 2>&1 || { echo "CONFLICT at $c $s"; git status --short | head; exit 3; }
  echo "picked $c $s"
done
go build ./... && go vet -tags verif ./... >/dev/null 2>&1; go build -tags verif ./... || exit 4
go test -vet=off -count=1 ./... 2>&1 | grep -v "^ok\|no test files" | head -20
cd /verif && python3 tools/fixhashes.py
