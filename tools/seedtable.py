#!/usr/bin/env python3
"""tools/seedtable.py — markdown table of seeded changes (seeded/*/meta.json) for DESIGN.md."""
import glob, json, os
print("| id | property | what the change does | what it needs to manifest | confirmed | check verdict |")
print("|---|---|---|---|---|---|")
for d in sorted(glob.glob("/verif/seeded/*/")):
    m = json.load(open(d + "meta.json"))
    sid = os.path.basename(d.rstrip("/"))
    c = m.get("confirmed_by_coordinator", {})
    def flat(x):
        if isinstance(x, list):
            x = " ".join(map(str, x))
        return str(x).replace("\n", " ").replace("|", "\\|")
    chk = c.get("check", "")
    verdict = "obsolete (mechanism removed by later repairs)" if chk.startswith("OBSOLETE") else "caught by another property's check (see meta.json)" if "but CAUGHT by ./check" in chk else "caught" if "-> CAUGHT" in chk and "MISSED" not in chk else ("missed at first; caught after strengthening" if "MISSED at first" in chk or ("MISSED" in chk and "CAUGHT" in chk) else ("MISSED" if "MISSED" in chk else "?"))
    print("| %s | %s | %s | %s | %s | %s |" % (sid, m["property"], flat(m.get("summary", ""))[:260], flat(m.get("needs", ""))[:220],
          "yes" if c.get("result", "").startswith("demo passes") else "no", verdict))
