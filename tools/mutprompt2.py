#!/usr/bin/env python3
"""tools/mutprompt2.py Cnn [N] -> second-wave prompt: N more seeded changes, different from the ones already in seeded/Cnn-m*."""
import glob, json, sys, subprocess
pid = sys.argv[1]; n = int(sys.argv[2]) if len(sys.argv) > 2 else 4
base = subprocess.run(["python3", "/verif/tools/mutprompt.py", pid, str(n)], capture_output=True, text=True).stdout
prev = []
for d in sorted(glob.glob("/verif/seeded/%s-m*/meta.json" % pid)):
    m = json.load(open(d))
    s = m.get("summary", "")
    if isinstance(s, list):
        s = " ".join(s)
    prev.append("- " + " ".join(str(s).split())[:300])
k = len(prev)
base = base.replace("out/m<i>/", "out/m<i>/ (number them i=%d..%d)" % (k + 1, k + n)).replace("i=1..%d" % n, "i=%d..%d" % (k + 1, k + n))
extra = """

SECOND WAVE. Other people already produced the following changes for this property; do NOT repeat them or close variants of them — find DIFFERENT mechanisms, different code sites and, above all, clauses of the statement that the list below does not touch yet (read the statement clause by clause and the quantifier item by item; pick the least obvious ones). Prefer changes that are hard to notice: ones that leave every common path intact and need an unusual input class, a boundary value, a particular history of earlier operations, a particular interleaving or fault point, or two cooperating edits that each look harmless. Use directory names m%d..m%d and test names TestSeed%sM%d..M%d.
Already produced:
%s
""" % (k + 1, k + n, pid, k + 1, k + n, "\n".join(prev))
print(base + extra)
