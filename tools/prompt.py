#!/usr/bin/env python3
"""Print the agent prompt for one or more properties: tools/prompt.py C11 C20 -- 'owned files' -- 'extra notes'"""
import json, sys
args = sys.argv[1:]
parts = " ".join(args).split(" -- ")
pids = parts[0].split()
owned = parts[1] if len(parts) > 1 else "none"
notes = parts[2] if len(parts) > 2 else ""
props = {json.loads(l)["id"]: json.loads(l) for l in open("/verif/properties.jsonl") if l.strip()}
out = []
out.append("You are one of several engineers working in parallel on a verification framework in /verif for the Go XMPP library at /repo (mellium/xmpp, pinned commit). "
           "Your job: build the complete verification of propert%s %s — Coq model + machine-checked theorems + Go correspondence harness + oracle — following /verif/AGENT_GUIDE.md exactly (read it first, then /verif/DESIGN.md sections 1-6 and the §7 section(s) for your propert%s, then the finished example C16: /verif/coq/C16/*.v, /verif/harness/c16/main.go, /verif/props/C16.json, /verif/check)." % ("ies" if len(pids) > 1 else "y", ", ".join(pids), "ies" if len(pids) > 1 else "y"))
for pid in pids:
    p = props[pid]
    out.append("\n=== Property %s: %s ===\nStatement: %s\nQuantifier: %s\nWhy tests cannot settle it: %s\nAnchors: files %s; mechanisms %s" % (
        pid, p["title"], p["statement"], p["quantifier"]["text"], p["why_tests_cant"], ", ".join(p["anchors"]["files"]),
        "; ".join("%s (%s)" % (m.get("name"), m.get("where")) for m in p["anchors"].get("mechanism", []))))
out.append("\nLibrary files you own for fix:/verif: commits in your worktree (/tmp/wt/%s, branch verif-%s — create it as the guide says): %s. Files outside this list: do not change them; model their current behaviour faithfully and report defects you see there." % (pids[0], pids[0], owned))
if notes:
    out.append("\nNotes from the coordinator (defects already seen on the pinned tree, hints):\n" + notes)
out.append("\nWork autonomously until the deliverables in the guide are complete and `VERIF_REPO=/tmp/wt/%s ./check %s` exits 0 for seeds 1,2,3 (KNOWN-FINDING lines allowed only for entries you recorded as status known). "
           "Prioritise: (1) a sound model that the correspondence check confirms on thousands of cases, (2) property theorems at full strength proved for all inputs, (3) oracle + generators strong enough to catch subtle mutations, (4) the write-ups. "
           "Be economical: do not paste large files into your messages, do not re-read files needlessly. Other engineers are editing /verif concurrently in their own directories: stay inside yours, never run git commit/stash/checkout in /verif, never edit /repo (use your worktree). "
           "Your final message must be the report described at the end of the guide." % (pids[0], " / ".join(pids)))
print("\n".join(out))
