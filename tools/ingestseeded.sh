#!/bin/sh
# tools/ingestseeded.sh Cnn — copy /tmp/mut/Cnn/out/m*/ into seeded/Cnn-m*/, confirm each, run the check on each (new ones only).
p=$1; ids=""
for d in /tmp/mut/$p/out/m*/; do
  i=$(basename $d); id=$p-$i
  [ -f $d/patch.diff ] || continue
  mkdir -p /verif/seeded/$id; cp $d/patch.diff $d/demo_test.go $d/meta.json /verif/seeded/$id/
  ids="$ids $id"
  if /verif/tools/confirmseeded.sh $id; then echo "CONFIRMED $id"; else echo "NOT-CONFIRMED $id"; fi
done
cd /verif && python3 tools/runseeded.py $ids
