#!/bin/sh
# tools/confirmseeded.sh <seeded-id> <pkgdir> <go test args...>
# Confirms a seeded change: with the patch the existing suite passes and the demo fails;
# without it the demo passes. Uses a scratch worktree, removed afterwards.
set -u
export GOFLAGS=-mod=mod GOPROXY=off GOSUMDB=off GOTOOLCHAIN=local
id=$1; pkg=$2; shift 2
d=/verif/seeded/$id; wt=/tmp/seedconfirm/$id
git -C /repo worktree remove --force $wt 2>/dev/null; rm -rf $wt
git -C /repo worktree add -q --detach $wt HEAD || exit 2
cp $d/demo_test.go $wt/$pkg/zz_demo_test.go
( cd $wt && go test -vet=off -count=1 "$@" ./$pkg/ >/dev/null 2>&1 ); clean=$?
git -C $wt apply $d/patch.diff || { echo "$id: patch does not apply"; exit 2; }
rm $wt/$pkg/zz_demo_test.go
( cd $wt && go build ./... && go test -vet=off -count=1 ./... >/tmp/seedconfirm/$id.suite 2>&1 ); suite=$?
cp $d/demo_test.go $wt/$pkg/zz_demo_test.go
( cd $wt && go test -vet=off -count=1 "$@" ./$pkg/ >/dev/null 2>&1 ); mutated=$?
git -C /repo worktree remove --force $wt; rm -rf $wt /tmp/seedconfirm/$id.suite
echo "$id: demo on clean tree rc=$clean (want 0); existing suite with patch rc=$suite (want 0); demo with patch rc=$mutated (want !=0)"
[ $clean = 0 ] && [ $suite = 0 ] && [ $mutated != 0 ]
