#!/bin/sh
# tools/confirmseeded.sh <seeded-id> [<pkgdir> <go test args...>]
# Confirms a seeded change in a scratch worktree of /repo HEAD (removed afterwards):
# the demo passes on the clean tree; with the patch the library builds, the existing suite
# passes and the demo fails. pkgdir/test args default to meta.json's demo_pkg/demo_run
# (tag seeddemo).
set -u
export GOFLAGS=-mod=mod GOPROXY=off GOSUMDB=off GOTOOLCHAIN=local
id=$1; d=/verif/seeded/$id
if [ $# -ge 2 ]; then pkg=$2; shift 2; else
  pkg=$(python3 -c "import json;print(json.load(open('$d/meta.json'))['demo_pkg'])")
  run=$(python3 -c "import json;print(json.load(open('$d/meta.json'))['demo_run'])")
  set -- -tags seeddemo -run "$run"
fi
[ "$pkg" = "." ] && pkg=""
wt=/tmp/seedconfirm/$id; mkdir -p /tmp/seedconfirm
git -C /repo worktree remove --force $wt 2>/dev/null; rm -rf $wt
git -C /repo worktree add -q --detach $wt HEAD || exit 2
cp $d/demo_test.go $wt/$pkg/zz_demo_test.go
( cd $wt && timeout 600 go test -vet=off -count=1 "$@" ./$pkg/ >/tmp/seedconfirm/$id.clean 2>&1 ); clean=$?
git -C $wt apply $d/patch.diff || { echo "$id: patch does not apply"; git -C /repo worktree remove --force $wt; exit 2; }
rm $wt/$pkg/zz_demo_test.go
( cd $wt && go build ./... && timeout 1200 go test -vet=off -count=1 ./... >/tmp/seedconfirm/$id.suite 2>&1 ); suite=$?
if [ $suite != 0 ]; then ( cd $wt && timeout 1200 go test -vet=off -count=1 ./... >/tmp/seedconfirm/$id.suite 2>&1 ); suite=$?; fi
cp $d/demo_test.go $wt/$pkg/zz_demo_test.go
( cd $wt && timeout 600 go test -vet=off -count=1 "$@" ./$pkg/ >/tmp/seedconfirm/$id.mut 2>&1 ); mutated=$?
git -C /repo worktree remove --force $wt; rm -rf $wt
echo "$id: demo on clean tree rc=$clean (want 0); existing suite with patch rc=$suite (want 0); demo with patch rc=$mutated (want !=0)"
[ $clean = 0 ] && [ $suite = 0 ] && [ $mutated != 0 ]
