#!/usr/bin/env python3
"""Run the registered checks against every seeded change under seeded/<id>/ (patch.diff + meta.json).

Each change is applied to a scratch worktree of /repo's HEAD (outside /repo and /verif), the
property's check is run with VERIF_REPO pointing at it, and the worktree is removed.
usage: tools/runseeded.py [--tier quick|thorough] [id ...]
"""
import json, os, subprocess, sys, shutil, glob
ROOT = os.path.dirname(os.path.dirname(os.path.abspath(__file__)))
tier = "quick"
args = sys.argv[1:]
if args[:1] == ["--tier"]:
    tier, args = args[1], args[2:]
ids = args or sorted(os.path.basename(d) for d in glob.glob(os.path.join(ROOT, "seeded", "*")) if os.path.isdir(d))
rows = []
for sid in ids:
    d = os.path.join(ROOT, "seeded", sid)
    meta = json.load(open(os.path.join(d, "meta.json")))
    prop = meta["property"]
    wt = "/tmp/seedrun/" + sid
    subprocess.run(["git", "-C", "/repo", "worktree", "remove", "--force", wt], capture_output=True)
    shutil.rmtree(wt, ignore_errors=True)
    subprocess.run(["git", "-C", "/repo", "worktree", "add", "-q", "--detach", wt, "HEAD"], check=True)
    try:
        ap = subprocess.run(["git", "-C", wt, "apply", os.path.join(d, "patch.diff")], capture_output=True, text=True)
        if ap.returncode != 0:
            rows.append((sid, prop, "PATCH-DOES-NOT-APPLY", ap.stderr.strip()[:100]))
            continue
        env = dict(os.environ, VERIF_REPO=wt, VERIF_EVIDENCE_DIR=os.path.join(ROOT, "work", "seeded-evidence"))
        p = subprocess.run([os.path.join(ROOT, "check"), prop, "--tier", tier], cwd=ROOT, env=env, capture_output=True, text=True)
        viol = [l for l in p.stdout.split("\n") if l.startswith("VIOLATION")]
        rows.append((sid, prop, "CAUGHT" if p.returncode == 1 and viol else "MISSED", (viol or [p.stdout.strip().split("\n")[-1]])[0][:160]))
    finally:
        subprocess.run(["git", "-C", "/repo", "worktree", "remove", "--force", wt], capture_output=True)
        shutil.rmtree(wt, ignore_errors=True)
for r in rows:
    print("%-28s %-4s %-8s %s" % r)
sys.exit(0 if all(r[2] == "CAUGHT" for r in rows) else 1)
