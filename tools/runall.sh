#!/bin/sh
# tools/runall.sh "<ids>" "<seeds>" [tier] — run checks, print one summary line each (plus VIOLATION lines).
cd /verif
for p in $1; do for s in $2; do
  out=$(./check $p --tier ${3:-quick} --seed $s 2>&1); rc=$?
  echo "rc=$rc $(echo "$out" | grep '^check ' | tail -1)"
  echo "$out" | grep '^VIOLATION'
done; done
