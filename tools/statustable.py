#!/usr/bin/env python3
"""tools/statustable.py — per-property status table (markdown) from props/, known_findings*, evidence/, coq/."""
import glob, json, os, re
ROOT = os.path.dirname(os.path.dirname(os.path.abspath(__file__)))
kf = {}
for f in [os.path.join(ROOT, "known_findings.json")] + sorted(glob.glob(os.path.join(ROOT, "known_findings.d", "*.json"))):
    for e in json.load(open(f)).get("findings", []):
        kf.setdefault(e["property"], []).append(e)
print("| prop | theorems (of which `_refuted` / `_partial`) | Coq lines | harness lines | defects fixed (`fix:` commits named in known-findings) | known findings (keys) |")
print("|---|---|---|---|---|---|")
for p in sorted(glob.glob(os.path.join(ROOT, "props", "C*.json"))):
    pr = json.load(open(p)); pid = pr["id"]
    names = []
    for f in pr.get("property_files", []):
        names += re.findall(r"^\s*Theorem\s+([A-Za-z0-9_']+)", open(os.path.join(ROOT, "coq", f)).read(), re.M)
    ref = sum(1 for n in names if "refuted" in n); par = sum(1 for n in names if "partial" in n)
    cl = sum(len(open(os.path.join(ROOT, "coq", f)).read().split("\n")) for f in pr["coq_targets"] if f.endswith(".v") and not f.startswith(("lib/", "gen/")))
    hl = 0
    for dp, _, fs in os.walk(os.path.join(ROOT, "harness", pr["harness"])):
        hl += sum(len(open(os.path.join(dp, f)).read().split("\n")) for f in fs if f.endswith(".go"))
    es = kf.get(pid, [])
    fixed = sorted({e.get("commit", "") for e in es if e["status"] == "fixed" and e.get("commit")})
    known = [e["key"] for e in es if e["status"] == "known"]
    print("| %s | %d (%d / %d) | %d | %d | %d | %s |" % (pid, len(names), ref, par, cl, hl, len(fixed), "; ".join("`%s`" % k for k in known) or "none"))
