#!/usr/bin/env python3
"""Regenerate coq/_CoqProject (every .v under lib/, gen/, Neg/, C*/) and the Makefile when the set changes."""
import glob, os, subprocess
ROOT = os.path.dirname(os.path.dirname(os.path.abspath(__file__)))
COQ = os.path.join(ROOT, "coq")


def ensure_makefile():
    files = sorted(glob.glob(os.path.join(COQ, "lib", "*.v")) + glob.glob(os.path.join(COQ, "gen", "*.v")) +
                   glob.glob(os.path.join(COQ, "C[0-9]*", "*.v")) + glob.glob(os.path.join(COQ, "Neg", "*.v")))
    text = "-R . XV\n-arg -w -arg -notation-overridden,-deprecated-hint-without-locality,-deprecated-instance-without-locality\n"
    text += "".join(os.path.relpath(f, COQ) + "\n" for f in files)
    cp = os.path.join(COQ, "_CoqProject")
    mk = os.path.join(COQ, "Makefile")
    if not os.path.exists(cp) or open(cp).read() != text or not os.path.exists(mk):
        open(cp, "w").write(text)
        subprocess.run(["coq_makefile", "-f", "_CoqProject", "-o", "Makefile"], cwd=COQ, check=True,
                       stdout=subprocess.DEVNULL)


if __name__ == "__main__":
    ensure_makefile()
