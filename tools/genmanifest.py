#!/usr/bin/env python3
"""Regenerate MANIFEST.json from props/*.json (one file per claimed property)."""
import glob, json, os, subprocess
ROOT = os.path.dirname(os.path.dirname(os.path.abspath(__file__)))
ready = set(open(os.path.join(ROOT, "props", "READY")).read().split())
props = [json.load(open(p)) for p in sorted(glob.glob(os.path.join(ROOT, "props", "C*.json")))
         if os.path.basename(p)[:-5] in ready]
claimed = {p["id"] for p in props}
allp = [json.loads(l)["id"] for l in open(os.path.join(ROOT, "properties.jsonl")) if l.strip()]
na_path = os.path.join(ROOT, "props", "not_applicable.json")
na = json.load(open(na_path)) if os.path.exists(na_path) else {}
hooks_path = os.path.join(ROOT, "props", "hooks.json")
hooks = json.load(open(hooks_path)) if os.path.exists(hooks_path) else {"source_commits": []}
# hook commits = every commit on /repo main whose subject starts with "verif:" (kept in props/hooks.json so the manifest can be regenerated without /repo)
try:
    out = subprocess.run(["git", "-C", "/repo", "log", "--reverse", "--format=%h %s", "76596b2..main"], capture_output=True, text=True).stdout
    found = [l.split(" ", 1)[0] for l in out.split("\n") if " " in l and l.split(" ", 1)[1].startswith("verif:")]
    if found:
        hooks = {"source_commits": found}
        json.dump(hooks, open(hooks_path, "w"))
except OSError:
    pass
man = {
 "version": 1,
 "setup_cmd": "./setup.sh",
 "hooks": {
  "guard": "verif",
  "enable": "go build -tags verif (harness module /verif/harness with `replace mellium.im/xmpp => /repo`)",
  "baseline_off_cmd": "cd /repo && GOFLAGS=-mod=mod GOPROXY=off GOSUMDB=off go test -vet=off -count=1 ./...",
  "source_commits": hooks.get("source_commits", []),
  "add_only": True,
 },
 "engines": [
  {"name": "coq", "path": "coq/", "serves_properties": sorted(claimed),
   "kind_free_text": "Coq 8.16.1 development: hand-written Gallina models, lemmas, property theorems; gen/Generated.v regenerated from /repo by translator/ on every run"},
  {"name": "harness", "path": "harness/", "serves_properties": sorted(claimed),
   "kind_free_text": "Go correspondence harness + implementation oracle per property, built against /repo's working tree with -tags verif; emits case files evaluated by the model inside Coq (vm_compute)"},
  {"name": "check", "path": "check", "serves_properties": sorted(claimed),
   "kind_free_text": "orchestrator: translator, make, harness, coqc on cases, classification, evidence"},
 ],
 "checks": [],
 "not_applicable": [],
 "notes": "All checks: ./check <id> --tier quick|thorough. Known findings: known_findings.json. See DESIGN.md.",
}
for p in props:
    man["checks"].append({
        "property_id": p["id"],
        "quick_cmd": "./check %s --tier quick" % p["id"],
        "thorough_cmd": "./check %s --tier thorough" % p["id"],
        "evidence_file": "evidence/%s.json" % p["id"],
        "replay_cmd_template": "./check %s --replay {path}" % p["id"],
        "engine": "coq+harness",
        "level_claimed": {"category": p.get("level", "proof"), "text": p["level_text"], "design_ref": p.get("design_ref", "DESIGN.md §7")},
        "level_note": p["level_note"],
        "technique": p["technique"],
    })
for pid in allp:
    if pid not in claimed:
        man["not_applicable"].append({"property_id": pid, "reason": na.get(pid, "not yet claimed: model, proofs and correspondence harness for this property are still being built (no check registered yet)")})
json.dump(man, open(os.path.join(ROOT, "MANIFEST.json"), "w"), indent=1)
print("MANIFEST.json: %d checks, %d not_applicable" % (len(man["checks"]), len(man["not_applicable"])))
