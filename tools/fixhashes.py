#!/usr/bin/env python3
"""Rewrite commit hashes in known_findings.d/*.json (made on verif-Cnn branches) to the hashes of
the commits with the same subject on /repo's main."""
import glob, json, os, re, subprocess
ROOT = os.path.dirname(os.path.dirname(os.path.abspath(__file__)))
def subj_map(ref):
    out = subprocess.run(["git", "-C", "/repo", "log", "--format=%h %s", ref], capture_output=True, text=True).stdout
    return [l.split(" ", 1) for l in out.strip().split("\n") if " " in l]
main = {s: h for h, s in subj_map("main")}
branches = subprocess.run(["git", "-C", "/repo", "branch", "--format=%(refname:short)"], capture_output=True, text=True).stdout.split()
old2new = {}
for b in branches:
    if b.startswith("verif-"):
        for h, s in subj_map("76596b2.." + b):
            if s in main and main[s] != h:
                old2new[h] = main[s]
for path in sorted(glob.glob(os.path.join(ROOT, "known_findings.d", "*.json")) + glob.glob(os.path.join(ROOT, "props", "C*.json")) + glob.glob(os.path.join(ROOT, "design", "C*.md"))):
    text = open(path).read()
    new = text
    for o, n in old2new.items():
        new = re.sub(r"\b%s[0-9a-f]*\b" % re.escape(o[:7]), n, new)
    if new != text:
        open(path, "w").write(new)
        print("rewrote", os.path.basename(path))
