#!/usr/bin/env python3
"""tools/contprompt.py <base prompt file> <Cnn> [fresh] -> continuation prompt on stdout (round 2: the /repo worktrees of round 1 were lost)."""
import sys
base = open(sys.argv[1]).read()
pid = sys.argv[2]
fresh = len(sys.argv) > 3 and sys.argv[3] == "fresh"
pre = []
if not fresh:
    pre.append(f"""
*** THIS IS A CONTINUATION (round 2) — read this block first ***
An earlier engineer already worked on this task and then the sandbox was restored from what was committed. What SURVIVED: everything under /verif as last snapshotted, possibly mid-edit (coq/{pid}/, harness/{pid.lower()}/, props/{pid}.json, known_findings.d/{pid}.json, translator sections; proofs may be broken, files half-written; there is no design/{pid}.md yet). What was LOST: the earlier engineer's git worktree and branch of /repo — every `verif:` hook commit and every `fix:` commit that is not on /repo's main (`git -C /repo log --oneline` shows what is on main: the fixes of C03, C11, C13, C14, C16, C20 and the shared hooks only). Consequences: the harness may call hooks that no longer exist (e.g. a `Verif...` export or a yield point), and the model/known_findings.d `fixed` entries may describe repaired behaviour whose fix commit is gone. You must RECREATE those commits in your new worktree (the harness call sites, comments in the model and the `fixed` entries tell you what they were; replace stale commit hashes in known_findings.d by the new ones). Start by assessing the state: compile your Coq files, build your harness, run your check against a fresh worktree; then finish every deliverable of the guide. Do not restart from scratch unless a file is beyond repair.
""")
pre.append(f"""
*** Additional rules for this round (they override the guide where they differ) ***
* Create your worktree with: `git -C /repo worktree add -b verif-{pid} /tmp/wt/{pid} main` (if the branch name is taken use verif-{pid}-r2). After EVERY commit in your worktree export your branch so it cannot be lost again: `rm -rf /verif/repo_patches/{pid} && git -C /tmp/wt/{pid} format-patch -q main..HEAD -o /verif/repo_patches/{pid}`.
* For iterating on ONE Coq file use `cd /verif/coq && timeout 1200 coqc -R . XV {pid}/File.v` directly (no lock needed; it only writes that file's .vo/.glob) and `tools/coqmake {pid}/X.vo` only when dependencies must be rebuilt; many engineers share the lock of `tools/coqmake` and `./check`, so avoid holding it with long builds: split proof files so that none takes more than ~2 minutes to compile.
* `./check` regenerates only the coq/gen topics your Coq files import (transitively). Another engineer's worktree may differ from yours in the same source file; only your own translator sections matter to you.
* When a quick check takes longer than ~90 s wall or a thorough one longer than ~10 min, reduce case counts. The quick check must be deterministic for a given seed and must exit 0 on correct code for seeds 1, 2, 3 — a flaky check (timing-dependent oracle, watchdog too tight when 12 other engineers load the machine: it has 16 cores and they are all busy, so use generous watchdogs, >= 10 s, and never infer a violation from slowness alone when a deterministic signal is available) is worse than a weaker one.
* The other engineers working now: C01, C02, C05, C06, C07+C08, C09, C10, C12, C15, C17, C18, C19 (C04 starts later). Stay inside your own directories (coq/{pid}/, harness/{pid.lower()}/ and sub-packages, props/{pid}.json, design/{pid}.md, known_findings.d/{pid}.json, your translator/sec_*.go, repo_patches/{pid}/). Shared files (coq/lib/*, harness/hx/*, check, tools/) are read-only: if you need a change there, put the helper in your own directory instead.
* If you run out of time or budget, stop at a consistent state: Coq files compile (move an unfinished lemma and everything depending on it into a file that is NOT listed in props/{pid}.json coq_targets, rather than leaving a broken proof), the check exits 0 on your worktree, props/{pid}.json describes honestly what is and is not proved, and say in your report exactly what is left.
""")
print(base.rstrip() + "\n" + "\n".join(pre))
