#!/usr/bin/env python3
"""tools/gendesign.py — regenerate the generated tail of DESIGN.md (§13 seeded changes, §14 status/defects, §15 commits)."""
import glob, json, os, subprocess
ROOT = os.path.dirname(os.path.dirname(os.path.abspath(__file__)))
BEGIN, END = "<!-- GENERATED:BEGIN (tools/gendesign.py) -->", "<!-- GENERATED:END -->"


def run(cmd):
    return subprocess.run(cmd, capture_output=True, text=True, cwd=ROOT).stdout


out = [BEGIN, ""]
out.append("---------------------------------------------------------------------------------------\n")
out.append("## 13. Seeded breaking changes: which checks catch which\n")
out.append("Each change was produced by a fresh sub-agent that was given only the property's text and a scratch\n"
           "worktree of /repo (nothing from /verif), compiles, passes the existing test suite, and comes with a\n"
           "demonstration test that fails with it and passes without it; the coordinator re-confirmed all of that\n"
           "(`tools/confirmseeded.sh`) and ran the property's quick check on it (`tools/runseeded.py`: the patch is\n"
           "applied in a scratch worktree, `VERIF_REPO` points there, evidence is diverted). \"caught\" = the check exits 1\n"
           "with a VIOLATION line. Where a change was missed the machinery was strengthened (generators, oracle clauses,\n"
           "model state, translator facts with table lemmas) — never special-cased — and the change re-run.\n")
out.append(run(["python3", "tools/seedtable.py"]))
out.append("\n## 14. Status per property: theorems, repaired defects, known findings\n")
out.append("`_refuted` theorems are witnesses (by `vm_compute`) that the full statement is false of the faithful model —\n"
           "either of the pinned design (`_pinned_refuted`, kept after a repair) or of the code as it stands (then there is\n"
           "a `_partial` companion and a known finding). The write-up of every defect (concrete input, key, commit) is in\n"
           "`design/Cnn.md`; the authoritative list is `known_findings.json` + `known_findings.d/Cnn.json`.\n")
out.append(run(["python3", "tools/statustable.py"]))
out.append("\nKnown findings, with the reason each was recorded rather than repaired:\n")
for f in [os.path.join(ROOT, "known_findings.json")] + sorted(glob.glob(os.path.join(ROOT, "known_findings.d", "*.json"))):
    for e in json.load(open(f)).get("findings", []):
        if e["status"] == "known":
            out.append("* `%s` — %s" % (e["key"], " ".join(e["what"].split())))
out.append("\n## 15. Commits on /repo main\n")
log = run(["git", "-C", "/repo", "log", "--reverse", "--format=%h %s", "76596b2..main"]).strip().split("\n")
hooks = [l for l in log if l.split(" ", 1)[1].startswith("verif:")]
fixes = [l for l in log if l.split(" ", 1)[1].startswith("fix:")]
other = [l for l in log if l not in hooks and l not in fixes]
out.append("Hooks (build tag `verif`, add-only; the baseline suite passes with the tag off):\n")
out += ["* `%s`" % l for l in hooks]
out.append("\nRepairs of genuine defects (one `fix:` commit each; existing tests unedited and passing):\n")
out += ["* `%s`" % l for l in fixes]
if other:
    out.append("\nOther:\n")
    out += ["* `%s`" % l for l in other]
out.append("")
out.append(END)
text = "\n".join(out) + "\n"
p = os.path.join(ROOT, "DESIGN.md")
s = open(p).read()
if BEGIN in s:
    s = s[:s.index(BEGIN)] + text + s[s.index(END) + len(END):].lstrip("\n")
else:
    s = s.rstrip("\n") + "\n\n" + text
open(p, "w").write(s)
print("DESIGN.md tail regenerated: %d hooks, %d fixes" % (len(hooks), len(fixes)))
