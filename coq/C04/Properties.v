(* C04/Properties.v — the property theorems of C04 and nothing else.
   "Session establishment fails closed under faults."
   The model (C04/Model.v) runs negotiateSession with an explicit I/O plan: every connection
   operation is indexed; the plan fails operations (cut / transient) and cancels the context.
   [run cfg plan bits clear tls calls] returns the result and the final world (state bits,
   trace of operations and callbacks). The model is that of the repaired code; the three
   statements that were refuted of the earlier code (sasl.go's unflushed <success/>,
   features.go's early Ready bit, session.go's unnoticed cancellation) now hold at full
   strength, and their former witnesses are scenarios of the harness. *)
From XV Require Import lib.Bytes gen.NegTables C04.Model C04.Generic C04.Structure C04.Fuel C04.Steps C04.Proofs.

(* ---- A nil error is returned only for a session whose every executed step succeeded:
   for every configuration, plan (any faults, any cancellation), scripts and callback values,
   in a run that returns Ok every read and every write succeeded, every callback that was
   executed - the List step (receiver) and the Parse step (initiator) of a custom feature,
   required or voluntary, the Negotiate step of a custom feature, a mechanism Step, the bind
   callback - returned no error ([clean]: every [ECall v] of the trace has [sval_err v =
   false]) and no ctx test saw a cancelled context. (A built-in feature's Negotiate is a
   program of the model: when it fails the run is not Ok, there being no construct that
   catches a failure.) *)
Theorem C04_nil_error_means_all_steps_ok :
  forall cfg pl bits clear tls calls w,
    run cfg pl bits clear tls calls = (ROk tt, w) -> all_steps_ok (w_trace w).
Proof. exact run_ok_clean. Qed.
Print Assumptions C04_nil_error_means_all_steps_ok.

(* ... and every Negotiate step that was started returned without an error: run_feature logs
   ENegStart, runs the Negotiate of the selected feature (built-in or custom), and logs ENegOk
   only when it returned no error, so a failed Negotiate leaves an ENegStart without its
   ENegOk; in a run that returns Ok there are as many of the one as of the other. *)
Theorem C04_nil_error_means_negotiates_completed :
  forall cfg pl bits clear tls calls w,
    run cfg pl bits clear tls calls = (ROk tt, w) -> starts (w_trace w) = oks (w_trace w).
Proof. exact run_ok_negotiates_completed. Qed.
Print Assumptions C04_nil_error_means_negotiates_completed.

(* ---- An error result never comes with the Ready bit. *)
Theorem C04_error_state_not_ready :
  forall cfg pl bits clear tls calls r w,
    run cfg pl bits clear tls calls = (r, w) -> r <> ROk tt -> is_ready (w_bits w) = false.
Proof. exact run_err_not_ready. Qed.
Print Assumptions C04_error_state_not_ready.

(* The same holds before negotiateSession's final clearing of the bit (which the model has as
   [finish], and which no scenario can observe any more since features.go stopped applying a
   feature's Ready bit early): no call of a negotiator ever sets Ready; negotiateSession sets
   it from the mask of a successful call, after its ctx test, and the loop ends there. *)
Theorem C04_error_state_not_ready_before_clearing :
  forall cfg pl bits clear tls calls r w,
    interp pl (the_session cfg clear tls) (init_world bits clear tls calls) = (r, w) ->
    r <> ROk tt -> is_ready (w_bits w) = false.
Proof. exact unfinished_err_not_ready. Qed.
Print Assumptions C04_error_state_not_ready_before_clearing.

(* ... and inside feature negotiation the mask a step returns is applied only when the step
   returned no error (features.go `if err == nil { s.state |= mask }`): a step that does not
   return Ok leaves the state bits as they were, whatever mask it wanted to set. *)
Theorem C04_failed_step_mask_not_applied :
  forall pl n recv f ft pre w r w',
    interp pl (run_feature n recv f ft pre) w = (r, w') -> (forall o, r <> ROk o) ->
    w_bits w' = w_bits w.
Proof. exact run_feature_err_bits. Qed.
Print Assumptions C04_failed_step_mask_not_applied.

(* ---- Cut: the connection is cut at operation k (that operation and every later one fails).
   For every configuration (standard negotiator in either role and framing, component
   negotiator; any feature list), initial bits, peer scripts, callback values, handshake
   verdict, cancellation instant and every k smaller than the number of operations the
   un-faulted run performs: the cut run does not return Ok, and its Ready bit is clear. *)
Theorem C04_cut_fails_closed :
  forall cfg cl c e d x hs bits clear tls calls k ru wu rc wc,
    run cfg (mkPlan FNone cl c e d x hs) bits clear tls calls = (ru, wu) ->
    run cfg (mkPlan (FCut k) cl c e d x hs) bits clear tls calls = (rc, wc) ->
    k < w_ops wu ->
    failed rc /\ is_ready (w_bits wc) = false.
Proof. exact cut_fails_closed. Qed.
Print Assumptions C04_cut_fails_closed.

(* ---- Transient: exactly operation k returns an error. Same conclusion: no read or write
   error is swallowed anywhere on a path that ends in a nil error. *)
Theorem C04_transient_fails_closed :
  forall cfg cl c e d x hs bits clear tls calls k ru wu rc wc,
    run cfg (mkPlan FNone cl c e d x hs) bits clear tls calls = (ru, wu) ->
    run cfg (mkPlan (FTransient k) cl c e d x hs) bits clear tls calls = (rc, wc) ->
    k < w_ops wu ->
    failed rc /\ is_ready (w_bits wc) = false.
Proof. exact transient_fails_closed. Qed.
Print Assumptions C04_transient_fails_closed.

(* ---- Cancellation. The context is cancelled at operation c: when c is entered or while it
   is blocked (entry = true) or when it has succeeded, i.e. between two operations (entry =
   false); on a transport with deadlines (deadline = true) session.go's setDeadline keeps the
   deadline expired from then on, so operation c (if it had not completed) and every later
   operation fail; on any transport every later ctx test (Expect, the SASL loop and List, the
   component negotiator, negotiateSession after each call of the negotiator) sees it.
   Under any fault plan f, for every c smaller than the number of operations of the
   un-cancelled run: the result is an error and the Ready bit is clear. *)
Theorem C04_cancel_before_step :
  forall cfg f cl e d x hs bits clear tls calls c ru wu rc wc,
    run cfg (mkPlan f cl None e d x hs) bits clear tls calls = (ru, wu) ->
    c < w_ops wu ->
    run cfg (mkPlan f cl (Some c) e d x hs) bits clear tls calls = (rc, wc) ->
    failed rc /\ is_ready (w_bits wc) = false.
Proof. exact cancel_fails. Qed.
Print Assumptions C04_cancel_before_step.

(* the instance "operation c was blocked on a transport with deadlines" *)
Theorem C04_cancel_while_blocked_fails :
  forall cfg f cl x hs bits clear tls calls c ru wu rc wc,
    run cfg (mkPlan f cl None true true x hs) bits clear tls calls = (ru, wu) ->
    c < w_ops wu ->
    run cfg (mkPlan f cl (Some c) true true x hs) bits clear tls calls = (rc, wc) ->
    failed rc /\ is_ready (w_bits wc) = false.
Proof. exact cancel_while_blocked_fails. Qed.
Print Assumptions C04_cancel_while_blocked_fails.

(* ---- The standard fuel always suffices: no run ends "out of fuel". Hence [failed r] above
   means: an error was returned - or (RStuck) the scripted callback values do not fit the run,
   a case outside the model that the correspondence check reports as a mismatch. *)
Theorem C04_run_total :
  forall cfg pl bits clear tls calls, fst (run cfg pl bits clear tls calls) <> RFuel.
Proof. exact run_nofuel. Qed.
Print Assumptions C04_run_total.
