(* C04/Properties.v — the property theorems of C04 and nothing else.
   "Session establishment fails closed under faults."
   The model (C04/Model.v) runs negotiateSession with an explicit I/O plan: every connection
   operation is indexed; the plan fails operations (cut / transient) and cancels the context.
   [run cfg plan bits clear tls calls] returns the result and the final world (state bits,
   trace of operations and callbacks). *)
From XV Require Import lib.Bytes gen.NegTables C04.Model C04.Generic C04.Structure C04.Proofs.

(* ---- A nil error is returned only for a session whose every executed step succeeded.

   Full-strength statement: in a run that returns Ok every event of the trace is that of a
   successful step (every read and every write succeeded, no callback reported an error, no
   ctx test saw a cancelled context). *)
Definition C04_nil_error_means_all_steps_ok_statement : Prop :=
  forall cfg pl bits clear tls calls w,
    run cfg pl bits clear tls calls = (ROk tt, w) -> all_steps_ok (fun _ => False) (w_trace w).

(* It is false of the faithful model: sasl.go's negotiateServer leaves <success/> in the
   encoder's buffer and the deferred w.Close() drops the flush error. Witness (observed on
   the implementation by the harness): receiver, SASL PLAIN + bind, exactly that Write fails. *)
Theorem C04_nil_error_means_all_steps_ok_refuted :
  exists cfg pl bits clear tls calls w,
    run cfg pl bits clear tls calls = (ROk tt, w) /\ ~ all_steps_ok (fun _ => False) (w_trace w).
Proof. exact nil_error_all_ok_refuted. Qed.
Print Assumptions C04_nil_error_means_all_steps_ok_refuted.

(* What holds, for every configuration, plan, script and callback script: in a run that
   returns Ok every read succeeded, every callback (Negotiate of a custom feature, mechanism
   Step, bind callback) returned no error, no ctx test saw a cancelled context, and the only
   write that may have failed is the flush of <success/>. *)
Theorem C04_nil_error_means_all_steps_ok_partial :
  forall cfg pl bits clear tls calls w,
    run cfg pl bits clear tls calls = (ROk tt, w) -> all_steps_ok (eq WSuccess) (w_trace w).
Proof. exact run_ok_clean. Qed.
Print Assumptions C04_nil_error_means_all_steps_ok_partial.

(* ---- An error result never comes with the Ready bit: the mask of a failing step is not
   applied.

   Full-strength statement: whatever the plan and the scripts, a run that does not return Ok
   ends with the Ready bit clear. *)
Definition C04_error_state_not_ready_statement : Prop :=
  forall cfg pl bits clear tls calls r w,
    run cfg pl bits clear tls calls = (r, w) -> r <> ROk tt -> is_ready (w_bits w) = false.

(* It is false of the faithful model: features.go applies the mask of every successful
   feature to the session state at once and goes on with the same list when the feature was
   voluntary; if that feature reported Ready and a later step fails, the error is returned
   with the bit set. Witness (observed on the implementation, no fault involved). *)
Theorem C04_error_state_not_ready_refuted :
  exists cfg pl bits clear tls calls w,
    run cfg pl bits clear tls calls = (RErr, w) /\ is_ready (w_bits w) = true.
Proof. exact err_not_ready_refuted. Qed.
Print Assumptions C04_error_state_not_ready_refuted.

(* What holds, for every configuration, plan (any faults, any cancellation), scripts and
   callback values: if no successful Negotiate of a custom feature reported Ready in the run
   (the built-in STARTTLS, SASL, bind and the component handshake are covered
   unconditionally), a result other than Ok leaves the Ready bit clear. In particular the
   mask that bind's receiving side returns together with a flush error is never applied. *)
Theorem C04_error_state_not_ready_partial :
  forall cfg pl bits clear tls calls r w,
    run cfg pl bits clear tls calls = (r, w) -> calm_run cfg (w_trace w) ->
    r <> ROk tt -> is_ready (w_bits w) = false.
Proof. exact run_err_not_ready. Qed.
Print Assumptions C04_error_state_not_ready_partial.

(* ---- Cut: the connection is cut at operation k (that operation and every later one fails:
   a closed connection).

   For every configuration (standard negotiator in either role and framing, component
   negotiator; any feature list), initial bits, peer scripts, callback values, handshake
   verdict, cancellation instant c and every k smaller than the number of operations the
   un-faulted run performs: the cut run does not return Ok, and its Ready bit is clear.
   Premise: no successful Negotiate of a custom feature reported Ready in the cut run (see
   C04_error_state_not_ready_refuted for why the bit needs it; for the result itself it rules
   out the one way to survive a failed operation, features.go's early Ready followed by the
   receiving side's unflushed <success/>). *)
Theorem C04_cut_fails_closed :
  forall cfg c hs bits clear tls calls k ru wu rc wc,
    run cfg (mkPlan FNone c hs) bits clear tls calls = (ru, wu) ->
    run cfg (mkPlan (FCut k) c hs) bits clear tls calls = (rc, wc) ->
    k < w_ops wu -> calm_run cfg (w_trace wc) ->
    rc <> ROk tt /\ is_ready (w_bits wc) = false.
Proof. exact cut_fails_closed. Qed.
Print Assumptions C04_cut_fails_closed.

(* ---- Cancellation.

   (a) The context is cancelled while operation c is blocked on a transport with deadlines:
   session.go's setDeadline makes that operation fail, and every later ctx test sees the
   cancellation. For every c smaller than the number of operations of the un-faulted run the
   result is not Ok and the Ready bit is clear (same premise as above). *)
Theorem C04_cancel_while_blocked_fails :
  forall cfg hs bits clear tls calls c ru wu rc wc,
    run cfg (mkPlan FNone None hs) bits clear tls calls = (ru, wu) ->
    run cfg (mkPlan (FTransient c) (Some c) hs) bits clear tls calls = (rc, wc) ->
    c < w_ops wu -> calm_run cfg (w_trace wc) ->
    rc <> ROk tt /\ is_ready (w_bits wc) = false.
Proof. exact cancel_blocked_fails. Qed.
Print Assumptions C04_cancel_while_blocked_fails.

(* (b) The context is cancelled between two operations (when operation c is entered; the
   deadline pulse finds nothing to interrupt). Full-strength statement: for every c smaller
   than the number of operations of the un-cancelled run, the cancelled run does not return
   Ok. *)
Definition C04_cancel_before_step_statement : Prop :=
  forall cfg f hs bits clear tls calls c ru wu rc wc,
    run cfg (mkPlan f None hs) bits clear tls calls = (ru, wu) ->
    c < w_ops wu ->
    run cfg (mkPlan f (Some c) hs) bits clear tls calls = (rc, wc) ->
    rc <> ROk tt.

(* It is false of the faithful model: negotiateSession never looks at ctx and the deadline is
   cleared again at once, so only the ctx.Done() tests of Expect (and of the SASL loop / List,
   and of the repaired component negotiator) notice a cancellation. Witness (observed on the
   implementation): initiator, header and empty features list in two Reads, cancelled when
   the second Read is entered. *)
Theorem C04_cancel_before_step_refuted :
  exists cfg f hs bits clear tls calls c ru wu wc,
    run cfg (mkPlan f None hs) bits clear tls calls = (ru, wu) /\
    c < w_ops wu /\
    run cfg (mkPlan f (Some c) hs) bits clear tls calls = (ROk tt, wc).
Proof. exact cancel_before_completion_refuted. Qed.
Print Assumptions C04_cancel_before_step_refuted.

(* What holds, for every configuration, fault plan f, scripts: if the un-cancelled run makes
   a ctx.Done() test after operation c (n operations performed at that test, c < n) - that
   is, a stream header is still to be read, or a SASL round - the cancelled run returns an
   error. *)
Theorem C04_cancel_before_step_partial :
  forall cfg f hs bits clear tls calls c n ru wu rc wc,
    run cfg (mkPlan f None hs) bits clear tls calls = (ru, wu) ->
    In (ECtxPass n) (w_trace wu) -> c < n ->
    run cfg (mkPlan f (Some c) hs) bits clear tls calls = (rc, wc) ->
    rc = RErr.
Proof. exact cancel_before_ctx_test. Qed.
Print Assumptions C04_cancel_before_step_partial.
