(* C04/Generic.v — facts about the interpreter that hold for every program:
   the operation counter only grows, the trace and the callback script are only extended /
   consumed, bind is sequential composition, runs under plans that agree below an index
   coincide until that index is reached, and what an Ok result implies about the events of
   the run (every read succeeded, every checked write succeeded, no callback reported an
   error, no ctx test saw a cancelled context). *)
From XV Require Import lib.Bytes gen.NegTables C04.Model.

Set Implicit Arguments.

(* ------------------------------------------------------------------ extension order on worlds *)

Definition extends {A} (l' l : list A) : Prop := exists new, l' = new ++ l.

Lemma extends_refl {A} (l : list A) : extends l l.
Proof. exists []. reflexivity. Qed.

Lemma extends_trans {A} (a b c : list A) : extends a b -> extends b c -> extends a c.
Proof. intros [n1 H1] [n2 H2]. exists (n1 ++ n2). subst. rewrite app_assoc. reflexivity. Qed.

Lemma extends_cons {A} (x : A) l : extends (x :: l) l.
Proof. exists [x]. reflexivity. Qed.

(* w' is a later world than w *)
Record wle (w w' : world) : Prop := mkWle {
  wle_ops : w_ops w <= w_ops w';
  wle_trace : extends (w_trace w') (w_trace w);
  wle_calls : exists used, w_calls w = used ++ w_calls w'
}.

Lemma wle_refl w : wle w w.
Proof. constructor; [lia | apply extends_refl | exists []; reflexivity]. Qed.

Lemma wle_trans a b c : wle a b -> wle b c -> wle a c.
Proof.
  intros [o1 t1 [u1 c1]] [o2 t2 [u2 c2]]. constructor.
  - lia.
  - eapply extends_trans; eassumption.
  - exists (u1 ++ u2). rewrite c1, c2, app_assoc. reflexivity.
Qed.

Lemma wle_set_trace w e : wle w (set_trace w e).
Proof. constructor; cbn; [lia | apply extends_cons | exists []; reflexivity]. Qed.

Lemma wle_do_write pl s w : wle w (snd (do_write pl s w)).
Proof. constructor; cbn; [lia | apply extends_cons | exists []; reflexivity]. Qed.

Lemma do_write_ops pl s w : w_ops (snd (do_write pl s w)) = S (w_ops w).
Proof. reflexivity. Qed.

Lemma wle_read_tok_from pl s : forall w, wle w (snd (read_tok_from pl w s)).
Proof.
  induction s as [|it r IH]; intro w; cbn.
  - constructor; cbn; [lia | apply extends_cons | exists []; reflexivity].
  - destruct it as [t|].
    + constructor; cbn; [lia | apply extends_refl | exists []; reflexivity].
    + unfold do_read_op. destruct (op_ok pl w false && true) eqn:E.
      * eapply wle_trans; [|apply IH]. constructor; cbn; [lia | apply extends_cons | exists []; reflexivity].
      * constructor; cbn; [lia | apply extends_cons | exists []; reflexivity].
Qed.

Lemma wle_read_tok pl w : wle w (snd (read_tok pl w)).
Proof. apply wle_read_tok_from. Qed.

Lemma wle_do_restart rs w : wle w (do_restart rs w).
Proof. destruct rs; cbn; constructor; cbn; try lia; try apply extends_refl; exists []; reflexivity. Qed.

Lemma interp_wle A (p : prog A) pl : forall w, wle w (snd (interp pl p w)).
Proof.
  induction p as [a| | | |k IH|s k IH|s k IH|ke IHe k IH|ko IHo ke IHe|k IH|m k IH|rs k IH|e k IH]; intro w; cbn [interp];
    try apply wle_refl.
  - destruct (read_tok pl w) as [[t|] w1] eqn:E.
    + eapply wle_trans; [|apply IH]. pose proof (wle_read_tok pl w) as H. rewrite E in H. exact H.
    + pose proof (wle_read_tok pl w) as H. rewrite E in H. exact H.
  - pose proof (wle_do_write pl s w) as H. destruct (do_write pl s w) as [ok w1]. cbn in H.
    destruct ok; cbn; [eapply wle_trans; [exact H | apply IH] | exact H].
  - pose proof (wle_do_write pl s w) as H. destruct (do_write pl s w) as [ok w1]. cbn in H.
    eapply wle_trans; [exact H | apply IH].
  - destruct (ctx_done pl w); cbn.
    + eapply wle_trans; [apply IHe | apply wle_set_trace].
    + eapply wle_trans; [apply wle_set_trace | apply IH].
  - destruct (w_calls w) as [|v vs] eqn:E; cbn; [apply wle_refl|].
    assert (H : wle w (mkW (w_ops w) (w_script w) (w_tls w) (w_tlslayer w) (w_hs w) (w_wdead w) (w_bits w) vs (ECall v :: w_trace w))).
    { constructor; cbn; [lia | apply extends_cons | exists [v]; rewrite E; reflexivity]. }
    destruct (sval_err v); cbn; (eapply wle_trans; [exact H|]); [apply IHe | apply IHo].
  - apply IH.
  - eapply wle_trans; [|apply IH]. constructor; cbn; [lia | apply extends_refl | exists []; reflexivity].
  - eapply wle_trans; [apply wle_do_restart | apply IH].
  - eapply wle_trans; [apply wle_set_trace | apply IH].
Qed.

Corollary interp_ops_mono A (p : prog A) pl w : w_ops w <= w_ops (snd (interp pl p w)).
Proof. apply interp_wle. Qed.

(* ------------------------------------------------------------------ bind is sequencing *)

Definition res_map {A B} (r : res A) : res B :=
  match r with ROk _ => RErr | RErr => RErr | RStuck => RStuck | RFuel => RFuel end.

Lemma interp_bind A B (p : prog A) pl : forall (f : A -> prog B) w,
  interp pl (bind p f) w =
  match interp pl p w with
  | (ROk a, w1) => interp pl (f a) w1
  | (r, w1) => (res_map r, w1)
  end.
Proof.
  induction p as [a| | | |k IH|s k IH|s k IH|ke IHe k IH|ko IHo ke IHe|k IH|m k IH|rs k IH|e k IH]; intros f w; cbn [interp bind];
    try reflexivity.
  - destruct (read_tok pl w) as [[t|] w1]; [apply IH | reflexivity].
  - destruct (do_write pl s w) as [[|] w1]; [apply IH | reflexivity].
  - destruct (do_write pl s w) as [ok w1]. apply IH.
  - destruct (ctx_done pl w).
    + rewrite IHe. destruct (interp pl ke w) as [[a| | |] w1]; reflexivity.
    + apply IH.
  - destruct (w_calls w) as [|v vs]; [reflexivity|].
    destruct (sval_err v).
    + rewrite IHe.
      destruct (interp pl (ke v) _) as [[a| | |] w1]; reflexivity.
    + apply IHo.
  - apply IH.
  - apply IH.
  - apply IH.
  - apply IH.
Qed.

(* the world a program ends in does not depend on what is sequenced after an error *)
Lemma interp_bind_ok A B (p : prog A) (f : A -> prog B) pl w b w' :
  interp pl (bind p f) w = (ROk b, w') ->
  exists a w1, interp pl p w = (ROk a, w1) /\ interp pl (f a) w1 = (ROk b, w').
Proof.
  rewrite interp_bind. destruct (interp pl p w) as [[a| | |] w1]; cbn; intro H; try discriminate.
  exists a, w1. split; [reflexivity | exact H].
Qed.

(* ------------------------------------------------------------------ events of an Ok run *)

(* what an Ok result allows a new event to be; P: the sites of writes whose error is dropped *)
Definition clean (P : wsite -> Prop) (e : event) : Prop :=
  match e with
  | ERead ok => ok = true
  | EWrite s ok => ok = true \/ P s
  | ECall v => sval_err v = false
  | ECtxErr => False
  | _ => True
  end.

(* events a program may log itself: markers of callbacks, never operation results *)
Definition marker (e : event) : Prop :=
  match e with
  | EParse _ | EList _ | ENegStart _ | ENegOk _ _ _ => True
  | _ => False
  end.

Lemma marker_clean P e : marker e -> clean P e.
Proof. destruct e; cbn; intro H; try exact I; try contradiction. Qed.

(* programs that never return a value *)
Inductive noret {A} : prog A -> Prop :=
| nr_fail : noret Fail
| nr_stuck : noret Stuck
| nr_fuel : noret OutOfFuel
| nr_rd k : (forall t, noret (k t)) -> noret (Rd k)
| nr_wr s k : noret k -> noret (Wr s k)
| nr_wru s k : noret k -> noret (WrU s k)
| nr_ctx ke k : noret k -> noret (Ctx ke k)
| nr_call ko ke : (forall v, noret (ko v)) -> noret (Call ko ke)
| nr_get k : (forall b, noret (k b)) -> noret (GetBits k)
| nr_or m k : noret k -> noret (OrBits m k)
| nr_restart rs k : noret k -> noret (Restart rs k)
| nr_log e k : noret k -> noret (Log e k).

Lemma noret_not_ok A (p : prog A) pl : noret p -> forall w a w', interp pl p w <> (ROk a, w').
Proof.
  induction 1 as [ | | |k _ IH|s k _ IH|s k _ IH|ke k _ IH|ko ke _ IH|k _ IH|m k _ IH|rs k _ IH|e k _ IH];
    intros w a w'; cbn [interp]; try discriminate.
  - destruct (read_tok pl w) as [[t|] w1]; [apply IH | discriminate].
  - destruct (do_write pl s w) as [[|] w1]; [apply IH | discriminate].
  - destruct (do_write pl s w) as [ok w1]. apply IH.
  - destruct (ctx_done pl w); [discriminate | apply IH].
  - destruct (w_calls w) as [|v vs]; [discriminate|]. destruct (sval_err v); [discriminate | apply IH].
  - apply IH.
  - apply IH.
  - apply IH.
  - apply IH.
Qed.

Lemma noret_bind A B (p : prog A) (f : A -> prog B) : noret p -> noret (bind p f).
Proof. induction 1; cbn; constructor; auto. Qed.

Lemma noret_bind_r A B (p : prog A) (f : A -> prog B) : (forall a, noret (f a)) -> noret (bind p f).
Proof.
  intro Hf. induction p; cbn; try (constructor; auto; fail). apply Hf.
Qed.

(* every write whose error is dropped is at a site in P, or nothing is returned after it *)
Inductive wru_ok {A} (P : wsite -> Prop) : prog A -> Prop :=
| wo_ret a : wru_ok P (Ret a)
| wo_fail : wru_ok P Fail
| wo_stuck : wru_ok P Stuck
| wo_fuel : wru_ok P OutOfFuel
| wo_rd k : (forall t, wru_ok P (k t)) -> wru_ok P (Rd k)
| wo_wr s k : wru_ok P k -> wru_ok P (Wr s k)
| wo_wru s k : P s \/ noret k -> wru_ok P k -> wru_ok P (WrU s k)
| wo_ctx ke k : wru_ok P k -> wru_ok P (Ctx ke k)
| wo_call ko ke : (forall v, wru_ok P (ko v)) -> wru_ok P (Call ko ke)
| wo_get k : (forall b, wru_ok P (k b)) -> wru_ok P (GetBits k)
| wo_or m k : wru_ok P k -> wru_ok P (OrBits m k)
| wo_restart rs k : wru_ok P k -> wru_ok P (Restart rs k)
| wo_log e k : marker e -> wru_ok P k -> wru_ok P (Log e k).

Lemma wru_ok_bind A B P (p : prog A) (f : A -> prog B) :
  wru_ok P p -> (forall a, wru_ok P (f a)) -> wru_ok P (bind p f).
Proof.
  intros Hp Hf. induction Hp; cbn; try (constructor; auto; fail).
  - apply Hf.
  - constructor; [|assumption]. destruct H as [H|H]; [left; exact H | right; apply noret_bind; exact H].
Qed.

Lemma noret_feed A (p : prog A) : noret p -> forall ts, noret (feed ts p).
Proof.
  induction 1; intros [|t ts]; cbn; try (constructor; auto; fail); auto.
Qed.

Lemma wru_ok_feed A P (p : prog A) : wru_ok P p -> forall ts, wru_ok P (feed ts p).
Proof.
  induction 1; intros [|t ts]; cbn; try (constructor; auto; fail); auto.
  constructor; [|auto]. destruct H as [H|H]; [left; exact H | right; apply noret_feed; exact H].
Qed.

Lemma wru_ok_weaken A (P Q : wsite -> Prop) (p : prog A) :
  (forall s, P s -> Q s) -> wru_ok P p -> wru_ok Q p.
Proof.
  intros HPQ. induction 1; constructor; auto. destruct H as [H|H]; auto.
Qed.

Lemma read_tok_from_clean pl P s : forall w t w',
  read_tok_from pl w s = (Some t, w') ->
  exists new, w_trace w' = new ++ w_trace w /\ Forall (clean P) new.
Proof.
  induction s as [|it r IH]; intros w t w'; cbn.
  - discriminate.
  - destruct it as [t0|].
    + intro H. inversion H; subst. exists []. split; [reflexivity | constructor].
    + unfold do_read_op. destruct (op_ok pl w false && true) eqn:E; [|discriminate].
      intro H. apply IH in H. destruct H as [new [Ht Hc]]. cbn in Ht.
      exists (new ++ [ERead true]). split.
      * rewrite Ht, <- app_assoc. reflexivity.
      * apply Forall_app. split; [exact Hc | constructor; [reflexivity | constructor]].
Qed.

Theorem ok_clean A P (p : prog A) pl : wru_ok P p -> forall w a w',
  interp pl p w = (ROk a, w') ->
  exists new, w_trace w' = new ++ w_trace w /\ Forall (clean P) new.
Proof.
  induction 1 as [a0| | | |k _ IH|s k _ IH|s k Hs _ IH|ke k _ IH|ko ke _ IH|k _ IH|m k _ IH|rs k _ IH|e k He _ IH];
    intros w a w'; cbn [interp]; try discriminate.
  - intro H. inversion H; subst. exists []. split; [reflexivity | constructor].
  - destruct (read_tok pl w) as [[t|] w1] eqn:E; [|discriminate].
    intro H. apply IH in H. destruct H as [n2 [H2 C2]].
    unfold read_tok in E. apply read_tok_from_clean with (P := P) in E. destruct E as [n1 [H1 C1]].
    exists (n2 ++ n1). split; [rewrite H2, H1, app_assoc; reflexivity | apply Forall_app; split; assumption].
  - unfold do_write. destruct (op_ok pl w true) eqn:E; [|discriminate].
    intro H. apply IH in H. destruct H as [n2 [H2 C2]]. cbn in H2.
    exists (n2 ++ [EWrite s true]). split; [rewrite H2, <- app_assoc; reflexivity|].
    apply Forall_app. split; [exact C2 | constructor; [left; reflexivity | constructor]].
  - unfold do_write. intro H.
    destruct Hs as [Hs|Hs]; [|exfalso; eapply noret_not_ok; [exact Hs | exact H]].
    apply IH in H. destruct H as [n2 [H2 C2]]. cbn in H2.
    exists (n2 ++ [EWrite s (op_ok pl w true)]). split; [rewrite H2, <- app_assoc; reflexivity|].
    apply Forall_app. split; [exact C2 | constructor; [right; exact Hs | constructor]].
  - destruct (ctx_done pl w); [discriminate|].
    intro H. apply IH in H. destruct H as [n2 [H2 C2]]. cbn in H2.
    exists (n2 ++ [ECtxPass (w_ops w)]). split; [rewrite H2, <- app_assoc; reflexivity|].
    apply Forall_app. split; [exact C2 | constructor; [exact I | constructor]].
  - destruct (w_calls w) as [|v vs]; [discriminate|].
    destruct (sval_err v) eqn:Ev; [discriminate|].
    intro H. apply IH in H. destruct H as [n2 [H2 C2]]. cbn in H2.
    exists (n2 ++ [ECall v]). split; [rewrite H2, <- app_assoc; reflexivity|].
    apply Forall_app. split; [exact C2 | constructor; [exact Ev | constructor]].
  - apply IH.
  - intro H. apply IH in H. exact H.
  - intro H. apply IH in H. destruct H as [n2 [H2 C2]].
    exists n2. split; [|exact C2]. rewrite H2. destruct rs; reflexivity.
  - intro H. apply IH in H. destruct H as [n2 [H2 C2]]. cbn in H2.
    exists (n2 ++ [e]). split; [rewrite H2, <- app_assoc; reflexivity|].
    apply Forall_app. split; [exact C2|]. constructor; [apply marker_clean; assumption | constructor].
Qed.

(* ------------------------------------------------------------------ what a program can return *)

(* every value the program returns satisfies Q *)
Inductive rets {A} (Q : A -> Prop) : prog A -> Prop :=
| rt_ret a : Q a -> rets Q (Ret a)
| rt_fail : rets Q Fail
| rt_stuck : rets Q Stuck
| rt_fuel : rets Q OutOfFuel
| rt_rd k : (forall t, rets Q (k t)) -> rets Q (Rd k)
| rt_wr s k : rets Q k -> rets Q (Wr s k)
| rt_wru s k : rets Q k -> rets Q (WrU s k)
| rt_ctx ke k : rets Q k -> rets Q (Ctx ke k)
| rt_call ko ke : (forall v, rets Q (ko v)) -> rets Q (Call ko ke)
| rt_get k : (forall b, rets Q (k b)) -> rets Q (GetBits k)
| rt_or m k : rets Q k -> rets Q (OrBits m k)
| rt_restart rs k : rets Q k -> rets Q (Restart rs k)
| rt_log e k : rets Q k -> rets Q (Log e k).

Lemma rets_ok A (Q : A -> Prop) (p : prog A) pl : rets Q p -> forall w a w',
  interp pl p w = (ROk a, w') -> Q a.
Proof.
  induction 1 as [a0 Ha| | | |k _ IH|s k _ IH|s k _ IH|ke k _ IH|ko ke _ IH|k _ IH|m k _ IH|rs k _ IH|e k _ IH];
    intros w a w'; cbn [interp]; try discriminate.
  - intro H. inversion H; subst. exact Ha.
  - destruct (read_tok pl w) as [[t|] w1]; [apply IH | discriminate].
  - destruct (do_write pl s w) as [[|] w1]; [apply IH | discriminate].
  - destruct (do_write pl s w) as [ok w1]. apply IH.
  - destruct (ctx_done pl w); [discriminate | apply IH].
  - destruct (w_calls w) as [|v vs]; [discriminate|]. destruct (sval_err v); [discriminate | apply IH].
  - apply IH.
  - apply IH.
  - apply IH.
  - apply IH.
Qed.

Lemma rets_bind A B (Q : B -> Prop) (p : prog A) (f : A -> prog B) :
  (forall a, rets Q (f a)) -> rets Q (bind p f).
Proof. intro Hf. induction p; cbn; try (constructor; auto; fail). apply Hf. Qed.

(* sequencing with a postcondition of the first program *)
Lemma rets_bind2 A B (R : A -> Prop) (Q : B -> Prop) (p : prog A) (f : A -> prog B) :
  rets R p -> (forall a, R a -> rets Q (f a)) -> rets Q (bind p f).
Proof. intros Hp Hf. induction Hp; cbn; try (constructor; auto; fail). apply Hf. assumption. Qed.

Lemma rets_feed A (Q : A -> Prop) (p : prog A) : rets Q p -> forall ts, rets Q (feed ts p).
Proof. induction 1; intros [|t ts]; cbn; try (constructor; auto; fail); auto. Qed.

Lemma noret_rets A (Q : A -> Prop) (p : prog A) : noret p -> rets Q p.
Proof. induction 1; constructor; auto. Qed.

(* ------------------------------------------------------------------ programs that leave the state bits alone *)

Inductive no_orbits {A} : prog A -> Prop :=
| nb_ret a : no_orbits (Ret a)
| nb_fail : no_orbits Fail
| nb_stuck : no_orbits Stuck
| nb_fuel : no_orbits OutOfFuel
| nb_rd k : (forall t, no_orbits (k t)) -> no_orbits (Rd k)
| nb_wr s k : no_orbits k -> no_orbits (Wr s k)
| nb_wru s k : no_orbits k -> no_orbits (WrU s k)
| nb_ctx ke k : no_orbits ke -> no_orbits k -> no_orbits (Ctx ke k)
| nb_call ko ke : (forall v, no_orbits (ko v)) -> (forall v, no_orbits (ke v)) -> no_orbits (Call ko ke)
| nb_get k : (forall b, no_orbits (k b)) -> no_orbits (GetBits k)
| nb_restart rs k : no_orbits k -> no_orbits (Restart rs k)
| nb_log e k : no_orbits k -> no_orbits (Log e k).

Lemma read_tok_from_bits pl s : forall w, w_bits (snd (read_tok_from pl w s)) = w_bits w.
Proof.
  induction s as [|it r IH]; intro w; cbn; [reflexivity|].
  destruct it as [t|]; [reflexivity|].
  unfold do_read_op. destruct (op_ok pl w false && true); [rewrite IH|]; reflexivity.
Qed.

Lemma no_orbits_bits A (p : prog A) pl : no_orbits p -> forall w, w_bits (snd (interp pl p w)) = w_bits w.
Proof.
  induction 1 as [a| | | |k _ IH|s k _ IH|s k _ IH|ke k _ IHe _ IH|ko ke _ IHo _ IHe|k _ IH|rs k _ IH|e k _ IH];
    intro w; cbn [interp]; try reflexivity.
  - pose proof (read_tok_from_bits pl (w_script w) w) as Hb. unfold read_tok.
    destruct (read_tok_from pl w (w_script w)) as [[t|] w1]; cbn in Hb; [rewrite IH; exact Hb | exact Hb].
  - unfold do_write. destruct (op_ok pl w true); [rewrite IH|]; reflexivity.
  - unfold do_write. rewrite IH. reflexivity.
  - destruct (ctx_done pl w); cbn [snd]; [unfold set_trace; cbn; apply IHe | rewrite IH; reflexivity].
  - destruct (w_calls w) as [|v vs]; [reflexivity|].
    destruct (sval_err v); cbn [snd]; [rewrite IHe | rewrite IHo]; reflexivity.
  - apply IH.
  - rewrite IH. destruct rs; reflexivity.
  - rewrite IH. reflexivity.
Qed.

Lemma no_orbits_bind A B (p : prog A) :
  no_orbits p -> forall (f : A -> prog B), (forall a, no_orbits (f a)) -> no_orbits (bind p f).
Proof.
  induction 1 as [a| | | |k _ IH|s k _ IH|s k _ IH|ke k _ IHe _ IH|ko ke _ IHo _ IHe|k _ IH|rs k _ IH|e k _ IH];
    intros f Hf; cbn [bind]; try (constructor; auto; fail).
  - apply Hf.
  - constructor; [apply IHe; intro; constructor | apply IH; exact Hf].
  - constructor; intro v; [apply IHo; exact Hf | apply IHe; intro; constructor].
Qed.

Lemma no_orbits_feed A (p : prog A) : no_orbits p -> forall ts, no_orbits (feed ts p).
Proof. induction 1; intros [|t ts]; cbn; try (constructor; auto; fail); auto. Qed.

(* ------------------------------------------------------------------ plans that agree below an index *)

Definition agree_below (k : nat) (pl pl' : plan) : Prop :=
  (forall i, i < k -> p_fail pl i = p_fail pl' i) /\
  (forall w, w_ops w <= k -> ctx_done pl w = ctx_done pl' w) /\ p_hs_ok pl = p_hs_ok pl'.

(* Two runs of one program from one world, under plans that agree on every operation below k:
   either neither run reaches operation k and they coincide, or both reach it. *)
Definition coincide_or_pass {A} (k : nat) (r r' : res A * world) : Prop :=
  (r = r' /\ w_ops (snd r) <= k) \/ (k < w_ops (snd r) /\ k < w_ops (snd r')).

Lemma op_ok_agree k pl pl' w b : agree_below k pl pl' -> w_ops w < k -> op_ok pl w b = op_ok pl' w b.
Proof.
  intros [Hf [_ Hh]] Hlt. unfold op_ok. rewrite (Hf _ Hlt), Hh. reflexivity.
Qed.

Lemma ctx_done_agree k pl pl' w : agree_below k pl pl' -> w_ops w <= k -> ctx_done pl w = ctx_done pl' w.
Proof. intros [_ [Hc _]] Hle. apply Hc. exact Hle. Qed.

Lemma pass_mono A (p : prog A) pl k w : k < w_ops w -> k < w_ops (snd (interp pl p w)).
Proof. intro H. pose proof (interp_ops_mono p pl w). lia. Qed.

Lemma read_tok_from_ops pl s : forall w, w_ops w <= w_ops (snd (read_tok_from pl w s)).
Proof. intro w. apply wle_read_tok_from. Qed.

Lemma read_tok_from_agree k pl pl' : agree_below k pl pl' -> forall s w, w_ops w <= k ->
  (read_tok_from pl w s = read_tok_from pl' w s /\ w_ops (snd (read_tok_from pl w s)) <= k)
  \/ (k < w_ops (snd (read_tok_from pl w s)) /\ k < w_ops (snd (read_tok_from pl' w s))).
Proof.
  intros Hag. induction s as [|it r IH]; intros w Hle; cbn [read_tok_from].
  - unfold do_read_op. destruct (Nat.eq_dec (w_ops w) k) as [E|E].
    + right. cbn. lia.
    + left. rewrite (@op_ok_agree k pl pl' w false Hag) by lia. cbn. split; [reflexivity | lia].
  - destruct it as [t|].
    + left. cbn. split; [reflexivity | exact Hle].
    + unfold do_read_op. destruct (Nat.eq_dec (w_ops w) k) as [E|E].
      * right.
        destruct (op_ok pl w false && true); destruct (op_ok pl' w false && true);
          repeat match goal with
          | |- context [read_tok_from ?p ?w0 r] =>
              let H := fresh in pose proof (read_tok_from_ops p r w0) as H; cbn in H; revert H;
              generalize (read_tok_from p w0 r); intros ? ?
          end; cbn in *; lia.
      * rewrite (@op_ok_agree k pl pl' w false Hag) by lia.
        destruct (op_ok pl' w false && true).
        -- apply IH. cbn. lia.
        -- left. cbn. split; [reflexivity | lia].
Qed.

Theorem interp_agree A (p : prog A) k pl pl' : agree_below k pl pl' -> forall w, w_ops w <= k ->
  coincide_or_pass k (interp pl p w) (interp pl' p w).
Proof.
  intro Hag. unfold coincide_or_pass.
  induction p as [a| | | |kk IH|s kk IH|s kk IH|ke IHe kk IH|ko IHo ke IHe|kk IH|m kk IH|rs kk IH|e kk IH];
    intros w Hle; cbn [interp].
  - left. split; [reflexivity | exact Hle].
  - left. split; [reflexivity | exact Hle].
  - left. split; [reflexivity | exact Hle].
  - left. split; [reflexivity | exact Hle].
  - unfold read_tok.
    destruct (read_tok_from_agree Hag (w_script w) w Hle) as [[Heq Hk]|[H1 H2]].
    + rewrite <- Heq. destruct (read_tok_from pl w (w_script w)) as [[t|] w1]; cbn in Hk.
      * apply IH. exact Hk.
      * left. split; [reflexivity | exact Hk].
    + right. destruct (read_tok_from pl w (w_script w)) as [[t|] w1];
        destruct (read_tok_from pl' w (w_script w)) as [[t'|] w1']; cbn in H1, H2; cbn [snd];
        split; try apply pass_mono; assumption.
  - unfold do_write. destruct (Nat.eq_dec (w_ops w) k) as [E|E].
    + right. destruct (op_ok pl w true); destruct (op_ok pl' w true); cbn [snd];
        split; try apply pass_mono; cbn; lia.
    + rewrite (@op_ok_agree k pl pl' w true Hag) by lia. destruct (op_ok pl' w true).
      * apply IH. cbn. lia.
      * left. cbn. split; [reflexivity | lia].
  - unfold do_write. destruct (Nat.eq_dec (w_ops w) k) as [E|E].
    + right. split; apply pass_mono; cbn; lia.
    + rewrite (@op_ok_agree k pl pl' w true Hag) by lia. apply IH. cbn. lia.
  - rewrite <- (@ctx_done_agree k pl pl' w Hag Hle). destruct (ctx_done pl w).
    + destruct (IHe w Hle) as [[Heq Hk]|[H1 H2]].
      * left. rewrite <- Heq. cbn. split; [reflexivity | exact Hk].
      * right. cbn. split; assumption.
    + apply IH. cbn. exact Hle.
  - destruct (w_calls w) as [|v vs].
    + left. split; [reflexivity | exact Hle].
    + destruct (sval_err v).
      * match goal with |- context [interp pl (ke v) ?w0] => destruct (IHe v w0 Hle) as [[Heq Hk]|[H1 H2]] end.
        -- left. rewrite <- Heq. cbn. split; [reflexivity | exact Hk].
        -- right. cbn. split; assumption.
      * apply IHo. cbn. exact Hle.
  - apply IH. exact Hle.
  - apply IH. cbn. exact Hle.
  - apply IH. destruct rs; cbn; exact Hle.
  - apply IH. cbn. exact Hle.
Qed.

(* ------------------------------------------------------------------ surviving the failing operation *)

(* no failure yet: operation k has not been performed *)
Definition alive (k : nat) (w : world) : Prop := w_ops w <= k.

Lemma op_fails pl k w b : p_fail pl k = true -> w_ops w = k -> op_ok pl w b = false.
Proof. intros Hf E. unfold op_ok. rewrite E, Hf. reflexivity. Qed.

Lemma read_tok_from_alive pl k : p_fail pl k = true -> forall s w t w',
  alive k w -> read_tok_from pl w s = (Some t, w') -> alive k w'.
Proof.
  intro Hf. unfold alive. induction s as [|it r IH]; intros w t w' Hle; cbn [read_tok_from].
  - unfold do_read_op. discriminate.
  - destruct it as [t0|].
    + intro H. inversion H; subst. cbn. exact Hle.
    + unfold do_read_op. destruct (Nat.eq_dec (w_ops w) k) as [E|E].
      * rewrite (@op_fails pl k w false Hf E). cbn. discriminate.
      * destruct (op_ok pl w false && true); [|discriminate].
        apply IH. cbn. lia.
Qed.

(* A program in which every write whose error is dropped is followed by an error only. *)
Definition strict {A} (p : prog A) : Prop := wru_ok (fun _ => False) p.

Theorem alive_ok A (p : prog A) pl k : p_fail pl k = true -> strict p -> forall w a w',
  alive k w -> interp pl p w = (ROk a, w') -> alive k w'.
Proof.
  intros Hf Hp. unfold strict in Hp.
  induction Hp as [a0| | | |kk _ IH|s kk _ IH|s kk Hs _ IH|ke kk _ IH|ko ke _ IH|kk _ IH|m kk _ IH|rs kk _ IH|e kk He _ IH];
    intros w a w' Hle; cbn [interp]; try discriminate.
  - intro H. inversion H; subst. exact Hle.
  - unfold read_tok. destruct (read_tok_from pl w (w_script w)) as [[t|] w1] eqn:E; [|discriminate].
    apply IH. eapply read_tok_from_alive; eassumption.
  - unfold do_write. unfold alive in Hle. destruct (Nat.eq_dec (w_ops w) k) as [E|E].
    + rewrite (@op_fails pl k w true Hf E). discriminate.
    + destruct (op_ok pl w true); [|discriminate]. apply IH. unfold alive. cbn. lia.
  - intro H. exfalso. destruct Hs as [[]|Hs].
    unfold do_write in H. eapply noret_not_ok; [exact Hs | exact H].
  - destruct (ctx_done pl w); [discriminate|]. apply IH. exact Hle.
  - destruct (w_calls w) as [|v vs]; [discriminate|]. destruct (sval_err v); [discriminate|].
    apply IH. exact Hle.
  - apply IH. exact Hle.
  - apply IH. exact Hle.
  - apply IH. destruct rs; exact Hle.
  - apply IH. exact Hle.
Qed.

(* ------------------------------------------------------------------ cancelling the context *)

(* what a token read adds to the trace are read events only *)
Lemma read_tok_from_trace pl s : forall w,
  exists nr, w_trace (snd (read_tok_from pl w s)) = nr ++ w_trace w /\ forall e, In e nr -> exists b, e = ERead b.
Proof.
  induction s as [|it r IH]; intro w; cbn [read_tok_from].
  - exists [ERead (op_ok pl w false && false)]. cbn. split; [reflexivity|].
    intros e [He|[]]. eexists. symmetry. exact He.
  - destruct it as [t|].
    + exists []. cbn. split; [reflexivity | intros e []].
    + unfold do_read_op. destruct (op_ok pl w false && true) eqn:E.
      * destruct (IH (mkW (S (w_ops w)) r (w_tls w) (w_tlslayer w) false (w_wdead w) (w_bits w) (w_calls w) (ERead true :: w_trace w)))
          as [nr [Ht Hr]].
        exists (nr ++ [ERead true]). split.
        -- rewrite Ht. cbn. rewrite <- app_assoc. reflexivity.
        -- intros e He. apply in_app_or in He. destruct He as [He|[He|[]]]; [apply Hr; exact He | eexists; symmetry; exact He].
      * exists [ERead false]. cbn. split; [reflexivity|]. intros e [He|[]]. eexists. symmetry. exact He.
Qed.

Lemma do_write_trace pl s w :
  w_trace (snd (do_write pl s w)) = [EWrite s (fst (do_write pl s w))] ++ w_trace w.
Proof. reflexivity. Qed.

(* all ctx tests that passed did so while at most c operations had been performed *)
Definition passes_le (c : nat) (new : list event) : Prop := forall n, In (ECtxPass n) new -> n <= c.

(* the same plan without the cancellation *)
Definition uncancelled (pl : plan) : plan :=
  mkPlan (p_fault pl) (p_class pl) None (p_entry pl) (p_deadline pl) (p_ctx_deadline pl) (p_hs_ok pl).

(* an operation that succeeds under the cancelled plan succeeds without the cancellation *)
Lemma op_ok_uncancelled pl w b : op_ok pl w b = true -> op_ok (uncancelled pl) w b = true.
Proof.
  unfold op_ok, p_fail, cancel_fail, uncancelled. cbn [p_fault p_cancel p_hs_ok].
  intro H. apply andb_true_iff in H. destruct H as [H1 H2]. rewrite H2.
  apply negb_true_iff in H1. apply orb_false_iff in H1. destruct H1 as [H1 _]. rewrite H1. reflexivity.
Qed.

Lemma read_tok_from_uncancelled pl s : forall w t w',
  read_tok_from pl w s = (Some t, w') -> read_tok_from (uncancelled pl) w s = (Some t, w').
Proof.
  induction s as [|it r IH]; intros w t w'; cbn [read_tok_from].
  - unfold do_read_op. discriminate.
  - destruct it as [t0|]; [intro H; exact H|].
    unfold do_read_op. destruct (op_ok pl w false) eqn:E; cbn [andb]; [|discriminate].
    rewrite (op_ok_uncancelled pl w false E). cbn [andb]. apply IH.
Qed.

(* An Ok run of a strict program under a plan that cancels the context at operation c is also
   the run of the plan without the cancellation, and none of its ctx tests was made after
   operation c. *)
Theorem interp_cancel_ok A (p : prog A) pl c : p_cancel pl = Some c -> strict p -> forall w a w',
  interp pl p w = (ROk a, w') ->
  interp (uncancelled pl) p w = (ROk a, w') /\
  exists new, w_trace w' = new ++ w_trace w /\ passes_le c new.
Proof.
  intros Hc Hp. unfold strict in Hp.
  induction Hp as [a0| | | |k _ IH|s k _ IH|s k Hs _ IH|ke k _ IH|ko ke _ IH|k _ IH|m k _ IH|rs k _ IH|e k He _ IH];
    intros w a w'; cbn [interp]; try discriminate.
  - intro H. inversion H; subst. split; [reflexivity|]. exists []. split; [reflexivity | intros n []].
  - unfold read_tok. destruct (read_tok_from pl w (w_script w)) as [[t|] w1] eqn:E; [|discriminate].
    destruct (read_tok_from_trace pl (w_script w) w) as [nr [Ht Hr]]. rewrite E in Ht. cbn [snd] in Ht.
    rewrite (read_tok_from_uncancelled pl (w_script w) w E).
    intro H. destruct (IH t w1 a w' H) as [H0 [new [Hn Hpa]]]. split; [exact H0|].
    exists (new ++ nr). split; [rewrite Hn, Ht, app_assoc; reflexivity|].
    intros n Hin. apply in_app_or in Hin. destruct Hin as [Hin|Hin]; [apply Hpa; exact Hin|].
    destruct (Hr _ Hin) as [b Hb]. discriminate.
  - unfold do_write. destruct (op_ok pl w true) eqn:E; [|discriminate].
    rewrite (op_ok_uncancelled pl w true E).
    intro H. destruct (IH _ a w' H) as [H0 [new [Hn Hpa]]]. split; [exact H0|].
    exists (new ++ [EWrite s true]). split; [rewrite Hn; cbn; rewrite <- app_assoc; reflexivity|].
    intros n Hin. apply in_app_or in Hin. destruct Hin as [Hin|[Hin|[]]]; [apply Hpa; exact Hin | discriminate].
  - intro H. exfalso. destruct Hs as [[]|Hs]. unfold do_write in H. eapply noret_not_ok; [exact Hs | exact H].
  - assert (E0 : ctx_done (uncancelled pl) w = false) by reflexivity. rewrite E0.
    destruct (ctx_done pl w) eqn:Ec; [discriminate|].
    assert (Hle : w_ops w <= c).
    { unfold ctx_done in Ec. rewrite Hc in Ec. apply Nat.ltb_ge in Ec. exact Ec. }
    intro H. destruct (IH _ a w' H) as [H0 [new [Hn Hpa]]]. split; [exact H0|].
    exists (new ++ [ECtxPass (w_ops w)]). split; [rewrite Hn; cbn; rewrite <- app_assoc; reflexivity|].
    intros n Hin. apply in_app_or in Hin. destruct Hin as [Hin|[Hin|[]]]; [apply Hpa; exact Hin|].
    inversion Hin; subst. exact Hle.
  - destruct (w_calls w) as [|v vs]; [discriminate|].
    destruct (sval_err v); [discriminate|].
    intro H. destruct (IH v _ a w' H) as [H0 [new [Hn Hpa]]]. split; [exact H0|].
    exists (new ++ [ECall v]). split; [rewrite Hn; cbn; rewrite <- app_assoc; reflexivity|].
    intros n Hin. apply in_app_or in Hin. destruct Hin as [Hin|[Hin|[]]]; [apply Hpa; exact Hin | discriminate].
  - apply IH.
  - intro H. destruct (IH _ a w' H) as [H0 [new [Hn Hpa]]]. split; [exact H0|].
    exists new. split; [exact Hn | exact Hpa].
  - intro H. destruct (IH _ a w' H) as [H0 [new [Hn Hpa]]]. split; [exact H0|].
    exists new. split; [rewrite Hn; destruct rs; reflexivity | exact Hpa].
  - intro H. destruct (IH _ a w' H) as [H0 [new [Hn Hpa]]]. split; [exact H0|].
    exists (new ++ [e]). split; [rewrite Hn; cbn; rewrite <- app_assoc; reflexivity|].
    intros n Hin. apply in_app_or in Hin. destruct Hin as [Hin|[Hin|[]]]; [apply Hpa; exact Hin|].
    subst e. destruct He.
Qed.

(* ------------------------------------------------------------------ fuel: the input that is left *)

(* items of the peer's stream that are still to come, on both layers *)
Definition rem (w : world) : nat := script_len (w_script w) + script_len (w_tls w).

Lemma read_tok_from_rem pl s : forall w,
  script_len (w_script (snd (read_tok_from pl w s))) <= script_len s /\
  w_tls (snd (read_tok_from pl w s)) = w_tls w /\
  (forall t, fst (read_tok_from pl w s) = Some t -> script_len (w_script (snd (read_tok_from pl w s))) < script_len s).
Proof.
  induction s as [|it r IH]; intro w; cbn [read_tok_from].
  - cbn. repeat split; try lia. all: intros t H; discriminate.
  - destruct it as [t0|].
    + cbn. repeat split; try lia.
    + unfold do_read_op. destruct (op_ok pl w false && true).
      * match goal with |- context [read_tok_from pl ?w0 r] => destruct (IH w0) as [H1 [H2 H3]] end.
        cbn [script_len]. repeat split; [lia | rewrite H2; reflexivity |].
        intros t Ht. specialize (H3 t Ht). lia.
      * cbn. repeat split; try lia. all: intros t H; discriminate.
Qed.

Lemma read_tok_rem pl w : rem (snd (read_tok pl w)) <= rem w.
Proof.
  unfold rem, read_tok. destruct (read_tok_from_rem pl (w_script w) w) as [H1 [H2 _]]. rewrite H2. lia.
Qed.

Lemma read_tok_rem_some pl w t w' : read_tok pl w = (Some t, w') -> rem w' < rem w.
Proof.
  unfold rem, read_tok. intro H. destruct (read_tok_from_rem pl (w_script w) w) as [_ [H2 H3]].
  rewrite H in H2, H3. cbn [fst snd] in H2, H3. rewrite H2. specialize (H3 t eq_refl). lia.
Qed.

Lemma drop_to_brk_len s : script_len (drop_to_brk s) <= script_len s.
Proof. induction s as [|[t|] r IH]; cbn; lia. Qed.

Lemma do_restart_rem rs w : rem (do_restart rs w) <= rem w.
Proof.
  unfold rem. destruct rs; cbn; try lia.
  pose proof (drop_to_brk_len (w_script w)). lia.
Qed.

Lemma interp_rem A (p : prog A) pl : forall w, rem (snd (interp pl p w)) <= rem w.
Proof.
  induction p as [a| | | |k IH|s k IH|s k IH|ke IHe k IH|ko IHo ke IHe|k IH|m k IH|rs k IH|e k IH]; intro w; cbn [interp];
    try (cbn; lia).
  - pose proof (read_tok_rem pl w) as Hr. destruct (read_tok pl w) as [[t|] w1]; cbn [snd] in *.
    + specialize (IH t w1). lia.
    + exact Hr.
  - unfold do_write. destruct (op_ok pl w true); cbn [snd].
    + match goal with |- context [interp pl k ?w0] => specialize (IH w0); assert (rem w0 = rem w) by reflexivity end. lia.
    + unfold rem. cbn. lia.
  - unfold do_write. match goal with |- context [interp pl k ?w0] => specialize (IH w0); assert (rem w0 = rem w) by reflexivity end. lia.
  - destruct (ctx_done pl w); cbn [snd].
    + specialize (IHe w). unfold rem in *. cbn. exact IHe.
    + match goal with |- context [interp pl k ?w0] => specialize (IH w0); assert (rem w0 = rem w) by reflexivity end. lia.
  - destruct (w_calls w) as [|v vs]; [cbn; lia|].
    destruct (sval_err v); cbn [snd].
    + match goal with |- context [interp pl (ke v) ?w0] => specialize (IHe v w0); assert (rem w0 = rem w) by reflexivity end. lia.
    + match goal with |- context [interp pl (ko v) ?w0] => specialize (IHo v w0); assert (rem w0 = rem w) by reflexivity end. lia.
  - apply IH.
  - match goal with |- context [interp pl k ?w0] => specialize (IH w0); assert (rem w0 = rem w) by reflexivity end. lia.
  - specialize (IH (do_restart rs w)). pose proof (do_restart_rem rs w). lia.
  - match goal with |- context [interp pl k ?w0] => specialize (IH w0); assert (rem w0 = rem w) by reflexivity end. lia.
Qed.

(* [fits b p]: with at most b items of input left, p never reaches an OutOfFuel leaf.
   A token read that succeeds leaves strictly fewer items. *)
Inductive fits {A} : nat -> prog A -> Prop :=
| ft_ret b a : fits b (Ret a)
| ft_fail b : fits b Fail
| ft_stuck b : fits b Stuck
| ft_rd b k : (forall t b', b' < b -> fits b' (k t)) -> fits b (Rd k)
| ft_wr b s k : fits b k -> fits b (Wr s k)
| ft_wru b s k : fits b k -> fits b (WrU s k)
| ft_ctx b ke k : fits b k -> fits b (Ctx ke k)
| ft_call b ko ke : (forall v, fits b (ko v)) -> fits b (Call ko ke)
| ft_get b k : (forall x, fits b (k x)) -> fits b (GetBits k)
| ft_or b m k : fits b k -> fits b (OrBits m k)
| ft_restart b rs k : fits b k -> fits b (Restart rs k)
| ft_log b e k : fits b k -> fits b (Log e k).

Theorem fits_sound A (p : prog A) pl b : fits b p -> forall w, rem w <= b -> fst (interp pl p w) <> RFuel.
Proof.
  induction 1 as [b a|b|b|b k _ IH|b s k _ IH|b s k _ IH|b ke k _ IH|b ko ke _ IH|b k _ IH|b m k _ IH|b rs k _ IH|b e k _ IH];
    intros w Hw; cbn [interp]; try (cbn; discriminate).
  - destruct (read_tok pl w) as [[t|] w1] eqn:E; [|cbn; discriminate].
    pose proof (read_tok_rem_some pl w E) as Hlt. apply (IH t (rem w1)); lia.
  - unfold do_write. destruct (op_ok pl w true); [|cbn; discriminate]. apply IH. exact Hw.
  - unfold do_write. apply IH. exact Hw.
  - destruct (ctx_done pl w); [cbn; discriminate|]. apply IH. exact Hw.
  - destruct (w_calls w) as [|v vs]; [cbn; discriminate|].
    destruct (sval_err v); [cbn; discriminate|]. apply IH. exact Hw.
  - apply IH. exact Hw.
  - apply IH. exact Hw.
  - apply IH. pose proof (do_restart_rem rs w). lia.
  - apply IH. exact Hw.
Qed.

Lemma fits_mono A (p : prog A) b : fits b p -> forall b', b' <= b -> fits b' p.
Proof.
  induction 1 as [b a|b|b|b k _ IH|b s k _ IH|b s k _ IH|b ke k _ IH|b ko ke _ IH|b k _ IH|b m k _ IH|b rs k _ IH|b e k _ IH];
    intros b1 Hb; constructor; auto.
  intros t b2 Hb2. apply (IH t b2); lia.
Qed.

Lemma fits_bind A B (p : prog A) b : fits b p -> forall (f : A -> prog B), (forall a, fits b (f a)) -> fits b (bind p f).
Proof.
  induction 1 as [b a|b|b|b k _ IH|b s k _ IH|b s k _ IH|b ke k _ IH|b ko ke _ IH|b k _ IH|b m k _ IH|b rs k _ IH|b e k _ IH];
    intros f Hf; cbn [bind]; try (constructor; auto; fail).
  - apply Hf.
  - constructor. intros t b' Hb'. apply IH; [exact Hb'|]. intro a. eapply fits_mono; [apply Hf | lia].
Qed.

Lemma fits_feed A : forall ts (p : prog A) b, fits (b + length ts) p -> fits b (feed ts p).
Proof.
  induction ts as [|t ts IH]; intros p b H; cbn [feed].
  - rewrite Nat.add_0_r in H. destruct p; exact H.
  - cbn [length] in H.
    induction p as [a| | | |k IHp|s k IHp|s k IHp|ke IHe k IHp|ko IHo ke IHe|k IHp|m k IHp|rs k IHp|e k IHp];
      cbn [feed]; inversion H; subst; try (constructor; auto; fail).
    apply IH. match goal with Hk : forall t b', b' < _ -> fits b' (k t) |- _ => apply Hk end. lia.
Qed.

(* [eats p]: p returns a value only after it has read a token *)
Inductive eats {A} : prog A -> Prop :=
| ea_fail : eats Fail
| ea_stuck : eats Stuck
| ea_fuel : eats OutOfFuel
| ea_rd k : eats (Rd k)
| ea_wr s k : eats k -> eats (Wr s k)
| ea_wru s k : eats k -> eats (WrU s k)
| ea_ctx ke k : eats k -> eats (Ctx ke k)
| ea_call ko ke : (forall v, eats (ko v)) -> eats (Call ko ke)
| ea_get k : (forall b, eats (k b)) -> eats (GetBits k)
| ea_or m k : eats k -> eats (OrBits m k)
| ea_restart rs k : eats k -> eats (Restart rs k)
| ea_log e k : eats k -> eats (Log e k).

Theorem eats_sound A (p : prog A) pl : eats p -> forall w a w', interp pl p w = (ROk a, w') -> rem w' < rem w.
Proof.
  induction 1 as [ | | |k|s k _ IH|s k _ IH|ke k _ IH|ko ke _ IH|k _ IH|m k _ IH|rs k _ IH|e k _ IH];
    intros w a w'; cbn [interp]; try discriminate.
  - destruct (read_tok pl w) as [[t|] w1] eqn:E; [|discriminate].
    intro H. pose proof (read_tok_rem_some pl w E). pose proof (interp_rem (k t) pl w1) as Hr. rewrite H in Hr. cbn in Hr. lia.
  - unfold do_write. destruct (op_ok pl w true); [|discriminate]. intro H. apply IH in H. exact H.
  - unfold do_write. intro H. apply IH in H. exact H.
  - destruct (ctx_done pl w); [discriminate|]. intro H. apply IH in H. exact H.
  - destruct (w_calls w) as [|v vs]; [discriminate|]. destruct (sval_err v); [discriminate|].
    intro H. apply IH in H. exact H.
  - apply IH.
  - intro H. apply IH in H. exact H.
  - intro H. apply IH in H. pose proof (do_restart_rem rs w). lia.
  - intro H. apply IH in H. exact H.
Qed.

Lemma eats_bind_l A B (p : prog A) (f : A -> prog B) : eats p -> eats (bind p f).
Proof. induction 1; cbn; constructor; auto. Qed.

Lemma eats_bind_r A B (p : prog A) (f : A -> prog B) : (forall a, eats (f a)) -> eats (bind p f).
Proof. intro Hf. induction p; cbn; try (constructor; auto; fail). apply Hf. Qed.

(* sequencing with a postcondition of the first program *)
Lemma fits_bind2 A B (R : A -> Prop) (p : prog A) : forall b, fits b p -> rets R p ->
  forall f : A -> prog B, (forall a, R a -> fits b (f a)) -> fits b (bind p f).
Proof.
  induction p as [a| | | |k IH|s k IH|s k IH|ke IHe k IH|ko IHo ke IHe|k IH|m k IH|rs k IH|e k IH];
    intros b Hf Hr f Hc; inversion Hf; subst; inversion Hr; subst; cbn [bind];
    try (constructor; auto; fail).
  - apply Hc. assumption.
  - constructor. intros t b' Hb'. apply IH; auto.
    intros a Ha. eapply fits_mono; [apply Hc; exact Ha | lia].
Qed.

(* ------------------------------------------------------------------ programs that never set the Ready bit *)

Inductive nrdy {A} : prog A -> Prop :=
| ny_ret a : nrdy (Ret a)
| ny_fail : nrdy Fail
| ny_stuck : nrdy Stuck
| ny_fuel : nrdy OutOfFuel
| ny_rd k : (forall t, nrdy (k t)) -> nrdy (Rd k)
| ny_wr s k : nrdy k -> nrdy (Wr s k)
| ny_wru s k : nrdy k -> nrdy (WrU s k)
| ny_ctx ke k : nrdy ke -> nrdy k -> nrdy (Ctx ke k)
| ny_call ko ke : (forall v, nrdy (ko v)) -> (forall v, nrdy (ke v)) -> nrdy (Call ko ke)
| ny_get k : (forall b, nrdy (k b)) -> nrdy (GetBits k)
| ny_or m k : N.land m st_Ready = 0%N -> nrdy k -> nrdy (OrBits m k)
| ny_restart rs k : nrdy k -> nrdy (Restart rs k)
| ny_log e k : nrdy k -> nrdy (Log e k).

Lemma nrdy_bits A (p : prog A) pl : nrdy p -> forall w,
  is_ready (w_bits w) = false -> is_ready (w_bits (snd (interp pl p w))) = false.
Proof.
  induction 1 as [a| | | |k _ IH|s k _ IH|s k _ IH|ke k _ IHe _ IH|ko ke _ IHo _ IHe|k _ IH|m k Hm _ IH|rs k _ IH|e k _ IH];
    intros w Hw; cbn [interp]; try exact Hw.
  - pose proof (read_tok_from_bits pl (w_script w) w) as Hb. unfold read_tok.
    destruct (read_tok_from pl w (w_script w)) as [[t|] w1]; cbn [snd] in Hb |- *; [apply IH|]; rewrite Hb; exact Hw.
  - unfold do_write. destruct (op_ok pl w true); cbn [snd]; [apply IH|]; exact Hw.
  - unfold do_write. apply IH. exact Hw.
  - destruct (ctx_done pl w); cbn [snd]; [unfold set_trace; cbn [w_bits]; apply IHe; exact Hw | apply IH; exact Hw].
  - destruct (w_calls w) as [|v vs]; [exact Hw|].
    destruct (sval_err v); cbn [snd]; [apply IHe | apply IHo]; exact Hw.
  - apply IH. exact Hw.
  - apply IH. cbn [w_bits]. unfold is_ready, has in *. rewrite N.land_lor_distr_l, Hm, N.lor_0_r. exact Hw.
  - apply IH. destruct rs; exact Hw.
  - apply IH. exact Hw.
Qed.

Lemma nrdy_bind A B (p : prog A) : nrdy p -> forall (f : A -> prog B), (forall a, nrdy (f a)) -> nrdy (bind p f).
Proof.
  induction 1 as [a| | | |k _ IH|s k _ IH|s k _ IH|ke k _ IHe _ IH|ko ke _ IHo _ IHe|k _ IH|m k Hm _ IH|rs k _ IH|e k _ IH];
    intros f Hf; cbn [bind]; try (constructor; auto; fail).
  - apply Hf.
  - constructor; [apply IHe; intro; constructor | apply IH; exact Hf].
  - constructor; intro v; [apply IHo; exact Hf | apply IHe; intro; constructor].
Qed.

Lemma nrdy_feed A (p : prog A) : nrdy p -> forall ts, nrdy (feed ts p).
Proof. induction 1; intros [|t ts]; cbn; try (constructor; auto; fail); auto. Qed.

Lemma no_orbits_nrdy A (p : prog A) : no_orbits p -> nrdy p.
Proof. induction 1; constructor; auto. Qed.
