(* C04/Structure.v — structural facts about the programs of C04/Model.v:
   none of them drops a write error and goes on to return a value (until the repair of sasl.go
   sasl_server did, at the <success/> flush), what outcomes the features return, and which programs touch the state
   bits (only run_feature and session). *)
From XV Require Import lib.Bytes gen.NegTables C04.Model C04.Generic.

(* One tactic for goals [wru_ok P p], [rets Q p], [no_orbits p], [noret p]: open the small
   combinators, split matches, use the closure lemmas for bind/feed, the constructors, and
   whatever is in the context (induction hypotheses, previously proved facts). *)
Ltac open_defs :=
  unfold rd, wr, wru, ctx, call, get_bits, or_bits, logev, guard, step, server_step,
         custom_client, custom_outcome in *.

Ltac split_match :=
  match goal with
  | |- context [match ?x with _ => _ end] =>
      match type of x with
      | sumbool _ _ => fail 1
      | _ => destruct x
      end
  end.

Ltac leaf :=
  first [ assumption
        | solve [auto with c04]
        | solve [right; repeat constructor]
        | solve [left; assumption]
        | solve [left; reflexivity] ].

Ltac step_struct :=
  first
  [ progress intros
  | match goal with
    | |- wru_ok _ (bind _ _) => apply wru_ok_bind
    | |- wru_ok _ (feed _ _) => apply wru_ok_feed
    | |- rets _ (bind _ _) => apply rets_bind
    | |- rets _ (feed _ _) => apply rets_feed
    | |- no_orbits (bind _ _) => apply no_orbits_bind
    | |- no_orbits (feed _ _) => apply no_orbits_feed
    | |- nrdy (bind _ _) => apply nrdy_bind
    | |- nrdy (feed _ _) => apply nrdy_feed
    | |- noret (bind _ _) => first [apply noret_bind | apply noret_bind_r]
    | |- noret (feed _ _) => apply noret_feed
    end
  | leaf
  | match goal with
    | |- wru_ok _ (WrU _ _) => apply wo_wru
    | |- wru_ok _ (Log _ _) => apply wo_log; [exact I|]
    | |- wru_ok _ _ => constructor
    | |- rets _ (Ret _) => constructor
    | |- rets _ _ => constructor
    | |- no_orbits _ => constructor
    | |- nrdy (OrBits _ _) => apply ny_or; [apply N.land_ldiff|]
    | |- nrdy _ => constructor
    | |- noret _ => constructor
    | |- _ \/ _ => leaf
    end
  | split_match ].

Ltac struct := open_defs; cbn [bind]; repeat step_struct.

Create HintDb c04.

(* ------------------------------------------------------------------ writes whose error is dropped *)

Section WruOk.
  Variable P : wsite -> Prop.

  Lemma skip_wok n : forall d, wru_ok P (skip n d).
  Proof. induction n as [|n IH]; intro d; cbn [skip]; struct. Qed.
  Hint Resolve skip_wok : c04.

  Lemma expect_wok n : forall first ws, wru_ok P (expect n first ws).
  Proof. induction n as [|n IH]; intros first ws; cbn [expect]; struct. Qed.
  Hint Resolve expect_wok : c04.

  Lemma starttls_client_wok n : wru_ok P (starttls_client n).
  Proof. unfold starttls_client; struct. Qed.

  Lemma starttls_server_wok : wru_ok P starttls_server.
  Proof. unfold starttls_server; struct. Qed.

  Lemma sasl_decode_wok n a t : wru_ok P (sasl_decode n a t).
  Proof. unfold sasl_decode; struct. Qed.
  Hint Resolve sasl_decode_wok : c04.

  Lemma sasl_client_loop_wok n : forall more success, wru_ok P (sasl_client_loop n more success).
  Proof. induction n as [|n IH]; intros more success; cbn [sasl_client_loop]; struct. Qed.
  Hint Resolve sasl_client_loop_wok : c04.

  Lemma sasl_client_wok n : wru_ok P (sasl_client n).
  Proof. unfold sasl_client; struct. Qed.

  Lemma sasl_server_loop_wok n : forall sel, wru_ok P (sasl_server_loop n sel).
  Proof. induction n as [|n IH]; intro sel; cbn [sasl_server_loop]; struct. Qed.
  Hint Resolve sasl_server_loop_wok : c04.

  (* since the repair of sasl.go the <success/> flush is checked like every other write *)
  Lemma sasl_server_wok n : wru_ok P (sasl_server n).
  Proof. unfold sasl_server; struct. Qed.

  Lemma bind_client_wok n : wru_ok P (bind_client n).
  Proof. unfold bind_client; struct. Qed.

  Lemma bind_server_wok n : wru_ok P (bind_server n).
  Proof. unfold bind_server; struct. Qed.

  Lemma custom_client_wok : wru_ok P custom_client.
  Proof. struct. Qed.

  Lemma custom_server_wok n : wru_ok P (custom_server n).
  Proof. unfold custom_server; struct. Qed.

  Lemma negotiate_feature_wok n recv f : wru_ok P (negotiate_feature n recv f).
  Proof.
    unfold negotiate_feature. destruct (f_kind f) eqn:E; destruct recv;
      auto using starttls_client_wok, starttls_server_wok, sasl_client_wok, sasl_server_wok,
                 bind_client_wok, bind_server_wok, custom_client_wok, custom_server_wok.
  Qed.

  Lemma run_feature_wok n recv f ft pre : wru_ok P (run_feature n recv f ft pre).
  Proof.
    unfold run_feature. pose proof (negotiate_feature_wok n recv ft). struct.
  Qed.

  Lemma list_features_wok fs : forall i bits acc, wru_ok P (list_features fs i bits acc).
  Proof. induction fs as [|f fs IH]; intros i bits acc; cbn [list_features]; struct. Qed.
  Hint Resolve list_features_wok : c04.

  Lemma write_features_wok cfg : wru_ok P (write_features cfg).
  Proof. unfold write_features; struct. Qed.
  Hint Resolve write_features_wok : c04.

  Lemma read_children_wok n cfg : forall acc, wru_ok P (read_children n cfg acc).
  Proof. induction n as [|n IH]; intro acc; cbn [read_children]; struct. Qed.
  Hint Resolve read_children_wok : c04.

  Lemma trim_space_wok n : wru_ok P (trim_space n).
  Proof. induction n as [|n IH]; cbn [trim_space]; struct. Qed.
  Hint Resolve trim_space_wok : c04.

  Lemma comp_header_wok n : forall fp, wru_ok P (comp_header n fp).
  Proof. induction n as [|n IH]; intro fp; cbn [comp_header]; struct. Qed.
  Hint Resolve comp_header_wok : c04.

  Lemma comp_call_wok n : wru_ok P (comp_call n).
  Proof. unfold comp_call; struct. Qed.

  Lemma init_loop_wok n cfg l : forall k force negotiated ready, wru_ok P (init_loop k n cfg l force negotiated ready).
  Proof.
    induction k as [|k IH]; intros force negotiated ready; cbn [init_loop]; [constructor|].
    assert (HR : forall f ft pre, wru_ok P (run_feature n false f ft pre))
      by (intros; apply run_feature_wok).
    struct.
  Qed.
  Hint Resolve init_loop_wok : c04.

  Lemma features_initiator_wok n cfg first : wru_ok P (features_initiator n cfg first).
  Proof. unfold features_initiator; struct. Qed.

  Lemma recv_loop_wok n cfg l : forall negotiated ready, wru_ok P (recv_loop n cfg l negotiated ready).
  Proof.
    induction n as [|n IH]; intros negotiated ready; cbn [recv_loop]; [constructor|].
    assert (HR : forall f ft pre, wru_ok P (run_feature n true f ft pre))
      by (intros; apply run_feature_wok).
    struct.
  Qed.

  Lemma features_receiver_wok n cfg : wru_ok P (features_receiver n cfg).
  Proof. unfold features_receiver. pose proof (recv_loop_wok n cfg) as HL. struct. Qed.

  Lemma std_call_wok n cfg ns : wru_ok P (std_call n cfg ns).
  Proof.
    unfold std_call.
    pose proof (features_receiver_wok n cfg). pose proof (features_initiator_wok n cfg).
    struct.
  Qed.

  (* every program of the model is strict: no write error is dropped on a path that returns *)
  Lemma session_wok n cfg : forall m ns, wru_ok P (session n m cfg ns).
  Proof.
    induction m as [|m IH]; intro ns; cbn [session];
      pose proof (std_call_wok n cfg ns); pose proof (comp_call_wok n); struct.
  Qed.
End WruOk.

(* ------------------------------------------------------------------ outcomes of the built-in features *)

Definition builtin_outcome (k : fkind) (o : outcome) : Prop :=
  match k with
  | FStartTLS => o = (st_Secure, RSTls)
  | FSASL => o = (st_Authn, RSSame)
  | FBind => o = (st_Ready, RSNone)
  | FCustom => snd o = RSNone \/ snd o = RSSame
  end.

Lemma skip_noval n : forall d, rets (fun _ : unit => True) (skip n d).
Proof. induction n as [|n IH]; intro d; cbn [skip]; struct. Qed.

Lemma sasl_server_loop_rets n (Q : unit -> Prop) : (Q tt) -> forall sel, rets Q (sasl_server_loop n sel).
Proof. intro HQ. induction n as [|n IH]; intro sel; cbn [sasl_server_loop]; struct. all: destruct a; assumption. Qed.

Lemma negotiate_feature_rets n recv f : rets (builtin_outcome (f_kind f)) (negotiate_feature n recv f).
Proof.
  unfold negotiate_feature. destruct (f_kind f); destruct recv; cbn [builtin_outcome];
    unfold starttls_client, starttls_server, sasl_client, sasl_server, bind_client, bind_server,
           custom_server, custom_client, custom_outcome;
    struct; cbn; auto.
Qed.

(* ------------------------------------------------------------------ programs that leave the bits alone *)

Lemma skip_nob n : forall d, no_orbits (skip n d).
Proof. induction n as [|n IH]; intro d; cbn [skip]; struct. Qed.
#[export] Hint Resolve skip_nob : c04.

Lemma expect_nob n : forall first ws, no_orbits (expect n first ws).
Proof. induction n as [|n IH]; intros first ws; cbn [expect]; struct. Qed.
#[export] Hint Resolve expect_nob : c04.

Lemma sasl_decode_nob n a t : no_orbits (sasl_decode n a t).
Proof. unfold sasl_decode; struct. Qed.
#[export] Hint Resolve sasl_decode_nob : c04.

Lemma sasl_client_loop_nob n : forall more success, no_orbits (sasl_client_loop n more success).
Proof. induction n as [|n IH]; intros more success; cbn [sasl_client_loop]; struct. Qed.
#[export] Hint Resolve sasl_client_loop_nob : c04.

Lemma sasl_server_loop_nob n : forall sel, no_orbits (sasl_server_loop n sel).
Proof. induction n as [|n IH]; intro sel; cbn [sasl_server_loop]; struct. Qed.
#[export] Hint Resolve sasl_server_loop_nob : c04.

Lemma negotiate_feature_nob n recv f : no_orbits (negotiate_feature n recv f).
Proof.
  unfold negotiate_feature. destruct (f_kind f); destruct recv;
    unfold starttls_client, starttls_server, sasl_client, sasl_server, bind_client, bind_server,
           custom_server, custom_client, custom_outcome;
    struct.
Qed.

Lemma list_features_nob fs : forall i bits acc, no_orbits (list_features fs i bits acc).
Proof. induction fs as [|f fs IH]; intros i bits acc; cbn [list_features]; struct. Qed.
#[export] Hint Resolve list_features_nob : c04.

Lemma write_features_nob cfg : no_orbits (write_features cfg).
Proof. unfold write_features; struct. Qed.

Lemma read_children_nob n cfg : forall acc, no_orbits (read_children n cfg acc).
Proof. induction n as [|n IH]; intro acc; cbn [read_children]; struct. Qed.

Lemma trim_space_nob n : no_orbits (trim_space n).
Proof. induction n as [|n IH]; cbn [trim_space]; struct. Qed.

Lemma comp_header_nob n : forall fp, no_orbits (comp_header n fp).
Proof. induction n as [|n IH]; intro fp; cbn [comp_header]; struct. Qed.
#[export] Hint Resolve comp_header_nob : c04.

Lemma comp_call_nob n : no_orbits (comp_call n).
Proof. unfold comp_call; struct. Qed.

(* ------------------------------------------------------------------ the cache of a features list *)

(* an entry for the bind feature is always marked required *)
Definition entry_ok (cfg : config) (e : nat * bool) : Prop :=
  forall ft, nth_error (c_feats cfg) (fst e) = Some ft -> f_kind ft = FBind -> snd e = true.

Definition cache_ok (cfg : config) (c : list (nat * bool)) : Prop := Forall (entry_ok cfg) c.

Lemma cache_ok_add cfg f r c : entry_ok cfg (f, r) -> cache_ok cfg c -> cache_ok cfg (cache_add f r c).
Proof.
  intros He Hc. unfold cache_add, cache_ok. constructor; [exact He|].
  apply Forall_forall. intros e Hin. apply filter_In in Hin. destruct Hin as [Hin _].
  unfold cache_ok in Hc. rewrite Forall_forall in Hc. apply Hc. exact Hin.
Qed.

Lemma cache_find_in f c : forall r, cache_find f c = Some r -> In (f, r) c.
Proof.
  induction c as [|[g r0] c IH]; intros r; cbn [cache_find]; [discriminate|].
  destruct (g =? f) eqn:E.
  - intro H. inversion H; subst. apply Nat.eqb_eq in E. subst. left. reflexivity.
  - intro H. right. apply IH. exact H.
Qed.

Lemma cache_ok_find cfg c f r ft :
  cache_ok cfg c -> cache_find f c = Some r -> nth_error (c_feats cfg) f = Some ft ->
  f_kind ft = FBind -> r = true.
Proof.
  intros Hc Hf Hn Hk. apply cache_find_in in Hf. unfold cache_ok in Hc. rewrite Forall_forall in Hc.
  apply (Hc _ Hf ft); assumption.
Qed.

Lemma cache_ok_filter cfg p c : cache_ok cfg c -> cache_ok cfg (filter p c).
Proof.
  unfold cache_ok. rewrite !Forall_forall. intros H e Hin. apply filter_In in Hin. apply H. apply Hin.
Qed.

(* what list_features / read_children build satisfies it *)
Definition flist_ok (cfg : config) (l : flist) : Prop := cache_ok cfg (fl_cache l).

(* ------------------------------------------------------------------ a negotiator call never sets the Ready bit *)

(* (the bit is set by negotiateSession alone, from the mask the call returns) *)
Lemma run_feature_nrdy n recv f ft pre : nrdy (run_feature n recv f ft pre).
Proof.
  unfold run_feature. pose proof (no_orbits_nrdy (negotiate_feature_nob n recv ft)). struct.
Qed.

Lemma init_loop_nrdy n cfg l : forall k force negotiated ready, nrdy (init_loop k n cfg l force negotiated ready).
Proof.
  induction k as [|k IH]; intros force negotiated ready; cbn [init_loop]; [constructor|].
  pose proof (run_feature_nrdy n false). struct.
Qed.

Lemma recv_loop_nrdy cfg l : forall n negotiated ready, nrdy (recv_loop n cfg l negotiated ready).
Proof.
  induction n as [|n IH]; intros negotiated ready; cbn [recv_loop]; [constructor|].
  pose proof (run_feature_nrdy n true). pose proof (no_orbits_nrdy (trim_space_nob n)). struct.
Qed.

Lemma std_call_nrdy n cfg ns : nrdy (std_call n cfg ns).
Proof.
  unfold std_call, features_receiver, features_initiator.
  pose proof (fun f w => no_orbits_nrdy (expect_nob n f w)).
  pose proof (no_orbits_nrdy (write_features_nob cfg)).
  pose proof (fun acc => no_orbits_nrdy (read_children_nob n cfg acc)).
  pose proof (recv_loop_nrdy cfg). pose proof (init_loop_nrdy n cfg).
  pose proof (fun d => no_orbits_nrdy (skip_nob n d)).
  struct.
Qed.

Lemma comp_call_nrdy n : nrdy (comp_call n).
Proof. apply no_orbits_nrdy. apply comp_call_nob. Qed.

