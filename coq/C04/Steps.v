(* C04/Steps.v — in a run that returns Ok every Negotiate step that was started also
   returned without an error: the trace holds as many [ENegOk] as [ENegStart] events
   (run_feature logs ENegStart, runs the feature's Negotiate, and logs ENegOk only when it
   returned no error; a Negotiate that fails leaves an ENegStart without its ENegOk).
   Together with Generic.ok_clean (every scripted callback value of an Ok run - List, Parse,
   custom Negotiate, mechanism Step, bind callback - is not an error) this is "a nil error
   means that every executed List/Parse/Negotiate step returned no error". *)
From XV Require Import lib.Bytes gen.NegTables C04.Model C04.Generic C04.Structure.

Definition is_start (e : event) : bool := match e with ENegStart _ => true | _ => false end.
Definition is_ok (e : event) : bool := match e with ENegOk _ _ _ => true | _ => false end.
Definition starts (T : list event) : nat := length (filter is_start T).
Definition oks (T : list event) : nat := length (filter is_ok T).

(* as many completed as started *)
Definition bal (T : list event) : Prop := starts T = oks T.

Lemma starts_app a b : starts (a ++ b) = starts a + starts b.
Proof. unfold starts. rewrite filter_app, app_length. reflexivity. Qed.
Lemma oks_app a b : oks (a ++ b) = oks a + oks b.
Proof. unfold oks. rewrite filter_app, app_length. reflexivity. Qed.

Lemma bal_app a b : bal a -> bal b -> bal (a ++ b).
Proof. unfold bal. rewrite starts_app, oks_app. lia. Qed.

Lemma bal_nil : bal [].
Proof. reflexivity. Qed.

Definition plain (e : event) : Prop := is_start e = false /\ is_ok e = false.

Lemma bal_plain e : plain e -> bal [e].
Proof. intros [H1 H2]. unfold bal, starts, oks. cbn. rewrite H1, H2. reflexivity. Qed.

Lemma bal_reads nr : (forall e, In e nr -> exists b, e = ERead b) -> bal nr.
Proof.
  induction nr as [|e nr IH]; intro H; [apply bal_nil|].
  change (e :: nr) with ([e] ++ nr). apply bal_app.
  - destruct (H e (or_introl eq_refl)) as [b Hb]. subst e. apply bal_plain. split; reflexivity.
  - apply IH. intros e0 Hin. apply H. right. exact Hin.
Qed.

(* the events p adds to the trace in an Ok run are balanced *)
Definition spec {A} (p : prog A) : Prop :=
  forall pl w a w', interp pl p w = (ROk a, w') -> exists new, w_trace w' = new ++ w_trace w /\ bal new.

(* ---- programs that log no Negotiate marker at all *)
Inductive quiet {A} : prog A -> Prop :=
| q_ret a : quiet (Ret a)
| q_fail : quiet Fail
| q_stuck : quiet Stuck
| q_fuel : quiet OutOfFuel
| q_rd k : (forall t, quiet (k t)) -> quiet (Rd k)
| q_wr s k : quiet k -> quiet (Wr s k)
| q_wru s k : quiet k -> quiet (WrU s k)
| q_ctx ke k : quiet k -> quiet (Ctx ke k)
| q_call ko ke : (forall v, quiet (ko v)) -> quiet (Call ko ke)
| q_get k : (forall b, quiet (k b)) -> quiet (GetBits k)
| q_or m k : quiet k -> quiet (OrBits m k)
| q_restart rs k : quiet k -> quiet (Restart rs k)
| q_log e k : plain e -> quiet k -> quiet (Log e k).

Lemma quiet_bind A B (p : prog A) (f : A -> prog B) : quiet p -> (forall a, quiet (f a)) -> quiet (bind p f).
Proof. intros Hp Hf. induction Hp; cbn; try (constructor; auto; fail). apply Hf. Qed.

Lemma quiet_feed A (p : prog A) : quiet p -> forall ts, quiet (feed ts p).
Proof. induction 1; intros [|t ts]; cbn; try (constructor; auto; fail); auto. Qed.

(* what an Ok run of any program adds: one lemma per constructor *)
Lemma spec_ret A (a : A) : spec (Ret a).
Proof. intros pl w a0 w' H. cbn in H. inversion H; subst. exists []. split; [reflexivity | apply bal_nil]. Qed.
Lemma spec_fail A : spec (@Fail A).  Proof. intros pl w a w' H. discriminate. Qed.
Lemma spec_stuck A : spec (@Stuck A).  Proof. intros pl w a w' H. discriminate. Qed.
Lemma spec_fuel A : spec (@OutOfFuel A).  Proof. intros pl w a w' H. discriminate. Qed.

Lemma spec_rd A (k : tok -> prog A) : (forall t, spec (k t)) -> spec (Rd k).
Proof.
  intros Hk pl w a w'. cbn [interp]. unfold read_tok.
  destruct (read_tok_from_trace pl (w_script w) w) as [nr [Ht Hr]].
  destruct (read_tok_from pl w (w_script w)) as [[t|] w1]; [|discriminate]. cbn [snd] in Ht.
  intro H. destruct (Hk t pl w1 a w' H) as [new [Hn Hb]].
  exists (new ++ nr). split; [rewrite Hn, Ht, app_assoc; reflexivity | apply bal_app; [exact Hb | apply bal_reads; exact Hr]].
Qed.

Lemma spec_step A (k : prog A) (f : world -> world) (e : event) :
  (forall w, w_trace (f w) = e :: w_trace w) -> plain e -> spec k ->
  forall pl w a w', interp pl k (f w) = (ROk a, w') -> exists new, w_trace w' = new ++ w_trace w /\ bal new.
Proof.
  intros Hf He Hk pl w a w' H. destruct (Hk pl (f w) a w' H) as [new [Hn Hb]].
  exists (new ++ [e]). split; [rewrite Hn, Hf, <- app_assoc; reflexivity | apply bal_app; [exact Hb | apply bal_plain; exact He]].
Qed.

Lemma spec_wr A s (k : prog A) : spec k -> spec (Wr s k).
Proof.
  intros Hk pl w a w'. cbn [interp]. unfold do_write. destruct (op_ok pl w true); [|discriminate].
  intro H. eapply spec_step with (f := fun w0 => mkW (S (w_ops w0)) (w_script w0) (w_tls w0) (w_tlslayer w0) false (w_wdead w0) (w_bits w0) (w_calls w0) (EWrite s true :: w_trace w0));
    [reflexivity | split; reflexivity | exact Hk | exact H].
Qed.

Lemma spec_wru A s (k : prog A) : spec k -> spec (WrU s k).
Proof.
  intros Hk pl w a w'. cbn [interp]. unfold do_write. intro H.
  eapply spec_step with (f := fun w0 => mkW (S (w_ops w0)) (w_script w0) (w_tls w0) (w_tlslayer w0) false (w_wdead w0) (w_bits w0) (w_calls w0) (EWrite s (op_ok pl w true) :: w_trace w0));
    [reflexivity | split; reflexivity | exact Hk | exact H].
Qed.

Lemma spec_ctx A (ke k : prog A) : spec k -> spec (Ctx ke k).
Proof.
  intros Hk pl w a w'. cbn [interp]. destruct (ctx_done pl w); [discriminate|].
  intro H. eapply spec_step with (f := fun w0 => set_trace w0 (ECtxPass (w_ops w))); [reflexivity | split; reflexivity | exact Hk | exact H].
Qed.

Lemma spec_call A (ko ke : sval -> prog A) : (forall v, spec (ko v)) -> spec (Call ko ke).
Proof.
  intros Hk pl w a w'. cbn [interp]. destruct (w_calls w) as [|v vs]; [discriminate|].
  destruct (sval_err v); [discriminate|]. intro H.
  eapply spec_step with (f := fun w0 => mkW (w_ops w0) (w_script w0) (w_tls w0) (w_tlslayer w0) (w_hs w0) (w_wdead w0) (w_bits w0) vs (ECall v :: w_trace w0));
    [reflexivity | split; reflexivity | apply Hk | exact H].
Qed.

Lemma spec_get A (k : N -> prog A) : (forall b, spec (k b)) -> spec (GetBits k).
Proof. intros Hk pl w a w'. cbn [interp]. apply Hk. Qed.

Lemma spec_or A m (k : prog A) : spec k -> spec (OrBits m k).
Proof.
  intros Hk pl w a w'. cbn [interp]. intro H. destruct (Hk _ _ _ _ H) as [new [Hn Hb]].
  exists new. split; [exact Hn | exact Hb].
Qed.

Lemma spec_restart A rs (k : prog A) : spec k -> spec (Restart rs k).
Proof.
  intros Hk pl w a w'. cbn [interp]. intro H. destruct (Hk _ _ _ _ H) as [new [Hn Hb]].
  exists new. split; [rewrite Hn; destruct rs; reflexivity | exact Hb].
Qed.

Lemma spec_log A e (k : prog A) : plain e -> spec k -> spec (Log e k).
Proof.
  intros He Hk pl w a w'. cbn [interp]. intro H.
  eapply spec_step with (f := fun w0 => set_trace w0 e); [reflexivity | exact He | exact Hk | exact H].
Qed.

Lemma spec_bind A B (p : prog A) (f : A -> prog B) : spec p -> (forall a, spec (f a)) -> spec (bind p f).
Proof.
  intros Hp Hf pl w b w' H. apply interp_bind_ok in H. destruct H as [a [w1 [H1 H2]]].
  destruct (Hp _ _ _ _ H1) as [n1 [Ht1 Hb1]]. destruct (Hf a _ _ _ _ H2) as [n2 [Ht2 Hb2]].
  exists (n2 ++ n1). split; [rewrite Ht2, Ht1, app_assoc; reflexivity | apply bal_app; assumption].
Qed.

Theorem quiet_spec A (p : prog A) : quiet p -> spec p.
Proof.
  induction 1; auto using spec_ret, spec_fail, spec_stuck, spec_fuel, spec_rd, spec_wr, spec_wru, spec_ctx,
                          spec_call, spec_get, spec_or, spec_restart, spec_log.
Qed.


(* ------------------------------------------------------------------ the programs of the model *)

Create HintDb qdb.

Ltac qstep :=
  first
  [ progress intros
  | match goal with
    | |- quiet (bind _ _) => apply quiet_bind
    | |- quiet (feed _ _) => apply quiet_feed
    end
  | solve [auto with qdb]
  | match goal with
    | |- quiet (Log _ _) => apply q_log; [split; reflexivity|]
    | |- quiet _ => constructor
    end
  | split_match ].
Ltac qt := open_defs; cbn [bind]; repeat qstep.

Lemma skip_quiet n : forall d, quiet (skip n d).
Proof. induction n as [|n IH]; intro d; cbn [skip]; qt. Qed.
#[export] Hint Resolve skip_quiet : qdb.

Lemma expect_quiet n : forall first ws, quiet (expect n first ws).
Proof. induction n as [|n IH]; intros first ws; cbn [expect]; qt. Qed.
#[export] Hint Resolve expect_quiet : qdb.

Lemma sasl_decode_quiet n a t : quiet (sasl_decode n a t).
Proof. unfold sasl_decode; qt. Qed.
#[export] Hint Resolve sasl_decode_quiet : qdb.

Lemma sasl_client_loop_quiet n : forall more success, quiet (sasl_client_loop n more success).
Proof. induction n as [|n IH]; intros more success; cbn [sasl_client_loop]; qt. Qed.
#[export] Hint Resolve sasl_client_loop_quiet : qdb.

Lemma sasl_server_loop_quiet n : forall sel, quiet (sasl_server_loop n sel).
Proof. induction n as [|n IH]; intro sel; cbn [sasl_server_loop]; qt. Qed.
#[export] Hint Resolve sasl_server_loop_quiet : qdb.

Lemma negotiate_feature_quiet n recv f : quiet (negotiate_feature n recv f).
Proof.
  unfold negotiate_feature. destruct (f_kind f); destruct recv;
    unfold starttls_client, starttls_server, sasl_client, sasl_server, bind_client, bind_server,
           custom_server, custom_client, custom_outcome; qt.
Qed.

Lemma list_features_quiet fs : forall i bits acc, quiet (list_features fs i bits acc).
Proof. induction fs as [|f fs IH]; intros i bits acc; cbn [list_features]; qt. Qed.
#[export] Hint Resolve list_features_quiet : qdb.

Lemma write_features_quiet cfg : quiet (write_features cfg).
Proof. unfold write_features; qt. Qed.
#[export] Hint Resolve write_features_quiet : qdb.

Lemma read_children_quiet n cfg : forall acc, quiet (read_children n cfg acc).
Proof. induction n as [|n IH]; intro acc; cbn [read_children]; qt. Qed.
#[export] Hint Resolve read_children_quiet : qdb.

Lemma trim_space_quiet n : quiet (trim_space n).
Proof. induction n as [|n IH]; cbn [trim_space]; qt. Qed.
#[export] Hint Resolve trim_space_quiet : qdb.

Lemma comp_header_quiet n : forall fp, quiet (comp_header n fp).
Proof. induction n as [|n IH]; intro fp; cbn [comp_header]; qt. Qed.
#[export] Hint Resolve comp_header_quiet : qdb.

Lemma comp_call_quiet n : quiet (comp_call n).
Proof. unfold comp_call; qt. Qed.

(* run_feature: ENegStart, the (quiet) Negotiate, and ENegOk when - and only when - it
   returned no error *)
Lemma run_feature_spec n recv f ft pre : spec (run_feature n recv f ft pre).
Proof.
  intros pl w o w'. unfold run_feature, logev, or_bits. cbn [bind interp]. rewrite interp_bind.
  assert (Hq : spec (feed pre (negotiate_feature n recv ft))) by (apply quiet_spec; apply quiet_feed; apply negotiate_feature_quiet).
  destruct (interp pl (feed pre (negotiate_feature n recv ft)) (set_trace w (ENegStart f))) as [[o1| | |] w1] eqn:E;
    try discriminate.
  cbn [interp]. intro H. inversion H; subst. destruct (Hq _ _ _ _ E) as [new [Hn Hb]]. cbn in Hn.
  exists ([ENegOk f (fst o) (snd o)] ++ new ++ [ENegStart f]). split.
  - cbn. rewrite Hn, <- app_assoc. reflexivity.
  - unfold bal in *. rewrite !starts_app, !oks_app. unfold starts at 1 3, oks at 1 3. cbn. lia.
Qed.

Create HintDb spdb.
#[export] Hint Resolve run_feature_spec : spdb.
#[export] Hint Extern 2 (spec _) => (apply quiet_spec; solve [auto with qdb]) : spdb.

Ltac spstep :=
  first
  [ progress intros
  | solve [auto with spdb]
  | match goal with
    | |- spec (bind _ _) => apply spec_bind
    | |- spec (Rd _) => apply spec_rd
    | |- spec (Wr _ _) => apply spec_wr
    | |- spec (WrU _ _) => apply spec_wru
    | |- spec (Ctx _ _) => apply spec_ctx
    | |- spec (Call _ _) => apply spec_call
    | |- spec (GetBits _) => apply spec_get
    | |- spec (OrBits _ _) => apply spec_or
    | |- spec (Restart _ _) => apply spec_restart
    | |- spec (Log _ _) => apply spec_log; [split; reflexivity|]
    | |- spec (Ret _) => apply spec_ret
    | |- spec Fail => apply spec_fail
    | |- spec Stuck => apply spec_stuck
    | |- spec OutOfFuel => apply spec_fuel
    end
  | split_match ].
Ltac sp := open_defs; cbn [bind]; repeat spstep.

Lemma init_loop_spec n cfg l : forall k force negotiated ready, spec (init_loop k n cfg l force negotiated ready).
Proof. induction k as [|k IH]; intros force negotiated ready; cbn [init_loop]; sp. Qed.
#[export] Hint Resolve init_loop_spec : spdb.

Lemma features_initiator_spec n cfg first : spec (features_initiator n cfg first).
Proof. unfold features_initiator; sp. Qed.
#[export] Hint Resolve features_initiator_spec : spdb.

Lemma recv_loop_spec cfg l : forall n negotiated ready, spec (recv_loop n cfg l negotiated ready).
Proof. induction n as [|n IH]; intros negotiated ready; cbn [recv_loop]; sp. Qed.
#[export] Hint Resolve recv_loop_spec : spdb.

Lemma features_receiver_spec n cfg : spec (features_receiver n cfg).
Proof. unfold features_receiver; sp. Qed.
#[export] Hint Resolve features_receiver_spec : spdb.

Lemma std_call_spec n cfg ns : spec (std_call n cfg ns).
Proof. unfold std_call; sp. Qed.
#[export] Hint Resolve std_call_spec : spdb.

Lemma comp_call_spec n : spec (comp_call n).
Proof. apply quiet_spec. apply comp_call_quiet. Qed.
#[export] Hint Resolve comp_call_spec : spdb.

Lemma session_spec n cfg : forall m ns, spec (session n m cfg ns).
Proof. induction m as [|m IH]; intro ns; cbn [session]; sp. Qed.

(* every Negotiate step that was started in a run that returns Ok returned without an error *)
Theorem run_ok_negotiates_completed cfg pl bits clear tls calls w :
  run cfg pl bits clear tls calls = (ROk tt, w) -> starts (w_trace w) = oks (w_trace w).
Proof.
  unfold run. intro H.
  assert (Hi : interp pl (session (fuel_of clear tls) (fuel_of clear tls) cfg (mkNS true false)) (init_world bits clear tls calls) = (ROk tt, w)).
  { destruct (interp pl _ _) as [[[]| | |] w0]; unfold finish in H; cbn in H; inversion H; reflexivity. }
  destruct (session_spec _ cfg _ _ _ _ _ _ Hi) as [new [Hn Hb]]. cbn in Hn. rewrite app_nil_r in Hn. rewrite Hn. exact Hb.
Qed.
