(* C04/Model.v — session establishment under faults.

   An executable model of session.go negotiateSession, negotiator.go, features.go,
   internal/stream Expect/Send, starttls.go, sasl.go, bind.go, component/component.go and
   the WebSocket framing variant, with an explicit I/O plan: every Read and Write the
   library performs on its connection is an indexed operation that the plan may fail
   ("cut": every operation from index k on; "transient": exactly operation k), and the
   context may be cancelled at an operation index.

   The code is written as programs of a small free monad [prog]; the interpreter [interp]
   owns the connection (peer script, operation counter, TLS layer), the session state bits,
   the scripted callback values and the trace.  What the library does with an error is
   fixed by the constructor used: [Wr] is a write whose error is returned, [WrU] a write
   whose error is dropped (the deferred Close flush of a partly written features list; until
   its repair also that of sasl.go's <success/>), [Rd] a token
   read (its error is always returned), [Ctx] an explicit ctx.Done() test, [Call] a callback
   whose error is returned after an optional clean-up program.

   Only definitions here; proofs are in Generic.v / Proofs.v. *)
From XV Require Import lib.Bytes gen.NegTables gen.C04Facts.

(* ------------------------------------------------------------------ bits *)

Definition has (bits m : N) : bool := N.eqb (N.land bits m) m.
Definition none_of (bits m : N) : bool := N.eqb (N.land bits m) 0%N.
Definition is_ready (bits : N) : bool := has bits st_Ready.

(* ------------------------------------------------------------------ tokens *)

(* Role of an element inside the protocol of the feature that owns its name space. *)
Inductive elt :=
| EStarttls | EProceed | ETlsFailure
| EAuth (mech b64 : bool) | EResponse (b64 : bool) | EAbort
| EChallenge (b64 : bool) | ESuccess (b64 : bool) | ESaslFailure
| EBindReq | ECustom | EUnknown.

(* Class of a start tag, as far as the control flow of the negotiation looks at it. *)
Inductive cls :=
| KHdr (valid addr id : bool)        (* <stream:stream> / <open/>: passes Expect's checks, the
                                        negotiator's address checks, carries an id *)
| KFeatures                          (* <stream:features> / <features xmlns=streams> *)
| KFeat (f : nat) (req perr : bool)  (* child of the features list whose name is that of the
                                        f-th configured feature (f >= #features: none); what
                                        Parse reports *)
| KSel (f : nat) (e : elt)           (* element in the name space of the f-th configured feature *)
| KIq (ok : bool)                    (* <iq>; ok: an acceptable bind result (id, type, jid) *)
| KHandshake | KCompErr              (* component: <handshake/>, element with local name error *)
| KStreamErr                         (* <stream:error> (ws: <error xmlns=streams>) at the top level: the readers
                                        that look for it decode the whole element and return it *)
| KInner                             (* start tag below the top level *)
| KOther.                            (* anything else, e.g. <stream:error>: every reader fails *)

Inductive tok :=
| Open (c : cls) | Close | Text (ws : bool)
| Decl   (* <?xml ...?> *)
| Junk.  (* other processing instruction, comment, directive *)

(* The peer's stream: tokens, with a [Brk] wherever the library must Read from the
   connection again (one connection Read delivers what lies up to the next [Brk]). *)
Inductive sitem := T (t : tok) | Brk.

(* ------------------------------------------------------------------ configuration *)

Inductive fkind := FStartTLS | FSASL | FBind | FCustom.

Record feature := mkF {
  f_kind : fkind;
  f_nec : N; f_proh : N;   (* used for FCustom; the built-in ones take theirs from gen/NegTables.v *)
  f_neg : bool;            (* Negotiate != nil *)
  f_lreq : bool;           (* FCustom: List reports required *)
  f_lerr : bool            (* FCustom: List fails *)
}.

Definition nec_of (f : feature) : N :=
  match f_kind f with
  | FStartTLS => ft_starttls_nec | FSASL => ft_sasl_nec | FBind => ft_bind_nec | FCustom => f_nec f
  end.
Definition proh_of (f : feature) : N :=
  match f_kind f with
  | FStartTLS => ft_starttls_proh | FSASL => ft_sasl_proh | FBind => ft_bind_proh | FCustom => f_proh f
  end.
Definition neg_of (f : feature) : bool :=
  match f_kind f with
  | FStartTLS => ft_starttls_negotiable | FSASL => ft_sasl_negotiable | FBind => ft_bind_negotiable
  | FCustom => f_neg f
  end.
Definition allowed (f : feature) (bits : N) : bool :=
  has bits (nec_of f) && none_of bits (proh_of f).

Inductive negkind := NStd | NComp.

Record config := mkCfg {
  c_neg : negkind;
  c_ws : bool;
  c_feats : list feature
}.

(* ------------------------------------------------------------------ scripted values *)

Inductive serr := SNone | SAuthn | SOther.
Inductive berr := BOk | BStanza | BErr.   (* bind callback: jid / stanza error (answered, then returned) / other error *)

Inductive sval :=
| VChoice (f : nat)                           (* initiator: the feature picked from the cache (map order) *)
| VOut (mask : N) (restart : bool) (err : bool)   (* outcome of a custom feature's Negotiate *)
| VStep (more : bool) (err : serr)            (* one Step of the SASL mechanism *)
| VBind (err : berr)                          (* the bind callback of the receiving side *)
| VList (req err : bool)                      (* what a custom feature's List reported *)
| VParse (req err : bool).                    (* what a custom feature's Parse reported *)

Definition sval_err (v : sval) : bool :=
  match v with
  | VChoice _ => false
  | VOut _ _ e => e
  | VStep _ e => match e with SNone => false | _ => true end
  | VBind e => match e with BOk => false | _ => true end
  | VList _ e => e
  | VParse _ e => e
  end.

(* ------------------------------------------------------------------ programs *)

Inductive wsite :=
| WHeader | WFeatures | WPartial | WStarttls | WProceed | WAuth | WResponse | WChallenge
| WSuccess | WSaslFail | WBindReq | WBindRes | WHandshake.

Inductive rskind := RSNone | RSSame | RSTls.

Inductive event :=
| ERead (ok : bool)
| EWrite (s : wsite) (ok : bool)
| ECall (v : sval)
| EParse (f : nat)
| EList (f : nat)
| ENegStart (f : nat)
| ENegOk (f : nat) (mask : N) (rs : rskind)
| ECtxErr
| ECtxPass (n : nat).   (* ghost: a ctx.Done() test passed when n operations had been performed *)

Inductive prog (A : Type) : Type :=
| Ret (a : A)
| Fail                                         (* the step returns an error *)
| Stuck                                        (* the case is outside the model (illegal choice, value of the wrong kind) *)
| OutOfFuel
| Rd (k : tok -> prog A)                       (* next token of the input stream *)
| Wr (s : wsite) (k : prog A)                  (* write/flush whose error is returned *)
| WrU (s : wsite) (k : prog A)                 (* write/flush whose error is dropped *)
| Ctx (kerr : prog A) (k : prog A)             (* ctx.Done() test; kerr: clean-up before returning ctx.Err() *)
| Call (kok : sval -> prog A) (kerr : sval -> prog A)  (* next scripted callback value; on an error value: kerr v, then the error *)
| GetBits (k : N -> prog A)
| OrBits (m : N) (k : prog A)
| Restart (rs : rskind) (k : prog A)           (* the negotiator returned a new ReadWriter *)
| Log (e : event) (k : prog A).

Arguments Ret {A}. Arguments Fail {A}. Arguments Stuck {A}. Arguments OutOfFuel {A}.
Arguments Rd {A}. Arguments Wr {A}. Arguments WrU {A}. Arguments Ctx {A}. Arguments Call {A}.
Arguments GetBits {A}. Arguments OrBits {A}. Arguments Restart {A}. Arguments Log {A}.

Fixpoint bind {A B} (p : prog A) (f : A -> prog B) : prog B :=
  match p with
  | Ret a => f a
  | Fail => Fail
  | Stuck => Stuck
  | OutOfFuel => OutOfFuel
  | Rd k => Rd (fun t => bind (k t) f)
  | Wr s k => Wr s (bind k f)
  | WrU s k => WrU s (bind k f)
  | Ctx ke k => Ctx (bind ke (fun _ => Fail)) (bind k f)
  | Call ko ke => Call (fun v => bind (ko v) f) (fun v => bind (ke v) (fun _ => Fail))
  | GetBits k => GetBits (fun b => bind (k b) f)
  | OrBits m k => OrBits m (bind k f)
  | Restart rs k => Restart rs (bind k f)
  | Log e k => Log e (bind k f)
  end.

Notation "x <- p ;; q" := (bind p (fun x => q)) (at level 61, p at next level, right associativity).
Notation "p ;;; q" := (bind p (fun _ => q)) (at level 61, right associativity).

Definition rd : prog tok := Rd (fun t => Ret t).
Definition wr (s : wsite) : prog unit := Wr s (Ret tt).
Definition wru (s : wsite) : prog unit := WrU s (Ret tt).
Definition ctx : prog unit := Ctx Fail (Ret tt).
Definition call : prog sval := Call (fun v => Ret v) (fun _ => Fail).
Definition get_bits : prog N := GetBits (fun b => Ret b).
Definition or_bits (m : N) : prog unit := OrBits m (Ret tt).
Definition logev (e : event) : prog unit := Log e (Ret tt).
Definition guard (b : bool) : prog unit := if b then Ret tt else Fail.

(* [feed ts p]: p with the tokens ts put back in front of its input (xmlstream.MultiReader
   of the popped start tokens and the decoder); tokens p does not read are dropped. *)
Fixpoint feed {A} (ts : list tok) (p : prog A) : prog A :=
  match ts with
  | [] => p
  | t :: ts' =>
      match p with
      | Rd k => feed ts' (k t)
      | Wr s k => Wr s (feed ts k)
      | WrU s k => WrU s (feed ts k)
      | Ctx ke k => Ctx ke (feed ts k)
      | Call ko ke => Call (fun v => feed ts (ko v)) ke
      | GetBits k => GetBits (fun b => feed ts (k b))
      | OrBits m k => OrBits m (feed ts k)
      | Restart rs k => Restart rs (feed ts k)
      | Log e k => Log e (feed ts k)
      | _ => p
      end
  end.

(* ------------------------------------------------------------------ the world *)

Inductive fault := FNone | FCut (k : nat) | FTransient (k : nat).

(* The class of the error a failing operation returns. The library does not look at it: every
   class ends the step in the same way (gen/C04Facts.v negsession_keeps_step_error pins that
   negotiateSession does not replace a step's error, e.g. a timeout by a nil ctx.Err()); it is
   part of the plan so that the theorems are stated for every class. *)
Inductive eclass := CGeneric | CEOF | CUnexpectedEOF | CTimeout | CTemporary | CWrapped.

Record plan := mkPlan {
  p_fault : fault;
  p_class : eclass;       (* what kind of error the failing operations return *)
  p_cancel : option nat;  (* the context is cancelled at operation c: *)
  p_entry : bool;         (*   true: when c is entered or while it is blocked; false: when it has succeeded *)
  p_deadline : bool;      (* the transport has deadlines: session.go's setDeadline keeps the deadline
                             expired from the cancellation on, so every operation after it fails
                             (and operation c itself when it had not completed) *)
  p_ctx_deadline : bool;  (* shape of the context: it carries a deadline of its own (WithTimeout /
                             WithDeadline, cancelled early or expiring by itself) *)
  p_hs_ok : bool          (* the TLS handshake succeeds when nothing is injected *)
}.

(* session.go setDeadline watches ctx.Done() for a context of this shape (it does for every
   shape: gen/C04Facts.v, read from the source) *)
Definition watched (pl : plan) : bool :=
  if p_ctx_deadline pl then setdeadline_watcher_unconditional else true.

Definition fault_fail (f : fault) (i : nat) : bool :=
  match f with
  | FNone => false
  | FCut k => k <=? i
  | FTransient k => i =? k
  end.

Definition cancel_fail (pl : plan) (i : nat) : bool :=
  match p_cancel pl with
  | Some c => p_deadline pl && watched pl && ((c <? i) || ((i =? c) && p_entry pl))
  | None => false
  end.

Definition p_fail (pl : plan) (i : nat) : bool := fault_fail (p_fault pl) i || cancel_fail pl i.

Record world := mkW {
  w_ops : nat;              (* operations performed so far *)
  w_script : list sitem;    (* rest of the peer's stream on the current layer *)
  w_tls : list sitem;       (* the peer's stream on the TLS layer (before the switch) *)
  w_tlslayer : bool;
  w_hs : bool;              (* TLS handshake still pending *)
  w_wdead : bool;           (* unused since the repair of sasl.go: a failed write now always ends the run, so
                               crypto/tls's permanent write error can no longer be observed *)
  w_bits : N;
  w_calls : list sval;
  w_trace : list event      (* newest first *)
}.

Definition ctx_done (pl : plan) (w : world) : bool :=
  match p_cancel pl with Some c => c <? w_ops w | None => false end.

Definition set_trace (w : world) (e : event) : world :=
  mkW (w_ops w) (w_script w) (w_tls w) (w_tlslayer w) (w_hs w) (w_wdead w) (w_bits w) (w_calls w) (e :: w_trace w).

(* One connection operation: its index, whether it succeeds. *)
Definition op_ok (pl : plan) (w : world) (is_write : bool) : bool :=
  negb (p_fail pl (w_ops w)) && negb (w_hs w && negb (p_hs_ok pl)).

Definition do_write (pl : plan) (s : wsite) (w : world) : bool * world :=
  let ok := op_ok pl w true in
  (ok, mkW (S (w_ops w)) (w_script w) (w_tls w) (w_tlslayer w) false
           (w_wdead w) (w_bits w) (w_calls w) (EWrite s ok :: w_trace w)).

Definition do_read_op (pl : plan) (w : world) (rest : list sitem) (avail : bool) : bool * world :=
  let ok := op_ok pl w false && avail in
  (ok, mkW (S (w_ops w)) rest (w_tls w) (w_tlslayer w) false (w_wdead w) (w_bits w) (w_calls w)
           (ERead ok :: w_trace w)).

(* Next token: from what the last Read delivered, else by a connection Read. *)
Fixpoint read_tok_from (pl : plan) (w : world) (s : list sitem) : option tok * world :=
  match s with
  | T t :: r => (Some t, mkW (w_ops w) r (w_tls w) (w_tlslayer w) (w_hs w) (w_wdead w) (w_bits w) (w_calls w) (w_trace w))
  | Brk :: r =>
      let (ok, w') := do_read_op pl w r true in
      if ok then read_tok_from pl w' r else (None, w')
  | [] => let (_, w') := do_read_op pl w [] false in (None, w')
  end.
Definition read_tok (pl : plan) (w : world) : option tok * world := read_tok_from pl w (w_script w).

Fixpoint drop_to_brk (s : list sitem) : list sitem :=
  match s with
  | T _ :: r => drop_to_brk r
  | _ => s
  end.

Definition do_restart (rs : rskind) (w : world) : world :=
  match rs with
  | RSNone => w
  | RSSame => mkW (w_ops w) (drop_to_brk (w_script w)) (w_tls w) (w_tlslayer w) (w_hs w) (w_wdead w) (w_bits w) (w_calls w) (w_trace w)
  | RSTls => mkW (w_ops w) (w_tls w) [] true true false (w_bits w) (w_calls w) (w_trace w)
  end.

Inductive res (A : Type) := ROk (a : A) | RErr | RStuck | RFuel.
Arguments ROk {A}. Arguments RErr {A}. Arguments RStuck {A}. Arguments RFuel {A}.

Definition run_ignored {A} (r : res A * world) : world := snd r.

Fixpoint interp {A} (pl : plan) (p : prog A) (w : world) : res A * world :=
  match p with
  | Ret a => (ROk a, w)
  | Fail => (RErr, w)
  | Stuck => (RStuck, w)
  | OutOfFuel => (RFuel, w)
  | Rd k =>
      match read_tok pl w with
      | (Some t, w') => interp pl (k t) w'
      | (None, w') => (RErr, w')
      end
  | Wr s k =>
      let (ok, w') := do_write pl s w in
      if ok then interp pl k w' else (RErr, w')
  | WrU s k =>
      let (_, w') := do_write pl s w in interp pl k w'
  | Ctx ke k =>
      if ctx_done pl w then (RErr, set_trace (snd (interp pl ke w)) ECtxErr)
      else interp pl k (set_trace w (ECtxPass (w_ops w)))
  | Call ko ke =>
      match w_calls w with
      | [] => (RStuck, w)
      | v :: vs =>
          let w' := mkW (w_ops w) (w_script w) (w_tls w) (w_tlslayer w) (w_hs w) (w_wdead w) (w_bits w) vs (ECall v :: w_trace w) in
          if sval_err v then (RErr, snd (interp pl (ke v) w')) else interp pl (ko v) w'
      end
  | GetBits k => interp pl (k (w_bits w)) w
  | OrBits m k =>
      interp pl k (mkW (w_ops w) (w_script w) (w_tls w) (w_tlslayer w) (w_hs w) (w_wdead w) (N.lor (w_bits w) m) (w_calls w) (w_trace w))
  | Restart rs k => interp pl k (do_restart rs w)
  | Log e k => interp pl k (set_trace w e)
  end.

(* ------------------------------------------------------------------ reading helpers *)

(* Consume the rest of the element whose start tag was just read (DecodeElement, Skip,
   Copy to Discard): d = number of inner elements currently open. *)
Fixpoint skip (n d : nat) : prog unit :=
  match n with
  | O => OutOfFuel
  | S n' => Rd (fun t =>
      match t with
      | Open _ => skip n' (S d)
      | Close => match d with O => Ret tt | S d' => skip n' d' end
      | _ => skip n' d
      end)
  end.

(* ------------------------------------------------------------------ internal/stream: Expect *)

(* Returns (addr, id) of the accepted header. *)
Fixpoint expect (n : nat) (first ws : bool) : prog (bool * bool) :=
  match n with
  | O => OutOfFuel
  | S n' =>
      ctx ;;;
      Rd (fun t =>
        let handle (t : tok) : prog (bool * bool) :=
          match t with
          | Text true => expect n' false ws
          | Close => expect n' false ws
          | Open (KHdr valid addr id) =>
              (if ws then skip n' 0 else Ret tt) ;;;
              guard valid ;;; Ret (addr, id)
          | Open KStreamErr => skip n' 0 ;;; Fail
          | _ => Fail
          end in
        match t with
        | Decl => if first then Rd handle else Fail   (* decl.Skip: the declaration is dropped *)
        | _ => handle t
        end)
  end.

(* ------------------------------------------------------------------ feature negotiation *)

Definition outcome := (N * rskind)%type.   (* mask, new ReadWriter *)

Definition starttls_client (n : nat) : prog outcome :=
  wr WStarttls ;;;
  Rd (fun t =>
    match t with
    | Open (KSel _ EProceed) => skip n 0 ;;; Ret (st_Secure, RSTls)
    | Open (KSel _ ETlsFailure) => skip n 0 ;;; Fail
    | Open KStreamErr => skip n 0 ;;; Fail
    | _ => Fail
    end).

Definition starttls_server : prog outcome :=
  wr WProceed ;;; Ret (st_Secure, RSTls).

(* decodeSASLChallenge: (success) or failure of the step *)
Definition sasl_decode (n : nat) (allow_challenge : bool) (t : tok) : prog bool :=
  match t with
  | Open (KSel _ (EChallenge b64)) =>
      if allow_challenge then skip n 0 ;;; guard b64 ;;; Ret false else Fail
  | Open (KSel _ (ESuccess b64)) => skip n 0 ;;; guard b64 ;;; Ret true
  | Open (KSel _ ESaslFailure) => skip n 0 ;;; Fail
  | Open KStreamErr => skip n 0 ;;; Fail
  | _ => Fail
  end.

Definition step : prog bool :=     (* more *)
  v <- call ;; match v with VStep more _ => Ret more | _ => Stuck end.

Fixpoint sasl_client_loop (n : nat) (more success : bool) : prog bool :=   (* returns success *)
  match n with
  | O => OutOfFuel
  | S n' =>
      if more then
        ctx ;;;
        t <- rd ;;
        success' <- sasl_decode n' true t ;;
        more' <- step ;;
        if negb more' && success' then Ret true
        else wr WResponse ;;; sasl_client_loop n' more' success'
      else Ret success
  end.

Definition sasl_client (n : nat) : prog outcome :=
  more <- step ;;
  wr WAuth ;;;
  success <- sasl_client_loop n more false ;;
  (if success then Ret tt
   else t <- rd ;; _ <- sasl_decode n false t ;; Ret tt) ;;;
  Ret (st_Authn, RSSame).

(* The server's Step with its error handling. *)
Definition server_step : prog bool :=
  Call (fun v => match v with VStep more _ => Ret more | _ => Stuck end)
       (fun v => match v with VStep _ SAuthn => wr WSaslFail ;;; Fail | _ => Fail end).

Fixpoint sasl_server_loop (n : nat) (selected : bool) : prog unit :=
  match n with
  | O => OutOfFuel
  | S n' =>
      Rd (fun t =>
        match t with
        | Open (KSel _ ESaslFailure) => skip n' 0 ;;; Fail
        | Open KStreamErr => skip n' 0 ;;; Fail
        | Open c =>
            skip n' 0 ;;;
            let continue (sel b64 : bool) : prog unit :=
              guard b64 ;;;
              more <- server_step ;;
              if more then wr WChallenge ;;; sasl_server_loop n' sel else Ret tt in
            match c with
            | KSel _ (EAuth mech b64) =>
                if mech then continue true b64 else wr WSaslFail ;;; Fail
            | KSel _ (EResponse b64) =>
                if selected then continue true b64 else wr WSaslFail ;;; Fail
            | _ => wr WSaslFail ;;; Fail
            end
        | _ => Fail
        end)
  end.

Definition sasl_server (n : nat) : prog outcome :=
  sasl_server_loop n false ;;;
  wr WSuccess ;;;           (* as repaired: flushed, and the flush error returned, before Authn is reported *)
  Ret (st_Authn, RSSame).

Definition bind_client (n : nat) : prog outcome :=
  wr WBindReq ;;;
  Rd (fun t =>
    match t with
    | Open (KIq ok) => skip n 0 ;;; guard ok ;;; Ret (st_Ready, RSNone)
    | Open KStreamErr => skip n 0 ;;; Fail
    | _ => Fail
    end).

Definition bind_server (n : nat) : prog outcome :=
  Rd (fun t =>
    match t with
    | Open (KIq _) =>
        skip n 0 ;;;
        Call (fun v => match v with VBind _ => wr WBindRes ;;; Ret (st_Ready, RSNone) | _ => Stuck end)
             (fun v => match v with VBind BStanza => wr WBindRes ;;; Fail | _ => Fail end)
    | Open KStreamErr => skip n 0 ;;; Fail
    | _ => Fail
    end).

Definition custom_outcome : prog outcome :=
  v <- call ;;
  match v with
  | VOut mask restart _ => Ret (mask, if restart then RSSame else RSNone)
  | _ => Stuck
  end.

Definition custom_client : prog outcome := custom_outcome.

(* The harness's custom features consume their selection element, then answer from the script. *)
Definition custom_server (n : nat) : prog outcome :=
  Rd (fun t => match t with
              | Open KStreamErr => skip n 0 ;;; Fail
              | Open _ => skip n 0 ;;; custom_outcome
              | _ => Fail
              end).

Definition negotiate_feature (n : nat) (recv : bool) (f : feature) : prog outcome :=
  match f_kind f, recv with
  | FStartTLS, false => starttls_client n
  | FStartTLS, true => starttls_server
  | FSASL, false => sasl_client n
  | FSASL, true => sasl_server n
  | FBind, false => bind_client n
  | FBind, true => bind_server n
  | FCustom, false => custom_client
  | FCustom, true => custom_server n
  end.

(* streamFeaturesList: cache = list of (feature index, required), newest binding first *)
Record flist := mkFL { fl_total : nat; fl_req : bool; fl_allowed : nat; fl_cache : list (nat * bool) }.

Fixpoint cache_find (f : nat) (c : list (nat * bool)) : option bool :=
  match c with
  | [] => None
  | (g, r) :: c' => if g =? f then Some r else cache_find f c'
  end.

Definition cache_add (f : nat) (r : bool) (c : list (nat * bool)) : list (nat * bool) :=
  (f, r) :: filter (fun e => negb (fst e =? f)) c.

Definition mem (f : nat) (l : list nat) : bool := existsb (Nat.eqb f) l.

(* writeStreamFeatures *)
Fixpoint list_features (fs : list feature) (i : nat) (bits : N) (acc : flist) : prog flist :=
  match fs with
  | [] => Ret acc
  | f :: fs' =>
      if allowed f bits then
        logev (EList i) ;;;
        r <- match f_kind f with
             | FCustom =>       (* the List step reports (required, error); an error ends the list *)
                 Call (fun v => match v with VList req _ => Ret req | _ => Stuck end)
                      (fun _ => wru WPartial ;;; Fail)
             | FSASL => Ctx (wru WPartial ;;; Fail) (Ret true)   (* ctx test per mechanism *)
             | _ => Ret true
             end ;;
        list_features fs' (S i) bits
          (mkFL (S (fl_total acc)) (fl_req acc || r) (S (fl_allowed acc)) (cache_add i r (fl_cache acc)))
      else list_features fs' (S i) bits acc
  end.

Definition write_features (cfg : config) : prog flist :=
  bits <- get_bits ;;
  l <- list_features (c_feats cfg) 0 bits (mkFL 0 false 0 []) ;;
  wr WFeatures ;;; Ret l.

(* readStreamFeatures, after the start tag *)
Fixpoint read_children (n : nat) (cfg : config) (acc : flist) : prog flist :=
  match n with
  | O => OutOfFuel
  | S n' =>
      Rd (fun t =>
        match t with
        | Open c =>
            let acc1 := mkFL (S (fl_total acc)) (fl_req acc) (fl_allowed acc) (fl_cache acc) in
            match c with
            | KFeat f req perr =>
                match nth_error (c_feats cfg) f with
                | Some ft =>
                    logev (EParse f) ;;;
                    skip n' 0 ;;;
                    (* the Parse step reports (required, error) *)
                    req' <- match f_kind ft with
                            | FCustom => Call (fun v => match v with VParse r _ => Ret r | _ => Stuck end) (fun _ => Fail)
                            | FStartTLS => guard (negb perr) ;;; Ret req
                            | _ => guard (negb perr) ;;; Ret true
                            end ;;
                    bits <- get_bits ;;
                    (* cached whether or not its prerequisites hold now; they are tested again
                       when a feature is selected *)
                    read_children n' cfg
                      (mkFL (fl_total acc1) (fl_req acc1 || req')
                            (if allowed ft bits then S (fl_allowed acc1) else fl_allowed acc1)
                            (cache_add f req' (fl_cache acc1)))
                | None => skip n' 0 ;;; read_children n' cfg acc1
                end
            | _ => skip n' 0 ;;; read_children n' cfg acc1
            end
        | Close => Ret acc
        | _ => Fail
        end)
  end.

Fixpoint find_starttls (fs : list feature) (i : nat) : option (nat * feature) :=
  match fs with
  | [] => None
  | f :: fs' => match f_kind f with FStartTLS => Some (i, f) | _ => find_starttls fs' (S i) end
  end.

(* candidates of the initiator's selection loop *)
Definition candidate (cfg : config) (negotiated : list nat) (bits : N) (e : nat * bool) : bool :=
  match nth_error (c_feats cfg) (fst e) with
  | Some ft => negb (mem (fst e) negotiated) && neg_of ft && allowed ft bits
  | None => false
  end.

(* The mask negotiateFeatures returns: the Ready bit of a feature takes effect only here, at
   the end of the feature set, and never while a stream restart is pending. ready: one of the
   features negotiated from this list (the last one included) reported Ready. *)
Definition after_loop (l : flist) (ready : bool) (o : outcome) : outcome :=
  let m := N.ldiff (fst o) st_Ready in
  match snd o with
  | RSNone => if ready || negb (fl_req l) then (N.lor m st_Ready, RSNone) else (m, RSNone)
  | rs => (m, rs)
  end.

Definition run_feature (n : nat) (recv : bool) (f : nat) (ft : feature) (pre : list tok) : prog outcome :=
  logev (ENegStart f) ;;;
  o <- feed pre (negotiate_feature n recv ft) ;;
  logev (ENegOk f (fst o) (snd o)) ;;;
  or_bits (N.ldiff (fst o) st_Ready) ;;;     (* every bit but Ready is applied right away *)
  Ret o.

(* k bounds the iterations (each negotiates a feature of the cache that was not negotiated
   before, so the size of the cache + 1 suffices); n is the fuel of the loops inside *)
Fixpoint init_loop (k n : nat) (cfg : config) (l : flist) (force : option (nat * feature))
                   (negotiated : list nat) (ready : bool) : prog outcome :=
  match k with
  | O => OutOfFuel
  | S k' =>
      bits <- get_bits ;;
      pick <- match force with
              | Some (i, ft) =>
                  v <- call ;;
                  match v with
                  | VChoice f => if f =? i then Ret (Some (i, ft, true)) else Stuck
                  | _ => Stuck
                  end
              | None =>
                  let cands := filter (candidate cfg negotiated bits) (fl_cache l) in
                  match cands with
                  | [] => Ret None
                  | _ =>
                      v <- call ;;
                      match v with
                      | VChoice f =>
                          match cache_find f cands, nth_error (c_feats cfg) f with
                          | Some req, Some ft =>
                              if negb req || forallb (fun e => snd e) cands
                              then Ret (Some (f, ft, req)) else Stuck
                          | _, _ => Stuck
                          end
                      | _ => Stuck
                      end
                  end
              end ;;
      match pick with
      | None => Ret (st_Ready, RSNone)
      | Some (f, ft, req) =>
          o <- run_feature n false f ft [] ;;
          let ready' := ready || has (fst o) st_Ready in
          match snd o with
          | RSNone => if req then Ret (after_loop l ready' o)
                      else init_loop k' n cfg l force (f :: negotiated) ready'
          | _ => Ret (after_loop l ready' o)
          end
      end
  end.

Definition features_initiator (n : nat) (cfg : config) (first : bool) : prog outcome :=
  Rd (fun t =>
    match t with
    | Open KFeatures =>
        l <- read_children n cfg (mkFL 0 false 0 []) ;;
        bits <- get_bits ;;
        let force :=
          match find_starttls (c_feats cfg) 0 with
          | Some (i, ft) =>
              if first && negb (match cache_find i (fl_cache l) with Some _ => true | None => false end)
                 && negb (has bits st_Secure) && neg_of ft
              then Some (i, ft) else None
          | None => None
          end in
        match force with
        | Some _ => init_loop (S (length (fl_cache l))) n cfg l force [] false
        | None =>
            if fl_total l =? 0 then Ret (st_Ready, RSNone)
            else if fl_allowed l =? 0 then Fail
            else init_loop (S (length (fl_cache l))) n cfg l None [] false
        end
    | Open KStreamErr => skip n 0 ;;; Fail     (* decodeStreamErr *)
    | _ => Fail
    end).

(* TrimLeftSpace: white space before the payload of an <iq> *)
Fixpoint trim_space (n : nat) : prog tok :=
  match n with
  | O => OutOfFuel
  | S n' => Rd (fun t => match t with Text true => trim_space n' | _ => Ret t end)
  end.

Fixpoint recv_loop (n : nat) (cfg : config) (l : flist) (negotiated : list nat) (ready : bool) : prog outcome :=
  match n with
  | O => OutOfFuel
  | S n' =>
      Rd (fun t =>
        match t with
        | Open c =>
            sel <- match c with
                   | KIq _ =>
                       t2 <- trim_space n' ;;
                       match t2 with
                       | Open (KSel f e) => Ret (f, [t; t2])
                       | _ => Fail
                       end
                   | KSel f e => Ret (f, [t])
                   | _ => Fail
                   end ;;
            let f := fst sel in
            bits <- get_bits ;;
            match cache_find f (fl_cache l), nth_error (c_feats cfg) f with
            | Some req, Some ft =>
                if negb (mem f negotiated) && neg_of ft && allowed ft bits then
                  o <- run_feature n' true f ft (snd sel) ;;
                  let ready' := ready || has (fst o) st_Ready in
                  match snd o with
                  | RSNone => if req then Ret (after_loop l ready' o)
                              else recv_loop n' cfg l (f :: negotiated) ready'
                  | _ => Ret (after_loop l ready' o)
                  end
                else Fail
            | _, _ => Fail
            end
        | _ => Fail
        end)
  end.

Definition features_receiver (n : nat) (cfg : config) : prog outcome :=
  l <- write_features cfg ;;
  recv_loop n cfg l [] false.

(* ------------------------------------------------------------------ negotiators *)

Record nstate := mkNS { ns_restart : bool; ns_started : bool }.

Definition std_call (n : nat) (cfg : config) (ns : nstate) : prog (outcome * nstate) :=
  bits <- get_bits ;;
  let recv := has bits st_Received in
  (if ns_restart ns then
     if recv then
       h <- expect n true (c_ws cfg) ;;
       guard (fst h) ;;;
       wr WHeader
     else
       wr WHeader ;;;
       h <- expect n true (c_ws cfg) ;;
       guard (fst h)
   else Ret tt) ;;;
  o <- (if recv then features_receiver n cfg else features_initiator n cfg (negb (ns_started ns))) ;;
  Ret (o, mkNS (match snd o with RSNone => false | _ => true end) true).

(* component.Negotiator (as repaired: the receiving side is not implemented and reports an
   error instead of panicking; ctx.Done() is tested before each read) *)
Fixpoint comp_header (n : nat) (found_proc : bool) : prog bool :=   (* returns: header carries an id *)
  match n with
  | O => OutOfFuel
  | S n' =>
      ctx ;;;
      Rd (fun t =>
        match t with
        | Decl | Junk => if found_proc then Fail else comp_header n' true
        | Open (KHdr valid _ id) => guard valid ;;; Ret id
        | _ => Fail
        end)
  end.

Definition comp_call (n : nat) : prog (outcome * nstate) :=
  bits <- get_bits ;;
  if has bits st_Received then Fail else
  wr WHeader ;;;
  id <- comp_header n false ;;
  wr WHandshake ;;;
  ctx ;;;
  Rd (fun t =>
    match t with
    | Open KCompErr => skip n 0 ;;; Fail
    | Open KHandshake => guard id ;;; skip n 0 ;;; Ret ((N.lor st_Ready st_Authn, RSNone), mkNS false true)
    | _ => Fail
    end).

(* session.go negotiateSession: call the negotiator until the Ready bit is set *)
Fixpoint session (n m : nat) (cfg : config) (ns : nstate) : prog unit :=
  bits <- get_bits ;;
  if is_ready bits then Ret tt else
  match m with
  | O => OutOfFuel
  | S m' =>
      r <- match c_neg cfg with NStd => std_call n cfg ns | NComp => comp_call n end ;;
      ctx ;;;   (* as repaired: ctx.Err() is tested after every call of the negotiator *)
      Restart (snd (fst r)) (or_bits (fst (fst r)) ;;; session n m' cfg (snd r))
  end.

(* ------------------------------------------------------------------ running a case *)

Fixpoint script_len (s : list sitem) : nat :=
  match s with [] => O | _ :: r => S (script_len r) end.

Definition init_world (bits : N) (clear tls : list sitem) (calls : list sval) : world :=
  mkW 0 clear tls false false false bits calls [].

Definition fuel_of (clear tls : list sitem) : nat := script_len clear + script_len tls + 4.

(* negotiateSession, as repaired: a session that is returned with an error has the Ready bit
   cleared (feature negotiation may have set it before the failing step) *)
Definition clear_ready (w : world) : world :=
  mkW (w_ops w) (w_script w) (w_tls w) (w_tlslayer w) (w_hs w) (w_wdead w)
      (N.ldiff (w_bits w) st_Ready) (w_calls w) (w_trace w).

Definition finish {A} (x : res A * world) : res A * world :=
  match fst x with ROk _ => x | _ => (fst x, clear_ready (snd x)) end.

Definition run (cfg : config) (pl : plan) (bits : N) (clear tls : list sitem) (calls : list sval)
  : res unit * world :=
  let n := fuel_of clear tls in
  finish (interp pl (session n n cfg (mkNS true false)) (init_world bits clear tls calls)).

(* ------------------------------------------------------------------ cases written by the harness *)

Definition bool_eqb (a b : bool) : bool := Bool.eqb a b.

Definition elt_eqb (a b : elt) : bool :=
  match a, b with
  | EStarttls, EStarttls | EProceed, EProceed | ETlsFailure, ETlsFailure | EAbort, EAbort
  | ESaslFailure, ESaslFailure | EBindReq, EBindReq | ECustom, ECustom | EUnknown, EUnknown => true
  | EAuth a1 a2, EAuth b1 b2 => bool_eqb a1 b1 && bool_eqb a2 b2
  | EResponse a1, EResponse b1 | EChallenge a1, EChallenge b1 | ESuccess a1, ESuccess b1 => bool_eqb a1 b1
  | _, _ => false
  end.

Definition serr_eqb (a b : serr) : bool :=
  match a, b with SNone, SNone | SAuthn, SAuthn | SOther, SOther => true | _, _ => false end.

Definition berr_eqb (a b : berr) : bool :=
  match a, b with BOk, BOk | BStanza, BStanza | BErr, BErr => true | _, _ => false end.

Definition sval_eqb (a b : sval) : bool :=
  match a, b with
  | VChoice f, VChoice g => f =? g
  | VOut m r e, VOut m' r' e' => N.eqb m m' && bool_eqb r r' && bool_eqb e e'
  | VStep m e, VStep m' e' => bool_eqb m m' && serr_eqb e e'
  | VBind e, VBind e' => berr_eqb e e'
  | VList r e, VList r' e' => bool_eqb r r' && bool_eqb e e'
  | VParse r e, VParse r' e' => bool_eqb r r' && bool_eqb e e'
  | _, _ => false
  end.

Definition wsite_eqb (a b : wsite) : bool :=
  match a, b with
  | WHeader, WHeader | WFeatures, WFeatures | WPartial, WPartial | WStarttls, WStarttls
  | WProceed, WProceed | WAuth, WAuth | WResponse, WResponse | WChallenge, WChallenge
  | WSuccess, WSuccess | WSaslFail, WSaslFail | WBindReq, WBindReq | WBindRes, WBindRes
  | WHandshake, WHandshake => true
  | _, _ => false
  end.

Definition rskind_eqb (a b : rskind) : bool :=
  match a, b with RSNone, RSNone | RSSame, RSSame | RSTls, RSTls => true | _, _ => false end.

Definition event_eqb (a b : event) : bool :=
  match a, b with
  | ERead x, ERead y => bool_eqb x y
  | EWrite s x, EWrite s' y => wsite_eqb s s' && bool_eqb x y
  | ECall v, ECall v' => sval_eqb v v'
  | EParse f, EParse g | EList f, EList g | ENegStart f, ENegStart g => f =? g
  | ENegOk f m r, ENegOk g m' r' => (f =? g) && N.eqb m m' && rskind_eqb r r'
  | ECtxErr, ECtxErr => true
  | ECtxPass n, ECtxPass m => n =? m
  | _, _ => false
  end.

Fixpoint list_eqb {A} (eqb : A -> A -> bool) (a b : list A) : bool :=
  match a, b with
  | [], [] => true
  | x :: a', y :: b' => eqb x y && list_eqb eqb a' b'
  | _, _ => false
  end.

Inductive rclass := COk | CErr.

Record case := mkCase {
  k_cfg : config;
  k_plan : plan;
  k_bits : N;
  k_clear : list sitem;
  k_tls : list sitem;
  k_calls : list sval;
  (* observed on the implementation *)
  k_result : rclass;
  k_state : N;               (* State() of the returned session *)
  k_trace : list event       (* oldest first; ECtxErr / ECtxPass are not observable and are left out *)
}.

Definition observable (e : event) : bool :=
  match e with ECtxErr | ECtxPass _ => false | _ => true end.

Definition case_ok (c : case) : bool :=
  let (r, w) := run (k_cfg c) (k_plan c) (k_bits c) (k_clear c) (k_tls c) (k_calls c) in
  match r, k_result c with
  | ROk _, COk | RErr, CErr => true
  | _, _ => false
  end
  && N.eqb (w_bits w) (k_state c)
  && list_eqb event_eqb (filter observable (rev (w_trace w))) (k_trace c).

Fixpoint failing {A} (ok : A -> bool) (i : nat) (l : list A) : list nat :=
  match l with
  | [] => []
  | x :: r => if ok x then failing ok (S i) r else i :: failing ok (S i) r
  end.
