(* C04/Proofs.v — the lemmas behind the property theorems of C04/Properties.v
   (model of the repaired code: checked <success/> flush, ctx test after every negotiator
   call, Ready cleared on every error return, bind error reply returns the error). *)
From XV Require Import lib.Bytes gen.NegTables gen.C04Facts C04.Model C04.Generic C04.Structure C04.Fuel.

(* ------------------------------------------------------------------ bits *)

Lemma cleared_not_ready b : is_ready (N.ldiff b st_Ready) = false.
Proof.
  unfold is_ready, has. rewrite N.land_ldiff. reflexivity.
Qed.

(* ------------------------------------------------------------------ small helpers *)

Lemma nob_result A (p : prog A) pl w r w' : no_orbits p -> interp pl p w = (r, w') -> w_bits w' = w_bits w.
Proof. intros Hp H. pose proof (no_orbits_bits pl Hp w) as Hb. rewrite H in Hb. exact Hb. Qed.

Lemma wle_result A (p : prog A) pl w r w' : interp pl p w = (r, w') -> wle w w'.
Proof. intro H. pose proof (interp_wle p pl w) as Hw. rewrite H in Hw. exact Hw. Qed.

Arguments nob_result {A p pl w r w'}.
Arguments wle_result {A p pl w r w'}.

(* ------------------------------------------------------------------ run_feature: the mask of a failing step *)

Definition after_neg (w1 : world) (f : nat) (o : outcome) : world :=
  mkW (w_ops w1) (w_script w1) (w_tls w1) (w_tlslayer w1) (w_hs w1) (w_wdead w1)
      (N.lor (w_bits w1) (N.ldiff (fst o) st_Ready)) (w_calls w1) (ENegOk f (fst o) (snd o) :: w_trace w1).

Lemma run_feature_interp pl n recv f ft pre w :
  interp pl (run_feature n recv f ft pre) w =
  match interp pl (feed pre (negotiate_feature n recv ft)) (set_trace w (ENegStart f)) with
  | (ROk o, w1) => (ROk o, after_neg w1 f o)
  | (r, w1) => (res_map r, w1)
  end.
Proof.
  unfold run_feature, logev, or_bits. cbn [bind interp]. rewrite interp_bind.
  destruct (interp pl (feed pre (negotiate_feature n recv ft)) (set_trace w (ENegStart f))) as [[o| | |] w1];
    reflexivity.
Qed.

(* negotiateFeatures applies the mask a step returns only when the step returned no error *)
Lemma run_feature_err_bits pl n recv f ft pre w r w' :
  interp pl (run_feature n recv f ft pre) w = (r, w') -> (forall o, r <> ROk o) -> w_bits w' = w_bits w.
Proof.
  rewrite run_feature_interp. intros H Hr.
  pose proof (no_orbits_bits pl (no_orbits_feed (negotiate_feature_nob n recv ft) pre) (set_trace w (ENegStart f))) as Hb.
  destruct (interp pl (feed pre (negotiate_feature n recv ft)) (set_trace w (ENegStart f))) as [[o| | |] w1];
    inversion H; subst; cbn [snd] in Hb; try exact Hb.
  exfalso. eapply Hr. reflexivity.
Qed.

(* ------------------------------------------------------------------ run = finish (interp session) *)

Definition the_session (cfg : config) (clear tls : list sitem) : prog unit :=
  session (fuel_of clear tls) (fuel_of clear tls) cfg (mkNS true false).

Lemma run_unfold cfg pl bits clear tls calls :
  run cfg pl bits clear tls calls = finish (interp pl (the_session cfg clear tls) (init_world bits clear tls calls)).
Proof. reflexivity. Qed.

Lemma finish_ok A (x : res A * world) a w : finish x = (ROk a, w) -> x = (ROk a, w).
Proof. destruct x as [[a0| | |] w0]; unfold finish; cbn; intro H; inversion H; reflexivity. Qed.

Lemma finish_ops A (x : res A * world) : w_ops (snd (finish x)) = w_ops (snd x).
Proof. destruct x as [[a0| | |] w0]; reflexivity. Qed.

Lemma finish_trace A (x : res A * world) : w_trace (snd (finish x)) = w_trace (snd x).
Proof. destruct x as [[a0| | |] w0]; reflexivity. Qed.

Lemma finish_fst A (x : res A * world) : fst (finish x) = fst x.
Proof. destruct x as [[a0| | |] w0]; reflexivity. Qed.

Lemma finish_not_ready A (x : res A * world) r w :
  finish x = (r, w) -> (forall a, r <> ROk a) -> is_ready (w_bits w) = false.
Proof.
  destruct x as [[a0| | |] w0]; unfold finish; cbn; intros H Hr; inversion H; subst;
    try apply cleared_not_ready.
  exfalso. eapply Hr. reflexivity.
Qed.

Lemma session_strict n cfg m ns : strict (session n m cfg ns).
Proof. apply session_wok. Qed.

(* ------------------------------------------------------------------ a nil error and the steps of the run *)

Definition all_steps_ok (T : list event) : Prop := Forall (clean (fun _ => False)) T.

Lemma run_ok_clean cfg pl bits clear tls calls w :
  run cfg pl bits clear tls calls = (ROk tt, w) -> all_steps_ok (w_trace w).
Proof.
  rewrite run_unfold. intro H. apply finish_ok in H.
  eapply (ok_clean (P := fun _ => False)) in H; [|apply session_wok].
  destruct H as [new [Ht Hc]]. cbn in Ht. rewrite app_nil_r in Ht. unfold all_steps_ok. rewrite Ht. exact Hc.
Qed.

(* ------------------------------------------------------------------ an error result and the Ready bit *)

Lemma run_err_not_ready cfg pl bits clear tls calls r w :
  run cfg pl bits clear tls calls = (r, w) -> r <> ROk tt -> is_ready (w_bits w) = false.
Proof.
  rewrite run_unfold. intros H Hr. eapply finish_not_ready; [exact H|].
  intros [] E. apply Hr. exact E.
Qed.

(* a result other than Ok is an error - or the scripted callback values do not fit the run
   (RStuck: the case is outside the model); it is never "out of fuel" (Fuel.run_nofuel) *)
Definition failed (r : res unit) : Prop := r = RErr \/ r = RStuck.

Lemma not_ok_failed cfg pl bits clear tls calls r w :
  run cfg pl bits clear tls calls = (r, w) -> r <> ROk tt -> failed r.
Proof.
  intros H Hr. pose proof (run_nofuel cfg pl bits clear tls calls) as Hf. rewrite H in Hf. cbn in Hf.
  destruct r as [[]| | |]; [exfalso; apply Hr; reflexivity | left; reflexivity | right; reflexivity | exfalso; apply Hf; reflexivity].
Qed.

(* ------------------------------------------------------------------ a failing operation *)

(* The plan pl fails operation k and agrees with pl0 below k; pl0's run performs more than k
   operations: pl's run does not return Ok, and its Ready bit is clear. *)
Lemma fault_fails_closed cfg pl0 pl k bits clear tls calls ru wu rc wc :
  agree_below k pl0 pl -> p_fail pl k = true ->
  run cfg pl0 bits clear tls calls = (ru, wu) ->
  run cfg pl bits clear tls calls = (rc, wc) ->
  k < w_ops wu ->
  failed rc /\ is_ready (w_bits wc) = false.
Proof.
  intros Hag Hf Hu Hc Hk.
  assert (Hne : rc <> ROk tt).
  { intro E. subst rc. rewrite run_unfold in Hu, Hc.
    pose proof Hc as Hci. apply finish_ok in Hci.
    assert (Ha : alive k wc).
    { eapply (alive_ok (p := the_session cfg clear tls)); [exact Hf | apply session_strict | | exact Hci].
      unfold alive. cbn. lia. }
    pose proof (interp_agree (the_session cfg clear tls) Hag (init_world bits clear tls calls)) as Hco.
    unfold coincide_or_pass in Hco.
    assert (Hou : w_ops wu = w_ops (snd (interp pl0 (the_session cfg clear tls) (init_world bits clear tls calls)))).
    { rewrite <- finish_ops, Hu. reflexivity. }
    rewrite Hci in Hco. cbn [snd] in Hco.
    destruct Hco as [[_ Hle]|[_ Hgt]]; [cbn; lia | lia | unfold alive in Ha; lia]. }
  split; [eapply not_ok_failed; eassumption|]. eapply run_err_not_ready; eassumption.
Qed.

Lemma cut_agrees k cl c e d x hs : agree_below k (mkPlan FNone cl c e d x hs) (mkPlan (FCut k) cl c e d x hs).
Proof.
  split; [|split; [intros w0 _; reflexivity | reflexivity]]. intros i Hi. unfold p_fail. cbn [p_fault fault_fail].
  replace (k <=? i) with false by (symmetry; apply Nat.leb_gt; exact Hi). reflexivity.
Qed.

Lemma transient_agrees k cl c e d x hs : agree_below k (mkPlan FNone cl c e d x hs) (mkPlan (FTransient k) cl c e d x hs).
Proof.
  split; [|split; [intros w0 _; reflexivity | reflexivity]]. intros i Hi. unfold p_fail. cbn [p_fault fault_fail].
  replace (i =? k) with false by (symmetry; apply Nat.eqb_neq; lia). reflexivity.
Qed.

Lemma cut_fails_closed :
  forall cfg cl c e d x hs bits clear tls calls k ru wu rc wc,
    run cfg (mkPlan FNone cl c e d x hs) bits clear tls calls = (ru, wu) ->
    run cfg (mkPlan (FCut k) cl c e d x hs) bits clear tls calls = (rc, wc) ->
    k < w_ops wu ->
    failed rc /\ is_ready (w_bits wc) = false.
Proof.
  intros cfg cl c e d x hs bits clear tls calls k ru wu rc wc Hu Hc Hk.
  eapply fault_fails_closed; [apply cut_agrees | | exact Hu | exact Hc | exact Hk].
  unfold p_fail. cbn [p_fault fault_fail]. rewrite Nat.leb_refl. reflexivity.
Qed.

Lemma transient_fails_closed :
  forall cfg cl c e d x hs bits clear tls calls k ru wu rc wc,
    run cfg (mkPlan FNone cl c e d x hs) bits clear tls calls = (ru, wu) ->
    run cfg (mkPlan (FTransient k) cl c e d x hs) bits clear tls calls = (rc, wc) ->
    k < w_ops wu ->
    failed rc /\ is_ready (w_bits wc) = false.
Proof.
  intros cfg cl c e d x hs bits clear tls calls k ru wu rc wc Hu Hc Hk.
  eapply fault_fails_closed; [apply transient_agrees | | exact Hu | exact Hc | exact Hk].
  unfold p_fail. cbn [p_fault fault_fail]. rewrite Nat.eqb_refl. reflexivity.
Qed.

(* ------------------------------------------------------------------ cancellation *)

Lemma session_zero pl n cfg ns w :
  interp pl (session n 0 cfg ns) w = if is_ready (w_bits w) then (ROk tt, w) else (RFuel, w).
Proof. cbn [session bind interp get_bits]. destruct (is_ready (w_bits w)); reflexivity. Qed.

Lemma do_restart_ops rs w : w_ops (do_restart rs w) = w_ops w.
Proof. destruct rs; reflexivity. Qed.

Lemma do_restart_trace rs w : w_trace (do_restart rs w) = w_trace w.
Proof. destruct rs; reflexivity. Qed.

(* an Ok session was ready from the start, or its last ctx test was made after its last operation *)
Lemma session_ok_ctx pl n cfg : forall m ns w w',
  interp pl (session n m cfg ns) w = (ROk tt, w') ->
  (w' = w /\ is_ready (w_bits w) = true) \/ In (ECtxPass (w_ops w')) (w_trace w').
Proof.
  induction m as [|m IH]; intros ns w w' H.
  - rewrite session_zero in H. destruct (is_ready (w_bits w)) eqn:Er; [|discriminate].
    inversion H; subst. left. split; [reflexivity | first [exact Er | reflexivity]].
  - rewrite session_unfold in H. destruct (is_ready (w_bits w)) eqn:Er.
    + inversion H; subst. left. split; [reflexivity | first [exact Er | reflexivity]].
    + right. apply interp_bind_ok in H. destruct H as [x [w1 [Ec H]]].
      unfold ctx, or_bits in H. cbn [bind interp] in H.
      destruct (ctx_done pl w1); [discriminate|].
      apply IH in H. destruct H as [[Hw _]|Hin]; [|exact Hin].
      subst w'. cbn [w_ops w_trace]. rewrite do_restart_ops, do_restart_trace. cbn. left. reflexivity.
Qed.

Lemma cancel_fails cfg f cl e d x hs bits clear tls calls c ru wu rc wc :
  run cfg (mkPlan f cl None e d x hs) bits clear tls calls = (ru, wu) ->
  c < w_ops wu ->
  run cfg (mkPlan f cl (Some c) e d x hs) bits clear tls calls = (rc, wc) ->
  failed rc /\ is_ready (w_bits wc) = false.
Proof.
  intros Hu Hk Hc.
  assert (Hne : rc <> ROk tt).
  { intro E. subst rc. rewrite run_unfold in Hu, Hc. apply finish_ok in Hc.
    destruct (@interp_cancel_ok unit (the_session cfg clear tls) (mkPlan f cl (Some c) e d x hs) c eq_refl
                (session_strict _ _ _ _) _ _ _ Hc) as [H0 [new [Hn Hp]]].
    change (uncancelled (mkPlan f cl (Some c) e d x hs)) with (mkPlan f cl None e d x hs) in H0.
    rewrite H0 in Hu. cbn in Hu. inversion Hu; subst wu.
    cbn [init_world w_trace] in Hn. rewrite app_nil_r in Hn.
    pose proof Hc as Hs. apply session_ok_ctx in Hs. destruct Hs as [[Hw _]|Hin].
    - subst wc. cbn in Hk. lia.
    - rewrite Hn in Hin. specialize (Hp _ Hin). lia. }
  split; [eapply not_ok_failed; eassumption|]. eapply run_err_not_ready; eassumption.
Qed.

(* the cancellation interrupts operation c on a transport with deadlines *)
Lemma cancel_while_blocked_fails cfg f cl x hs bits clear tls calls c ru wu rc wc :
  run cfg (mkPlan f cl None true true x hs) bits clear tls calls = (ru, wu) ->
  c < w_ops wu ->
  run cfg (mkPlan f cl (Some c) true true x hs) bits clear tls calls = (rc, wc) ->
  failed rc /\ is_ready (w_bits wc) = false.
Proof. apply cancel_fails. Qed.


(* ------------------------------------------------------------------ the Ready bit, without the final clearing *)

(* Independently of negotiateSession's clearing of Ready on error returns (Model.finish): the
   negotiator calls never set the bit (feature negotiation applies every bit but Ready; Ready
   travels in the returned mask), negotiateSession sets it from the mask of a call that
   returned no error after the ctx test, and then the loop ends. So already the un-finished
   run ends without Ready whenever it does not end Ok. *)
Lemma session_err_nr pl n cfg : forall m ns w r w',
  interp pl (session n m cfg ns) w = (r, w') -> r <> ROk tt -> is_ready (w_bits w') = false.
Proof.
  induction m as [|m IH]; intros ns w r w' H Hr.
  - rewrite session_zero in H. destruct (is_ready (w_bits w)) eqn:Er; inversion H; subst; [exfalso; apply Hr; reflexivity | exact Er].
  - rewrite session_unfold in H. destruct (is_ready (w_bits w)) eqn:Er.
    + inversion H; subst. exfalso. apply Hr. reflexivity.
    + rewrite interp_bind in H.
      assert (Hn : nrdy (neg_call n cfg ns)).
      { unfold neg_call. destruct (c_neg cfg); [apply std_call_nrdy | apply comp_call_nrdy]. }
      pose proof (nrdy_bits pl Hn w Er) as Hb.
      destruct (interp pl (neg_call n cfg ns) w) as [[x| | |] w1] eqn:Ec; cbn [snd] in Hb;
        try (inversion H; subst; exact Hb).
      unfold ctx, or_bits in H. cbn [bind interp] in H.
      destruct (ctx_done pl w1).
      * inversion H; subst. cbn. exact Hb.
      * eapply IH; eassumption.
Qed.

Lemma unfinished_err_not_ready cfg pl bits clear tls calls r w :
  interp pl (the_session cfg clear tls) (init_world bits clear tls calls) = (r, w) ->
  r <> ROk tt -> is_ready (w_bits w) = false.
Proof. apply session_err_nr. Qed.

(* ------------------------------------------------------------------ source facts (gen/C04Facts.v) *)

(* Read from session.go by the translator on every run: setDeadline starts its watcher on
   ctx.Done() whatever the shape of the context (so [watched] is true for every plan and the
   cancellation theorems, stated for every shape, are about the code), and negotiateSession
   never replaces the error of a step (so the error class of the plan is rightly ignored by
   the model). A source edit that changes either breaks this obligation. *)
Lemma tbl_c04_facts : setdeadline_watcher_unconditional = true /\ negsession_keeps_step_error = true.
Proof. vm_compute. split; reflexivity. Qed.

Lemma watched_always pl : watched pl = true.
Proof. unfold watched. destruct (p_ctx_deadline pl); [exact (proj1 tbl_c04_facts) | reflexivity]. Qed.

