(* C04/Proofs.v — the lemmas behind the property theorems of C04/Properties.v. *)
From XV Require Import lib.Bytes gen.NegTables C04.Model C04.Generic C04.Structure.

(* ------------------------------------------------------------------ bits *)

Definition NR (b : N) : Prop := is_ready b = false.

Lemma is_ready_lor b m : N.land m st_Ready = 0%N -> is_ready (N.lor b m) = is_ready b.
Proof.
  unfold is_ready, has. intro H. rewrite N.land_lor_distr_l, H, N.lor_0_r. reflexivity.
Qed.

Lemma secure_no_ready : N.land st_Secure st_Ready = 0%N.  Proof. reflexivity. Qed.
Lemma authn_no_ready : N.land st_Authn st_Ready = 0%N.  Proof. reflexivity. Qed.

(* "Custom features reported no Ready in this run": no successful Negotiate of a custom
   feature logged in the trace T carries the Ready bit. The built-in features are covered by
   their own outcomes (Structure.builtin_outcome). *)
Definition calm_run (cfg : config) (T : list event) : Prop :=
  forall f m rs ft, In (ENegOk f m rs) T -> nth_error (c_feats cfg) f = Some ft ->
                    f_kind ft = FCustom -> N.land m st_Ready = 0%N.

Lemma extends_in {A} (T l : list A) x : extends T l -> In x l -> In x T.
Proof. intros [new H] Hin. subst. apply in_or_app. right. exact Hin. Qed.

(* ------------------------------------------------------------------ run_feature *)

(* the world after the two trailing steps of run_feature *)
Definition after_neg (w1 : world) (f : nat) (o : outcome) : world :=
  mkW (w_ops w1) (w_script w1) (w_tls w1) (w_tlslayer w1) (w_hs w1) (w_wdead w1)
      (N.lor (w_bits w1) (fst o)) (w_calls w1) (ENegOk f (fst o) (snd o) :: w_trace w1).

Lemma run_feature_interp pl n recv f ft pre w :
  interp pl (run_feature n recv f ft pre) w =
  match interp pl (feed pre (negotiate_feature n recv ft)) (set_trace w (ENegStart f)) with
  | (ROk o, w1) => (ROk o, after_neg w1 f o)
  | (r, w1) => (res_map r, w1)
  end.
Proof.
  unfold run_feature, logev, or_bits. cbn [bind interp]. rewrite interp_bind.
  destruct (interp pl (feed pre (negotiate_feature n recv ft)) (set_trace w (ENegStart f))) as [[o| | |] w1];
    reflexivity.
Qed.

(* the mask of a failing step is never applied *)
Lemma run_feature_err_bits pl n recv f ft pre w r w' :
  interp pl (run_feature n recv f ft pre) w = (r, w') -> (forall o, r <> ROk o) -> w_bits w' = w_bits w.
Proof.
  rewrite run_feature_interp. intros H Hr.
  pose proof (no_orbits_bits pl (no_orbits_feed (negotiate_feature_nob n recv ft) pre) (set_trace w (ENegStart f))) as Hb.
  destruct (interp pl (feed pre (negotiate_feature n recv ft)) (set_trace w (ENegStart f))) as [[o| | |] w1];
    inversion H; subst; cbn [snd] in Hb; try exact Hb.
  exfalso. eapply Hr. reflexivity.
Qed.

Lemma run_feature_ok pl n recv f ft pre w o w' :
  interp pl (run_feature n recv f ft pre) w = (ROk o, w') ->
  w_bits w' = N.lor (w_bits w) (fst o) /\
  builtin_outcome (f_kind ft) o /\
  In (ENegOk f (fst o) (snd o)) (w_trace w') /\
  wle w w'.
Proof.
  rewrite run_feature_interp. intro H.
  pose proof (no_orbits_bits pl (no_orbits_feed (negotiate_feature_nob n recv ft) pre) (set_trace w (ENegStart f))) as Hb.
  pose proof (interp_wle (feed pre (negotiate_feature n recv ft)) pl (set_trace w (ENegStart f))) as Hw.
  destruct (interp pl (feed pre (negotiate_feature n recv ft)) (set_trace w (ENegStart f))) as [[o1| | |] w1] eqn:E;
    inversion H; subst. cbn [snd] in Hb, Hw.
  split; [|split; [|split]].
  - cbn. rewrite Hb. reflexivity.
  - eapply rets_ok; [|exact E]. apply rets_feed. apply negotiate_feature_rets.
  - cbn. left. reflexivity.
  - eapply wle_trans; [apply wle_set_trace|]. eapply wle_trans; [exact Hw|].
    constructor; cbn; [lia | apply extends_cons | exists []; reflexivity].
Qed.

(* a feature other than the receiving side's SASL does not survive the failing operation *)
Lemma run_feature_alive pl k n recv f ft pre w o w' :
  p_fail pl k = true -> (f_kind ft = FSASL -> recv = false) ->
  alive k w -> interp pl (run_feature n recv f ft pre) w = (ROk o, w') -> alive k w'.
Proof.
  intros Hf Hk Ha H. eapply (alive_ok (p := run_feature n recv f ft pre)); [exact Hf | | exact Ha | exact H].
  apply run_feature_wok. intros E R. rewrite (Hk E) in R. discriminate.
Qed.

(* ------------------------------------------------------------------ small helpers *)

Lemma nob_result A (p : prog A) pl w r w' : no_orbits p -> interp pl p w = (r, w') -> w_bits w' = w_bits w.
Proof. intros Hp H. pose proof (no_orbits_bits pl Hp w) as Hb. rewrite H in Hb. exact Hb. Qed.

Lemma wle_result A (p : prog A) pl w r w' : interp pl p w = (r, w') -> wle w w'.
Proof. intro H. pose proof (interp_wle p pl w) as Hw. rewrite H in Hw. exact Hw. Qed.

Arguments nob_result {A p pl w r w'}.
Arguments wle_result {A p pl w r w'}.
Arguments run_feature_err_bits {pl n recv f ft pre w r w'}.
Arguments run_feature_ok {pl n recv f ft pre w o w'}.

Lemma read_tok_bits pl w : w_bits (snd (read_tok pl w)) = w_bits w.
Proof. apply read_tok_from_bits. Qed.

(* ------------------------------------------------------------------ the receiving side's selection loop *)

(* one iteration up to the point where the selected feature is run *)
Definition recv_pick (n : nat) (cfg : config) (l : flist) (negotiated : list nat)
  : prog (nat * feature * bool * list tok) :=
  Rd (fun t =>
    match t with
    | Open c =>
        sel <- match c with
               | KIq _ =>
                   t2 <- trim_space n ;;
                   match t2 with
                   | Open (KSel f e) => Ret (f, [t; t2])
                   | _ => Fail
                   end
               | KSel f e => Ret (f, [t])
               | _ => Fail
               end ;;
        let f := fst sel in
        bits <- get_bits ;;
        match cache_find f (fl_cache l), nth_error (c_feats cfg) f with
        | Some req, Some ft =>
            if negb (mem f negotiated) && neg_of ft && allowed ft bits
            then Ret (f, ft, req, snd sel) else Fail
        | _, _ => Fail
        end
    | _ => Fail
    end).

Definition recv_rest (n : nat) (cfg : config) (l : flist) (negotiated : list nat)
  (x : nat * feature * bool * list tok) : prog outcome :=
  let '(f, ft, req, pre) := x in
  o <- run_feature n true f ft pre ;;
  match snd o with
  | RSNone => if req then Ret (after_loop l o) else recv_loop n cfg l (f :: negotiated)
  | _ => Ret o
  end.

Lemma recv_loop_unfold pl n cfg l negotiated w :
  interp pl (recv_loop (S n) cfg l negotiated) w =
  interp pl (x <- recv_pick n cfg l negotiated ;; recv_rest n cfg l negotiated x) w.
Proof.
  unfold recv_pick. cbn [recv_loop bind interp].
  destruct (read_tok pl w) as [[t|] w1]; [|reflexivity].
  destruct t as [c| | | |]; try reflexivity.
  rewrite !interp_bind.
  match goal with |- context [interp pl ?sel w1] => destruct (interp pl sel w1) as [[[f toks]| | |] w2] end;
    try reflexivity.
  unfold get_bits. cbn [bind interp fst snd].
  destruct (cache_find f (fl_cache l)) as [req|]; [|reflexivity].
  destruct (nth_error (c_feats cfg) f) as [ft|]; [|reflexivity].
  destruct (negb (mem f negotiated) && neg_of ft && allowed ft (w_bits w2)); reflexivity.
Qed.

Lemma recv_pick_nob n cfg l negotiated : no_orbits (recv_pick n cfg l negotiated).
Proof. unfold recv_pick. pose proof (trim_space_nob n). struct. Qed.

Lemma recv_pick_wok P n cfg l negotiated : wru_ok P (recv_pick n cfg l negotiated).
Proof. unfold recv_pick. pose proof (trim_space_wok P n). struct. Qed.

Lemma recv_pick_rets n cfg l negotiated :
  rets (fun x => let '(f, ft, req, _) := x in
                 cache_find f (fl_cache l) = Some req /\ nth_error (c_feats cfg) f = Some ft)
       (recv_pick n cfg l negotiated).
Proof.
  unfold recv_pick. unfold get_bits. cbn [bind].
  constructor. intro t. destruct t as [c| | | |]; try constructor.
  apply rets_bind. intros [f toks]. cbn [fst snd]. constructor. intro bits.
  destruct (cache_find f (fl_cache l)) as [req|] eqn:E1; [|constructor].
  destruct (nth_error (c_feats cfg) f) as [ft|] eqn:E2; [|constructor].
  destruct (negb (mem f negotiated) && neg_of ft && allowed ft bits); constructor.
  split; assumption.
Qed.

(* an event logged before w2 is in the final trace T *)
Lemma in_final_trace A (p : prog A) pl w2 r w' T e :
  interp pl p w2 = (r, w') -> extends T (w_trace w') -> In e (w_trace w2) -> In e T.
Proof.
  intros H Hext Hin. eapply extends_in; [exact Hext|].
  eapply extends_in; [apply (wle_trace (wle_result H)) | exact Hin].
Qed.

(* the bits after a successful feature that lets the loop go on are still without Ready *)
Lemma feature_keeps_nr cfg T f ft req (o : outcome) b :
  calm_run cfg T -> nth_error (c_feats cfg) f = Some ft -> (f_kind ft = FBind -> req = true) ->
  builtin_outcome (f_kind ft) o -> In (ENegOk f (fst o) (snd o)) T ->
  snd o = RSNone -> req = false -> NR b -> NR (N.lor b (fst o)).
Proof.
  intros HT Hnth Hbind Hout Hin Hrs Hreq Hnr. unfold NR. rewrite is_ready_lor; [exact Hnr|].
  destruct (f_kind ft) eqn:Ek; cbn [builtin_outcome] in Hout.
  - subst o. discriminate.
  - subst o. discriminate.
  - specialize (Hbind eq_refl). congruence.
  - eapply HT; eassumption.
Qed.

Lemma recv_loop_nr pl cfg T n : forall l negotiated w r w',
  cache_ok cfg (fl_cache l) -> calm_run cfg T -> NR (w_bits w) ->
  interp pl (recv_loop n cfg l negotiated) w = (r, w') -> extends T (w_trace w') ->
  (forall o, r <> ROk o) -> NR (w_bits w').
Proof.
  induction n as [|n IH]; intros l negotiated w r w' Hc HT Hnr H Hext Hr.
  - cbn in H. inversion H; subst. exact Hnr.
  - rewrite recv_loop_unfold, interp_bind in H.
    destruct (interp pl (recv_pick n cfg l negotiated) w) as [[x| | |] w1] eqn:Ep;
      try (inversion H; subst; rewrite (nob_result (recv_pick_nob n cfg l negotiated) Ep); exact Hnr).
    pose proof (nob_result (recv_pick_nob n cfg l negotiated) Ep) as Hb1.
    assert (Hx := recv_pick_rets n cfg l negotiated); eapply rets_ok in Hx; [|exact Ep].
    destruct x as [[[f ft] req] pre]. destruct Hx as [Hfind Hnth].
    unfold recv_rest in H. rewrite interp_bind in H.
    destruct (interp pl (run_feature n true f ft pre) w1) as [[o| | |] w2] eqn:Er;
      try (inversion H; subst; rewrite (run_feature_err_bits Er), Hb1;
           [exact Hnr | intros o0 Ho; discriminate]).
    destruct (run_feature_ok Er) as [Hb2 [Hout [Hin Hw12]]].
    destruct (snd o) eqn:Ers.
    + destruct req.
      * inversion H; subst. exfalso. eapply Hr. reflexivity.
      * eapply IH with (w := w2); try eassumption.
        rewrite Hb2, Hb1.
        apply feature_keeps_nr with (cfg := cfg) (T := T) (f := f) (ft := ft) (req := false);
          try assumption; try reflexivity.
        { intro Ek. eapply cache_ok_find; eassumption. }
        rewrite Ers. eapply in_final_trace; [exact H | exact Hext | exact Hin].
    + inversion H; subst. exfalso. eapply Hr. reflexivity.
    + inversion H; subst. exfalso. eapply Hr. reflexivity.
Qed.

(* ------------------------------------------------------------------ a nil error and the steps of the run *)

(* Every event of the run is that of a step that succeeded; P: sites of writes whose failure
   is tolerated. *)
Definition all_steps_ok (P : wsite -> Prop) (T : list event) : Prop := Forall (clean P) T.

Lemma run_ok_clean cfg pl bits clear tls calls w :
  run cfg pl bits clear tls calls = (ROk tt, w) -> all_steps_ok (eq WSuccess) (w_trace w).
Proof.
  unfold run. intro H.
  eapply (ok_clean (P := eq WSuccess)) in H; [|apply session_wok; reflexivity].
  destruct H as [new [Ht Hc]]. cbn in Ht. rewrite app_nil_r in Ht. rewrite Ht. exact Hc.
Qed.

(* Witness observed on the implementation (receiver, SASL PLAIN + bind on a secure
   connection, exactly the Write that carries <success/> fails): nil error, Ready. *)
Definition wit_flush_cfg : config :=
  mkCfg NStd false [mkF FSASL 0 0 true false false; mkF FBind 0 0 true false false].
Definition wit_flush_clear : list sitem :=
  [Brk; T Decl; T (Open (KHdr true true false));
   Brk; T (Open (KSel 0 (EAuth true true))); T (Text false); T Close;
   Brk; T Decl; T (Open (KHdr true true false));
   Brk; T (Open (KIq false)); T (Open (KSel 1 EBindReq)); T Close; T Close].
Definition wit_flush_run : res unit * world :=
  run wit_flush_cfg (mkPlan (FTransient 4) None true) 9%N wit_flush_clear [] [VStep false SNone; VBind false].

(* evaluated once by the VM; nothing below unfolds the run symbolically *)
Definition wit_flush_world : world := Eval vm_compute in snd wit_flush_run.

Lemma wit_flush_run_eq :
  run wit_flush_cfg (mkPlan (FTransient 4) None true) 9%N wit_flush_clear [] [VStep false SNone; VBind false]
  = (ROk tt, wit_flush_world).
Proof. vm_compute. reflexivity. Qed.

Lemma wit_flush_failed_write : In (EWrite WSuccess false) (w_trace wit_flush_world).
Proof. vm_compute. tauto. Qed.

Lemma nil_error_all_ok_refuted :
  exists cfg pl bits clear tls calls w,
    run cfg pl bits clear tls calls = (ROk tt, w) /\ ~ all_steps_ok (fun _ => False) (w_trace w).
Proof.
  exists wit_flush_cfg, (mkPlan (FTransient 4) None true), 9%N, wit_flush_clear, [], [VStep false SNone; VBind false],
         wit_flush_world.
  split.
  - exact wit_flush_run_eq.
  - intro HF. unfold all_steps_ok in HF. rewrite Forall_forall in HF.
    pose proof (HF _ wit_flush_failed_write) as HC. unfold clean in HC.
    destruct HC as [HC|HC]; [discriminate | exact HC].
Qed.

(* ------------------------------------------------------------------ the caches that are built satisfy the invariant *)

Lemma list_features_cache_ok cfg bits : forall fs i acc,
  (forall j ft, nth_error fs j = Some ft -> nth_error (c_feats cfg) (i + j) = Some ft) ->
  flist_ok cfg acc -> rets (flist_ok cfg) (list_features fs i bits acc).
Proof.
  induction fs as [|f fs IH]; intros i acc Hidx Hacc; cbn [list_features].
  - constructor. exact Hacc.
  - assert (Hi : nth_error (c_feats cfg) i = Some f).
    { specialize (Hidx 0 f eq_refl). rewrite Nat.add_0_r in Hidx. exact Hidx. }
    assert (Hidx' : forall j ft, nth_error fs j = Some ft -> nth_error (c_feats cfg) (S i + j) = Some ft).
    { intros j ft Hj. specialize (Hidx (S j) ft Hj). rewrite Nat.add_succ_r in Hidx. exact Hidx. }
    destruct (allowed f bits); [|apply IH; assumption].
    unfold logev. cbn [bind]. constructor.
    (* what List reports for the bind feature is "required" *)
    apply rets_bind2 with (R := fun r : bool => f_kind f = FBind -> r = true).
    + destruct (f_kind f); struct; congruence.
    + intros r Hr. apply IH; [exact Hidx'|]. unfold flist_ok. cbn. apply cache_ok_add; [|exact Hacc].
      intros ft Hn Hk. cbn in Hn. rewrite Hi in Hn. inversion Hn; subst. cbn. apply Hr. exact Hk.
Qed.

Lemma read_children_cache_ok cfg : forall n acc,
  flist_ok cfg acc -> rets (flist_ok cfg) (read_children n cfg acc).
Proof.
  induction n as [|n IH]; intros acc Hacc; cbn [read_children]; [constructor|].
  constructor. intro t. destruct t as [c| | | |]; try (constructor; assumption).
  assert (Hacc1 : flist_ok cfg (mkFL (S (fl_total acc)) (fl_req acc) (fl_cache acc))) by exact Hacc.
  destruct c; try (apply rets_bind; intros _; apply IH; exact Hacc1).
  destruct (nth_error (c_feats cfg) f) as [ft|] eqn:En; [|apply rets_bind; intros _; apply IH; exact Hacc1].
  unfold logev, guard, get_bits. cbn [bind]. constructor.
  apply rets_bind. intros _. apply rets_bind. intros _. constructor. intro bits.
  apply IH. unfold flist_ok. cbn [fl_cache].
  destruct (allowed ft bits); [|exact Hacc].
  apply cache_ok_add; [|exact Hacc].
  intros ft' Hn Hk. cbn [fst snd] in *. rewrite En in Hn. inversion Hn; subst. rewrite Hk. reflexivity.
Qed.

Lemma find_starttls_spec : forall fs i j ft,
  find_starttls fs i = Some (j, ft) ->
  f_kind ft = FStartTLS /\ exists d, j = i + d /\ nth_error fs d = Some ft.
Proof.
  induction fs as [|f fs IH]; intros i j ft; cbn [find_starttls]; [discriminate|].
  destruct (f_kind f) eqn:Ek.
  - intro H. inversion H; subst. split; [exact Ek|]. exists 0. split; [lia | reflexivity].
  - intro H. apply IH in H. destruct H as [Hk [d [Hj Hd]]]. split; [exact Hk|]. exists (S d). split; [lia | exact Hd].
  - intro H. apply IH in H. destruct H as [Hk [d [Hj Hd]]]. split; [exact Hk|]. exists (S d). split; [lia | exact Hd].
  - intro H. apply IH in H. destruct H as [Hk [d [Hj Hd]]]. split; [exact Hk|]. exists (S d). split; [lia | exact Hd].
Qed.

(* ------------------------------------------------------------------ the initiating side's selection loop *)

(* a forced STARTTLS is the configured STARTTLS feature *)
Definition force_ok (cfg : config) (force : option (nat * feature)) : Prop :=
  forall i ft, force = Some (i, ft) -> f_kind ft = FStartTLS /\ nth_error (c_feats cfg) i = Some ft.

Definition init_pick (cfg : config) (l : flist) (force : option (nat * feature))
  (negotiated : list nat) (bits : N) : prog (option (nat * feature * bool)) :=
  match force with
  | Some (i, ft) =>
      v <- call ;;
      match v with
      | VChoice f => if f =? i then Ret (Some (i, ft, true)) else Stuck
      | _ => Stuck
      end
  | None =>
      let cands := filter (candidate cfg negotiated bits) (fl_cache l) in
      match cands with
      | [] => Ret None
      | _ =>
          v <- call ;;
          match v with
          | VChoice f =>
              match cache_find f cands, nth_error (c_feats cfg) f with
              | Some req, Some ft =>
                  if negb req || forallb (fun e => snd e) cands
                  then Ret (Some (f, ft, req)) else Stuck
              | _, _ => Stuck
              end
          | _ => Stuck
          end
      end
  end.

Definition init_rest (n : nat) (cfg : config) (l : flist) (force : option (nat * feature))
  (negotiated : list nat) (pick : option (nat * feature * bool)) : prog outcome :=
  match pick with
  | None => Ret (st_Ready, RSNone)
  | Some (f, ft, req) =>
      o <- run_feature n false f ft [] ;;
      match snd o with
      | RSNone => if req then Ret (after_loop l o) else init_loop n cfg l force (f :: negotiated)
      | _ => Ret o
      end
  end.

Lemma init_loop_unfold pl n cfg l force negotiated w :
  interp pl (init_loop (S n) cfg l force negotiated) w =
  interp pl (pick <- init_pick cfg l force negotiated (w_bits w) ;; init_rest n cfg l force negotiated pick) w.
Proof. reflexivity. Qed.

Lemma init_pick_nob cfg l force negotiated bits : no_orbits (init_pick cfg l force negotiated bits).
Proof. unfold init_pick. struct. Qed.

Lemma init_pick_wok P cfg l force negotiated bits : wru_ok P (init_pick cfg l force negotiated bits).
Proof. unfold init_pick. struct. Qed.

(* what is picked: a cached feature with its flag, or the forced STARTTLS *)
Lemma init_pick_rets cfg l force negotiated bits :
  cache_ok cfg (fl_cache l) -> force_ok cfg force ->
  rets (fun pick => forall f ft req, pick = Some (f, ft, req) ->
                    nth_error (c_feats cfg) f = Some ft /\ (f_kind ft = FBind -> req = true))
       (init_pick cfg l force negotiated bits).
Proof.
  intros Hc Hforce. unfold init_pick, call. cbn [bind].
  destruct force as [[i fti]|].
  - destruct (Hforce i fti eq_refl) as [Hk Hn].
    constructor. intro v. destruct v; try constructor.
    destruct (f =? i); constructor.
    intros f0 ft0 req0 H. inversion H; subst. split; [exact Hn|]. intro Hb. congruence.
  - destruct (filter (candidate cfg negotiated bits) (fl_cache l)) as [|e cands] eqn:Ef.
    + constructor. intros f ft req H. discriminate.
    + constructor. intro v. destruct v; try constructor.
      destruct (cache_find f (e :: cands)) as [req|] eqn:E1; [|constructor].
      destruct (nth_error (c_feats cfg) f) as [ft|] eqn:E2; [|constructor].
      destruct (negb req || forallb (fun e0 => snd e0) (e :: cands)); constructor.
      intros f0 ft0 req0 H. inversion H; subst. split; [exact E2|]. intro Hb.
      eapply cache_ok_find; [| exact E1 | exact E2 | exact Hb].
      rewrite <- Ef. apply cache_ok_filter. exact Hc.
Qed.

Lemma init_loop_nr pl cfg T n : forall l force negotiated w r w',
  cache_ok cfg (fl_cache l) -> force_ok cfg force -> calm_run cfg T -> NR (w_bits w) ->
  interp pl (init_loop n cfg l force negotiated) w = (r, w') -> extends T (w_trace w') ->
  (forall o, r <> ROk o) -> NR (w_bits w').
Proof.
  induction n as [|n IH]; intros l force negotiated w r w' Hc Hforce HT Hnr H Hext Hr.
  - cbn in H. inversion H; subst. exact Hnr.
  - rewrite init_loop_unfold, interp_bind in H.
    destruct (interp pl (init_pick cfg l force negotiated (w_bits w)) w) as [[pick| | |] w1] eqn:Ep;
      try (inversion H; subst; rewrite (nob_result (init_pick_nob cfg l force negotiated (w_bits w)) Ep); exact Hnr).
    pose proof (nob_result (init_pick_nob cfg l force negotiated (w_bits w)) Ep) as Hb1.
    assert (Hx := init_pick_rets cfg l force negotiated (w_bits w) Hc Hforce); eapply rets_ok in Hx; [|exact Ep].
    destruct pick as [[[f ft] req]|]; cbn [init_rest] in H.
    2: { inversion H; subst. exfalso. eapply Hr. reflexivity. }
    destruct (Hx f ft req eq_refl) as [Hnth Hbind].
    rewrite interp_bind in H.
    destruct (interp pl (run_feature n false f ft []) w1) as [[o| | |] w2] eqn:Er;
      try (inversion H; subst; rewrite (run_feature_err_bits Er), Hb1;
           [exact Hnr | intros o0 Ho; discriminate]).
    destruct (run_feature_ok Er) as [Hb2 [Hout [Hin Hw12]]].
    destruct (snd o) eqn:Ers.
    + destruct req.
      * inversion H; subst. exfalso. eapply Hr. reflexivity.
      * eapply IH with (w := w2); try eassumption.
        rewrite Hb2, Hb1.
        apply feature_keeps_nr with (cfg := cfg) (T := T) (f := f) (ft := ft) (req := false);
          try assumption; try reflexivity.
        rewrite Ers. eapply in_final_trace; [exact H | exact Hext | exact Hin].
    + inversion H; subst. exfalso. eapply Hr. reflexivity.
    + inversion H; subst. exfalso. eapply Hr. reflexivity.
Qed.

(* ------------------------------------------------------------------ negotiateFeatures, the negotiators, the session loop *)

Lemma write_features_cache_ok cfg : rets (flist_ok cfg) (write_features cfg).
Proof.
  unfold write_features, get_bits, wr. cbn [bind]. constructor. intro bits.
  apply rets_bind2 with (R := flist_ok cfg).
  - apply list_features_cache_ok; [intros j ft Hj; exact Hj | constructor].
  - intros l Hl. constructor. constructor. exact Hl.
Qed.

Lemma features_receiver_nr pl cfg T n w r w' :
  calm_run cfg T -> NR (w_bits w) ->
  interp pl (features_receiver n cfg) w = (r, w') -> extends T (w_trace w') ->
  (forall o, r <> ROk o) -> NR (w_bits w').
Proof.
  intros HT Hnr H Hext Hr. unfold features_receiver in H. rewrite interp_bind in H.
  destruct (interp pl (write_features cfg) w) as [[l| | |] w1] eqn:Ew;
    try (inversion H; subst; rewrite (nob_result (write_features_nob cfg) Ew); exact Hnr).
  assert (Hl := write_features_cache_ok cfg). eapply rets_ok in Hl; [|exact Ew].
  eapply recv_loop_nr with (w := w1); try eassumption.
  rewrite (nob_result (write_features_nob cfg) Ew). exact Hnr.
Qed.

Lemma features_initiator_nr pl cfg T n first w r w' :
  calm_run cfg T -> NR (w_bits w) ->
  interp pl (features_initiator n cfg first) w = (r, w') -> extends T (w_trace w') ->
  (forall o, r <> ROk o) -> NR (w_bits w').
Proof.
  intros HT Hnr H Hext Hr. unfold features_initiator in H. cbn [interp] in H.
  pose proof (read_tok_bits pl w) as Hb0.
  destruct (read_tok pl w) as [[t|] w0]; cbn [snd] in Hb0;
    [|inversion H; subst; rewrite Hb0; exact Hnr].
  destruct t as [c| | | |]; try (cbn [interp] in H; inversion H; subst; rewrite Hb0; exact Hnr).
  destruct c; try (cbn [interp] in H; inversion H; subst; rewrite Hb0; exact Hnr).
  rewrite interp_bind in H.
  destruct (interp pl (read_children n cfg (mkFL 0 false [])) w0) as [[l| | |] w1] eqn:Er;
    try (inversion H; subst; rewrite (nob_result (read_children_nob n cfg _) Er), Hb0; exact Hnr).
  pose proof (nob_result (read_children_nob n cfg _) Er) as Hb1.
  assert (Hl : flist_ok cfg l).
  { eapply rets_ok; [apply (read_children_cache_ok cfg n (mkFL 0 false [])); constructor | exact Er]. }
  assert (Hnr1 : NR (w_bits w1)) by (rewrite Hb1, Hb0; exact Hnr).
  unfold get_bits in H. cbn [bind interp] in H.
  destruct (find_starttls (c_feats cfg) 0) as [[i fti]|] eqn:Ef.
  - destruct (first && negb (match cache_find i (fl_cache l) with Some _ => true | None => false end)
              && negb (has (w_bits w1) st_Secure) && neg_of fti).
    + eapply init_loop_nr with (w := w1); try eassumption.
      intros i0 ft0 E0. inversion E0; subst.
      destruct (find_starttls_spec _ _ _ _ Ef) as [Hk [d [Hi Hd]]]. split; [exact Hk|].
      rewrite Hi. exact Hd.
    + destruct (fl_total l =? 0); [inversion H; subst; exfalso; eapply Hr; reflexivity|].
      destruct (fl_cache l) eqn:Ec; [inversion H; subst; exact Hnr1|].
      eapply init_loop_nr with (w := w1); try eassumption. intros i0 ft0 E0; discriminate.
  - destruct (fl_total l =? 0); [inversion H; subst; exfalso; eapply Hr; reflexivity|].
    destruct (fl_cache l) eqn:Ec; [inversion H; subst; exact Hnr1|].
    eapply init_loop_nr with (w := w1); try eassumption. intros i0 ft0 E0; discriminate.
Qed.

(* the header exchange of the standard negotiator *)
Definition std_pre (n : nat) (cfg : config) (ns : nstate) (recv : bool) : prog unit :=
  if ns_restart ns then
    if recv then
      h <- expect n true (c_ws cfg) ;;
      guard (fst h) ;;;
      wr WHeader
    else
      wr WHeader ;;;
      h <- expect n true (c_ws cfg) ;;
      guard (fst h)
  else Ret tt.

Definition std_feat (n : nat) (cfg : config) (ns : nstate) (recv : bool) : prog outcome :=
  if recv then features_receiver n cfg else features_initiator n cfg (negb (ns_started ns)).

Definition std_done (o : outcome) : outcome * nstate :=
  (o, mkNS (match snd o with RSNone => false | _ => true end) true).

Lemma std_call_unfold pl n cfg ns w :
  interp pl (std_call n cfg ns) w =
  interp pl (std_pre n cfg ns (has (w_bits w) st_Received) ;;;
             o <- std_feat n cfg ns (has (w_bits w) st_Received) ;; Ret (std_done o)) w.
Proof. reflexivity. Qed.

Lemma std_pre_nob n cfg ns recv : no_orbits (std_pre n cfg ns recv).
Proof. unfold std_pre. struct. Qed.

Lemma std_pre_wok P n cfg ns recv : wru_ok P (std_pre n cfg ns recv).
Proof. unfold std_pre. pose proof (expect_wok P n). struct. Qed.

Lemma std_call_nr pl cfg T n ns w r w' :
  calm_run cfg T -> NR (w_bits w) ->
  interp pl (std_call n cfg ns) w = (r, w') -> extends T (w_trace w') ->
  (forall x, r <> ROk x) -> NR (w_bits w').
Proof.
  intros HT Hnr H Hext Hr. rewrite std_call_unfold, interp_bind in H.
  set (recv := has (w_bits w) st_Received) in *.
  destruct (interp pl (std_pre n cfg ns recv) w) as [[[]| | |] w1] eqn:Ep;
    try (inversion H; subst; rewrite (nob_result (std_pre_nob n cfg ns recv) Ep); exact Hnr).
  pose proof (nob_result (std_pre_nob n cfg ns recv) Ep) as Hb1.
  rewrite interp_bind in H.
  destruct (interp pl (std_feat n cfg ns recv) w1) as [[o| | |] w2] eqn:Ef.
  - cbn [interp] in H. inversion H; subst. exfalso. eapply Hr. reflexivity.
  - inversion H; subst. unfold std_feat in Ef. destruct recv.
    + eapply features_receiver_nr with (w := w1); try eassumption; [rewrite Hb1; exact Hnr | intros o Ho; discriminate].
    + eapply features_initiator_nr with (w := w1); try eassumption; [rewrite Hb1; exact Hnr | intros o Ho; discriminate].
  - inversion H; subst. unfold std_feat in Ef. destruct recv.
    + eapply features_receiver_nr with (w := w1); try eassumption; [rewrite Hb1; exact Hnr | intros o Ho; discriminate].
    + eapply features_initiator_nr with (w := w1); try eassumption; [rewrite Hb1; exact Hnr | intros o Ho; discriminate].
  - inversion H; subst. unfold std_feat in Ef. destruct recv.
    + eapply features_receiver_nr with (w := w1); try eassumption; [rewrite Hb1; exact Hnr | intros o Ho; discriminate].
    + eapply features_initiator_nr with (w := w1); try eassumption; [rewrite Hb1; exact Hnr | intros o Ho; discriminate].
Qed.

(* one call of the configured negotiator *)
Definition neg_call (n : nat) (cfg : config) (ns : nstate) : prog (outcome * nstate) :=
  match c_neg cfg with NStd => std_call n cfg ns | NComp => comp_call n end.

Lemma neg_call_nr pl cfg T n ns w r w' :
  calm_run cfg T -> NR (w_bits w) ->
  interp pl (neg_call n cfg ns) w = (r, w') -> extends T (w_trace w') ->
  (forall x, r <> ROk x) -> NR (w_bits w').
Proof.
  intros HT Hnr H Hext Hr. unfold neg_call in H. destruct (c_neg cfg).
  - eapply std_call_nr; eassumption.
  - rewrite (nob_result (comp_call_nob n) H). exact Hnr.
Qed.

Lemma session_unfold pl n m cfg ns w :
  interp pl (session n (S m) cfg ns) w =
  if is_ready (w_bits w) then (ROk tt, w) else
  interp pl (r <- neg_call n cfg ns ;;
             Restart (snd (fst r)) (or_bits (fst (fst r)) ;;; session n m cfg (snd r))) w.
Proof. cbn [session bind interp get_bits]. destruct (is_ready (w_bits w)); reflexivity. Qed.

Lemma session_zero pl n cfg ns w :
  interp pl (session n 0 cfg ns) w = if is_ready (w_bits w) then (ROk tt, w) else (RFuel, w).
Proof. cbn [session bind interp get_bits]. destruct (is_ready (w_bits w)); reflexivity. Qed.

(* an error never leaves the Ready bit behind *)
Lemma session_nr pl cfg T n : forall m ns w r w',
  calm_run cfg T -> interp pl (session n m cfg ns) w = (r, w') -> extends T (w_trace w') ->
  r <> ROk tt -> NR (w_bits w').
Proof.
  induction m as [|m IH]; intros ns w r w' HT H Hext Hr.
  - rewrite session_zero in H. destruct (is_ready (w_bits w)) eqn:Er; inversion H; subst.
    + exfalso. apply Hr. reflexivity.
    + exact Er.
  - rewrite session_unfold in H. destruct (is_ready (w_bits w)) eqn:Er.
    + inversion H; subst. exfalso. apply Hr. reflexivity.
    + rewrite interp_bind in H.
      destruct (interp pl (neg_call n cfg ns) w) as [[x| | |] w1] eqn:Ec.
      * cbn [interp bind or_bits] in H. eapply IH; eassumption.
      * inversion H; subst. eapply neg_call_nr with (w := w); try eassumption. intros x Hx; discriminate.
      * inversion H; subst. eapply neg_call_nr with (w := w); try eassumption. intros x Hx; discriminate.
      * inversion H; subst. eapply neg_call_nr with (w := w); try eassumption. intros x Hx; discriminate.
Qed.

(* ------------------------------------------------------------------ an error result and the Ready bit *)

Lemma run_err_not_ready cfg pl bits clear tls calls r w :
  run cfg pl bits clear tls calls = (r, w) -> calm_run cfg (w_trace w) ->
  r <> ROk tt -> is_ready (w_bits w) = false.
Proof.
  unfold run. intros H HT Hr.
  eapply session_nr; [exact HT | exact H | apply extends_refl | exact Hr].
Qed.

(* Witness observed on the implementation (no fault at all): a voluntary custom feature
   reports Ready, the required feature negotiated next fails: error, Ready bit set. *)
Definition wit_ready_cfg : config :=
  mkCfg NStd false [mkF FCustom 0 0 true false false; mkF FCustom 0 0 true false false].
Definition wit_ready_clear : list sitem :=
  [Brk; T Decl; T (Open (KHdr true true true));
   Brk; T (Open KFeatures); T (Open (KFeat 0 false false)); T Close; T (Open (KFeat 1 true false)); T Close; T Close].
Definition wit_ready_calls : list sval := [VChoice 0; VOut 4 false false; VChoice 1; VOut 0 false true].

Definition wit_ready_world : world :=
  Eval vm_compute in snd (run wit_ready_cfg (mkPlan FNone None true) 0%N wit_ready_clear [] wit_ready_calls).

Lemma wit_ready_run_eq :
  run wit_ready_cfg (mkPlan FNone None true) 0%N wit_ready_clear [] wit_ready_calls = (RErr, wit_ready_world).
Proof. vm_compute. reflexivity. Qed.

Lemma err_not_ready_refuted :
  exists cfg pl bits clear tls calls w,
    run cfg pl bits clear tls calls = (RErr, w) /\ is_ready (w_bits w) = true.
Proof.
  exists wit_ready_cfg, (mkPlan FNone None true), 0%N, wit_ready_clear, [], wit_ready_calls, wit_ready_world.
  split; [exact wit_ready_run_eq | vm_compute; reflexivity].
Qed.

(* ------------------------------------------------------------------ cut: surviving the failing operation *)

Arguments run_feature_alive {pl k n recv f ft pre w o w'}.

(* an Ok result of the receiving side's loop: operation k was not performed, or the loop ended
   with SASL's outcome (whose <success/> flush is the one write that may fail silently) *)
Lemma recv_loop_cut pl k cfg n : p_fail pl k = true -> forall l negotiated w o w',
  alive k w -> interp pl (recv_loop n cfg l negotiated) w = (ROk o, w') ->
  alive k w' \/ o = (st_Authn, RSSame).
Proof.
  intro Hf. induction n as [|n IH]; intros l negotiated w o w' Ha H.
  - cbn in H. discriminate.
  - rewrite recv_loop_unfold in H. apply interp_bind_ok in H. destruct H as [x [w1 [Ep H]]].
    assert (Ha1 : alive k w1).
    { eapply (alive_ok (p := recv_pick n cfg l negotiated)); [exact Hf | apply recv_pick_wok | exact Ha | exact Ep]. }
    destruct x as [[[f ft] req] pre]. unfold recv_rest in H.
    apply interp_bind_ok in H. destruct H as [o1 [w2 [Er H]]].
    destruct (run_feature_ok Er) as [_ [Hout _]].
    destruct (f_kind ft) eqn:Ek; cbn [builtin_outcome] in Hout.
    + subst o1. cbn in H. inversion H; subst. left.
      eapply (run_feature_alive Hf); [ | exact Ha1 | exact Er]; intro; congruence.
    + subst o1. cbn in H. inversion H; subst. right. reflexivity.
    + subst o1. assert (Ha2 : alive k w2) by (eapply (run_feature_alive Hf); [ | exact Ha1 | exact Er]; intro; congruence).
      cbn [snd] in H. destruct req.
      * cbn in H. inversion H; subst. left. exact Ha2.
      * eapply IH; eassumption.
    + assert (Ha2 : alive k w2) by (eapply (run_feature_alive Hf); [ | exact Ha1 | exact Er]; intro; congruence).
      destruct (snd o1) eqn:Ers.
      * destruct req; [cbn in H; inversion H; subst; left; exact Ha2 | eapply IH; eassumption].
      * cbn in H. inversion H; subst. left. exact Ha2.
      * cbn in H. inversion H; subst. left. exact Ha2.
Qed.

Lemma neg_call_cut pl k cfg n ns w x w' : p_fail pl k = true ->
  alive k w -> interp pl (neg_call n cfg ns) w = (ROk x, w') ->
  alive k w' \/ (fst x = (st_Authn, RSSame) /\ ns_restart (snd x) = true /\
                 c_neg cfg = NStd /\ has (w_bits w) st_Received = true).
Proof.
  intros Hf Ha H. unfold neg_call in H. destruct (c_neg cfg) eqn:Eneg.
  - rewrite std_call_unfold in H. set (recv := has (w_bits w) st_Received) in *.
    apply interp_bind_ok in H. destruct H as [[] [w1 [Ep H]]].
    assert (Ha1 : alive k w1).
    { eapply (alive_ok (p := std_pre n cfg ns recv)); [exact Hf | apply std_pre_wok | exact Ha | exact Ep]. }
    apply interp_bind_ok in H. destruct H as [o [w2 [Efe H]]]. cbn [interp] in H. inversion H; subst.
    unfold std_feat in Efe. destruct recv eqn:Erecv.
    + unfold features_receiver in Efe. apply interp_bind_ok in Efe. destruct Efe as [l [w3 [Ew El]]].
      assert (Ha3 : alive k w3).
      { eapply (alive_ok (p := write_features cfg)); [exact Hf | apply write_features_wok | exact Ha1 | exact Ew]. }
      destruct (recv_loop_cut pl k cfg n Hf _ _ _ _ _ Ha3 El) as [Ha4|Ho]; [left; exact Ha4|].
      right. subst o. repeat split; reflexivity.
    + left. eapply (alive_ok (p := features_initiator n cfg (negb (ns_started ns))));
        [exact Hf | apply features_initiator_wok | exact Ha1 | exact Efe].
  - left. eapply (alive_ok (p := comp_call n)); [exact Hf | apply comp_call_wok | exact Ha | exact H].
Qed.

(* the receiving side's loop ends with a restart: the Ready bit is still clear *)
Lemma recv_loop_restart_nr pl cfg T n : forall l negotiated w o w',
  cache_ok cfg (fl_cache l) -> calm_run cfg T -> NR (w_bits w) ->
  interp pl (recv_loop n cfg l negotiated) w = (ROk o, w') -> extends T (w_trace w') ->
  snd o <> RSNone -> NR (w_bits w').
Proof.
  induction n as [|n IH]; intros l negotiated w o w' Hc HT Hnr H Hext Hrs.
  - cbn in H. discriminate.
  - rewrite recv_loop_unfold in H. apply interp_bind_ok in H. destruct H as [x [w1 [Ep H]]].
    pose proof (nob_result (recv_pick_nob n cfg l negotiated) Ep) as Hb1.
    assert (Hx := recv_pick_rets n cfg l negotiated); eapply rets_ok in Hx; [|exact Ep].
    destruct x as [[[f ft] req] pre]. destruct Hx as [Hfind Hnth].
    unfold recv_rest in H. apply interp_bind_ok in H. destruct H as [o1 [w2 [Er H]]].
    destruct (run_feature_ok Er) as [Hb2 [Hout [Hin Hw12]]].
    destruct (snd o1) eqn:Ers.
    + destruct req.
      * cbn in H. inversion H; subst. exfalso. apply Hrs. unfold after_loop. rewrite Ers.
        destruct (fl_req l); [exact Ers | reflexivity].
      * eapply IH with (w := w2); try eassumption.
        rewrite Hb2, Hb1.
        apply feature_keeps_nr with (cfg := cfg) (T := T) (f := f) (ft := ft) (req := false);
          try assumption; try reflexivity.
        { intro Ek. eapply cache_ok_find; eassumption. }
        rewrite Ers. eapply in_final_trace; [exact H | exact Hext | exact Hin].
    + cbn in H. inversion H; subst. rewrite Hb2, Hb1. unfold NR. rewrite is_ready_lor; [exact Hnr|].
      destruct (f_kind ft) eqn:Ek; cbn [builtin_outcome] in Hout.
      * rewrite Hout. reflexivity.
      * rewrite Hout. reflexivity.
      * rewrite Hout in Ers. discriminate.
      * eapply HT; [| exact Hnth | exact Ek]. eapply extends_in; [exact Hext | exact Hin].
    + cbn in H. inversion H; subst. rewrite Hb2, Hb1. unfold NR. rewrite is_ready_lor; [exact Hnr|].
      destruct (f_kind ft) eqn:Ek; cbn [builtin_outcome] in Hout.
      * rewrite Hout. reflexivity.
      * rewrite Hout. reflexivity.
      * rewrite Hout in Ers. discriminate.
      * destruct Hout as [Ho|Ho]; rewrite Ho in Ers; discriminate.
Qed.

Lemma neg_call_restart_nr pl cfg T n ns w x w' :
  calm_run cfg T -> NR (w_bits w) -> c_neg cfg = NStd -> has (w_bits w) st_Received = true ->
  interp pl (neg_call n cfg ns) w = (ROk x, w') -> extends T (w_trace w') ->
  snd (fst x) <> RSNone -> NR (w_bits w').
Proof.
  intros HT Hnr Hneg Hrecv H Hext Hrs. unfold neg_call in H. rewrite Hneg in H.
  rewrite std_call_unfold, Hrecv in H.
  apply interp_bind_ok in H. destruct H as [[] [w1 [Ep H]]].
  pose proof (nob_result (std_pre_nob n cfg ns true) Ep) as Hb1.
  apply interp_bind_ok in H. destruct H as [o [w2 [Efe H]]]. cbn [interp] in H. inversion H; subst.
  cbn [std_feat] in Efe. unfold features_receiver in Efe.
  apply interp_bind_ok in Efe. destruct Efe as [l [w3 [Ew El]]].
  assert (Hl := write_features_cache_ok cfg). eapply rets_ok in Hl; [|exact Ew].
  eapply recv_loop_restart_nr with (w := w3); try eassumption.
  rewrite (nob_result (write_features_nob cfg) Ew), Hb1. exact Hnr.
Qed.

(* ------------------------------------------------------------------ doomed worlds *)

(* nothing is buffered in the decoder: the next token needs a connection Read *)
Definition fresh (s : list sitem) : Prop := match s with T _ :: _ => False | _ => True end.

Lemma drop_to_brk_fresh s : fresh (drop_to_brk s).
Proof. induction s as [|[t|] r IH]; cbn; auto. Qed.

(* from w on every connection operation fails / every ctx test sees a cancelled context *)
Definition ops_doomed (pl : plan) (w : world) : Prop := forall w2, wle w w2 -> forall b, op_ok pl w2 b = false.
Definition ctx_doomed (pl : plan) (w : world) : Prop := forall w2, wle w w2 -> ctx_done pl w2 = true.
Definition doomed (pl : plan) (w : world) : Prop := ops_doomed pl w \/ ctx_doomed pl w.

Lemma doomed_wle pl w w2 : doomed pl w -> wle w w2 -> doomed pl w2.
Proof.
  intros [H|H] Hw; [left | right]; intros w3 Hw3; apply H; eapply wle_trans; eassumption.
Qed.

Lemma read_fresh_fails pl w : ops_doomed pl w -> fresh (w_script w) -> fst (read_tok pl w) = None.
Proof.
  intros Hd Hf. unfold read_tok. destruct (w_script w) as [|[t|] r]; cbn [read_tok_from].
  - reflexivity.
  - contradiction.
  - unfold do_read_op. rewrite (Hd w (wle_refl w) false). reflexivity.
Qed.

(* Expect on an empty decoder buffer does not return in a doomed world *)
Lemma doomed_expect pl n first ws w : doomed pl w -> fresh (w_script w) ->
  forall x w', interp pl (expect n first ws) w <> (ROk x, w').
Proof.
  intros Hd Hf x w'. destruct n as [|n]; cbn [expect]; [cbn; discriminate|].
  unfold ctx. cbn [bind interp].
  destruct (ctx_done pl w) eqn:Ec; [discriminate|].
  destruct Hd as [Hd|Hd]; [|rewrite (Hd w (wle_refl w)) in Ec; discriminate].
  assert (Hd1 : ops_doomed pl (set_trace w (ECtxPass (w_ops w)))).
  { intros w2 Hw2. apply Hd. eapply wle_trans; [apply wle_set_trace | exact Hw2]. }
  pose proof (read_fresh_fails pl _ Hd1 Hf) as Hr.
  destruct (read_tok pl (set_trace w (ECtxPass (w_ops w)))) as [[t|] w1]; cbn in Hr; [discriminate | discriminate].
Qed.

Lemma doomed_write pl s w : ops_doomed pl w -> fst (do_write pl s w) = false.
Proof. intro Hd. unfold do_write. cbn. apply (Hd w (wle_refl w)). Qed.

Lemma doomed_std_pre pl n cfg ns recv w : doomed pl w -> fresh (w_script w) -> ns_restart ns = true ->
  forall x w', interp pl (std_pre n cfg ns recv) w <> (ROk x, w').
Proof.
  intros Hd Hf Hr x w'. unfold std_pre. rewrite Hr. destruct recv.
  - rewrite interp_bind.
    destruct (interp pl (expect n true (c_ws cfg)) w) as [[h| | |] w1] eqn:E; try discriminate.
    exfalso. eapply doomed_expect; eassumption.
  - unfold wr. cbn [bind interp].
    destruct (do_write pl WHeader w) as [ok w1] eqn:Ew. destruct ok; [|discriminate].
    rewrite interp_bind.
    assert (Hw1 : wle w w1) by (pose proof (wle_do_write pl WHeader w) as Hx; rewrite Ew in Hx; exact Hx).
    assert (Hf1 : fresh (w_script w1)) by (unfold do_write in Ew; inversion Ew; subst; exact Hf).
    destruct (interp pl (expect n true (c_ws cfg)) w1) as [[h| | |] w2] eqn:E; try discriminate.
    exfalso. eapply doomed_expect; [eapply doomed_wle; eassumption | exact Hf1 | exact E].
Qed.

Lemma doomed_comp_call pl n w : doomed pl w -> fresh (w_script w) ->
  forall x w', interp pl (comp_call n) w <> (ROk x, w').
Proof.
  intros Hd Hf x w'. unfold comp_call, get_bits, wr. cbn [bind interp].
  destruct (has (w_bits w) st_Received); [cbn; discriminate|]. cbn [bind interp].
  destruct (do_write pl WHeader w) as [ok w1] eqn:Ew. destruct ok; [|discriminate].
  assert (Hw1 : wle w w1) by (pose proof (wle_do_write pl WHeader w) as Hx; rewrite Ew in Hx; exact Hx).
  assert (Hf1 : fresh (w_script w1)) by (unfold do_write in Ew; inversion Ew; subst; exact Hf).
  pose proof (doomed_wle pl w w1 Hd Hw1) as Hd1.
  rewrite interp_bind.
  destruct n as [|n]; [cbn; discriminate|]. cbn [comp_header]. unfold ctx. cbn [bind interp].
  destruct (ctx_done pl w1) eqn:Ec; [discriminate|].
  destruct Hd1 as [Hd1|Hd1]; [|rewrite (Hd1 w1 (wle_refl w1)) in Ec; discriminate].
  assert (Hd2 : ops_doomed pl (set_trace w1 (ECtxPass (w_ops w1)))).
  { intros w2 Hw2. apply Hd1. eapply wle_trans; [apply wle_set_trace | exact Hw2]. }
  pose proof (read_fresh_fails pl _ Hd2 Hf1) as Hr.
  destruct (read_tok pl (set_trace w1 (ECtxPass (w_ops w1)))) as [[t|] w2]; cbn in Hr; discriminate.
Qed.

Lemma doomed_neg_call pl cfg n ns w : doomed pl w -> fresh (w_script w) -> ns_restart ns = true ->
  forall x w', interp pl (neg_call n cfg ns) w <> (ROk x, w').
Proof.
  intros Hd Hf Hr x w'. unfold neg_call. destruct (c_neg cfg).
  - rewrite std_call_unfold, interp_bind.
    destruct (interp pl (std_pre n cfg ns (has (w_bits w) st_Received)) w) as [[u| | |] w1] eqn:E; try discriminate.
    exfalso. eapply doomed_std_pre; eassumption.
  - apply doomed_comp_call; assumption.
Qed.

(* ------------------------------------------------------------------ the session loop under a fault at operation k *)

Lemma alive_dec k w : {alive k w} + {k < w_ops w}.
Proof. unfold alive. destruct (le_lt_dec (w_ops w) k); [left | right]; assumption. Qed.

(* An Ok result means that operation k was never performed, provided it fails and everything
   after it is doomed (all later operations fail, or the context is seen cancelled). *)
Lemma session_survive pl k cfg T n :
  p_fail pl k = true -> (forall w, k < w_ops w -> doomed pl w) -> calm_run cfg T ->
  forall m ns w w',
    interp pl (session n m cfg ns) w = (ROk tt, w') -> extends T (w_trace w') ->
    (alive k w \/ (fresh (w_script w) /\ ns_restart ns = true /\ NR (w_bits w))) ->
    alive k w'.
Proof.
  intros Hf Hdoom HT. induction m as [|m IH]; intros ns w w' H Hext Hst.
  - rewrite session_zero in H. destruct (is_ready (w_bits w)) eqn:Er; [|discriminate].
    inversion H; subst. destruct Hst as [Ha|[_ [_ Hnr]]]; [exact Ha | unfold NR in Hnr; congruence].
  - rewrite session_unfold in H. destruct (is_ready (w_bits w)) eqn:Er.
    + inversion H; subst. destruct Hst as [Ha|[_ [_ Hnr]]]; [exact Ha | unfold NR in Hnr; congruence].
    + apply interp_bind_ok in H. destruct H as [x [w1 [Ec H]]].
      cbn [interp bind or_bits] in H.
      destruct (alive_dec k w) as [Ha|Hlt].
      * (* operation k not yet performed *)
        destruct (neg_call_cut pl k cfg n ns w x w1 Hf Ha Ec) as [Ha1|[Hx [Hrs [Hneg Hrecv]]]].
        -- eapply IH; [exact H | exact Hext | left].
           unfold alive in *. destruct (snd (fst x)); cbn; exact Ha1.
        -- eapply IH; [exact H | exact Hext | right].
           rewrite Hx. cbn [fst snd do_restart w_script w_bits].
           split; [apply drop_to_brk_fresh|]. split; [exact Hrs|].
           unfold NR. rewrite is_ready_lor; [|reflexivity].
           eapply neg_call_restart_nr with (w := w); try eassumption.
           ++ pose proof (wle_trace (wle_result H)) as Ht. cbn in Ht.
              rewrite Hx in Ht. cbn in Ht. eapply extends_trans; eassumption.
           ++ rewrite Hx. cbn. discriminate.
      * (* operation k has failed and was survived: only right after SASL's restart *)
        destruct Hst as [Ha|[Hfr [Hrs Hnr]]]; [unfold alive in Ha; lia|].
        exfalso. eapply doomed_neg_call; [apply Hdoom; exact Hlt | exact Hfr | exact Hrs | exact Ec].
Qed.

Lemma cut_dooms k c hs w : k < w_ops w -> doomed (mkPlan (FCut k) c hs) w.
Proof.
  intro Hlt. left. intros w2 Hw2 b. unfold op_ok, p_fail. cbn [p_fault].
  pose proof (wle_ops Hw2) as Ho.
  assert (E : (k <=? w_ops w2) = true) by (apply Nat.leb_le; lia). rewrite E. reflexivity.
Qed.

(* the cut run and the un-faulted run *)
Lemma cut_fails_closed cfg c hs bits clear tls calls k ru wu rc wc :
  run cfg (mkPlan FNone c hs) bits clear tls calls = (ru, wu) ->
  run cfg (mkPlan (FCut k) c hs) bits clear tls calls = (rc, wc) ->
  k < w_ops wu -> calm_run cfg (w_trace wc) ->
  rc <> ROk tt /\ is_ready (w_bits wc) = false.
Proof.
  intros Hu Hc Hk HT.
  assert (Hne : rc <> ROk tt).
  { intro E. subst rc.
    (* an Ok cut run never performed operation k ... *)
    assert (Ha : alive k wc).
    { unfold run in Hc. eapply session_survive with (pl := mkPlan (FCut k) c hs) (k := k);
        [ | intros w Hw; apply cut_dooms; exact Hw | exact HT | exact Hc | apply extends_refl | left; unfold alive; cbn; lia].
      unfold p_fail. cbn. apply Nat.leb_refl. }
    (* ... so it coincides with the un-faulted run, which performed more than k operations *)
    assert (Hag : agree_below k (mkPlan FNone c hs) (mkPlan (FCut k) c hs)).
    { split; [|split; [intros w0 _; reflexivity | reflexivity]]. intros i Hi. unfold p_fail. cbn.
      symmetry. apply Nat.leb_gt. exact Hi. }
    unfold run in Hu, Hc.
    pose proof (interp_agree (session (fuel_of clear tls) (fuel_of clear tls) cfg (mkNS true false)) Hag
                  (init_world bits clear tls calls)) as Hco.
    unfold coincide_or_pass in Hco. rewrite Hu, Hc in Hco. cbn [snd] in Hco.
    destruct Hco as [[_ Hle]|[_ Hgt]]; [cbn; lia | lia | unfold alive in Ha; lia]. }
  split; [exact Hne|]. eapply run_err_not_ready; eassumption.
Qed.

(* ------------------------------------------------------------------ cancellation *)

(* The context is cancelled while operation c is blocked: the operation fails (deadline
   pulse) and every later ctx test sees the cancellation. *)
Lemma cancel_dooms c hs w : c < w_ops w -> doomed (mkPlan (FTransient c) (Some c) hs) w.
Proof.
  intro Hlt. right. intros w2 Hw2. unfold ctx_done. cbn [p_cancel].
  pose proof (wle_ops Hw2) as Ho. apply Nat.ltb_lt. lia.
Qed.

Lemma cancel_blocked_fails cfg hs bits clear tls calls c ru wu rc wc :
  run cfg (mkPlan FNone None hs) bits clear tls calls = (ru, wu) ->
  run cfg (mkPlan (FTransient c) (Some c) hs) bits clear tls calls = (rc, wc) ->
  c < w_ops wu -> calm_run cfg (w_trace wc) ->
  rc <> ROk tt /\ is_ready (w_bits wc) = false.
Proof.
  intros Hu Hc Hk HT.
  assert (Hne : rc <> ROk tt).
  { intro E. subst rc.
    assert (Ha : alive c wc).
    { unfold run in Hc. eapply session_survive with (pl := mkPlan (FTransient c) (Some c) hs) (k := c);
        [ | intros w Hw; apply cancel_dooms; exact Hw | exact HT | exact Hc | apply extends_refl | left; unfold alive; cbn; lia].
      unfold p_fail. cbn. apply Nat.eqb_refl. }
    assert (Hag : agree_below c (mkPlan FNone None hs) (mkPlan (FTransient c) (Some c) hs)).
    { split; [|split; [|reflexivity]].
      - intros i Hi. unfold p_fail. cbn. symmetry. apply Nat.eqb_neq. lia.
      - intros w0 Hw0. unfold ctx_done. cbn. symmetry. apply Nat.ltb_ge. exact Hw0. }
    unfold run in Hu, Hc.
    pose proof (interp_agree (session (fuel_of clear tls) (fuel_of clear tls) cfg (mkNS true false)) Hag
                  (init_world bits clear tls calls)) as Hco.
    unfold coincide_or_pass in Hco. rewrite Hu, Hc in Hco. cbn [snd] in Hco.
    destruct Hco as [[_ Hle]|[_ Hgt]]; [cbn; lia | lia | unfold alive in Ha; lia]. }
  split; [exact Hne|]. eapply run_err_not_ready; eassumption.
Qed.

(* The context is cancelled between two operations (at the entry of operation c, the
   deadline pulse leaves no trace): if the un-cancelled run makes a ctx test later than that,
   the cancelled run ends in an error. *)
Lemma cancel_before_ctx_test cfg f hs bits clear tls calls c n ru wu rc wc :
  run cfg (mkPlan f None hs) bits clear tls calls = (ru, wu) ->
  In (ECtxPass n) (w_trace wu) -> c < n ->
  run cfg (mkPlan f (Some c) hs) bits clear tls calls = (rc, wc) ->
  rc = RErr.
Proof.
  unfold run. intros Hu Hin Hlt Hc.
  destruct (interp_cancel (P := eq WSuccess) f hs c
              (session_wok (eq WSuccess) (fuel_of clear tls) cfg eq_refl (fuel_of clear tls) (mkNS true false))
              (init_world bits clear tls calls)) as [He|[_ [new [Hn Hp]]]].
  - rewrite Hc in He. exact He.
  - exfalso. rewrite Hu in Hn. cbn in Hn. rewrite app_nil_r in Hn. rewrite Hn in Hin.
    specialize (Hp n Hin). lia.
Qed.

(* Witness observed on the implementation: initiator, header and empty features list in two
   Reads, context cancelled when the second Read (operation 1... of 3) is entered. *)
Definition wit_cancel_cfg : config := mkCfg NStd false [].
Definition wit_cancel_clear : list sitem :=
  [Brk; T Decl; T (Open (KHdr true true true)); Brk; T (Open KFeatures); T Close].

Definition wit_cancel_world : world :=
  Eval vm_compute in snd (run wit_cancel_cfg (mkPlan FNone (Some 1) true) 0%N wit_cancel_clear [] []).

Lemma wit_cancel_run_eq :
  run wit_cancel_cfg (mkPlan FNone (Some 1) true) 0%N wit_cancel_clear [] [] = (ROk tt, wit_cancel_world).
Proof. vm_compute. reflexivity. Qed.

Definition wit_cancel_uworld : world :=
  Eval vm_compute in snd (run wit_cancel_cfg (mkPlan FNone None true) 0%N wit_cancel_clear [] []).

Lemma wit_cancel_urun_eq :
  run wit_cancel_cfg (mkPlan FNone None true) 0%N wit_cancel_clear [] [] = (ROk tt, wit_cancel_uworld).
Proof. vm_compute. reflexivity. Qed.

Lemma cancel_before_completion_refuted :
  exists cfg f hs bits clear tls calls c ru wu wc,
    run cfg (mkPlan f None hs) bits clear tls calls = (ru, wu) /\
    c < w_ops wu /\
    run cfg (mkPlan f (Some c) hs) bits clear tls calls = (ROk tt, wc).
Proof.
  exists wit_cancel_cfg, FNone, true, 0%N, wit_cancel_clear, [], [], 1, (ROk tt), wit_cancel_uworld, wit_cancel_world.
  split; [exact wit_cancel_urun_eq|]. split; [vm_compute; lia | exact wit_cancel_run_eq].
Qed.

(* ------------------------------------------------------------------ a checker for calm_run *)

Definition calm_evb (cfg : config) (e : event) : bool :=
  match e with
  | ENegOk f m _ =>
      match nth_error (c_feats cfg) f with
      | Some ft => match f_kind ft with FCustom => N.eqb (N.land m st_Ready) 0 | _ => true end
      | None => true
      end
  | _ => true
  end.

Lemma calm_runb_sound cfg T : forallb (calm_evb cfg) T = true -> calm_run cfg T.
Proof.
  intros H f m rs ft Hin Hn Hk. rewrite forallb_forall in H. specialize (H _ Hin).
  cbn in H. rewrite Hn, Hk in H. apply N.eqb_eq. exact H.
Qed.
