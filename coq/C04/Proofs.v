(* C04/Proofs.v — the lemmas behind the property theorems of C04/Properties.v. *)
From XV Require Import lib.Bytes gen.NegTables C04.Model C04.Generic C04.Structure.

(* ------------------------------------------------------------------ bits *)

Definition NR (b : N) : Prop := is_ready b = false.

Lemma is_ready_lor b m : N.land m st_Ready = 0%N -> is_ready (N.lor b m) = is_ready b.
Proof.
  unfold is_ready, has. intro H. rewrite N.land_lor_distr_l, H, N.lor_0_r. reflexivity.
Qed.

Lemma secure_no_ready : N.land st_Secure st_Ready = 0%N.  Proof. reflexivity. Qed.
Lemma authn_no_ready : N.land st_Authn st_Ready = 0%N.  Proof. reflexivity. Qed.

(* "Custom features reported no Ready in this run": no successful Negotiate of a custom
   feature logged in the trace T carries the Ready bit. The built-in features are covered by
   their own outcomes (Structure.builtin_outcome). *)
Definition calm_run (cfg : config) (T : list event) : Prop :=
  forall f m rs ft, In (ENegOk f m rs) T -> nth_error (c_feats cfg) f = Some ft ->
                    f_kind ft = FCustom -> N.land m st_Ready = 0%N.

Lemma extends_in {A} (T l : list A) x : extends T l -> In x l -> In x T.
Proof. intros [new H] Hin. subst. apply in_or_app. right. exact Hin. Qed.

(* ------------------------------------------------------------------ run_feature *)

(* the world after the two trailing steps of run_feature *)
Definition after_neg (w1 : world) (f : nat) (o : outcome) : world :=
  mkW (w_ops w1) (w_script w1) (w_tls w1) (w_tlslayer w1) (w_hs w1) (w_wdead w1)
      (N.lor (w_bits w1) (fst o)) (w_calls w1) (ENegOk f (fst o) (snd o) :: w_trace w1).

Lemma run_feature_interp pl n recv f ft pre w :
  interp pl (run_feature n recv f ft pre) w =
  match interp pl (feed pre (negotiate_feature n recv ft)) (set_trace w (ENegStart f)) with
  | (ROk o, w1) => (ROk o, after_neg w1 f o)
  | (r, w1) => (res_map r, w1)
  end.
Proof.
  unfold run_feature, logev, or_bits. cbn [bind interp]. rewrite interp_bind.
  destruct (interp pl (feed pre (negotiate_feature n recv ft)) (set_trace w (ENegStart f))) as [[o| | |] w1];
    reflexivity.
Qed.

(* the mask of a failing step is never applied *)
Lemma run_feature_err_bits pl n recv f ft pre w r w' :
  interp pl (run_feature n recv f ft pre) w = (r, w') -> (forall o, r <> ROk o) -> w_bits w' = w_bits w.
Proof.
  rewrite run_feature_interp. intros H Hr.
  pose proof (no_orbits_bits pl (no_orbits_feed (negotiate_feature_nob n recv ft) pre) (set_trace w (ENegStart f))) as Hb.
  destruct (interp pl (feed pre (negotiate_feature n recv ft)) (set_trace w (ENegStart f))) as [[o| | |] w1];
    inversion H; subst; cbn [snd] in Hb; try exact Hb.
  exfalso. eapply Hr. reflexivity.
Qed.

Lemma run_feature_ok pl n recv f ft pre w o w' :
  interp pl (run_feature n recv f ft pre) w = (ROk o, w') ->
  w_bits w' = N.lor (w_bits w) (fst o) /\
  builtin_outcome (f_kind ft) o /\
  In (ENegOk f (fst o) (snd o)) (w_trace w') /\
  wle w w'.
Proof.
  rewrite run_feature_interp. intro H.
  pose proof (no_orbits_bits pl (no_orbits_feed (negotiate_feature_nob n recv ft) pre) (set_trace w (ENegStart f))) as Hb.
  pose proof (interp_wle (feed pre (negotiate_feature n recv ft)) pl (set_trace w (ENegStart f))) as Hw.
  destruct (interp pl (feed pre (negotiate_feature n recv ft)) (set_trace w (ENegStart f))) as [[o1| | |] w1] eqn:E;
    inversion H; subst. cbn [snd] in Hb, Hw.
  split; [|split; [|split]].
  - cbn. rewrite Hb. reflexivity.
  - eapply rets_ok; [|exact E]. apply rets_feed. apply negotiate_feature_rets.
  - cbn. left. reflexivity.
  - eapply wle_trans; [apply wle_set_trace|]. eapply wle_trans; [exact Hw|].
    constructor; cbn; [lia | apply extends_cons | exists []; reflexivity].
Qed.

(* a feature other than the receiving side's SASL does not survive the failing operation *)
Lemma run_feature_alive pl k n recv f ft pre w o w' :
  p_fail pl k = true -> (f_kind ft = FSASL -> recv = false) ->
  alive k w -> interp pl (run_feature n recv f ft pre) w = (ROk o, w') -> alive k w'.
Proof.
  intros Hf Hk Ha H. eapply (alive_ok (p := run_feature n recv f ft pre)); [exact Hf | | exact Ha | exact H].
  apply run_feature_wok. intros E R. rewrite (Hk E) in R. discriminate.
Qed.

(* ------------------------------------------------------------------ small helpers *)

Lemma nob_result A (p : prog A) pl w r w' : no_orbits p -> interp pl p w = (r, w') -> w_bits w' = w_bits w.
Proof. intros Hp H. pose proof (no_orbits_bits pl Hp w) as Hb. rewrite H in Hb. exact Hb. Qed.

Lemma wle_result A (p : prog A) pl w r w' : interp pl p w = (r, w') -> wle w w'.
Proof. intro H. pose proof (interp_wle p pl w) as Hw. rewrite H in Hw. exact Hw. Qed.

Arguments nob_result {A p pl w r w'}.
Arguments wle_result {A p pl w r w'}.
Arguments run_feature_err_bits {pl n recv f ft pre w r w'}.
Arguments run_feature_ok {pl n recv f ft pre w o w'}.

Lemma read_tok_bits pl w : w_bits (snd (read_tok pl w)) = w_bits w.
Proof. apply read_tok_from_bits. Qed.

(* ------------------------------------------------------------------ the receiving side's selection loop *)

(* one iteration up to the point where the selected feature is run *)
Definition recv_pick (n : nat) (cfg : config) (l : flist) (negotiated : list nat)
  : prog (nat * feature * bool * list tok) :=
  Rd (fun t =>
    match t with
    | Open c =>
        sel <- match c with
               | KIq _ =>
                   t2 <- trim_space n ;;
                   match t2 with
                   | Open (KSel f e) => Ret (f, [t; t2])
                   | _ => Fail
                   end
               | KSel f e => Ret (f, [t])
               | _ => Fail
               end ;;
        let f := fst sel in
        bits <- get_bits ;;
        match cache_find f (fl_cache l), nth_error (c_feats cfg) f with
        | Some req, Some ft =>
            if negb (mem f negotiated) && neg_of ft && allowed ft bits
            then Ret (f, ft, req, snd sel) else Fail
        | _, _ => Fail
        end
    | _ => Fail
    end).

Definition recv_rest (n : nat) (cfg : config) (l : flist) (negotiated : list nat)
  (x : nat * feature * bool * list tok) : prog outcome :=
  let '(f, ft, req, pre) := x in
  o <- run_feature n true f ft pre ;;
  match snd o with
  | RSNone => if req then Ret (after_loop l o) else recv_loop n cfg l (f :: negotiated)
  | _ => Ret o
  end.

Lemma recv_loop_unfold pl n cfg l negotiated w :
  interp pl (recv_loop (S n) cfg l negotiated) w =
  interp pl (x <- recv_pick n cfg l negotiated ;; recv_rest n cfg l negotiated x) w.
Proof.
  unfold recv_pick. cbn [recv_loop bind interp].
  destruct (read_tok pl w) as [[t|] w1]; [|reflexivity].
  destruct t as [c| | | |]; try reflexivity.
  rewrite !interp_bind.
  match goal with |- context [interp pl ?sel w1] => destruct (interp pl sel w1) as [[[f toks]| | |] w2] end;
    try reflexivity.
  unfold get_bits. cbn [bind interp fst snd].
  destruct (cache_find f (fl_cache l)) as [req|]; [|reflexivity].
  destruct (nth_error (c_feats cfg) f) as [ft|]; [|reflexivity].
  destruct (negb (mem f negotiated) && neg_of ft && allowed ft (w_bits w2)); reflexivity.
Qed.

Lemma recv_pick_nob n cfg l negotiated : no_orbits (recv_pick n cfg l negotiated).
Proof. unfold recv_pick. pose proof (trim_space_nob n). struct. Qed.

Lemma recv_pick_wok P n cfg l negotiated : wru_ok P (recv_pick n cfg l negotiated).
Proof. unfold recv_pick. pose proof (trim_space_wok P n). struct. Qed.

Lemma recv_pick_rets n cfg l negotiated :
  rets (fun x => let '(f, ft, req, _) := x in
                 cache_find f (fl_cache l) = Some req /\ nth_error (c_feats cfg) f = Some ft)
       (recv_pick n cfg l negotiated).
Proof.
  unfold recv_pick. unfold get_bits. cbn [bind].
  constructor. intro t. destruct t as [c| | | |]; try constructor.
  apply rets_bind. intros [f toks]. cbn [fst snd]. constructor. intro bits.
  destruct (cache_find f (fl_cache l)) as [req|] eqn:E1; [|constructor].
  destruct (nth_error (c_feats cfg) f) as [ft|] eqn:E2; [|constructor].
  destruct (negb (mem f negotiated) && neg_of ft && allowed ft bits); constructor.
  split; assumption.
Qed.

(* an event logged before w2 is in the final trace T *)
Lemma in_final_trace A (p : prog A) pl w2 r w' T e :
  interp pl p w2 = (r, w') -> extends T (w_trace w') -> In e (w_trace w2) -> In e T.
Proof.
  intros H Hext Hin. eapply extends_in; [exact Hext|].
  eapply extends_in; [apply (wle_trace (wle_result H)) | exact Hin].
Qed.

(* the bits after a successful feature that lets the loop go on are still without Ready *)
Lemma feature_keeps_nr cfg T f ft req (o : outcome) l b :
  cache_ok cfg (fl_cache l) -> calm_run cfg T ->
  cache_find f (fl_cache l) = Some req -> nth_error (c_feats cfg) f = Some ft ->
  builtin_outcome (f_kind ft) o -> In (ENegOk f (fst o) (snd o)) T ->
  snd o = RSNone -> req = false -> NR b -> NR (N.lor b (fst o)).
Proof.
  intros Hc HT Hfind Hnth Hout Hin Hrs Hreq Hnr. unfold NR. rewrite is_ready_lor; [exact Hnr|].
  destruct (f_kind ft) eqn:Ek; cbn [builtin_outcome] in Hout.
  - subst o. discriminate.
  - subst o. discriminate.
  - assert (req = true) by (eapply cache_ok_find; eassumption). congruence.
  - eapply HT; eassumption.
Qed.

Lemma recv_loop_nr pl cfg T n : forall l negotiated w r w',
  cache_ok cfg (fl_cache l) -> calm_run cfg T -> NR (w_bits w) ->
  interp pl (recv_loop n cfg l negotiated) w = (r, w') -> extends T (w_trace w') ->
  (forall o, r <> ROk o) -> NR (w_bits w').
Proof.
  induction n as [|n IH]; intros l negotiated w r w' Hc HT Hnr H Hext Hr.
  - cbn in H. inversion H; subst. exact Hnr.
  - rewrite recv_loop_unfold, interp_bind in H.
    destruct (interp pl (recv_pick n cfg l negotiated) w) as [[x| | |] w1] eqn:Ep;
      try (inversion H; subst; rewrite (nob_result (recv_pick_nob n cfg l negotiated) Ep); exact Hnr).
    pose proof (nob_result (recv_pick_nob n cfg l negotiated) Ep) as Hb1.
    assert (Hx := recv_pick_rets n cfg l negotiated); eapply rets_ok in Hx; [|exact Ep].
    destruct x as [[[f ft] req] pre]. destruct Hx as [Hfind Hnth].
    unfold recv_rest in H. rewrite interp_bind in H.
    destruct (interp pl (run_feature n true f ft pre) w1) as [[o| | |] w2] eqn:Er;
      try (inversion H; subst; rewrite (run_feature_err_bits Er), Hb1;
           [exact Hnr | intros o0 Ho; discriminate]).
    destruct (run_feature_ok Er) as [Hb2 [Hout [Hin Hw12]]].
    destruct (snd o) eqn:Ers.
    + destruct req.
      * inversion H; subst. exfalso. eapply Hr. reflexivity.
      * eapply IH with (w := w2); try eassumption.
        rewrite Hb2, Hb1. eapply feature_keeps_nr; try eassumption; try reflexivity.
        rewrite Ers. eapply in_final_trace; [exact H | exact Hext | exact Hin].
    + inversion H; subst. exfalso. eapply Hr. reflexivity.
    + inversion H; subst. exfalso. eapply Hr. reflexivity.
Qed.

(* ------------------------------------------------------------------ a nil error and the steps of the run *)

(* Every event of the run is that of a step that succeeded; P: sites of writes whose failure
   is tolerated. *)
Definition all_steps_ok (P : wsite -> Prop) (T : list event) : Prop := Forall (clean P) T.

Lemma run_ok_clean cfg pl bits clear tls calls w :
  run cfg pl bits clear tls calls = (ROk tt, w) -> all_steps_ok (eq WSuccess) (w_trace w).
Proof.
  unfold run. intro H.
  eapply (ok_clean (P := eq WSuccess)) in H; [|apply session_wok; reflexivity].
  destruct H as [new [Ht Hc]]. cbn in Ht. rewrite app_nil_r in Ht. rewrite Ht. exact Hc.
Qed.

(* Witness observed on the implementation (receiver, SASL PLAIN + bind on a secure
   connection, exactly the Write that carries <success/> fails): nil error, Ready. *)
Definition wit_flush_cfg : config :=
  mkCfg NStd false [mkF FSASL 0 0 true false false; mkF FBind 0 0 true false false].
Definition wit_flush_clear : list sitem :=
  [Brk; T Decl; T (Open (KHdr true true false));
   Brk; T (Open (KSel 0 (EAuth true true))); T (Text false); T Close;
   Brk; T Decl; T (Open (KHdr true true false));
   Brk; T (Open (KIq false)); T (Open (KSel 1 EBindReq)); T Close; T Close].
Definition wit_flush_run : res unit * world :=
  run wit_flush_cfg (mkPlan (FTransient 4) None true) 9%N wit_flush_clear [] [VStep false SNone; VBind false].

(* evaluated once by the VM; nothing below unfolds the run symbolically *)
Definition wit_flush_world : world := Eval vm_compute in snd wit_flush_run.

Lemma wit_flush_run_eq : wit_flush_run = (ROk tt, wit_flush_world).
Proof. vm_compute. reflexivity. Qed.

Lemma wit_flush_failed_write : In (EWrite WSuccess false) (w_trace wit_flush_world).
Proof. vm_compute. tauto. Qed.

Lemma nil_error_all_ok_refuted :
  exists cfg pl bits clear tls calls w,
    run cfg pl bits clear tls calls = (ROk tt, w) /\ ~ all_steps_ok (fun _ => False) (w_trace w).
Proof.
  exists wit_flush_cfg, (mkPlan (FTransient 4) None true), 9%N, wit_flush_clear, [], [VStep false SNone; VBind false],
         wit_flush_world.
  split.
  - exact wit_flush_run_eq.
  - intro HF. unfold all_steps_ok in HF. rewrite Forall_forall in HF.
    pose proof (HF _ wit_flush_failed_write) as HC. unfold clean in HC.
    destruct HC as [HC|HC]; [discriminate | exact HC].
Qed.
