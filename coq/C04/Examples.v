(* C04/Examples.v — non-vacuity: concrete, non-trivial instances of the hypotheses of the
   theorems in C04/Properties.v, and the witnesses that refuted three statements of the
   earlier code, replayed on the model of the repaired code. Concrete runs are evaluated by
   vm_compute only. *)
From XV Require Import lib.Bytes gen.NegTables C04.Model C04.Generic C04.Structure C04.Fuel C04.Steps C04.Proofs C04.Properties.

(* receiver, SASL PLAIN + bind on a secure connection (harness scenario recv-sasl-bind) *)
Definition ex_cfg : config :=
  mkCfg NStd false [mkF FSASL 0 0 true false false; mkF FBind 0 0 true false false].
Definition ex_clear : list sitem :=
  [Brk; T Decl; T (Open (KHdr true true false));
   Brk; T (Open (KSel 0 (EAuth true true))); T (Text false); T Close;
   Brk; T Decl; T (Open (KHdr true true false));
   Brk; T (Open (KIq false)); T (Open (KSel 1 EBindReq)); T Close; T Close].
Definition ex_calls : list sval := [VStep false SNone; VBind BOk].
Definition ex_run (pl : plan) := run ex_cfg pl 9%N ex_clear [] ex_calls.

(* the un-faulted handshake completes: Ok, Received|Secure|Authn|Ready, 10 operations *)
Example ex_unfaulted_ok :
  fst (ex_run (mkPlan FNone CGeneric None true true false true)) = ROk tt /\
  w_bits (snd (ex_run (mkPlan FNone CGeneric None true true false true))) = 15%N /\
  w_ops (snd (ex_run (mkPlan FNone CGeneric None true true false true))) = 10.
Proof. vm_compute. repeat split. Qed.

(* every cut point, every transient fault, every blocked and every idle cancellation of this
   handshake: error, Ready clear (the theorems cover all handshakes; this is one instance
   of their premises k < 10) *)
Definition closed (pl : plan) : bool :=
  match fst (ex_run pl) with RErr => true | _ => false end && negb (is_ready (w_bits (snd (ex_run pl)))).

Example ex_every_cut_fails : forallb (fun k => closed (mkPlan (FCut k) CGeneric None true true false true)) (seq 0 10) = true.
Proof. vm_compute. reflexivity. Qed.
Example ex_every_transient_fails : forallb (fun k => closed (mkPlan (FTransient k) CGeneric None true true false true)) (seq 0 10) = true.
Proof. vm_compute. reflexivity. Qed.
Example ex_every_blocked_cancel_fails : forallb (fun k => closed (mkPlan FNone CGeneric (Some k) true true false true)) (seq 0 10) = true.
Proof. vm_compute. reflexivity. Qed.
Example ex_every_idle_cancel_fails : forallb (fun c => closed (mkPlan FNone CGeneric (Some c) false true false true)) (seq 0 10) = true.
Proof. vm_compute. reflexivity. Qed.

(* former witness 1 (sasl.go dropped the flush error of <success/>): exactly operation 4, the
   Write of <success/>, fails. Was Ok/Ready; now an error with Received|Secure only. *)
Example ex_transient_at_success_flush :
  fst (ex_run (mkPlan (FTransient 4) CGeneric None true true false true)) = RErr /\
  w_bits (snd (ex_run (mkPlan (FTransient 4) CGeneric None true true false true))) = 9%N.
Proof. vm_compute. split; reflexivity. Qed.

(* former witness 2 (features.go kept the Ready bit of a voluntary feature): a voluntary
   custom feature reports Ready, the required one negotiated next fails. Was an error with
   Ready set; now the bit is cleared. *)
Definition ex2_cfg : config :=
  mkCfg NStd false [mkF FCustom 0 0 true false false; mkF FCustom 0 0 true false false].
Definition ex2_clear : list sitem :=
  [Brk; T Decl; T (Open (KHdr true true true));
   Brk; T (Open KFeatures); T (Open (KFeat 0 false false)); T Close; T (Open (KFeat 1 true false)); T Close; T Close].
Definition ex2_run := run ex2_cfg (mkPlan FNone CGeneric None true true false true) 0%N ex2_clear [] [VParse false false; VParse true false; VChoice 0; VOut 4 false false; VChoice 1; VOut 0 false true].
Example ex_voluntary_ready_then_failure :
  fst ex2_run = RErr /\ is_ready (w_bits (snd ex2_run)) = false /\
  In (ENegOk 0 4%N RSNone) (w_trace (snd ex2_run)).
Proof. vm_compute. repeat split. tauto. Qed.

(* ... and that run shows what a failed Negotiate leaves in the trace: two started, one completed *)
Example ex_failed_negotiate_unbalanced :
  starts (w_trace (snd ex2_run)) = 2 /\ oks (w_trace (snd ex2_run)) = 1 /\
  starts (w_trace (snd (ex_run (mkPlan FNone CGeneric None true true false true)))) = 2 /\
  oks (w_trace (snd (ex_run (mkPlan FNone CGeneric None true true false true)))) = 2.
Proof. vm_compute. repeat split. Qed.

(* former witness 3 (session.go ignored a cancellation after the last stream header):
   initiator, header and empty features list in two Reads, cancelled when the second Read is
   entered. Was Ok; now an error. *)
Definition ex3_clear : list sitem :=
  [Brk; T Decl; T (Open (KHdr true true true)); Brk; T (Open KFeatures); T Close].
Definition ex3_run (c : option nat) := run (mkCfg NStd false []) (mkPlan FNone CGeneric c false false false true) 0%N ex3_clear [] [].
Example ex_cancel_after_last_header :
  fst (ex3_run None) = ROk tt /\ w_ops (snd (ex3_run None)) = 3 /\
  fst (ex3_run (Some 1)) = RErr /\ fst (ex3_run (Some 2)) = RErr.
Proof. vm_compute. repeat split. Qed.

(* bind.go's receiving side: the callback answers with a stanza error: the error IQ is
   written, and the session is not reported ready *)
Example ex_bind_stanza_error :
  fst (run ex_cfg (mkPlan FNone CGeneric None true true false true) 9%N ex_clear [] [VStep false SNone; VBind BStanza]) = RErr /\
  In (EWrite WBindRes true) (w_trace (snd (run ex_cfg (mkPlan FNone CGeneric None true true false true) 9%N ex_clear [] [VStep false SNone; VBind BStanza]))).
Proof. vm_compute. split; [reflexivity | tauto]. Qed.

(* a step that fails by itself, without any connection fault: the List step of a VOLUNTARY
   custom feature on the receiving side, listed before a feature that could complete the
   session (seeded change C04-m8 made features.go swallow exactly this error); and the Parse
   step of a voluntary feature on the initiating side *)
Definition ex4_cfg : config :=
  mkCfg NStd false [mkF FCustom 0 0 true false false; mkF FCustom 0 0 true false false].
Definition ex4_clear : list sitem :=
  [Brk; T Decl; T (Open (KHdr true true false)); Brk; T (Open (KSel 1 ECustom)); T Close].
Example ex_voluntary_list_fails :
  fst (run ex4_cfg (mkPlan FNone CGeneric None true true false true) 8%N ex4_clear [] [VList false true]) = RErr /\
  (* had the error been dropped, the handshake would have completed: *)
  fst (run ex4_cfg (mkPlan FNone CGeneric None true true false true) 8%N ex4_clear [] [VList false false; VList true false; VOut 4 false false]) = ROk tt.
Proof. vm_compute. split; reflexivity. Qed.

Definition ex5_clear : list sitem :=
  [Brk; T Decl; T (Open (KHdr true true true));
   Brk; T (Open KFeatures); T (Open (KFeat 0 false true)); T Close; T (Open (KFeat 1 true false)); T Close; T Close].
Example ex_voluntary_parse_fails :
  fst (run ex4_cfg (mkPlan FNone CGeneric None true true false true) 0%N ex5_clear [] [VParse false true]) = RErr /\
  fst (run ex4_cfg (mkPlan FNone CGeneric None true true false true) 0%N ex5_clear [] [VParse false false; VParse true false; VChoice 0; VOut 0 false false; VChoice 1; VOut 4 false false]) = ROk tt.
Proof. vm_compute. split; reflexivity. Qed.

(* the built-in features' masks are the ones the model uses (gen/NegTables.v is regenerated
   from the source on every run) *)
Example ex_tables :
  st_Secure = 1%N /\ st_Authn = 2%N /\ st_Ready = 4%N /\ st_Received = 8%N /\
  ft_sasl_nec = st_Secure /\ ft_sasl_proh = st_Authn /\ ft_bind_nec = st_Authn /\ ft_bind_proh = st_Ready /\
  ft_starttls_proh = st_Secure.
Proof. vm_compute. repeat split. Qed.
