(* C04/Examples.v — non-vacuity: concrete, non-trivial instances of the hypotheses of the
   theorems in C04/Properties.v, on a real handshake (receiver, SASL PLAIN + bind on a secure
   connection; the scripts are those of the harness scenario recv-sasl-bind) and on the plain
   initiator handshake. Concrete runs are evaluated by vm_compute only. *)
From XV Require Import lib.Bytes gen.NegTables C04.Model C04.Generic C04.Structure C04.Proofs C04.Properties.

Definition ex_calls : list sval := [VStep false SNone; VBind false].
Definition ex_run (pl : plan) := run wit_flush_cfg pl 9%N wit_flush_clear [] ex_calls.

(* the un-faulted handshake completes: Ok, Received|Secure|Authn|Ready, 10 operations *)
Example ex_unfaulted_ok :
  fst (ex_run (mkPlan FNone None true)) = ROk tt /\
  w_bits (snd (ex_run (mkPlan FNone None true))) = 15%N /\
  w_ops (snd (ex_run (mkPlan FNone None true))) = 10.
Proof. vm_compute. repeat split. Qed.

(* premises of C04_cut_fails_closed at k = 4 (the <success/> flush, the one write whose own
   error is dropped): k is below the 10 operations, the cut run is calm; and the conclusion *)
Example ex_cut_premises :
  4 < w_ops (snd (ex_run (mkPlan FNone None true))) /\
  forallb (calm_evb wit_flush_cfg) (w_trace (snd (ex_run (mkPlan (FCut 4) None true)))) = true.
Proof. vm_compute. split; [lia | reflexivity]. Qed.

Example ex_cut_conclusion :
  fst (ex_run (mkPlan (FCut 4) None true)) = RErr /\
  w_bits (snd (ex_run (mkPlan (FCut 4) None true))) = 11%N.   (* Received|Secure|Authn, no Ready *)
Proof. vm_compute. split; reflexivity. Qed.

(* every cut point of this handshake, by computation (the theorem covers all handshakes) *)
Example ex_every_cut_fails :
  forallb (fun k => match fst (ex_run (mkPlan (FCut k) None true)) with RErr => true | _ => false end
                    && negb (is_ready (w_bits (snd (ex_run (mkPlan (FCut k) None true))))))
          (seq 0 10) = true.
Proof. vm_compute. reflexivity. Qed.

(* the same fault as a transient one is the refutation witness of Properties.v: Ok *)
Example ex_transient_at_flush_ok : fst (ex_run (mkPlan (FTransient 4) None true)) = ROk tt.
Proof. vm_compute. reflexivity. Qed.

(* every other transient fault of this handshake fails closed *)
Example ex_other_transients_fail :
  forallb (fun k => match fst (ex_run (mkPlan (FTransient k) None true)) with RErr => true | _ => false end)
          [0; 1; 2; 3; 5; 6; 7; 8; 9] = true.
Proof. vm_compute. reflexivity. Qed.

(* premises of C04_cancel_while_blocked_fails at c = 4, and the outcome *)
Example ex_blocked_cancel :
  forallb (calm_evb wit_flush_cfg) (w_trace (snd (ex_run (mkPlan (FTransient 4) (Some 4) true)))) = true /\
  fst (ex_run (mkPlan (FTransient 4) (Some 4) true)) = RErr.
Proof. vm_compute. split; reflexivity. Qed.

(* premise of C04_cancel_before_step_partial: the un-cancelled run makes a ctx test (that of
   the second stream header, 5 operations performed) after operation 3 *)
Example ex_cancel_partial_premise :
  In (ECtxPass 5) (w_trace (snd (ex_run (mkPlan FNone None true)))) /\
  fst (ex_run (mkPlan FNone (Some 3) true)) = RErr.
Proof. vm_compute. split; [tauto | reflexivity]. Qed.

(* ... and a cancellation after the last header is ignored (C04_cancel_before_step_refuted) *)
Example ex_cancel_after_last_header_ignored :
  fst (ex_run (mkPlan FNone (Some 7) true)) = ROk tt.
Proof. vm_compute. reflexivity. Qed.

(* the calm-run premise is not vacuous the other way either: the witness of
   C04_error_state_not_ready_refuted is rejected by the checker *)
Example ex_not_calm :
  forallb (calm_evb wit_ready_cfg) (w_trace wit_ready_world) = false.
Proof. vm_compute. reflexivity. Qed.

(* the built-in features' masks are the ones the proofs rely on (gen/NegTables.v is
   regenerated from the source on every run) *)
Example ex_tables :
  st_Secure = 1%N /\ st_Authn = 2%N /\ st_Ready = 4%N /\ st_Received = 8%N /\
  ft_sasl_nec = st_Secure /\ ft_sasl_proh = st_Authn /\ ft_bind_nec = st_Authn /\ ft_bind_proh = st_Ready /\
  ft_starttls_proh = st_Secure.
Proof. vm_compute. repeat split. Qed.
