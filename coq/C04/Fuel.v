(* C04/Fuel.v — the standard fuel always suffices: [run] never ends in RFuel.
   Every loop but one reads a token per iteration, so a fuel above the number of items left
   in the peer's stream is enough ([fits]); the initiating side's selection loop negotiates a
   cached feature that was not negotiated before in every iteration (bound: size of the
   cache + 1); every call of a negotiator reads at least one token before it returns
   ([eats]), which bounds the iterations of negotiateSession's loop. *)
From XV Require Import lib.Bytes gen.NegTables C04.Model C04.Generic C04.Structure.

Create HintDb fitdb.

Ltac fit_step :=
  first
  [ progress intros
  | match goal with
    | |- fits _ (bind _ _) => apply fits_bind
    end
  | solve [auto with fitdb]
  | match goal with |- fits _ _ => constructor end
  | split_match ].

Ltac fit := open_defs; cbn [bind]; repeat fit_step.

Lemma skip_fits : forall n d b, b < n -> fits b (skip n d).
Proof.
  induction n as [|n IH]; intros d b Hb; [lia|]. cbn [skip]. constructor. intros t b' Hb'.
  destruct t as [c| | | |]; try (apply IH; lia). destruct d; [constructor | apply IH; lia].
Qed.
#[export] Hint Extern 1 (fits _ (skip _ _)) => apply skip_fits; lia : fitdb.

Lemma expect_fits : forall n first ws b, b < n -> fits b (expect n first ws).
Proof.
  induction n as [|n IH]; intros first ws b Hb; [lia|]. cbn [expect].
  assert (HI : forall f w b', b' < n -> fits b' (expect n f w)) by (intros; apply IH; assumption).
  fit. all: try (apply HI; lia).
Qed.
#[export] Hint Extern 1 (fits _ (expect _ _ _)) => apply expect_fits; lia : fitdb.

Lemma sasl_decode_fits n a t b : b < n -> fits b (sasl_decode n a t).
Proof. intro Hb. unfold sasl_decode. fit. Qed.
#[export] Hint Extern 1 (fits _ (sasl_decode _ _ _)) => apply sasl_decode_fits; lia : fitdb.

Lemma sasl_client_loop_fits : forall n more success b, b < n -> fits b (sasl_client_loop n more success).
Proof.
  induction n as [|n IH]; intros more success b Hb; [lia|]. cbn [sasl_client_loop].
  assert (HI : forall m s b', b' < n -> fits b' (sasl_client_loop n m s)) by (intros; apply IH; assumption).
  fit. all: try (apply HI; lia).
Qed.
#[export] Hint Extern 1 (fits _ (sasl_client_loop _ _ _)) => apply sasl_client_loop_fits; lia : fitdb.

Lemma sasl_server_loop_fits : forall n sel b, b < n -> fits b (sasl_server_loop n sel).
Proof.
  induction n as [|n IH]; intros sel b Hb; [lia|]. cbn [sasl_server_loop].
  assert (HI : forall s b', b' < n -> fits b' (sasl_server_loop n s)) by (intros; apply IH; assumption).
  fit. all: try (apply HI; lia).
Qed.
#[export] Hint Extern 1 (fits _ (sasl_server_loop _ _)) => apply sasl_server_loop_fits; lia : fitdb.

Lemma negotiate_feature_fits n recv f b : b < n -> fits b (negotiate_feature n recv f).
Proof.
  intro Hb. unfold negotiate_feature. destruct (f_kind f); destruct recv;
    unfold starttls_client, starttls_server, sasl_client, sasl_server, bind_client, bind_server,
           custom_server, custom_client, custom_outcome; fit.
Qed.

Lemma run_feature_fits n recv f ft pre b : b + length pre < n -> fits b (run_feature n recv f ft pre).
Proof.
  intro Hb. unfold run_feature, logev, or_bits. cbn [bind]. constructor. apply fits_bind.
  - apply fits_feed. apply negotiate_feature_fits. exact Hb.
  - intro o. repeat constructor.
Qed.

Lemma list_features_fits : forall fs i bits acc b, fits b (list_features fs i bits acc).
Proof.
  induction fs as [|f fs IH]; intros i bits acc b; cbn [list_features]; [constructor|].
  fit. all: try apply IH.
Qed.
#[export] Hint Extern 1 (fits _ (list_features _ _ _ _)) => apply list_features_fits : fitdb.

Lemma write_features_fits cfg b : fits b (write_features cfg).
Proof. unfold write_features. fit. Qed.

Lemma read_children_fits cfg : forall n acc b, b < n -> fits b (read_children n cfg acc).
Proof.
  induction n as [|n IH]; intros acc b Hb; [lia|]. cbn [read_children].
  assert (HI : forall a b', b' < n -> fits b' (read_children n cfg a)) by (intros; apply IH; assumption).
  fit. all: try (apply HI; lia).
Qed.
#[export] Hint Extern 1 (fits _ (read_children _ _ _)) => apply read_children_fits; lia : fitdb.

Lemma trim_space_fits : forall n b, b < n -> fits b (trim_space n).
Proof.
  induction n as [|n IH]; intros b Hb; [lia|]. cbn [trim_space]. constructor. intros t b' Hb'.
  destruct t as [c| |[|]| |]; try constructor. apply IH. lia.
Qed.
#[export] Hint Extern 1 (fits _ (trim_space _)) => apply trim_space_fits; lia : fitdb.

Lemma comp_header_fits : forall n fp b, b < n -> fits b (comp_header n fp).
Proof.
  induction n as [|n IH]; intros fp b Hb; [lia|]. cbn [comp_header].
  assert (HI : forall f b', b' < n -> fits b' (comp_header n f)) by (intros; apply IH; assumption).
  fit. all: try (apply HI; lia).
Qed.
#[export] Hint Extern 1 (fits _ (comp_header _ _)) => apply comp_header_fits; lia : fitdb.

Lemma comp_call_fits n b : b < n -> fits b (comp_call n).
Proof. intro Hb. unfold comp_call. fit. Qed.

(* ------------------------------------------------------------------ the initiating side's selection loop *)

(* cached features that were not negotiated yet *)
Definition todo (l : flist) (negotiated : list nat) : nat :=
  length (filter (fun e : nat * bool => negb (mem (fst e) negotiated)) (fl_cache l)).

Lemma filter_length_lt {A} (p q : A -> bool) (l : list A) x :
  In x l -> p x = true -> q x = false -> (forall y, q y = true -> p y = true) ->
  length (filter q l) < length (filter p l).
Proof.
  intros Hin Hp Hq Himp.
  assert (Hle : forall l0, length (filter q l0) <= length (filter p l0)).
  { induction l0 as [|y l0 IH]; cbn; [lia|]. destruct (q y) eqn:Eq.
    - rewrite (Himp y Eq). cbn. lia.
    - destruct (p y); cbn; lia. }
  induction l as [|y l IH]; [destruct Hin|]. cbn. destruct Hin as [E|Hin].
  - subst y. rewrite Hp, Hq. cbn. specialize (Hle l). lia.
  - specialize (IH Hin). destruct (q y) eqn:Eq.
    + rewrite (Himp y Eq). cbn. lia.
    + destruct (p y); cbn; lia.
Qed.

Lemma todo_decreases cfg l negotiated bits f req :
  cache_find f (filter (candidate cfg negotiated bits) (fl_cache l)) = Some req ->
  todo l (f :: negotiated) < todo l negotiated.
Proof.
  intro H. apply cache_find_in in H. apply filter_In in H. destruct H as [Hin Hc].
  unfold todo. eapply filter_length_lt with (x := (f, req)).
  - exact Hin.
  - unfold candidate in Hc. cbn [fst] in *. destruct (nth_error (c_feats cfg) f); [|discriminate].
    apply andb_true_iff in Hc. destruct Hc as [Hc _]. apply andb_true_iff in Hc. destruct Hc as [Hc _]. exact Hc.
  - cbn [fst mem existsb]. rewrite Nat.eqb_refl. reflexivity.
  - intros y Hy. cbn [mem existsb] in Hy. apply negb_true_iff in Hy. apply orb_false_iff in Hy.
    destruct Hy as [_ Hy]. apply negb_true_iff. exact Hy.
Qed.

Lemma init_loop_fits cfg l force n : forall k negotiated ready b,
  b < n -> todo l negotiated < k -> fits b (init_loop k n cfg l force negotiated ready).
Proof.
  induction k as [|k IH]; intros negotiated ready b Hb Ht; [lia|]. cbn [init_loop].
  unfold get_bits, call. cbn [bind]. constructor. intro bits.
  assert (HR : forall f ft, fits b (run_feature n false f ft [])) by (intros; apply run_feature_fits; cbn; lia).
  destruct force as [[i fti]|].
  - (* forced STARTTLS: required, the loop ends after it *)
    constructor. intro v. destruct v; try constructor.
    destruct (f =? i); [|constructor]. cbn [bind]. apply fits_bind; [apply HR|].
    intro o. cbv zeta. destruct (snd o); constructor.
  - destruct (filter (candidate cfg negotiated bits) (fl_cache l)) as [|e cands] eqn:Ef.
    + cbn [bind]. constructor.
    + constructor. intro v. destruct v; try constructor.
      destruct (cache_find f (e :: cands)) as [req|] eqn:E1; [|constructor].
      destruct (nth_error (c_feats cfg) f) as [ft|]; [|constructor].
      destruct (negb req || forallb (fun e0 : nat * bool => snd e0) (e :: cands)); [|constructor].
      cbn [bind]. apply fits_bind; [apply HR|].
      intro o. cbv zeta. destruct (snd o); try constructor. destruct req; [constructor|].
      apply IH; [exact Hb|]. rewrite <- Ef in E1.
      pose proof (todo_decreases cfg l negotiated bits f false E1). lia.
Qed.

Lemma todo_le l negotiated : todo l negotiated <= length (fl_cache l).
Proof.
  unfold todo. induction (fl_cache l) as [|e c IH]; cbn; [lia|].
  destruct (negb (mem (fst e) negotiated)); cbn; lia.
Qed.

Lemma features_initiator_fits n cfg first b : b < n -> fits b (features_initiator n cfg first).
Proof.
  intro Hb. unfold features_initiator. constructor. intros t b' Hb'.
  destruct t as [c| | | |]; try constructor. destruct c; try constructor.
  2: { apply fits_bind; [apply skip_fits; lia | intro; constructor]. }
  apply fits_bind; [apply read_children_fits; lia|].
  intro l. unfold get_bits. cbn [bind]. constructor. intro bits.
  assert (HL : forall force, fits b' (init_loop (S (length (fl_cache l))) n cfg l force [] false)).
  { intro force. apply init_loop_fits; [lia|]. pose proof (todo_le l []). lia. }
  destruct (find_starttls (c_feats cfg) 0) as [[i fti]|].
  - destruct (first && negb match cache_find i (fl_cache l) with Some _ => true | None => false end
              && negb (has bits st_Secure) && neg_of fti); [apply HL|].
    destruct (fl_total l =? 0); [constructor|]. destruct (fl_allowed l =? 0); [constructor | apply HL].
  - destruct (fl_total l =? 0); [constructor|]. destruct (fl_allowed l =? 0); [constructor | apply HL].
Qed.

(* ------------------------------------------------------------------ the receiving side's selection loop *)

Lemma recv_loop_fits cfg l : forall n negotiated ready b, b + 2 < n -> fits b (recv_loop n cfg l negotiated ready).
Proof.
  induction n as [|n IH]; intros negotiated ready b Hb; [lia|]. cbn [recv_loop].
  constructor. intros t b' Hb'. destruct t as [c| | | |]; try constructor.
  assert (HR : forall f ft pre, length pre <= 2 -> fits b' (run_feature n true f ft pre))
    by (intros; apply run_feature_fits; lia).
  assert (HI : forall neg rdy, fits b' (recv_loop n cfg l neg rdy)) by (intros; apply IH; lia).
  assert (Hrest : forall f pre, length pre <= 2 ->
            fits b' (bits <- get_bits ;;
                     match cache_find f (fl_cache l), nth_error (c_feats cfg) f with
                     | Some req, Some ft =>
                         if negb (mem f negotiated) && neg_of ft && allowed ft bits then
                           o <- run_feature n true f ft pre ;;
                           let ready' := ready || has (fst o) st_Ready in
                           match snd o with
                           | RSNone => if req then Ret (after_loop l ready' o)
                                       else recv_loop n cfg l (f :: negotiated) ready'
                           | _ => Ret (after_loop l ready' o)
                           end
                         else Fail
                     | _, _ => Fail
                     end)).
  { intros f pre Hp. unfold get_bits. cbn [bind]. constructor. intro bits.
    destruct (cache_find f (fl_cache l)) as [req|]; [|constructor].
    destruct (nth_error (c_feats cfg) f) as [ft|]; [|constructor].
    destruct (negb (mem f negotiated) && neg_of ft && allowed ft bits); [|constructor].
    apply fits_bind; [apply HR; exact Hp|].
    intro o. cbv zeta. destruct (snd o); try constructor. destruct req; [constructor | apply HI]. }
  apply fits_bind2 with (R := fun sel : nat * list tok => length (snd sel) <= 2).
  - destruct c; try constructor.
    apply fits_bind; [apply trim_space_fits; lia|]. intro t2. destruct t2 as [c2| | | |]; try constructor.
    destruct c2; constructor.
  - destruct c; try constructor.
    + cbn. lia.
    + apply rets_bind. intro t2. destruct t2 as [c2| | | |]; try constructor.
      destruct c2; constructor. cbn. lia.
  - intros [f pre] Hp. cbn [fst snd] in *. apply Hrest. exact Hp.
Qed.

Lemma features_receiver_fits n cfg b : b + 2 < n -> fits b (features_receiver n cfg).
Proof.
  intro Hb. unfold features_receiver. apply fits_bind; [apply write_features_fits|].
  intro l. apply recv_loop_fits. exact Hb.
Qed.

(* ------------------------------------------------------------------ negotiator calls *)

Definition neg_call (n : nat) (cfg : config) (ns : nstate) : prog (outcome * nstate) :=
  match c_neg cfg with NStd => std_call n cfg ns | NComp => comp_call n end.

Lemma std_call_fits n cfg ns b : b + 2 < n -> fits b (std_call n cfg ns).
Proof.
  intro Hb. unfold std_call.
  pose proof (features_receiver_fits n cfg b Hb). pose proof (features_initiator_fits n cfg (negb (ns_started ns)) b).
  assert (b < n) by lia.
  fit.
Qed.

Lemma neg_call_fits n cfg ns b : b + 2 < n -> fits b (neg_call n cfg ns).
Proof.
  intro Hb. unfold neg_call. destruct (c_neg cfg); [apply std_call_fits; exact Hb | apply comp_call_fits; lia].
Qed.

(* a negotiator call reads a token before it returns *)
Lemma recv_loop_eats n cfg l negotiated ready : eats (recv_loop n cfg l negotiated ready).
Proof. destruct n; cbn [recv_loop]; constructor. Qed.

Lemma comp_header_eats n fp : eats (comp_header n fp).
Proof. destruct n; cbn [comp_header]; [constructor|]. unfold ctx. cbn [bind]. repeat constructor. Qed.

Lemma neg_call_eats n cfg ns : eats (neg_call n cfg ns).
Proof.
  unfold neg_call. destruct (c_neg cfg).
  - unfold std_call, get_bits. cbn [bind]. constructor. intro bits.
    apply eats_bind_r. intros _. apply eats_bind_l.
    destruct (has bits st_Received).
    + unfold features_receiver. apply eats_bind_r. intro l. apply recv_loop_eats.
    + unfold features_initiator. constructor.
  - unfold comp_call, get_bits, wr. cbn [bind]. constructor. intro bits.
    destruct (has bits st_Received); [constructor|]. cbn [bind]. constructor.
    apply eats_bind_l. apply comp_header_eats.
Qed.

(* ------------------------------------------------------------------ the session loop and run *)

Lemma session_unfold pl n m cfg ns w :
  interp pl (session n (S m) cfg ns) w =
  if is_ready (w_bits w) then (ROk tt, w) else
  interp pl (r <- neg_call n cfg ns ;;
             ctx ;;;
             Restart (snd (fst r)) (or_bits (fst (fst r)) ;;; session n m cfg (snd r))) w.
Proof. cbn [session bind interp get_bits]. destruct (is_ready (w_bits w)); reflexivity. Qed.

Lemma session_nofuel pl n cfg : forall m ns w,
  rem w < m -> rem w + 2 < n -> fst (interp pl (session n m cfg ns) w) <> RFuel.
Proof.
  induction m as [|m IH]; intros ns w Hm Hn; [lia|].
  rewrite session_unfold. destruct (is_ready (w_bits w)); [cbn; discriminate|].
  rewrite interp_bind.
  pose proof (fits_sound pl (neg_call_fits n cfg ns (rem w) Hn) w (le_n _)) as Hnf.
  destruct (interp pl (neg_call n cfg ns) w) as [[x| | |] w1] eqn:Ec; cbn [fst] in Hnf; try (cbn; discriminate).
  - pose proof (eats_sound pl (neg_call_eats n cfg ns) w Ec) as Hlt.
    unfold ctx, or_bits. cbn [bind interp].
    destruct (ctx_done pl w1); [cbn; discriminate|].
    apply IH.
    + match goal with |- rem ?w2 < m => assert (rem w2 <= rem w1) by (unfold rem; cbn [w_script w_tls]; pose proof (do_restart_rem (snd (fst x)) (set_trace w1 (ECtxPass (w_ops w1)))) as Hr; unfold rem in Hr; cbn in Hr |- *; exact Hr) end. lia.
    + match goal with |- rem ?w2 + 2 < n => assert (rem w2 <= rem w1) by (unfold rem; cbn [w_script w_tls]; pose proof (do_restart_rem (snd (fst x)) (set_trace w1 (ECtxPass (w_ops w1)))) as Hr; unfold rem in Hr; cbn in Hr |- *; exact Hr) end. lia.
  - exfalso. apply Hnf. reflexivity.
Qed.

Theorem run_nofuel cfg pl bits clear tls calls : fst (run cfg pl bits clear tls calls) <> RFuel.
Proof.
  unfold run.
  set (x := interp pl _ _).
  assert (Hx : fst x <> RFuel).
  { subst x. apply session_nofuel; unfold rem, fuel_of; cbn; lia. }
  destruct x as [[a| | |] w]; unfold finish; cbn in *; try discriminate. exfalso. apply Hx. reflexivity.
Qed.
