(* C20/Proofs.v — lemmas for the property theorems of C20. *)
From Coq Require Import Sorting.Permutation Sorting.Sorted.
From Coq Require Import ZifyBool ZifyNat ZifyN.
From XV Require Import lib.Bytes gen.DiscoCaps C20.Model C20.Spec.

(* ================================================================== *)
(* 1. the order on byte strings is a total order                       *)
(* ================================================================== *)

Lemma bN_inj a b : bN a = bN b -> a = b.
Proof.
  intro H. rewrite <- (byte_of_N_bN a), <- (byte_of_N_bN b), H. reflexivity.
Qed.

Lemma bytes_leb_refl a : bytes_leb a a = true.
Proof.
  induction a as [|x a IH]; cbn [bytes_leb]; [reflexivity|].
  rewrite N.ltb_irrefl. exact IH.
Qed.

Lemma bytes_leb_total a b : bytes_leb a b = true \/ bytes_leb b a = true.
Proof.
  revert b; induction a as [|x a IH]; intros [|y b]; cbn [bytes_leb]; auto.
  destruct (bN x <? bN y)%N eqn:E1; [auto|].
  destruct (bN y <? bN x)%N eqn:E2; [auto|].
  apply IH.
Qed.

Lemma bytes_leb_antisym a b : bytes_leb a b = true -> bytes_leb b a = true -> a = b.
Proof.
  revert b; induction a as [|x a IH]; intros [|y b]; cbn [bytes_leb]; intros H1 H2;
    try reflexivity; try discriminate.
  destruct (bN x <? bN y)%N eqn:E1; destruct (bN y <? bN x)%N eqn:E2; try discriminate.
  - exfalso. lia.
  - assert (x = y) by (apply bN_inj; lia). subst y. f_equal. apply IH; assumption.
Qed.

Lemma bytes_leb_trans a b c : bytes_leb a b = true -> bytes_leb b c = true -> bytes_leb a c = true.
Proof.
  revert b c; induction a as [|x a IH]; intros [|y b] [|z c]; cbn [bytes_leb]; intros H1 H2;
    try reflexivity; try discriminate.
  destruct (bN x <? bN y)%N eqn:E1.
  - destruct (bN y <? bN z)%N eqn:E2.
    + assert (E : (bN x <? bN z)%N = true) by lia. rewrite E. reflexivity.
    + destruct (bN z <? bN y)%N eqn:E3; [discriminate|].
      assert (E : (bN x <? bN z)%N = true) by lia. rewrite E. reflexivity.
  - destruct (bN y <? bN x)%N eqn:E1'; [discriminate|].
    destruct (bN y <? bN z)%N eqn:E2.
    + assert (E : (bN x <? bN z)%N = true) by lia. rewrite E. reflexivity.
    + destruct (bN z <? bN y)%N eqn:E3; [discriminate|].
      assert (E : (bN x <? bN z)%N = false) by lia. rewrite E.
      assert (E' : (bN z <? bN x)%N = false) by lia. rewrite E'.
      eapply IH; eassumption.
Qed.

Lemma bytes_eqb_refl a : bytes_eqb a a = true.
Proof. apply bytes_eqb_eq. reflexivity. Qed.

Lemma bytes_eqb_neq a b : bytes_eqb a b = false <-> a <> b.
Proof.
  split.
  - intros H E. apply bytes_eqb_eq in E. congruence.
  - intro H. destruct (bytes_eqb a b) eqn:E; [apply bytes_eqb_eq in E; contradiction|reflexivity].
Qed.

Lemma bytes_eqb_sym a b : bytes_eqb a b = bytes_eqb b a.
Proof.
  destruct (bytes_eqb a b) eqn:E.
  - apply bytes_eqb_eq in E. subst. symmetry. apply bytes_eqb_refl.
  - symmetry. apply bytes_eqb_neq. apply bytes_eqb_neq in E. congruence.
Qed.

Lemma bytes_ltb_false_leb a b : bytes_ltb a b = false <-> bytes_leb b a = true.
Proof. unfold bytes_ltb. destruct (bytes_leb b a); simpl; split; congruence. Qed.

Lemma bytes_ltb_asym a b : bytes_ltb a b = true -> bytes_ltb b a = false.
Proof.
  unfold bytes_ltb. intro H. destruct (bytes_leb_total a b) as [T|T]; rewrite T in *; simpl in *;
    [reflexivity|discriminate].
Qed.

(* ================================================================== *)
(* 2. insertion sort: sorted permutation, unique for a total order     *)
(* ================================================================== *)

Section SortFacts.
  Variable A : Type.
  Variable leb : A -> A -> bool.
  Hypothesis leb_total : forall a b, leb a b = true \/ leb b a = true.
  Hypothesis leb_trans : forall a b c, leb a b = true -> leb b c = true -> leb a c = true.

  Let R (a b : A) : Prop := leb a b = true.

  Lemma insert_perm x l : Permutation (insert leb x l) (x :: l).
  Proof.
    induction l as [|y l IH]; cbn [insert]; [apply Permutation_refl|].
    destruct (leb x y); [apply Permutation_refl|].
    eapply Permutation_trans; [apply perm_skip; exact IH|apply perm_swap].
  Qed.

  Lemma isort_perm l : Permutation (isort leb l) l.
  Proof.
    induction l as [|x l IH]; cbn [isort]; [apply Permutation_refl|].
    eapply Permutation_trans; [apply insert_perm|apply perm_skip; exact IH].
  Qed.

  Lemma insert_sorted x l : StronglySorted R l -> StronglySorted R (insert leb x l).
  Proof.
    induction l as [|y l IH]; intro S; cbn [insert].
    - constructor; constructor.
    - inversion S as [|? ? S' F]; subst.
      destruct (leb x y) eqn:E.
      + constructor; [exact S|]. constructor; [exact E|].
        eapply Forall_impl; [|exact F]. intros z Hz. unfold R in *. eapply leb_trans; eassumption.
      + constructor; [apply IH; exact S'|].
        assert (Hyx : R y x) by (destruct (leb_total x y); [congruence|assumption]).
        eapply Permutation_Forall; [apply Permutation_sym; apply insert_perm|].
        constructor; assumption.
  Qed.

  Lemma isort_sorted l : StronglySorted R (isort leb l).
  Proof.
    induction l as [|x l IH]; cbn [isort]; [constructor|]. apply insert_sorted. exact IH.
  Qed.
End SortFacts.

(* two sorted permutations of each other are equal when the order is
   antisymmetric on their elements *)
Lemma sorted_perm_eq {A} (R : A -> A -> Prop) (l1 l2 : list A) :
  StronglySorted R l1 -> StronglySorted R l2 -> Permutation l1 l2 ->
  (forall a b, In a l1 -> In b l1 -> R a b -> R b a -> a = b) ->
  l1 = l2.
Proof.
  revert l2; induction l1 as [|a l1 IH]; intros l2 S1 S2 P AS.
  - apply Permutation_nil in P. subst. reflexivity.
  - destruct l2 as [|b l2]; [apply Permutation_sym, Permutation_nil in P; discriminate|].
    inversion S1 as [|? ? S1' F1]; subst. inversion S2 as [|? ? S2' F2]; subst.
    assert (Eab : a = b).
    { assert (Ia : In a (b :: l2)) by (eapply Permutation_in; [exact P|left; reflexivity]).
      assert (Ib : In b (a :: l1)) by (eapply Permutation_in; [apply Permutation_sym; exact P|left; reflexivity]).
      destruct Ia as [->|Ia]; [reflexivity|]. destruct Ib as [->|Ib]; [reflexivity|].
      rewrite Forall_forall in F1, F2.
      apply AS; [left; reflexivity|right; exact Ib|apply F1; exact Ib|apply F2; exact Ia]. }
    subst b. f_equal. apply IH; try assumption.
    + eapply Permutation_cons_inv. exact P.
    + intros x y Hx Hy. apply AS; right; assumption.
Qed.

Lemma isort_perm_eq {A} (leb : A -> A -> bool) (l1 l2 : list A) :
  (forall a b, leb a b = true \/ leb b a = true) ->
  (forall a b c, leb a b = true -> leb b c = true -> leb a c = true) ->
  (forall a b, In a l1 -> In b l1 -> leb a b = true -> leb b a = true -> a = b) ->
  Permutation l1 l2 -> isort leb l1 = isort leb l2.
Proof.
  intros T Tr AS P.
  apply (sorted_perm_eq (fun a b => leb a b = true)).
  - apply isort_sorted; assumption.
  - apply isort_sorted; assumption.
  - eapply Permutation_trans; [apply isort_perm|].
    eapply Permutation_trans; [exact P|apply Permutation_sym, isort_perm].
  - intros a b Ha Hb. apply AS.
    + eapply Permutation_in; [apply isort_perm|exact Ha].
    + eapply Permutation_in; [apply isort_perm|exact Hb].
Qed.

Lemma StronglySorted_impl {A} (R R' : A -> A -> Prop) l :
  (forall a b, R a b -> R' a b) -> StronglySorted R l -> StronglySorted R' l.
Proof.
  intros HI S. induction S as [|a l S IH F]; constructor; [exact IH|].
  eapply Forall_impl; [|exact F]. intros; apply HI; assumption.
Qed.

Lemma StronglySorted_map {A B} (f : A -> B) (R : B -> B -> Prop) l :
  StronglySorted (fun a b => R (f a) (f b)) l <-> StronglySorted R (map f l).
Proof.
  induction l as [|a l IH]; simpl; split; intro S; try constructor; inversion S as [|? ? S' F]; subst.
  - apply IH; exact S'.
  - rewrite Forall_forall in *. intros y Hy. apply in_map_iff in Hy. destruct Hy as [x [<- Hx]]. apply F; exact Hx.
  - apply IH; exact S'.
  - rewrite Forall_forall in *. intros x Hx. apply F. apply in_map. exact Hx.
Qed.

(* ================================================================== *)
(* 3. lexicographic orders: identities, (key, text) chunks             *)
(* ================================================================== *)

Section Lex.
  Variable A : Type.
  Variable k : A -> bytes.
  Variable rest : A -> A -> bool.

  Definition lex_leb (a b : A) : bool :=
    if bytes_eqb (k a) (k b) then rest a b else bytes_leb (k a) (k b).

  Lemma lex_total :
    (forall a b, rest a b = true \/ rest b a = true) ->
    forall a b, lex_leb a b = true \/ lex_leb b a = true.
  Proof.
    intros T a b. unfold lex_leb. rewrite (bytes_eqb_sym (k b)).
    destruct (bytes_eqb (k a) (k b)); [apply T|apply bytes_leb_total].
  Qed.

  Lemma lex_trans :
    (forall a b c, rest a b = true -> rest b c = true -> rest a c = true) ->
    forall a b c, lex_leb a b = true -> lex_leb b c = true -> lex_leb a c = true.
  Proof.
    intros T a b c. unfold lex_leb.
    destruct (bytes_eqb (k a) (k b)) eqn:E1; destruct (bytes_eqb (k b) (k c)) eqn:E2.
    - apply bytes_eqb_eq in E1, E2. rewrite E1, E2, bytes_eqb_refl. apply T.
    - apply bytes_eqb_eq in E1. rewrite E1, E2. intros _ H; exact H.
    - apply bytes_eqb_eq in E2. rewrite <- E2, E1. intros H _; exact H.
    - intros H1 H2. destruct (bytes_eqb (k a) (k c)) eqn:E3.
      + apply bytes_eqb_eq in E3. rewrite <- E3 in H2.
        apply bytes_eqb_neq in E1. exfalso. apply E1. apply bytes_leb_antisym; assumption.
      + eapply bytes_leb_trans; eassumption.
  Qed.

  Lemma lex_both a b :
    lex_leb a b = true -> lex_leb b a = true -> k a = k b /\ rest a b = true /\ rest b a = true.
  Proof.
    unfold lex_leb. rewrite (bytes_eqb_sym (k b)).
    destruct (bytes_eqb (k a) (k b)) eqn:E; intros H1 H2.
    - apply bytes_eqb_eq in E. auto.
    - apply bytes_eqb_neq in E. exfalso. apply E. apply bytes_leb_antisym; assumption.
  Qed.

  Lemma lex_key a b : lex_leb a b = true -> bytes_leb (k a) (k b) = true.
  Proof.
    unfold lex_leb. destruct (bytes_eqb (k a) (k b)) eqn:E; intro H; [|exact H].
    apply bytes_eqb_eq in E. rewrite E. apply bytes_leb_refl.
  Qed.
End Lex.

Definition key_leb {A} (k : A -> bytes) (a b : A) : bool := bytes_leb (k a) (k b).

Lemma key_total {A} (k : A -> bytes) a b : key_leb k a b = true \/ key_leb k b a = true.
Proof. apply bytes_leb_total. Qed.

Lemma key_trans {A} (k : A -> bytes) a b c :
  key_leb k a b = true -> key_leb k b c = true -> key_leb k a c = true.
Proof. apply bytes_leb_trans. Qed.

(* identities *)

Lemma xep_id_leb_lex :
  xep_id_leb = lex_leb _ id_cat (lex_leb _ id_type (key_leb id_lang)).
Proof. reflexivity. Qed.

Lemma xep_id_total a b : xep_id_leb a b = true \/ xep_id_leb b a = true.
Proof. rewrite xep_id_leb_lex. apply lex_total. apply lex_total. apply key_total. Qed.

Lemma xep_id_trans a b c : xep_id_leb a b = true -> xep_id_leb b c = true -> xep_id_leb a c = true.
Proof. rewrite xep_id_leb_lex. apply lex_trans. apply lex_trans. apply key_trans. Qed.

Lemma xep_id_both a b : xep_id_leb a b = true -> xep_id_leb b a = true -> id_key a = id_key b.
Proof.
  rewrite xep_id_leb_lex. intros H1 H2.
  destruct (lex_both _ _ _ _ _ H1 H2) as [E1 [H3 H4]].
  destruct (lex_both _ _ _ _ _ H3 H4) as [E2 [H5 H6]].
  unfold key_leb in *. unfold id_key. rewrite E1, E2. f_equal. apply bytes_leb_antisym; assumption.
Qed.

(* chunks *)

Lemma chunk_leb_lex : chunk_leb = lex_leb _ fst (key_leb snd).
Proof. reflexivity. Qed.

Lemma chunk_total a b : chunk_leb a b = true \/ chunk_leb b a = true.
Proof. rewrite chunk_leb_lex. apply lex_total. apply key_total. Qed.

Lemma chunk_trans a b c : chunk_leb a b = true -> chunk_leb b c = true -> chunk_leb a c = true.
Proof. rewrite chunk_leb_lex. apply lex_trans. apply key_trans. Qed.

Lemma chunk_antisym (a b : chunk) : chunk_leb a b = true -> chunk_leb b a = true -> a = b.
Proof.
  rewrite chunk_leb_lex. intros H1 H2. destruct (lex_both _ _ _ _ _ H1 H2) as [E [H3 H4]].
  destruct a, b; simpl in *. subst. f_equal. apply bytes_leb_antisym; assumption.
Qed.

Lemma chunk_leb_key a b : chunk_leb a b = true -> bytes_leb (fst a) (fst b) = true.
Proof. rewrite chunk_leb_lex. apply lex_key. Qed.

(* ================================================================== *)
(* 4. the tables read from the source                                  *)
(* ================================================================== *)

Lemma tbl_sep : sep = lt_char.
Proof. vm_compute. reflexivity. Qed.

Lemma tbl_form_type_var : caps_form_type_var = form_type_name.
Proof. vm_compute. reflexivity. Qed.

Lemma tbl_id_sort_keys : caps_id_sort_keys = [(0, 0); (1, 1); (2, 2)]%N.
Proof. vm_compute. reflexivity. Qed.

Lemma tbl_id_format : caps_id_format = str "%s/%s/%s/%s<".
Proof. vm_compute. reflexivity. Qed.

Lemma tbl_id_format_args : caps_id_format_args = [0; 1; 2; 3]%N.
Proof. vm_compute. reflexivity. Qed.

(* every make() capacity of AppendHash is a length, never a length minus something *)
Lemma tbl_caps_nonneg :
  forallb (fun k => (k =? 0)%N) caps_len_cap_deficits && caps_other_caps_nonneg = true.
Proof. vm_compute. reflexivity. Qed.

Lemma render_id_xep i : render_id i = xep_identity i.
Proof.
  destruct i as [c t l n]. unfold render_id, xep_identity.
  rewrite tbl_id_format, tbl_id_format_args.
  cbn. repeat rewrite <- app_assoc. reflexivity.
Qed.

Lemma id_leb_xep a b : id_leb a b = xep_id_leb a b.
Proof.
  unfold id_leb, id_ltb, xep_id_leb. rewrite tbl_id_sort_keys.
  cbn [keys_ltb id_sel fst snd].
  rewrite (bytes_eqb_sym (id_cat b)), (bytes_eqb_sym (id_type b)), (bytes_eqb_sym (id_lang b)).
  unfold bytes_ltb.
  destruct (bytes_eqb (id_cat a) (id_cat b)); [|apply negb_involutive].
  destruct (bytes_eqb (id_type a) (id_type b)); [|apply negb_involutive].
  destruct (bytes_eqb (id_lang a) (id_lang b)) eqn:E; [|apply negb_involutive].
  apply bytes_eqb_eq in E. rewrite E, bytes_leb_refl. reflexivity.
Qed.

Lemma is_ft_spec f : is_ft f = is_form_type_field f.
Proof. unfold is_ft, is_form_type_field. rewrite tbl_form_type_var. reflexivity. Qed.

Lemma join_sep_xep l : join_sep l = xep_each l.
Proof. unfold join_sep, xep_each. rewrite tbl_sep. reflexivity. Qed.

Lemma panics_false i : panics i = false.
Proof.
  pose proof tbl_caps_nonneg as T. apply andb_true_iff in T. destruct T as [T1 T2].
  unfold panics. rewrite T2. cbn [negb orb].
  induction (i_forms i) as [|fm l IH]; [reflexivity|]. cbn [existsb]. rewrite IH, orb_false_r.
  unfold form_cap_panics. revert T1. generalize caps_len_cap_deficits as ks.
  induction ks as [|k ks IHk]; [reflexivity|]. cbn [forallb existsb]. intro T.
  apply andb_true_iff in T. destruct T as [Tk T]. rewrite (IHk T), orb_false_r. lia.
Qed.

(* ================================================================== *)
(* 5. permutation invariance                                           *)
(* ================================================================== *)

Lemma Permutation_filter {A} (p : A -> bool) l l' :
  Permutation l l' -> Permutation (filter p l) (filter p l').
Proof.
  induction 1 as [|x l l' P IH|x y l|l l' l'' P1 IH1 P2 IH2]; cbn [filter].
  - apply Permutation_refl.
  - destruct (p x); [apply perm_skip|]; exact IH.
  - destruct (p x), (p y); try apply Permutation_refl. apply perm_swap.
  - eapply Permutation_trans; eassumption.
Qed.

Lemma NoDup_map_inj_in {A B} (f : A -> B) l a b :
  NoDup (map f l) -> In a l -> In b l -> f a = f b -> a = b.
Proof.
  induction l as [|x l IH]; cbn [map]; intros ND Ha Hb E; [contradiction|].
  inversion ND as [|? ? NI ND']; subst.
  destruct Ha as [->|Ha], Hb as [->|Hb].
  - reflexivity.
  - exfalso. apply NI. rewrite E. apply in_map. exact Hb.
  - exfalso. apply NI. rewrite <- E. apply in_map. exact Ha.
  - apply IH; assumption.
Qed.

Lemma isort_ext {A} (leb leb' : A -> A -> bool) l :
  (forall a b, leb a b = leb' a b) -> isort leb l = isort leb' l.
Proof.
  intro E. induction l as [|x l IH]; cbn [isort]; [reflexivity|]. rewrite IH.
  generalize (isort leb' l) as m. induction m as [|y m IHm]; cbn [insert]; [reflexivity|].
  rewrite E, IHm. reflexivity.
Qed.

Lemma isort_bytes_perm v v' : Permutation v v' -> isort bytes_leb v = isort bytes_leb v'.
Proof.
  apply isort_perm_eq.
  - apply bytes_leb_total.
  - apply bytes_leb_trans.
  - intros a b _ _. apply bytes_leb_antisym.
Qed.

Lemma isort_chunk_perm v v' : Permutation v v' -> isort chunk_leb v = isort chunk_leb v'.
Proof.
  apply isort_perm_eq.
  - apply chunk_total.
  - apply chunk_trans.
  - intros a b _ _. apply chunk_antisym.
Qed.

Lemma isort_id_perm ids ids' :
  NoDup (map id_key ids) -> Permutation ids ids' -> isort id_leb ids = isort id_leb ids'.
Proof.
  intros ND P. rewrite !(isort_ext id_leb xep_id_leb) by apply id_leb_xep.
  apply isort_perm_eq; try assumption.
  - apply xep_id_total.
  - apply xep_id_trans.
  - intros a b Ha Hb H1 H2. eapply NoDup_map_inj_in; try eassumption. apply xep_id_both; assumption.
Qed.

Lemma ft_values_spec fm : ft_values fm = form_type_values fm.
Proof.
  unfold ft_values, form_type_values.
  assert (E : filter is_ft fm = filter is_form_type_field fm).
  { induction fm as [|f fm IH]; cbn [filter]; [reflexivity|]. rewrite is_ft_spec, IH. reflexivity. }
  rewrite E. reflexivity.
Qed.

(* the smallest element of a non-empty list, as the loop computes it *)
Definition lmin (l : list bytes) : bytes :=
  match l with [] => [] | v :: r => min_from v r end.

Lemma min_from_in m l : In (min_from m l) (m :: l).
Proof.
  revert m; induction l as [|v r IH]; intro m; cbn [min_from]; [left; reflexivity|].
  destruct (IH (if bytes_ltb v m then v else m)) as [E|I].
  - rewrite <- E. destruct (bytes_ltb v m); [right; left|left]; reflexivity.
  - right; right; exact I.
Qed.

Lemma min_from_le m l x : In x (m :: l) -> bytes_leb (min_from m l) x = true.
Proof.
  revert m x; induction l as [|v r IH]; intros m x I; cbn [min_from].
  - destruct I as [<-|[]]. apply bytes_leb_refl.
  - set (m' := if bytes_ltb v m then v else m).
    assert (Lm : bytes_leb m' m = true).
    { unfold m'. destruct (bytes_ltb v m) eqn:E; [|apply bytes_leb_refl].
      unfold bytes_ltb in E. destruct (bytes_leb_total v m) as [T|T]; [exact T|rewrite T in E; discriminate]. }
    assert (Lv : bytes_leb m' v = true).
    { unfold m'. destruct (bytes_ltb v m) eqn:E; [apply bytes_leb_refl|].
      apply bytes_ltb_false_leb in E. exact E. }
    destruct I as [<-|[<-|I]].
    + eapply bytes_leb_trans; [apply IH; left; reflexivity|exact Lm].
    + eapply bytes_leb_trans; [apply IH; left; reflexivity|exact Lv].
    + apply IH. right; exact I.
Qed.

Lemma lmin_perm l l' : Permutation l l' -> lmin l = lmin l'.
Proof.
  intro P. destruct l as [|a l].
  - apply Permutation_nil in P. subst. reflexivity.
  - destruct l' as [|b l']; [apply Permutation_sym, Permutation_nil in P; discriminate|].
    cbn [lmin]. apply bytes_leb_antisym.
    + apply min_from_le. eapply Permutation_in; [apply Permutation_sym; exact P|apply min_from_in].
    + apply min_from_le. eapply Permutation_in; [exact P|apply min_from_in].
Qed.

Lemma form_type_lmin fm : form_type fm = lmin (ft_values fm).
Proof. reflexivity. Qed.

(* with a single FORM_TYPE value it is that value *)
Lemma form_type_spec fm : one_form_type fm -> form_type fm = the_form_type fm.
Proof.
  intro S. unfold the_form_type, one_form_type in *. rewrite form_type_lmin, ft_values_spec.
  destruct (form_type_values fm) as [|a l]; [reflexivity|]. cbn [lmin hd].
  apply S; [apply min_from_in|left; reflexivity].
Qed.

Lemma not_ft_spec fm :
  filter not_ft fm = filter (fun f => negb (is_form_type_field f)) fm.
Proof.
  induction fm as [|f fm IH]; cbn [filter]; [reflexivity|].
  unfold not_ft at 1. rewrite is_ft_spec, IH. reflexivity.
Qed.

Lemma field_chunk_equiv f g : field_equiv f g -> field_chunk f = field_chunk g.
Proof.
  intros [E P]. unfold field_chunk. rewrite E, (isort_bytes_perm _ _ P). reflexivity.
Qed.

Lemma is_ft_equiv f g : field_equiv f g -> is_ft f = is_ft g.
Proof. intros [E _]. unfold is_ft. rewrite E. reflexivity. Qed.

Lemma chunks_Forall2 fs fs' :
  Forall2 field_equiv fs fs' ->
  map field_chunk (filter not_ft fs) = map field_chunk (filter not_ft fs').
Proof.
  induction 1 as [|f g fs fs' E F IH]; [reflexivity|]. cbn [filter].
  assert (En : not_ft f = not_ft g) by (unfold not_ft; rewrite (is_ft_equiv _ _ E); reflexivity).
  rewrite En. destruct (not_ft g); cbn [map]; [|exact IH].
  rewrite IH, (field_chunk_equiv _ _ E). reflexivity.
Qed.

Lemma ft_values_Forall2 fs fs' :
  Forall2 field_equiv fs fs' -> Permutation (ft_values fs) (ft_values fs').
Proof.
  unfold ft_values. induction 1 as [|f g fs fs' E F IH]; [apply Permutation_refl|]. cbn [filter].
  rewrite (is_ft_equiv _ _ E). destruct (is_ft g); [|exact IH]. cbn [flat_map].
  apply Permutation_app; [apply E|exact IH].
Qed.

Lemma ft_values_perm fm fs : Permutation fm fs -> Permutation (ft_values fm) (ft_values fs).
Proof.
  intro P. unfold ft_values. apply Permutation_flat_map. apply Permutation_filter. exact P.
Qed.

Lemma form_chunk_equiv fm fm' : form_equiv fm fm' -> form_chunk fm = form_chunk fm'.
Proof.
  intros [fs [P F]].
  assert (ET : form_type fm = form_type fm').
  { rewrite !form_type_lmin. apply lmin_perm.
    eapply Permutation_trans; [apply ft_values_perm; exact P|apply ft_values_Forall2; exact F]. }
  assert (EF : fields_string fm = fields_string fm').
  { unfold fields_string. f_equal. f_equal. rewrite <- (chunks_Forall2 _ _ F).
    apply isort_chunk_perm. apply Permutation_map. apply Permutation_filter. exact P. }
  unfold form_chunk. rewrite ET, EF. reflexivity.
Qed.

Lemma forms_string_equiv fms fms' : forms_equiv fms fms' -> forms_string fms = forms_string fms'.
Proof.
  intros [l [P F]]. unfold forms_string.
  assert (E : map form_chunk l = map form_chunk fms').
  { clear P. induction F as [|a b l l' E F IH]; [reflexivity|]. cbn [map].
    rewrite (form_chunk_equiv _ _ E), IH. reflexivity. }
  rewrite <- E. rewrite (isort_chunk_perm (map form_chunk fms) (map form_chunk l)); [reflexivity|].
  apply Permutation_map. exact P.
Qed.

Lemma ver_string_equiv i i' :
  info_equiv i i' -> distinct_identities i -> ver_string i = ver_string i'.
Proof.
  intros [Pi [Pf Px]] D. unfold ver_string, ids_string, feats_string.
  rewrite (isort_id_perm _ _ D Pi), (isort_bytes_perm _ _ Pf), (forms_string_equiv _ _ Px).
  reflexivity.
Qed.

(* identities in the same order: no condition at all *)
Lemma ver_string_equiv_same_ids i i' :
  i_ids i = i_ids i' -> Permutation (i_feats i) (i_feats i') -> forms_equiv (i_forms i) (i_forms i') ->
  ver_string i = ver_string i'.
Proof.
  intros Ei Pf Px. unfold ver_string, ids_string, feats_string.
  rewrite Ei, (isort_bytes_perm _ _ Pf), (forms_string_equiv _ _ Px). reflexivity.
Qed.

Lemma append_hash_ok H dst i : append_hash H dst i = Ok (b64enc (dst ++ H (ver_string i))).
Proof. unfold append_hash, ver_string_res. rewrite panics_false. reflexivity. Qed.

Lemma append_hash_equiv H dst i i' :
  info_equiv i i' -> distinct_identities i ->
  append_hash H dst i = append_hash H dst i'.
Proof. intros E D. rewrite !append_hash_ok, (ver_string_equiv _ _ E D). reflexivity. Qed.

(* ================================================================== *)
(* 6. the string written is a construction of XEP-0115 5.1             *)
(* ================================================================== *)

Lemma isort_Sorted {A} (leb : A -> A -> bool) l :
  (forall a b, leb a b = true \/ leb b a = true) ->
  (forall a b c, leb a b = true -> leb b c = true -> leb a c = true) ->
  StronglySorted (fun a b => leb a b = true) (isort leb l).
Proof. intros; apply isort_sorted; assumption. Qed.

Lemma field_chunk_xep f : xep_field f (snd (field_chunk f)).
Proof.
  exists (isort bytes_leb (f_vals f)). split; [|split].
  - apply Permutation_sym, isort_perm.
  - apply StronglySorted_Sorted. apply isort_Sorted; [apply bytes_leb_total|apply bytes_leb_trans].
  - unfold field_chunk. cbn [snd]. rewrite tbl_sep, join_sep_xep. reflexivity.
Qed.

Lemma form_type_xep fm : xep_form_type fm (form_type fm).
Proof.
  unfold xep_form_type. rewrite form_type_lmin, ft_values_spec.
  destruct (form_type_values fm) as [|a l]; [right; auto|left; apply min_from_in].
Qed.

Lemma form_chunk_xep fm : xep_form fm (fst (form_chunk fm)) (snd (form_chunk fm)).
Proof.
  unfold form_chunk. cbn [fst snd]. split; [apply form_type_xep|].
  unfold fields_string.
  pose proof (isort_perm _ chunk_leb (map field_chunk (filter not_ft fm))) as P.
  destruct (Permutation_map_inv _ _ P) as [fs [E Pfs]].
  exists fs, (map snd (map field_chunk fs)). split; [|split; [|split]].
  - rewrite <- not_ft_spec. exact Pfs.
  - apply StronglySorted_Sorted.
    pose proof (isort_Sorted chunk_leb (map field_chunk (filter not_ft fm)) chunk_total chunk_trans) as S.
    rewrite E in S. apply StronglySorted_map in S.
    eapply StronglySorted_impl; [|exact S]. intros a b H. apply chunk_leb_key in H. exact H.
  - clear. induction fs as [|f fs IH]; cbn [map]; constructor; [apply field_chunk_xep|exact IH].
  - rewrite E, tbl_sep. reflexivity.
Qed.

Lemma ver_string_xep i : xep51 i (ver_string i).
Proof.
  pose proof (isort_perm _ chunk_leb (map form_chunk (i_forms i))) as P.
  destruct (Permutation_map_inv _ _ P) as [fms [E Pfms]].
  exists (isort id_leb (i_ids i)), (isort bytes_leb (i_feats i)), fms, (map form_chunk fms).
  split; [|split; [|split; [|split; [|split; [|split; [|split]]]]]].
  - apply Permutation_sym, isort_perm.
  - rewrite (isort_ext id_leb xep_id_leb) by apply id_leb_xep.
    apply StronglySorted_Sorted. apply isort_Sorted; [apply xep_id_total|apply xep_id_trans].
  - apply Permutation_sym, isort_perm.
  - apply StronglySorted_Sorted. apply isort_Sorted; [apply bytes_leb_total|apply bytes_leb_trans].
  - exact Pfms.
  - clear. induction fms as [|fm fms IH]; cbn [map]; constructor; [apply form_chunk_xep|exact IH].
  - apply StronglySorted_Sorted.
    pose proof (isort_Sorted chunk_leb (map form_chunk (i_forms i)) chunk_total chunk_trans) as S.
    rewrite E in S. eapply StronglySorted_impl; [|exact S]. intros a b H. apply chunk_leb_key in H. exact H.
  - unfold ver_string, ids_string, feats_string, forms_string.
    rewrite E, join_sep_xep.
    assert (M : forall l, map render_id l = map xep_identity l).
    { induction l as [|x l IH]; cbn [map]; [reflexivity|]. rewrite render_id_xep, IH. reflexivity. }
    rewrite M. reflexivity.
Qed.

(* ================================================================== *)
(* 7. for well-formed information section 5.1 determines one string    *)
(* ================================================================== *)

Lemma Sorted_strong {A} (R : A -> A -> Prop) l :
  (forall a b c, R a b -> R b c -> R a c) -> Sorted R l -> StronglySorted R l.
Proof. intros T S. apply Sorted_StronglySorted; [exact T|exact S]. Qed.

Lemma sorted_bytes_unique l vs :
  Permutation l vs -> Sorted bytes_le vs -> vs = isort bytes_leb l.
Proof.
  intros P S. apply (sorted_perm_eq bytes_le).
  - apply Sorted_strong; [intros a b c; apply bytes_leb_trans|exact S].
  - apply isort_Sorted; [apply bytes_leb_total|apply bytes_leb_trans].
  - eapply Permutation_trans; [apply Permutation_sym; exact P|apply Permutation_sym, isort_perm].
  - intros a b _ _. apply bytes_leb_antisym.
Qed.

Lemma xep_field_unique f s : xep_field f s -> s = snd (field_chunk f).
Proof.
  intros [vs [P [S ->]]]. pose proof (sorted_bytes_unique _ _ P S) as E. subst vs.
  unfold field_chunk. cbn [snd]. symmetry. rewrite tbl_sep, join_sep_xep. reflexivity.
Qed.

Lemma xep_form_type_unique fm ft : one_form_type fm -> xep_form_type fm ft -> ft = the_form_type fm.
Proof.
  intros S [I|[E ->]]; unfold the_form_type.
  - destruct (form_type_values fm) as [|a l] eqn:V; [contradiction|]. cbn [hd].
    apply S; rewrite V; [exact I|left; reflexivity].
  - rewrite E. reflexivity.
Qed.

Lemma xep_fields_unique fs texts :
  Forall2 xep_field fs texts -> texts = map snd (map field_chunk fs).
Proof.
  induction 1 as [|f t fs texts X F IH]; [reflexivity|]. cbn [map].
  rewrite (xep_field_unique _ _ X), IH. reflexivity.
Qed.

Lemma xep_form_unique fm ft s :
  one_form_type fm -> distinct_vars fm -> xep_form fm ft s -> (ft, s) = form_chunk fm.
Proof.
  intros S D [T [fs [texts [P [So [F ->]]]]]].
  pose proof (xep_form_type_unique _ _ S T) as E1. pose proof (xep_fields_unique _ _ F) as E2.
  subst ft texts.
  rewrite <- not_ft_spec in P. unfold distinct_vars in D. rewrite <- not_ft_spec in D.
  assert (EE : map field_chunk fs = isort chunk_leb (map field_chunk (filter not_ft fm))).
  { apply (sorted_perm_eq (fun a b : chunk => bytes_le (fst a) (fst b))).
    - apply StronglySorted_map with (f := field_chunk) (R := fun a b : chunk => bytes_le (fst a) (fst b)).
      apply Sorted_strong; [|exact So]. intros a b c. apply bytes_leb_trans.
    - eapply StronglySorted_impl; [|apply isort_Sorted; [apply chunk_total|apply chunk_trans]].
      intros a b H. apply chunk_leb_key in H. exact H.
    - eapply Permutation_trans; [apply Permutation_map, Permutation_sym; exact P|].
      apply Permutation_sym, isort_perm.
    - intros a b Ha Hb H1 H2. apply in_map_iff in Ha, Hb.
      destruct Ha as [f [<- Hf]], Hb as [g [<- Hg]].
      assert (E : f = g); [|rewrite E; reflexivity].
      apply (NoDup_map_inj_in f_var fs); try assumption.
      + eapply Permutation_NoDup; [apply Permutation_map; exact P|exact D].
      + cbn [field_chunk fst] in H1, H2. apply bytes_leb_antisym; assumption. }
  unfold form_chunk, fields_string. rewrite <- (form_type_spec _ S), <- tbl_sep, EE. reflexivity.
Qed.

Lemma xep_forms_unique fms rendered :
  Forall one_form_type fms -> Forall distinct_vars fms ->
  Forall2 (fun fm r => xep_form fm (fst r) (snd r)) fms rendered ->
  rendered = map form_chunk fms.
Proof.
  intros S D F. induction F as [|fm r fms rendered X F IH]; [reflexivity|].
  inversion S; inversion D; subst. cbn [map].
  rewrite <- (xep_form_unique fm (fst r) (snd r)) by assumption.
  rewrite IH by assumption. destruct r; reflexivity.
Qed.

Lemma xep51_unique i s : well_formed i -> xep51 i s -> s = ver_string i.
Proof.
  intros [Di [S1 [Dv Dt]]] [ids [feats [fms [rendered [Pi [Si [Pf [Sf [Px [F [Sr ->]]]]]]]]]]].
  unfold ver_string, ids_string, feats_string, forms_string.
  assert (Eids : ids = isort id_leb (i_ids i)).
  { rewrite (isort_ext id_leb xep_id_leb) by apply id_leb_xep.
    apply (sorted_perm_eq xep_id_le).
    - apply Sorted_strong; [intros a b c; apply xep_id_trans|exact Si].
    - apply isort_Sorted; [apply xep_id_total|apply xep_id_trans].
    - eapply Permutation_trans; [apply Permutation_sym; exact Pi|apply Permutation_sym, isort_perm].
    - intros a b Ha Hb H1 H2. apply (NoDup_map_inj_in id_key ids); try assumption.
      + eapply Permutation_NoDup; [apply Permutation_map; exact Pi|exact Di].
      + apply xep_id_both; assumption. }
  assert (Efeats : feats = isort bytes_leb (i_feats i)) by (apply sorted_bytes_unique; assumption).
  assert (S1' : Forall one_form_type fms) by (eapply Permutation_Forall; eassumption).
  assert (Er : rendered = map form_chunk fms).
  { apply xep_forms_unique; try assumption; eapply Permutation_Forall; eassumption. }
  assert (Eforms : rendered = isort chunk_leb (map form_chunk (i_forms i))).
  { rewrite Er. rewrite Er in Sr.
    apply (sorted_perm_eq (fun a b : chunk => bytes_le (fst a) (fst b))).
    - apply Sorted_strong; [|exact Sr]. intros a b c. apply bytes_leb_trans.
    - eapply StronglySorted_impl; [|apply isort_Sorted; [apply chunk_total|apply chunk_trans]].
      intros a b H. apply chunk_leb_key in H. exact H.
    - eapply Permutation_trans; [apply Permutation_map, Permutation_sym; exact Px|].
      apply Permutation_sym, isort_perm.
    - intros a b Ha Hb H1 H2. apply in_map_iff in Ha, Hb.
      destruct Ha as [f [<- Hf]], Hb as [g [<- Hg]].
      assert (E : f = g); [|rewrite E; reflexivity].
      apply (NoDup_map_inj_in the_form_type fms); try assumption.
      + eapply Permutation_NoDup; [apply Permutation_map; exact Px|exact Dt].
      + cbn [form_chunk fst] in H1, H2.
        assert (Qf : one_form_type f) by (rewrite Forall_forall in S1'; apply S1'; exact Hf).
        assert (Qg : one_form_type g) by (rewrite Forall_forall in S1'; apply S1'; exact Hg).
        rewrite <- (form_type_spec _ Qf), <- (form_type_spec _ Qg). apply bytes_leb_antisym; assumption. }
  rewrite <- Eids, <- Efeats, <- Eforms, <- join_sep_xep.
  assert (M : forall l, map render_id l = map xep_identity l).
  { induction l as [|x l IH]; cbn [map]; [reflexivity|]. rewrite render_id_xep, IH. reflexivity. }
  rewrite <- M. reflexivity.
Qed.

(* ================================================================== *)
(* 8. remaining statements                                             *)
(* ================================================================== *)

Lemma hash_appendhash (H : bytes -> bytes) i :
  hash_string H i = append_hash H [] i /\
  append_hash H [] i = Ok (b64enc (H (ver_string i))).
Proof. split; [reflexivity|]. rewrite append_hash_ok. reflexivity. Qed.

Lemma no_panic (H : bytes -> bytes) dst i :
  ver_string_res i = Ok (ver_string i) /\
  append_hash H dst i = Ok (b64enc (dst ++ H (ver_string i))).
Proof. split; [unfold ver_string_res; rewrite panics_false; reflexivity|apply append_hash_ok]. Qed.

Lemma tables_xep :
  sep = lt_char /\ caps_form_type_var = form_type_name /\
  (forall i, render_id i = xep_identity i) /\
  (forall a b, id_leb a b = xep_id_leb a b) /\
  (forall i, panics i = false).
Proof.
  split; [exact tbl_sep|]. split; [exact tbl_form_type_var|]. split; [exact render_id_xep|].
  split; [exact id_leb_xep|exact panics_false].
Qed.

(* two identities with the same category/type/lang and different names *)
Definition tie_a : identity := mkid (str "client") (str "pc") (str "en") (str "A").
Definition tie_b : identity := mkid (str "client") (str "pc") (str "en") (str "B").

Lemma unrestricted_invariance_false :
  ~ (forall i i', info_equiv i i' -> ver_string i = ver_string i').
Proof.
  intro Hall.
  specialize (Hall (mkinfo [tie_a; tie_b] [] []) (mkinfo [tie_b; tie_a] [] [])).
  assert (E : info_equiv (mkinfo [tie_a; tie_b] [] []) (mkinfo [tie_b; tie_a] [] [])).
  { split; [apply perm_swap|]. split; [apply Permutation_refl|].
    exists []. split; [apply Permutation_refl|constructor]. }
  specialize (Hall E). vm_compute in Hall. discriminate Hall.
Qed.
