(* C20/Examples.v — worked examples of XEP-0115 and non-vacuity of the
   hypotheses used in Properties.v. *)
From Coq Require Import Sorting.Permutation.
From XV Require Import lib.Bytes gen.DiscoCaps C20.Model C20.Spec C20.Proofs C20.TailModel C20.TailProofs.

Definition feats_xep : list bytes :=
  [str "http://jabber.org/protocol/disco#info"; str "http://jabber.org/protocol/caps";
   str "http://jabber.org/protocol/muc"; str "http://jabber.org/protocol/disco#items"].

(* XEP-0115 5.2, simple generation example (features given out of order) *)
Definition ex_simple : info :=
  mkinfo [mkid (str "client") (str "pc") [] (str "Exodus 0.9.1")] feats_xep [].

Example ex_simple_string :
  ver_string ex_simple =
  str "client/pc//Exodus 0.9.1<http://jabber.org/protocol/caps<http://jabber.org/protocol/disco#info<http://jabber.org/protocol/disco#items<http://jabber.org/protocol/muc<".
Proof. vm_compute. reflexivity. Qed.

(* XEP-0115 5.3, complex generation example; "Psi" in Greek is ce a8 *)
Definition psi_el : bytes := hex "cea8" ++ str " 0.11".
Definition software_info : form :=
  [mkfield (str "os_version") [str "10.5.1"];
   mkfield (str "ip_version") [str "ipv6"; str "ipv4"];
   mkfield (str "FORM_TYPE") [str "urn:xmpp:dataforms:softwareinfo"];
   mkfield (str "software_version") [str "0.11"];
   mkfield (str "os") [str "Mac"];
   mkfield (str "software") [str "Psi"]].
Definition ex_complex : info :=
  mkinfo [mkid (str "client") (str "pc") (str "en") (str "Psi 0.11");
          mkid (str "client") (str "pc") (str "el") psi_el]
         feats_xep [software_info].

Example ex_complex_string :
  ver_string ex_complex =
  str "client/pc/el/" ++ psi_el ++
  str "<client/pc/en/Psi 0.11<http://jabber.org/protocol/caps<http://jabber.org/protocol/disco#info<http://jabber.org/protocol/disco#items<http://jabber.org/protocol/muc<urn:xmpp:dataforms:softwareinfo<ip_version<ipv4<ipv6<os<Mac<os_version<10.5.1<software<Psi<software_version<0.11<".
Proof. vm_compute. reflexivity. Qed.

(* the hypotheses of C20_xep_determines_string hold of it *)
Example ex_complex_well_formed : well_formed ex_complex.
Proof.
  split; [|split; [|split]].
  - unfold distinct_identities. vm_compute. repeat constructor; simpl; intuition discriminate.
  - repeat constructor. intros a b Ha Hb. vm_compute in Ha, Hb.
    destruct Ha as [<-|[]], Hb as [<-|[]]. reflexivity.
  - repeat constructor; vm_compute; intuition discriminate.
  - unfold distinct_form_types. vm_compute. repeat constructor. intros [].
Qed.

(* a permuted copy: identities, features, forms, fields and values all moved *)
Definition server_info : form :=
  [mkfield (str "FORM_TYPE") [str "http://jabber.org/network/serverinfo"];
   mkfield (str "abuse-addresses") [str "xmpp:abuse@shakespeare.lit"; str "mailto:abuse@shakespeare.lit"]].
Definition server_info' : form :=
  [mkfield (str "abuse-addresses") [str "mailto:abuse@shakespeare.lit"; str "xmpp:abuse@shakespeare.lit"];
   mkfield (str "FORM_TYPE") [str "http://jabber.org/network/serverinfo"]].
Definition ex_two : info :=
  mkinfo (i_ids ex_complex) [str "b"; str "a"] [software_info; server_info; []].
Definition ex_two' : info :=
  mkinfo (rev (i_ids ex_complex)) [str "a"; str "b"] [[]; server_info'; software_info].

Lemma field_equiv_refl f : field_equiv f f.
Proof. split; [reflexivity|apply Permutation_refl]. Qed.

Lemma form_equiv_refl fm : form_equiv fm fm.
Proof.
  exists fm. split; [apply Permutation_refl|].
  induction fm; constructor; [apply field_equiv_refl|assumption].
Qed.

Example ex_two_equiv : info_equiv ex_two ex_two'.
Proof.
  split; [apply perm_swap|]. split; [apply perm_swap|].
  exists [[]; server_info; software_info]. split.
  - apply (Permutation_rev [software_info; server_info; []]).
  - constructor; [apply form_equiv_refl|]. constructor; [|constructor; [apply form_equiv_refl|constructor]].
    exists (rev server_info). split; [apply Permutation_rev|].
    constructor; [split; [reflexivity|apply perm_swap]|].
    constructor; [apply field_equiv_refl|constructor].
Qed.

Example ex_two_distinct : distinct_identities ex_two.
Proof. unfold distinct_identities. vm_compute. repeat constructor; simpl; intuition discriminate. Qed.

Example ex_two_same_string : ver_string ex_two = ver_string ex_two'.
Proof. apply ver_string_equiv; [exact ex_two_equiv|exact ex_two_distinct]. Qed.

(* the sorted forms: the empty form (type "") first, then serverinfo, then softwareinfo *)
Example ex_two_forms :
  forms_string (i_forms ex_two) =
  str "<http://jabber.org/network/serverinfo<abuse-addresses<mailto:abuse@shakespeare.lit<xmpp:abuse@shakespeare.lit<urn:xmpp:dataforms:softwareinfo<ip_version<ipv4<ipv6<os<Mac<os_version<10.5.1<software<Psi<software_version<0.11<".
Proof. vm_compute. reflexivity. Qed.

(* a form without fields does not panic and contributes its (empty) type *)
Example ex_empty_form : ver_string_res (mkinfo [] [] [[]]) = Ok (str "<").
Proof. vm_compute. reflexivity. Qed.

(* form types are compared as strings, not as '<'-terminated texts: "a" < "a1" although "a1<" < "a<" *)
Example ex_prefix_types :
  forms_string [[mkfield (str "FORM_TYPE") [str "a1"]]; [mkfield (str "FORM_TYPE") [str "a"]]] = str "a<a1<".
Proof. vm_compute. reflexivity. Qed.

(* two fields with the same var keep their own values; several FORM_TYPE values: the smallest *)
Example ex_dup_var :
  forms_string [[mkfield (str "a") [str "y"]; mkfield (str "FORM_TYPE") [str "u"; str "t"]; mkfield (str "a") [str "x"]]]
  = str "t<a<x<a<y<".
Proof. vm_compute. reflexivity. Qed.

(* base64.StdEncoding (RFC 4648 test vectors) *)
Example ex_b64 :
  b64enc (str "foobar") = str "Zm9vYmFy" /\ b64enc (str "fooba") = str "Zm9vYmE=" /\
  b64enc (str "foob") = str "Zm9vYg==" /\ b64enc [] = [].
Proof. vm_compute. repeat split; reflexivity. Qed.

(* AppendHash with a destination: the base64 covers destination and digest (as the code does) *)
Example ex_append :
  append_hash (fun s => s) (str "ab") (mkinfo [] [str "c"] []) = Ok (b64enc (str "abc<")).
Proof. vm_compute. reflexivity. Qed.

(* ---- the destination as a slice on a heap (TailModel.v) ---- *)

Definition ex_i : info := mkinfo [] [str "c"] [].      (* S = "c<" *)
Definition no_slack : nat -> nat := fun _ => 0.
Definition out_of (r : tres) : option bytes := match r with TOk h o => Some (read h o) | _ => None end.

(* an empty destination with 64 bytes of spare capacity holding junk: a valid
   window, and the digest (20 bytes) as well as its base64 (28 bytes) would fit *)
Definition ex_buf : bytes := repeat "x"%byte 64.
Definition ex_dst : slice := mkslice 0 0 0 64.
Example ex_dst_valid : valid [ex_buf] ex_dst /\ s_len ex_dst = 0 /\ enclen 20 <= s_cap ex_dst.
Proof. vm_compute. repeat split; lia. Qed.

Example ex_spare_capacity :
  out_of (append_hash_heap no_slack (fold_hash 20) [ex_buf] ex_dst ex_i)
    = Some (b64enc (fold_hash 20 (str "c<"))) /\
  hash_heap no_slack (fold_hash 20) [ex_buf] ex_i = HOk (b64enc (fold_hash 20 (str "c<"))) /\
  length (b64enc (fold_hash 20 (str "c<"))) = 28.
Proof. vm_compute. repeat split; reflexivity. Qed.

(* a non-empty destination in the middle of an array that another slice shares:
   the prefix is kept, the digest lands in the spare capacity, the other slice
   (which does not reach into it) reads the same *)
Definition ex_mid : slice := mkslice 0 10 2 30.
Definition ex_other : slice := mkslice 0 0 10 10.
Example ex_shared :
  match append_hash_heap no_slack (fun s => s) [ex_buf] ex_mid ex_i with
  | TOk h' out => read h' out = b64enc (str "xxc<") /\ read h' ex_mid = str "xx" /\
                  read h' ex_other = read [ex_buf] ex_other /\ ~ overlaps_spare ex_other ex_mid /\
                  sub (arr h' 0) 12 2 = str "c<"
  | _ => False
  end.
Proof.
  vm_compute. repeat split; try reflexivity. intros [_ [p [A B]]]. lia.
Qed.

(* a history on one buffer: r1 = AppendHash(buf[:0]); r2 = AppendHash(r1[:0]) (the
   result reused as the next destination); r3 = AppendHash(buf[:3]) *)
Example ex_history :
  let '(rs, _, _) := run_calls no_slack (fold_hash 20) [ex_buf] [ex_dst]
                       [mkcall 0 0 0 ex_i; mkcall 1 0 0 ex_i; mkcall 0 0 3 ex_i] in
  map (fun r => match r with CallOk dc _ out => Some (dc, out) | _ => None end) rs =
  let hsh := b64enc (fold_hash 20 (str "c<")) in
  [Some ([], hsh); Some ([], hsh); Some (firstn 3 (fold_hash 20 (str "c<")), b64enc (firstn 3 (fold_hash 20 (str "c<")) ++ fold_hash 20 (str "c<")))].
Proof. vm_compute. reflexivity. Qed.

(* The theorems are about the tail as it is in the source, not about every tail:
   a tail that takes its output buffer from the destination when the capacity
   suffices (Encode then reads cells it has already overwritten) returns
   something else for exactly the destinations with enough spare capacity. *)
Definition tail_reusing_dst : list t_stmt :=
  [TAssign 1 (TSum (TVar 0)); TAssignInt 0 (TEncLen (TLen 1));
   TAssign 2 (TReslice (TVar 0) None (Some (TLit 0)));
   TIf (TCmp CLt (TCap 2) (TIntVar 0)) [TAssign 2 (TMake (TIntVar 0) None)] [];
   TAssign 2 (TReslice (TVar 2) None (Some (TIntVar 0)));
   TEncode (TVar 2) (TVar 1); TReturn (TVar 2)]%N.

Example ex_reusing_dst_garbles :
  let dg := fold_hash 20 (str "c<") in
  out_of (run_tail no_slack dg tail_reusing_dst [ex_buf] ex_dst) <> Some (b64enc dg) /\
  out_of (run_tail no_slack dg tail_reusing_dst [repeat "x"%byte 27] (mkslice 0 0 0 27)) = Some (b64enc dg) /\
  out_of (run_tail no_slack dg tail_reusing_dst [] nil_slice) = Some (b64enc dg) /\
  out_of (run_tail no_slack dg caps_tail [ex_buf] ex_dst) = Some (b64enc dg).
Proof. vm_compute. repeat split; try reflexivity. intro E. discriminate E. Qed.

(* the fixed-size hash of the correspondence *)
Example ex_fold_hash : fold_hash 4 (str "abcdef") = [byte_of_N (0 + 97 + 101); byte_of_N (1 + 98 + 102); byte_of_N (2 + 99); byte_of_N (3 + 100)]
  /\ length (fold_hash 20 []) = 20 /\ hfun 0 (str "ab") = str "ab".
Proof. vm_compute. repeat split; reflexivity. Qed.
