(* C20/Properties.v — the property theorems of C20 and nothing else.
   "The entity-capabilities hash is canonical."

   ver_string i        the string S that Info.AppendHash writes into the hash
   append_hash H d i   AppendHash(d, h) for a fresh hash.Hash computing H
   hash_string H i     Hash(h)
   xep51 i s           s is a construction of XEP-0115 section 5.1 for i (Spec.v)
   info_equiv i i'     i' is i with identities, features, forms, the fields of
                       every form and the values of every field permuted
   The hash function H is universally quantified in every statement: nothing
   is assumed about it. *)
From Coq Require Import Sorting.Permutation.
From XV Require Import lib.Bytes gen.DiscoCaps C20.Model C20.Spec C20.Proofs.

(* Order independence: for identities with distinct category/type/language the
   verification string does not change under any permutation of identities,
   features, forms, fields of a form (FORM_TYPE included, wherever it stands and
   however many values it has) and values of a field. *)
Theorem C20_permutation_invariant : forall i i',
  info_equiv i i' -> distinct_identities i -> ver_string i = ver_string i'.
Proof. exact ver_string_equiv. Qed.
Print Assumptions C20_permutation_invariant.

(* ... hence neither does the result of AppendHash / Hash, for every hash
   function and every destination. *)
Theorem C20_permutation_invariant_hash : forall (H : bytes -> bytes) dst i i',
  info_equiv i i' -> distinct_identities i -> append_hash H dst i = append_hash H dst i'.
Proof. exact append_hash_equiv. Qed.
Print Assumptions C20_permutation_invariant_hash.

(* With the identities left in place no condition is needed at all: features,
   forms (with and without FORM_TYPE, equal FORM_TYPEs, empty forms), fields
   (equal vars included) and values may be permuted freely. *)
Theorem C20_permutation_invariant_same_identities : forall i i',
  i_ids i = i_ids i' -> Permutation (i_feats i) (i_feats i') -> forms_equiv (i_forms i) (i_forms i') ->
  ver_string i = ver_string i'.
Proof. exact ver_string_equiv_same_ids. Qed.
Print Assumptions C20_permutation_invariant_same_identities.

(* The distinctness of the identity keys cannot be dropped: XEP-0115 sorts
   identities by category, type and lang only, and so does the code. *)
Definition C20_unrestricted_invariance_statement : Prop :=
  forall i i', info_equiv i i' -> ver_string i = ver_string i'.
Theorem C20_unrestricted_invariance_refuted : ~ C20_unrestricted_invariance_statement.
Proof. exact unrestricted_invariance_false. Qed.
Print Assumptions C20_unrestricted_invariance_refuted.

(* Agreement with the specification, for every input: the string written is a
   construction of XEP-0115 section 5.1. *)
Theorem C20_matches_xep : forall i, xep51 i (ver_string i).
Proof. exact ver_string_xep. Qed.
Print Assumptions C20_matches_xep.

(* ... and for information whose sort keys are distinct (identity keys, the
   vars of a form, the FORM_TYPEs of the forms) and whose forms carry at most
   one FORM_TYPE value, section 5.1 determines exactly one string: the one
   written. *)
Theorem C20_xep_determines_string : forall i s, well_formed i -> xep51 i s -> s = ver_string i.
Proof. exact xep51_unique. Qed.
Print Assumptions C20_xep_determines_string.

(* Hash is AppendHash with an empty destination, and that is the base64 of the
   hash of the verification string. *)
Theorem C20_hash_appendhash_agree : forall (H : bytes -> bytes) i,
  hash_string H i = append_hash H [] i /\
  append_hash H [] i = Ok (b64enc (H (ver_string i))).
Proof. exact hash_appendhash. Qed.
Print Assumptions C20_hash_appendhash_agree.

(* No panic: for every info value (empty forms, forms without FORM_TYPE,
   anything a peer's reply decodes to), every hash function and destination,
   AppendHash returns. The only partial operations of the function are the
   make() capacities, read from the source. *)
Theorem C20_no_panic : forall (H : bytes -> bytes) dst i,
  ver_string_res i = Ok (ver_string i) /\
  append_hash H dst i = Ok (b64enc (dst ++ H (ver_string i))).
Proof. exact no_panic. Qed.
Print Assumptions C20_no_panic.

(* The constants of the source are those of the XEP: '<' after every part,
   "FORM_TYPE", category/type/lang/name, sort keys category, type, lang; and no
   make() capacity can be negative. *)
Theorem C20_tables_are_xep0115 :
  sep = lt_char /\ caps_form_type_var = form_type_name /\
  (forall i, render_id i = xep_identity i) /\
  (forall a b, id_leb a b = xep_id_leb a b) /\
  (forall i, panics i = false).
Proof. exact tables_xep. Qed.
Print Assumptions C20_tables_are_xep0115.
