(* C20/Properties.v — the property theorems of C20 and nothing else.
   "The entity-capabilities hash is canonical."

   ver_string i        the string S that Info.AppendHash writes into the hash
   append_hash H d i   AppendHash(d, h) for a fresh hash.Hash computing H
   hash_string H i     Hash(h)
   xep51 i s           s is a construction of XEP-0115 section 5.1 for i (Spec.v)
   info_equiv i i'     i' is i with identities, features, forms, the fields of
                       every form and the values of every field permuted
   The hash function H is universally quantified in every statement: nothing
   is assumed about it.

   The destination of AppendHash is a Go slice: a window (offset, length,
   capacity) on a backing array that other slices may share (TailModel.v).
   heap / slice / valid h d   arrays; a window; the window lies inside an array of h
   read h d                   the visible contents d[:len(d)]
   append_hash_heap slack H h d i   AppendHash(d, h) as a transition of the heap:
                              the tail of the function is READ FROM THE SOURCE
                              (caps_tail) and interpreted; slack is the growth
                              policy of append (universally quantified)
   hash_heap slack H h i      Hash(h) (the destination it passes is read from the source)
   frame h h' d               h' is h with arrays added and no cell changed outside
                              the spare capacity d[len(d):cap(d)] of d
   run_calls                  a history of calls on buffers and earlier results *)
From Coq Require Import Sorting.Permutation.
From XV Require Import lib.Bytes gen.DiscoCaps C20.Model C20.Spec C20.Proofs C20.TailModel C20.TailProofs.

(* Order independence: for identities with distinct category/type/language the
   verification string does not change under any permutation of identities,
   features, forms, fields of a form (FORM_TYPE included, wherever it stands and
   however many values it has) and values of a field. *)
Theorem C20_permutation_invariant : forall i i',
  info_equiv i i' -> distinct_identities i -> ver_string i = ver_string i'.
Proof. exact ver_string_equiv. Qed.
Print Assumptions C20_permutation_invariant.

(* ... hence neither does the result of AppendHash / Hash, for every hash
   function and every destination. *)
Theorem C20_permutation_invariant_hash : forall (H : bytes -> bytes) dst i i',
  info_equiv i i' -> distinct_identities i -> append_hash H dst i = append_hash H dst i'.
Proof. exact append_hash_equiv. Qed.
Print Assumptions C20_permutation_invariant_hash.

(* With the identities left in place no condition is needed at all: features,
   forms (with and without FORM_TYPE, equal FORM_TYPEs, empty forms), fields
   (equal vars included) and values may be permuted freely. *)
Theorem C20_permutation_invariant_same_identities : forall i i',
  i_ids i = i_ids i' -> Permutation (i_feats i) (i_feats i') -> forms_equiv (i_forms i) (i_forms i') ->
  ver_string i = ver_string i'.
Proof. exact ver_string_equiv_same_ids. Qed.
Print Assumptions C20_permutation_invariant_same_identities.

(* The distinctness of the identity keys cannot be dropped: XEP-0115 sorts
   identities by category, type and lang only, and so does the code. *)
Definition C20_unrestricted_invariance_statement : Prop :=
  forall i i', info_equiv i i' -> ver_string i = ver_string i'.
Theorem C20_unrestricted_invariance_refuted : ~ C20_unrestricted_invariance_statement.
Proof. exact unrestricted_invariance_false. Qed.
Print Assumptions C20_unrestricted_invariance_refuted.

(* Agreement with the specification, for every input: the string written is a
   construction of XEP-0115 section 5.1. *)
Theorem C20_matches_xep : forall i, xep51 i (ver_string i).
Proof. exact ver_string_xep. Qed.
Print Assumptions C20_matches_xep.

(* ... and for information whose sort keys are distinct (identity keys, the
   vars of a form, the FORM_TYPEs of the forms) and whose forms carry at most
   one FORM_TYPE value, section 5.1 determines exactly one string: the one
   written. *)
Theorem C20_xep_determines_string : forall i s, well_formed i -> xep51 i s -> s = ver_string i.
Proof. exact xep51_unique. Qed.
Print Assumptions C20_xep_determines_string.

(* Hash is AppendHash with an empty destination, and that is the base64 of the
   hash of the verification string. *)
Theorem C20_hash_appendhash_agree : forall (H : bytes -> bytes) i,
  hash_string H i = append_hash H [] i /\
  append_hash H [] i = Ok (b64enc (H (ver_string i))).
Proof. exact hash_appendhash. Qed.
Print Assumptions C20_hash_appendhash_agree.

(* No panic: for every info value (empty forms, forms without FORM_TYPE,
   anything a peer's reply decodes to), every hash function and destination,
   AppendHash returns. The only partial operations of the function are the
   make() capacities, read from the source. *)
Theorem C20_no_panic : forall (H : bytes -> bytes) dst i,
  ver_string_res i = Ok (ver_string i) /\
  append_hash H dst i = Ok (b64enc (dst ++ H (ver_string i))).
Proof. exact no_panic. Qed.
Print Assumptions C20_no_panic.

(* The constants of the source are those of the XEP: '<' after every part,
   "FORM_TYPE", category/type/lang/name, sort keys category, type, lang; and no
   make() capacity can be negative. *)
Theorem C20_tables_are_xep0115 :
  sep = lt_char /\ caps_form_type_var = form_type_name /\
  (forall i, render_id i = xep_identity i) /\
  (forall a b, id_leb a b = xep_id_leb a b) /\
  (forall i, panics i = false).
Proof. exact tables_xep. Qed.
Print Assumptions C20_tables_are_xep0115.

(* ---- the destination: capacity, spare contents, shared buffers, histories ---- *)

(* What AppendHash returns depends on the CONTENTS of the destination only: for
   every heap, every window d on it (any offset, length, capacity, anything in
   the spare capacity, any other slice sharing the array) and every growth
   policy of append, the call returns and the returned slice reads as
   append_hash says for the contents of d. *)
Theorem C20_result_independent_of_capacity : forall slack (H : bytes -> bytes) h d i,
  valid h d ->
  exists h' out, append_hash_heap slack H h d i = TOk h' out /\
    append_hash H (read h d) i = Ok (read h' out).
Proof. exact append_hash_heap_contents. Qed.
Print Assumptions C20_result_independent_of_capacity.

(* Hash and AppendHash with an empty destination give the same string — for an
   empty destination of every capacity (nil, make([]byte, 0, n), buf[:0] of a
   buffer used before), whatever its spare capacity holds. *)
Theorem C20_hash_appendhash_agree_every_capacity : forall slack (H : bytes -> bytes) h d i,
  valid h d -> s_len d = 0 ->
  exists h' out, append_hash_heap slack H h d i = TOk h' out /\
    hash_heap slack H h i = HOk (read h' out) /\
    hash_string H i = Ok (read h' out) /\
    read h' out = b64enc (H (ver_string i)).
Proof. exact hash_appendhash_heap. Qed.
Print Assumptions C20_hash_appendhash_agree_every_capacity.

(* The call writes nowhere but into the spare capacity of its destination and
   into arrays of its own; the returned slice lies in a new array (it shares no
   cell with anything the caller held) and is exactly as long as its capacity. *)
Theorem C20_call_changes_only_spare_capacity : forall slack (H : bytes -> bytes) h d i,
  valid h d ->
  exists h' out, append_hash_heap slack H h d i = TOk h' out /\
    read h' out = b64enc (read h d ++ H (ver_string i)) /\
    valid h' out /\ frame h h' d /\ length h <= s_arr out /\ s_cap out = s_len out.
Proof. exact append_hash_heap_spec. Qed.
Print Assumptions C20_call_changes_only_spare_capacity.

(* Results are independent of later operations: a slice the caller holds (an
   earlier result, say) reads the same after any later call, unless the caller
   itself passed its cells as spare capacity of that call's destination. *)
Theorem C20_results_survive_later_calls : forall slack (H : bytes -> bytes) h d i s h' out,
  valid h d -> valid h s -> ~ overlaps_spare s d ->
  append_hash_heap slack H h d i = TOk h' out -> read h' s = read h s.
Proof. exact call_keeps_other_slices. Qed.
Print Assumptions C20_results_survive_later_calls.

(* Histories: whatever sequence of calls is made, each with a destination cut
   from any slice held at that time (the caller's buffers, earlier results,
   reused or not), every call returns base64(contents of its destination ++
   digest); with an empty destination that is what Hash returns. *)
Theorem C20_history_independent : forall slack (H : bytes -> bytes) cs h known,
  Forall (valid h) known ->
  let '(rs, hf, kf) := run_calls slack H h known cs in
  Forall (call_ok H) rs /\ Forall (valid hf) kf.
Proof. exact run_calls_spec'. Qed.
Print Assumptions C20_history_independent.

Theorem C20_history_empty_destination_is_hash : forall slack (H : bytes -> bytes) cs h known,
  Forall (valid h) known ->
  Forall (fun r => match r with
                   | CallOk dc i out => dc = [] -> hash_string H i = Ok out
                   | _ => False end)
         (fst (fst (run_calls slack H h known cs))).
Proof. exact run_calls_empty_dst. Qed.
Print Assumptions C20_history_empty_destination_is_hash.

(* The source text these statements are about: the tail of AppendHash sums into
   the destination, encodes into a buffer obtained from make alone, and returns
   that buffer; Hash passes nil. *)
Theorem C20_tail_is_as_modelled : caps_tail = tail_as_modelled /\ caps_hash_dst = TNil.
Proof. exact tail_tables. Qed.
Print Assumptions C20_tail_is_as_modelled.
