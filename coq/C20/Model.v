(* C20/Model.v — executable model of disco/info.go Info.AppendHash / Info.Hash
   (XEP-0115 entity capabilities verification string).

   An info value is reduced to what the hash looks at: identities
   (category, type, lang, name), feature vars, and for every extended-information
   form the list of its fields as (var, raw values) in document order.  Strings
   are byte strings; Go's < on strings is the bytewise lexicographic order
   [bytes_ltb].

   The function mirrors AppendHash statement by statement:
     sort identities with the less function of the source (keys from
       gen/DiscoCaps.v), write each with the format string of the source;
     sort the feature vars, write each followed by the separator;
     for every form: the form type is the smallest value of its FORM_TYPE
       field(s), "" if there is none; every other field becomes var<v1<v2<... with its own
       values sorted; the fields are sorted by (var, text); the form becomes
       type<fields...; the forms are sorted by (type, text) and written;
     Sum(dst), base64 of the whole.
   sort.Slice / sort.Strings are modelled by a stable insertion sort: for the
   total orders used on strings and (key, text) pairs the result of any correct
   sort is the same list; for identities Go's sort.Slice is a stable insertion
   sort up to 12 elements and unspecified among equal keys beyond that (the
   property only speaks of identities with distinct keys).
   A make() with a negative capacity panics: the capacities come from the
   source through gen/DiscoCaps.v. *)
From XV Require Import lib.Bytes gen.DiscoCaps.

(* ---- data ---- *)

Record identity := mkid { id_cat : bytes; id_type : bytes; id_lang : bytes; id_name : bytes }.
Record field := mkfield { f_var : bytes; f_vals : list bytes }.
Definition form := list field.
Record info := mkinfo { i_ids : list identity; i_feats : list bytes; i_forms : list form }.

(* ---- order on strings ---- *)

Fixpoint bytes_leb (a b : bytes) : bool :=
  match a, b with
  | [], _ => true
  | _ :: _, [] => false
  | x :: a', y :: b' =>
      if (bN x <? bN y)%N then true
      else if (bN y <? bN x)%N then false
      else bytes_leb a' b'
  end.

Definition bytes_ltb (a b : bytes) : bool := negb (bytes_leb b a).

(* ---- sorting ---- *)

Section Sort.
  Variable A : Type.
  Variable leb : A -> A -> bool.
  Fixpoint insert (x : A) (l : list A) : list A :=
    match l with
    | [] => [x]
    | y :: r => if leb x y then x :: l else y :: insert x r
    end.
  Fixpoint isort (l : list A) : list A :=
    match l with
    | [] => []
    | x :: r => insert x (isort r)
    end.
End Sort.
Arguments insert {A}.
Arguments isort {A}.

(* ---- separator, written after every part ---- *)

Definition sep : bytes := match caps_sep_literals with [s] => s | _ => [] end.

Definition join_sep (l : list bytes) : bytes := concat (map (fun v => v ++ sep) l).

(* ---- identities ---- *)

Definition id_sel (n : N) (i : identity) : bytes :=
  match n with
  | 0 => id_cat i | 1 => id_type i | 2 => id_lang i | 3 => id_name i | _ => []
  end%N.

(* if x.F != y.F { return x.G < y.G } ... return false *)
Fixpoint keys_ltb (ks : list (N * N)) (a b : identity) : bool :=
  match ks with
  | [] => false
  | (f, g) :: r =>
      if bytes_eqb (id_sel f a) (id_sel f b) then keys_ltb r a b
      else bytes_ltb (id_sel g a) (id_sel g b)
  end.

Definition id_ltb : identity -> identity -> bool := keys_ltb caps_id_sort_keys.
Definition id_leb (a b : identity) : bool := negb (id_ltb b a).

(* fmt.Fprintf with %s verbs only; a missing operand prints %!s(MISSING) *)
Fixpoint fmt_apply (f : bytes) (args : list bytes) : bytes :=
  match f with
  | [] => []
  | c :: r =>
      match r with
      | d :: r' =>
          if byte_eqb c "%" && byte_eqb d "s" then
            match args with
            | a :: args' => a ++ fmt_apply r' args'
            | [] => str "%!s(MISSING)" ++ fmt_apply r' []
            end
          else c :: fmt_apply r args
      | [] => [c]
      end
  end.

Definition render_id (i : identity) : bytes :=
  fmt_apply caps_id_format (map (fun n => id_sel n i) caps_id_format_args).

Definition ids_string (ids : list identity) : bytes :=
  concat (map render_id (isort id_leb ids)).

(* ---- features ---- *)

Definition feats_string (fs : list bytes) : bytes := join_sep (isort bytes_leb fs).

(* ---- forms ---- *)

Definition chunk := (bytes * bytes)%type.

(* less(a, b): a.key != b.key ? a.key < b.key : a.s < b.s *)
Definition chunk_leb (a b : chunk) : bool :=
  if bytes_eqb (fst a) (fst b) then bytes_leb (snd a) (snd b) else bytes_leb (fst a) (fst b).

Definition is_ft (f : field) : bool := bytes_eqb (f_var f) caps_form_type_var.
Definition not_ft (f : field) : bool := negb (is_ft f).

Definition ft_values (fm : form) : list bytes := flat_map f_vals (filter is_ft fm).

(* for _, val := range f.Raw { if !hasType || val < formType { formType, hasType = val, true } }
   over every FORM_TYPE field in order: the smallest FORM_TYPE value, "" if none *)
Fixpoint min_from (m : bytes) (l : list bytes) : bytes :=
  match l with
  | [] => m
  | v :: r => min_from (if bytes_ltb v m then v else m) r
  end.

Definition form_type (fm : form) : bytes :=
  match ft_values fm with
  | [] => []
  | v :: r => min_from v r
  end.

Definition field_chunk (f : field) : chunk :=
  (f_var f, f_var f ++ sep ++ join_sep (isort bytes_leb (f_vals f))).

Definition fields_string (fm : form) : bytes :=
  concat (map snd (isort chunk_leb (map field_chunk (filter not_ft fm)))).

Definition form_chunk (fm : form) : chunk :=
  (form_type fm, form_type fm ++ sep ++ fields_string fm).

Definition forms_string (fms : list form) : bytes :=
  concat (map snd (isort chunk_leb (map form_chunk fms))).

(* ---- the verification string S of XEP-0115 5.1, as AppendHash writes it ---- *)

Definition ver_string (i : info) : bytes :=
  ids_string (i_ids i) ++ feats_string (i_feats i) ++ forms_string (i_forms i).

(* ---- panics: make([]T, 0, form.Len() - k) ---- *)

Definition form_cap_panics (fm : form) : bool :=
  existsb (fun k => (N.of_nat (length fm) <? k)%N) caps_len_cap_deficits.

Definition panics (i : info) : bool :=
  negb caps_other_caps_nonneg || existsb form_cap_panics (i_forms i).

Inductive res (A : Type) := Ok (a : A) | Panic.
Arguments Ok {A}.
Arguments Panic {A}.

Definition ver_string_res (i : info) : res bytes :=
  if panics i then Panic else Ok (ver_string i).

(* ---- base64.StdEncoding ---- *)

Definition b64_alphabet : bytes :=
  str "ABCDEFGHIJKLMNOPQRSTUVWXYZabcdefghijklmnopqrstuvwxyz0123456789+/".

Definition b64char (n : N) : byte := nth (N.to_nat n) b64_alphabet "A"%byte.

Fixpoint b64enc (s : bytes) : bytes :=
  match s with
  | [] => []
  | [a] =>
      let n := (bN a * 65536)%N in
      [b64char (n / 262144)%N; b64char ((n / 4096) mod 64)%N; "="%byte; "="%byte]
  | [a; b] =>
      let n := (bN a * 65536 + bN b * 256)%N in
      [b64char (n / 262144)%N; b64char ((n / 4096) mod 64)%N; b64char ((n / 64) mod 64)%N; "="%byte]
  | a :: b :: c :: r =>
      let n := (bN a * 65536 + bN b * 256 + bN c)%N in
      [b64char (n / 262144)%N; b64char ((n / 4096) mod 64)%N; b64char ((n / 64) mod 64)%N; b64char (n mod 64)%N]
        ++ b64enc r
  end.

(* ---- AppendHash / Hash; H is the hash function (fresh hash.Hash: Sum(dst) = dst ++ H written) ---- *)

Definition append_hash (H : bytes -> bytes) (dst : bytes) (i : info) : res bytes :=
  match ver_string_res i with
  | Panic => Panic
  | Ok s => Ok (b64enc (dst ++ H s))
  end.

Definition hash_string (H : bytes -> bytes) (i : info) : res bytes := append_hash H [] i.

(* ---- correspondence records (harness-written case files) ----
   The harness runs AppendHash with a recording hash (Sum(b) = b ++ everything
   written), so H is the identity and the verification string itself is compared. *)

Record hcase := mkhcase { c_info : info; c_dst : bytes; c_panic : bool; c_out : bytes }.

Definition case_ok (c : hcase) : bool :=
  match append_hash (fun s => s) (c_dst c) (c_info c) with
  | Panic => c_panic c
  | Ok o => negb (c_panic c) && bytes_eqb o (c_out c)
  end.

Fixpoint failing {A} (ok : A -> bool) (i : nat) (l : list A) : list nat :=
  match l with
  | [] => []
  | x :: r => if ok x then failing ok (S i) r else i :: failing ok (S i) r
  end.
