(* C20/Spec.v — XEP-0115 section 5.1 written down independently of the code,
   as a relation: [xep51 i s] holds when [s] is a string that the numbered
   steps of section 5.1 can produce for the service-discovery information [i].

   The XEP says "sort by ..." and does not say how elements with equal sort
   keys are ordered, nor which value is "the" FORM_TYPE when a malformed form
   carries several; the relation allows every choice.  For information in
   which the sort keys are distinct and every form has at most one FORM_TYPE
   value the relation is functional (Proofs.xep51_unique).

   Only the data types and the bytewise order on strings (the "i;octet"
   collation of the XEP) are shared with the model.  Definitions only. *)
From Coq Require Import Sorting.Permutation Sorting.Sorted.
From XV Require Import lib.Bytes C20.Model.

Definition lt_char : bytes := str "<".
Definition slash : bytes := str "/".
Definition form_type_name : bytes := str "FORM_TYPE".

Definition bytes_le (a b : bytes) : Prop := bytes_leb a b = true.

(* step 2: "sort the service discovery identities by category and then by
   type and then by xml:lang" *)
Definition xep_id_leb (a b : identity) : bool :=
  if bytes_eqb (id_cat a) (id_cat b) then
    if bytes_eqb (id_type a) (id_type b) then bytes_leb (id_lang a) (id_lang b)
    else bytes_leb (id_type a) (id_type b)
  else bytes_leb (id_cat a) (id_cat b).

Definition xep_id_le (a b : identity) : Prop := xep_id_leb a b = true.

(* step 3: CATEGORY '/' [TYPE] '/' [LANG] '/' [NAME] followed by '<' *)
Definition xep_identity (i : identity) : bytes :=
  id_cat i ++ slash ++ id_type i ++ slash ++ id_lang i ++ slash ++ id_name i ++ lt_char.

(* steps 4-5 and 7.3.2-7.3.3: each string followed by '<' *)
Definition xep_each (l : list bytes) : bytes := concat (map (fun v => v ++ lt_char) l).

Definition is_form_type_field (f : field) : bool := bytes_eqb (f_var f) form_type_name.

(* step 7.3: var '<', then the sorted values each followed by '<' *)
Definition xep_field (f : field) (s : bytes) : Prop :=
  exists vs, Permutation (f_vals f) vs /\ Sorted bytes_le vs /\
             s = f_var f ++ lt_char ++ xep_each vs.

(* the character data of the <value/> elements of the FORM_TYPE field(s) *)
Definition form_type_values (fm : form) : list bytes :=
  flat_map f_vals (filter is_form_type_field fm).

(* step 7.1: the character data of a <value/> of the FORM_TYPE field; the
   empty string when the form has none *)
Definition xep_form_type (fm : form) (ft : bytes) : Prop :=
  In ft (form_type_values fm) \/ (form_type_values fm = [] /\ ft = []).

(* step 7: form type '<', then the fields other than FORM_TYPE sorted by var *)
Definition xep_form (fm : form) (ft s : bytes) : Prop :=
  xep_form_type fm ft /\
  exists fs texts,
    Permutation (filter (fun f => negb (is_form_type_field f)) fm) fs /\
    Sorted (fun a b => bytes_le (f_var a) (f_var b)) fs /\
    Forall2 xep_field fs texts /\
    s = ft ++ lt_char ++ concat texts.

Definition xep51 (i : info) (s : bytes) : Prop :=
  exists ids feats fms (rendered : list (bytes * bytes)),
    Permutation (i_ids i) ids /\ Sorted xep_id_le ids /\
    Permutation (i_feats i) feats /\ Sorted bytes_le feats /\
    Permutation (i_forms i) fms /\
    Forall2 (fun fm r => xep_form fm (fst r) (snd r)) fms rendered /\
    Sorted (fun a b => bytes_le (fst a) (fst b)) rendered /\
    s = concat (map xep_identity ids) ++ xep_each feats ++ concat (map snd rendered).

(* ---- permutations of an info value at every level ---- *)

Definition field_equiv (f g : field) : Prop :=
  f_var f = f_var g /\ Permutation (f_vals f) (f_vals g).

Definition form_equiv (fm fm' : form) : Prop :=
  exists fs, Permutation fm fs /\ Forall2 field_equiv fs fm'.

Definition forms_equiv (fms fms' : list form) : Prop :=
  exists l, Permutation fms l /\ Forall2 form_equiv l fms'.

Definition info_equiv (i i' : info) : Prop :=
  Permutation (i_ids i) (i_ids i') /\
  Permutation (i_feats i) (i_feats i') /\
  forms_equiv (i_forms i) (i_forms i').

(* ---- the shapes the property quantifies over ---- *)

Definition id_key (i : identity) : bytes * bytes * bytes := (id_cat i, id_type i, id_lang i).

(* identities with distinct category/type/language *)
Definition distinct_identities (i : info) : Prop := NoDup (map id_key (i_ids i)).

(* all FORM_TYPE values of a form (if any) are the same string *)
Definition one_form_type (fm : form) : Prop :=
  forall a b, In a (form_type_values fm) -> In b (form_type_values fm) -> a = b.

Definition one_form_type_each (i : info) : Prop := Forall one_form_type (i_forms i).

(* ---- information for which section 5.1 determines one string ---- *)

Definition the_form_type (fm : form) : bytes := hd [] (form_type_values fm).

Definition distinct_vars (fm : form) : Prop :=
  NoDup (map f_var (filter (fun f => negb (is_form_type_field f)) fm)).

Definition distinct_form_types (i : info) : Prop := NoDup (map the_form_type (i_forms i)).

Definition well_formed (i : info) : Prop :=
  distinct_identities i /\ one_form_type_each i /\
  Forall distinct_vars (i_forms i) /\ distinct_form_types i.
