(* C20/TailModel.v — what Info.AppendHash does with the caller's destination.

   Model.v describes AppendHash on the CONTENTS of the destination
   ([append_hash H dst i], dst a list).  A Go slice is more than its contents:
   it is a window (offset, length, capacity) on a backing array that other
   slices may share, and append / h.Sum(dst) write into the spare capacity of
   that array when it suffices.  Whether the result depends on the capacity of
   the destination, on what the spare capacity holds, or on earlier calls that
   used the same buffer cannot be said about a list.

   Here the tail of AppendHash — the statements after its last loop, READ FROM
   THE SOURCE by the translator as a program [caps_tail] of a small language of
   slice operations (gen/DiscoCaps.v) — is interpreted over a heap of backing
   arrays:
     heap            list of arrays (an array never changes its length)
     slice           (array, offset, length, capacity)
     go_append       in place when the capacity suffices, else a fresh array
     go_make         a fresh zeroed array
     go_reslice      s[lo:hi] with Go's bounds (0 <= lo <= hi <= cap)
     heap_encode     base64.StdEncoding.Encode(dst, src) group by group: three
                     bytes are READ from the heap, then four are WRITTEN, as the
                     library does — so that overlapping dst and src behave as
                     they do in Go
   [append_hash_heap] is AppendHash as a transition of the heap, [hash_heap] is
   Hash (the destination it passes is read from the source, [caps_hash_dst]).
   The growth policy of append (how much spare capacity a fresh array gets) is a
   parameter [slack]; the theorems hold for every policy.
   Only definitions here; the proofs are in TailProofs.v. *)
From XV Require Import lib.Bytes gen.DiscoCaps C20.Model.

(* ---- heap, slices ---- *)

Record slice := mkslice { s_arr : nat; s_off : nat; s_len : nat; s_cap : nat }.
Definition heap := list bytes.
Definition nil_slice : slice := mkslice 0 0 0 0.

Definition arr (h : heap) (a : nat) : bytes := nth a h [].
Definition sub (l : bytes) (p n : nat) : bytes := firstn n (skipn p l).
(* the visible contents s[:len(s)] and the whole window s[:cap(s)] *)
Definition read (h : heap) (s : slice) : bytes := sub (arr h (s_arr s)) (s_off s) (s_len s).
Definition read_cap (h : heap) (s : slice) : bytes := sub (arr h (s_arr s)) (s_off s) (s_cap s).

Definition put (l : bytes) (p : nat) (bs : bytes) : bytes :=
  firstn p l ++ bs ++ skipn (p + length bs) l.

Fixpoint set_nth {A} (l : list A) (n : nat) (x : A) : list A :=
  match l, n with
  | [], _ => []
  | _ :: r, 0 => x :: r
  | y :: r, S n' => y :: set_nth r n' x
  end.

Definition write (h : heap) (a p : nat) (bs : bytes) : heap := set_nth h a (put (arr h a) p bs).
Definition zeros (n : nat) : bytes := repeat x00 n.

(* append(s, bs...) *)
Definition go_append (slack : nat -> nat) (h : heap) (s : slice) (bs : bytes) : heap * slice :=
  let n := s_len s + length bs in
  if n <=? s_cap s then
    (write h (s_arr s) (s_off s + s_len s) bs, mkslice (s_arr s) (s_off s) n (s_cap s))
  else
    (h ++ [read h s ++ bs ++ zeros (slack n)], mkslice (length h) 0 n (n + slack n)).

(* make([]byte, n, c) *)
Definition go_make (h : heap) (n c : nat) : option (heap * slice) :=
  if n <=? c then Some (h ++ [zeros c], mkslice (length h) 0 n c) else None.

(* s[lo:hi] *)
Definition go_reslice (s : slice) (lo hi : nat) : option slice :=
  if (lo <=? hi) && (hi <=? s_cap s)
  then Some (mkslice (s_arr s) (s_off s + lo) (hi - lo) (s_cap s - lo))
  else None.

(* base64.StdEncoding.EncodedLen *)
Definition enclen (n : nat) : nat := (n + 2) / 3 * 4.

(* Encode: k groups left; source at (sa, sp) with sn bytes left; output at (da, dp) *)
Fixpoint enc_groups (k : nat) (h : heap) (sa sp sn da dp : nat) : heap :=
  match k with
  | 0 => h
  | S k' =>
      let g := sub (arr h sa) sp (Nat.min 3 sn) in
      enc_groups k' (write h da dp (b64enc g)) sa (sp + 3) (sn - 3) da (dp + 4)
  end.

(* None: index out of range (the output does not fit) *)
Definition heap_encode (h : heap) (dst src : slice) : option heap :=
  if s_len dst <? enclen (s_len src) then None
  else Some (enc_groups ((s_len src + 2) / 3) h (s_arr src) (s_off src) (s_len src) (s_arr dst) (s_off dst)).

(* ---- interpreter of the tail language ---- *)

Inductive ev (A : Type) := EOk (a : A) | EPanic | EStuck.
Arguments EOk {A}.
Arguments EPanic {A}.
Arguments EStuck {A}.

Record tst := mktst { t_heap : heap; t_sv : list slice; t_iv : list nat }.

Definition opt_bind {A B} (o : option A) (f : A -> option B) : option B :=
  match o with Some a => f a | None => None end.

(* None: outside the fragment (unknown construct, unset variable, negative result) *)
Fixpoint eval_int (sv : list slice) (iv : list nat) (e : t_int) : option nat :=
  match e with
  | TLit n => Some (N.to_nat n)
  | TIntVar v => nth_error iv (N.to_nat v)
  | TLen v => option_map s_len (nth_error sv (N.to_nat v))
  | TCap v => option_map s_cap (nth_error sv (N.to_nat v))
  | TEncLen a => option_map enclen (eval_int sv iv a)
  | TAdd a b => opt_bind (eval_int sv iv a) (fun x => option_map (Nat.add x) (eval_int sv iv b))
  | TSub a b => opt_bind (eval_int sv iv a) (fun x => opt_bind (eval_int sv iv b) (fun y =>
                  if y <=? x then Some (x - y) else None))
  | TIntUnknown => None
  end.

Definition eval_opt_int (sv : list slice) (iv : list nat) (o : option t_int) (dflt : nat) : option nat :=
  match o with None => Some dflt | Some e => eval_int sv iv e end.

Definition eval_cmp (c : t_cmp) (x y : nat) : bool :=
  match c with
  | CLt => x <? y | CLe => x <=? y | CGt => y <? x | CGe => y <=? x
  | CEq => x =? y | CNe => negb (x =? y)
  end.

Definition eval_cond (sv : list slice) (iv : list nat) (c : t_cond) : option bool :=
  match c with
  | TCmp o a b => opt_bind (eval_int sv iv a) (fun x => option_map (eval_cmp o x) (eval_int sv iv b))
  | TCondUnknown => None
  end.

Section Interp.
  Variable slack : nat -> nat.    (* growth policy of append *)
  Variable digest : bytes.        (* what h.Sum appends *)

  Fixpoint eval_slice (h : heap) (sv : list slice) (iv : list nat) (e : t_slice) : ev (heap * slice) :=
    match e with
    | TNil => EOk (h, nil_slice)
    | TVar v => match nth_error sv (N.to_nat v) with Some s => EOk (h, s) | None => EStuck end
    | TSum a =>
        match eval_slice h sv iv a with
        | EOk (h1, s) => EOk (go_append slack h1 s digest)
        | o => o
        end
    | TMake n c =>
        match eval_int sv iv n with
        | None => EStuck
        | Some n' =>
            match eval_opt_int sv iv c n' with
            | None => EStuck
            | Some c' => match go_make h n' c' with Some r => EOk r | None => EPanic end
            end
        end
    | TReslice a lo hi =>
        match eval_slice h sv iv a with
        | EOk (h1, s) =>
            match eval_opt_int sv iv lo 0, eval_opt_int sv iv hi (s_len s) with
            | Some l, Some u => match go_reslice s l u with Some s' => EOk (h1, s') | None => EPanic end
            | _, _ => EStuck
            end
        | o => o
        end
    | TAppend a b =>
        match eval_slice h sv iv a with
        | EOk (h1, s1) =>
            match eval_slice h1 sv iv b with
            | EOk (h2, s2) => EOk (go_append slack h2 s1 (read h2 s2))
            | o => o
            end
        | o => o
        end
    | TSliceUnknown => EStuck
    end.

  Definition set_var {A} (dflt : A) (l : list A) (v : nat) (x : A) : list A :=
    set_nth (l ++ repeat dflt (S v - length l)) v x.

  Inductive xres := XNext (st : tst) | XRet (h : heap) (s : slice) | XPanic | XStuck.

  Fixpoint exec (s : t_stmt) (st : tst) {struct s} : xres :=
    let fix go (l : list t_stmt) (st : tst) {struct l} : xres :=
      match l with
      | [] => XNext st
      | x :: r => match exec x st with XNext st' => go r st' | o => o end
      end in
    let '(mktst h sv iv) := st in
    match s with
    | TAssign v e =>
        match eval_slice h sv iv e with
        | EOk (h1, sl) => XNext (mktst h1 (set_var nil_slice sv (N.to_nat v) sl) iv)
        | EPanic => XPanic
        | EStuck => XStuck
        end
    | TAssignInt v e =>
        match eval_int sv iv e with
        | Some n => XNext (mktst h sv (set_var 0 iv (N.to_nat v) n))
        | None => XStuck
        end
    | TIf c th el =>
        match eval_cond sv iv c with
        | Some true => go th st
        | Some false => go el st
        | None => XStuck
        end
    | TEncode d s =>
        match eval_slice h sv iv d with
        | EOk (h1, sd) =>
            match eval_slice h1 sv iv s with
            | EOk (h2, ss) =>
                match heap_encode h2 sd ss with
                | Some h3 => XNext (mktst h3 sv iv)
                | None => XPanic
                end
            | EPanic => XPanic
            | EStuck => XStuck
            end
        | EPanic => XPanic
        | EStuck => XStuck
        end
    | TReturn e =>
        match eval_slice h sv iv e with
        | EOk (h1, sl) => XRet h1 sl
        | EPanic => XPanic
        | EStuck => XStuck
        end
    | TUnknown => XStuck
    end.

  Fixpoint exec_list (l : list t_stmt) (st : tst) : xres :=
    match l with
    | [] => XNext st
    | x :: r => match exec x st with XNext st' => exec_list r st' | o => o end
    end.

  Inductive tres := TOk (h : heap) (out : slice) | TPanic | TStuck.

  (* the tail run with destination d; a function that falls off its end is stuck *)
  Definition run_tail (prog : list t_stmt) (h : heap) (d : slice) : tres :=
    match exec_list prog (mktst h [d] []) with
    | XRet h' s => TOk h' s
    | XPanic => TPanic
    | _ => TStuck
    end.
End Interp.

(* ---- AppendHash and Hash over the heap ---- *)

Definition append_hash_heap (slack : nat -> nat) (H : bytes -> bytes) (h : heap) (d : slice) (i : info) : tres :=
  match ver_string_res i with
  | Panic => TPanic
  | Ok s => run_tail slack (H s) caps_tail h d
  end.

Inductive hres := HOk (s : bytes) | HPanic | HStuck.

(* Hash(h) = string(AppendHash(<caps_hash_dst>, h)) *)
Definition hash_heap (slack : nat -> nat) (H : bytes -> bytes) (h : heap) (i : info) : hres :=
  match eval_slice slack [] h [] [] caps_hash_dst with
  | EOk (h1, d) =>
      match append_hash_heap slack H h1 d i with
      | TOk h2 out => HOk (read h2 out)
      | TPanic => HPanic
      | TStuck => HStuck
      end
  | EPanic => HPanic
  | EStuck => HStuck
  end.

(* ---- histories of calls on shared buffers ----
   known: the slices the caller holds (its own buffers, then every result in
   order).  A call takes known[src][lo:hi] as its destination. *)

Record call := mkcall { k_src : nat; k_lo : nat; k_hi : nat; k_info : info }.

Inductive callres :=
| CallOk (dst_contents : bytes) (i : info) (out : bytes)  (* what the destination held, what was returned *)
| CallLibPanic (i : info)
| CallStuck.

(* runs until the caller's own slice expression is out of range *)
Fixpoint run_calls (slack : nat -> nat) (H : bytes -> bytes) (h : heap) (known : list slice) (cs : list call)
  : list callres * heap * list slice :=
  match cs with
  | [] => ([], h, known)
  | c :: r =>
      match go_reslice (nth (k_src c) known nil_slice) (k_lo c) (k_hi c) with
      | None => ([], h, known)
      | Some d =>
          match append_hash_heap slack H h d (k_info c) with
          | TOk h' out =>
              let '(l, hf, kf) := run_calls slack H h' (known ++ [out]) r in
              (CallOk (read h d) (k_info c) (read h' out) :: l, hf, kf)
          | TPanic => let '(l, hf, kf) := run_calls slack H h known r in (CallLibPanic (k_info c) :: l, hf, kf)
          | TStuck => ([CallStuck], h, known)
          end
      end
  end.

(* ---- a computable hash of fixed size for the correspondence ----
   digest[j] = j + sum of the bytes at positions congruent to j modulo k (mod 256);
   the harness runs the implementation with the same function. *)

Fixpoint add_at (d : bytes) (j : nat) (c : byte) : bytes :=
  match d, j with
  | [], _ => []
  | x :: r, 0 => byte_of_N (bN x + bN c) :: r
  | x :: r, S j' => x :: add_at r j' c
  end.

Fixpoint fold_go (k : nat) (s : bytes) (j : nat) (d : bytes) : bytes :=
  match s with
  | [] => d
  | c :: r => fold_go k r (if S j =? k then 0 else S j) (add_at d j c)
  end.

Definition fold_hash (k : nat) (s : bytes) : bytes :=
  fold_go k s 0 (map (fun j => byte_of_N (N.of_nat j)) (seq 0 k)).

(* hash size 0: the recording hash (the digest is the string itself) *)
Definition hfun (k : nat) : bytes -> bytes :=
  match k with 0 => fun s => s | _ => fold_hash k end.

(* ---- correspondence records (harness-written case files) ---- *)

Record tstep := mkstep { st_src : nat; st_lo : nat; st_hi : nat; st_hsize : nat; st_panic : bool; st_out : bytes }.

(* tc_bufs: the caller's buffers as (whole backing array, length); tc_final: every
   known slice read up to its capacity after the last call *)
Record tcase := mktcase { tc_info : info; tc_bufs : list (bytes * nat); tc_steps : list tstep; tc_final : list bytes }.

Fixpoint init_known (k : nat) (bufs : list (bytes * nat)) : list slice :=
  match bufs with
  | [] => []
  | (a, n) :: r => mkslice k 0 n (length a) :: init_known (S k) r
  end.

Fixpoint run_steps (i : info) (h : heap) (known : list slice) (steps : list tstep) : option (heap * list slice) :=
  match steps with
  | [] => Some (h, known)
  | s :: r =>
      match go_reslice (nth (st_src s) known nil_slice) (st_lo s) (st_hi s) with
      | None => None
      | Some d =>
          match append_hash_heap (fun _ => 0) (hfun (st_hsize s)) h d i with
          | TOk h' out =>
              if negb (st_panic s) && bytes_eqb (read h' out) (st_out s)
              then run_steps i h' (known ++ [out]) r else None
          | TPanic => if st_panic s then run_steps i h known r else None
          | TStuck => None
          end
      end
  end.

Fixpoint all2 {A} (f : A -> A -> bool) (a b : list A) : bool :=
  match a, b with
  | [], [] => true
  | x :: a', y :: b' => f x y && all2 f a' b'
  | _, _ => false
  end.

Definition tcase_ok (c : tcase) : bool :=
  match run_steps (tc_info c) (map fst (tc_bufs c)) (init_known 0 (tc_bufs c)) (tc_steps c) with
  | None => false
  | Some (h, known) => all2 bytes_eqb (map (read_cap h) known) (tc_final c)
  end.
