(* C20/TailProofs.v — the tail of Info.AppendHash over a heap of backing arrays:
   the result does not depend on the capacity of the destination, on what its
   spare capacity holds, on the growth policy of append, or on earlier calls. *)
From Coq Require Import ZifyBool ZifyNat.
From XV Require Import lib.Bytes gen.DiscoCaps C20.Model C20.Proofs C20.TailModel.

(* ================================================================== *)
(* 1. lists: sub, put, set_nth                                         *)
(* ================================================================== *)

Lemma nth_error_ext_eq {A} (l l' : list A) :
  (forall j, nth_error l j = nth_error l' j) -> l = l'.
Proof.
  revert l'; induction l as [|x l IH]; intros [|y l'] E.
  - reflexivity.
  - specialize (E 0). discriminate E.
  - specialize (E 0). discriminate E.
  - pose proof (E 0) as E0. cbn in E0. injection E0 as ->. f_equal.
    apply IH. intro j. exact (E (S j)).
Qed.

Lemma nth_error_skipn {A} (l : list A) p j : nth_error (skipn p l) j = nth_error l (p + j).
Proof.
  revert l; induction p as [|p IH]; intros l; [reflexivity|].
  destruct l as [|x l]; cbn [skipn plus nth_error]; [destruct j; reflexivity|apply IH].
Qed.

Lemma nth_error_firstn {A} (l : list A) n j :
  nth_error (firstn n l) j = if j <? n then nth_error l j else None.
Proof.
  revert l j; induction n as [|n IH]; intros l j.
  - cbn [firstn]. destruct j; reflexivity.
  - destruct l as [|x l]; cbn [firstn].
    + destruct j; cbn [nth_error]; destruct (_ <? _); reflexivity.
    + destruct j as [|j]; cbn [nth_error]; [reflexivity|].
      rewrite IH. change (S j <? S n) with (j <? n). reflexivity.
Qed.

Lemma nth_error_sub l p n j :
  nth_error (sub l p n) j = if j <? n then nth_error l (p + j) else None.
Proof. unfold sub. rewrite nth_error_firstn, nth_error_skipn. reflexivity. Qed.

Lemma sub_ext l l' p n :
  (forall j, j < n -> nth_error l (p + j) = nth_error l' (p + j)) -> sub l p n = sub l' p n.
Proof.
  intro E. apply nth_error_ext_eq. intro j. rewrite !nth_error_sub.
  destruct (j <? n) eqn:L; [apply E; lia|reflexivity].
Qed.

Lemma sub_length l p n : p + n <= length l -> length (sub l p n) = n.
Proof. intro L. unfold sub. rewrite firstn_length, skipn_length. lia. Qed.

Lemma sub_zero l p : sub l p 0 = [].
Proof. reflexivity. Qed.

Lemma skipn_add {A} (l : list A) p n : skipn (p + n) l = skipn n (skipn p l).
Proof.
  revert l; induction p as [|p IH]; intro l; [reflexivity|].
  destruct l as [|x l]; cbn [plus skipn]; [rewrite skipn_nil; reflexivity|apply IH].
Qed.

Lemma sub_app_split l p n m : sub l p (n + m) = sub l p n ++ sub l (p + n) m.
Proof.
  unfold sub. rewrite skipn_add.
  generalize (skipn p l) as r. intro r.
  revert r; induction n as [|n IH]; intro r; [reflexivity|].
  destruct r as [|x r]; cbn [plus firstn skipn app].
  - rewrite firstn_nil. reflexivity.
  - f_equal. apply IH.
Qed.

Lemma sub_all l : sub l 0 (length l) = l.
Proof. unfold sub. cbn [skipn]. apply firstn_all. Qed.

Lemma sub_app_left l r n : n = length l -> sub (l ++ r) 0 n = l.
Proof.
  intros ->. unfold sub. cbn [skipn]. rewrite firstn_app, Nat.sub_diag, firstn_all.
  cbn [firstn]. apply app_nil_r.
Qed.

Lemma nth_error_put l p bs q :
  p + length bs <= length l ->
  nth_error (put l p bs) q =
    if q <? p then nth_error l q
    else if q <? p + length bs then nth_error bs (q - p)
    else nth_error l q.
Proof.
  intro L. unfold put.
  destruct (q <? p) eqn:E1.
  - rewrite nth_error_app1 by (rewrite firstn_length; lia).
    rewrite nth_error_firstn. rewrite E1. reflexivity.
  - rewrite nth_error_app2 by (rewrite firstn_length; lia).
    rewrite firstn_length, Nat.min_l by lia.
    destruct (q <? p + length bs) eqn:E2.
    + rewrite nth_error_app1 by lia. reflexivity.
    + rewrite nth_error_app2 by lia. rewrite nth_error_skipn. f_equal. lia.
Qed.

Lemma put_length l p bs : p + length bs <= length l -> length (put l p bs) = length l.
Proof.
  intro L. unfold put. rewrite !app_length, firstn_length, skipn_length. lia.
Qed.

Lemma put_nil l p : put l p [] = l.
Proof. unfold put. cbn [length app]. rewrite Nat.add_0_r. apply firstn_skipn. Qed.

Lemma sub_put_same l p bs : p + length bs <= length l -> sub (put l p bs) p (length bs) = bs.
Proof.
  intro L. apply nth_error_ext_eq. intro j. rewrite nth_error_sub.
  destruct (j <? length bs) eqn:E.
  - rewrite nth_error_put by exact L.
    assert (E1 : (p + j <? p) = false) by lia. assert (E2 : (p + j <? p + length bs) = true) by lia.
    rewrite E1, E2. f_equal. lia.
  - symmetry. apply nth_error_None. lia.
Qed.

Lemma sub_put_out l p bs q n :
  p + length bs <= length l -> (q + n <= p \/ p + length bs <= q) -> sub (put l p bs) q n = sub l q n.
Proof.
  intros L O. apply sub_ext. intros j Hj. rewrite nth_error_put by exact L.
  destruct (q + j <? p) eqn:E1; [reflexivity|].
  destruct (q + j <? p + length bs) eqn:E2; [lia|reflexivity].
Qed.

Lemma put_put_adj l p x y :
  p + length x + length y <= length l -> put (put l p x) (p + length x) y = put l p (x ++ y).
Proof.
  intro L. apply nth_error_ext_eq. intro q.
  rewrite (nth_error_put (put l p x)) by (rewrite put_length; lia).
  rewrite (nth_error_put l p (x ++ y)) by (rewrite app_length; lia).
  rewrite (nth_error_put l p x) by lia. rewrite app_length.
  destruct (q <? p + length x) eqn:E1.
  - destruct (q <? p) eqn:E2; [reflexivity|].
    assert (E3 : (q <? p + (length x + length y)) = true) by lia. rewrite E3.
    rewrite nth_error_app1 by lia. reflexivity.
  - assert (E2 : (q <? p) = false) by lia. rewrite E2.
    destruct (q <? p + length x + length y) eqn:E3.
    + assert (E4 : (q <? p + (length x + length y)) = true) by lia. rewrite E4.
      rewrite nth_error_app2 by lia. f_equal. lia.
    + assert (E4 : (q <? p + (length x + length y)) = false) by lia. rewrite E4. reflexivity.
Qed.

Lemma set_nth_length {A} (l : list A) n x : length (set_nth l n x) = length l.
Proof.
  revert n; induction l as [|y l IH]; intros [|n]; cbn [set_nth length]; try reflexivity.
  rewrite IH. reflexivity.
Qed.

Lemma nth_set_nth_same {A} (l : list A) n x d : n < length l -> nth n (set_nth l n x) d = x.
Proof.
  revert n; induction l as [|y l IH]; intros [|n] L; cbn [set_nth nth length] in *; try lia; try reflexivity.
  apply IH. lia.
Qed.

Lemma nth_set_nth_other {A} (l : list A) n m x d : m <> n -> nth m (set_nth l n x) d = nth m l d.
Proof.
  revert n m; induction l as [|y l IH]; intros [|n] [|m] N; cbn [set_nth nth]; try reflexivity; try lia.
  apply IH. lia.
Qed.

Lemma set_nth_nth {A} (l : list A) n d : set_nth l n (nth n l d) = l.
Proof.
  revert n; induction l as [|y l IH]; intros [|n]; cbn [set_nth nth]; try reflexivity.
  rewrite IH. reflexivity.
Qed.

Lemma zeros_length n : length (zeros n) = n.
Proof. apply repeat_length. Qed.

(* ================================================================== *)
(* 2. the heap                                                         *)
(* ================================================================== *)

Lemma length_write h a p bs : length (write h a p bs) = length h.
Proof. apply set_nth_length. Qed.

Lemma arr_write_same h a p bs : a < length h -> arr (write h a p bs) a = put (arr h a) p bs.
Proof. intro L. unfold write, arr at 1. apply nth_set_nth_same. exact L. Qed.

Lemma arr_write_other h a p bs b : b <> a -> arr (write h a p bs) b = arr h b.
Proof. intro N. unfold write, arr. apply nth_set_nth_other. exact N. Qed.

Lemma write_nil h a p : write h a p [] = h.
Proof. unfold write. rewrite put_nil. apply set_nth_nth. Qed.

Lemma arr_app_old h x a : a < length h -> arr (h ++ [x]) a = arr h a.
Proof. intro L. unfold arr. apply app_nth1. exact L. Qed.

Lemma arr_app_new h x : arr (h ++ [x]) (length h) = x.
Proof. unfold arr. rewrite app_nth2 by lia. rewrite Nat.sub_diag. reflexivity. Qed.

(* a slice is a window on an array of the heap (a window without capacity needs no array) *)
Definition valid (h : heap) (s : slice) : Prop :=
  s_len s <= s_cap s /\
  (s_cap s = 0 \/ (s_arr s < length h /\ s_off s + s_cap s <= length (arr h (s_arr s)))).

(* the spare capacity of d: the cells between its length and its capacity *)
Definition in_spare (d : slice) (a p : nat) : Prop :=
  a = s_arr d /\ s_off d + s_len d <= p < s_off d + s_cap d.

(* h' is h with new arrays added and nothing changed outside the spare capacity of d *)
Definition frame (h h' : heap) (d : slice) : Prop :=
  length h <= length h' /\
  (forall a, a < length h -> length (arr h' a) = length (arr h a)) /\
  (forall a p, a < length h -> ~ in_spare d a p -> nth_error (arr h' a) p = nth_error (arr h a) p).

Lemma valid_nil h : valid h nil_slice.
Proof. split; cbn; [lia|left; reflexivity]. Qed.

Lemma read_length h s : valid h s -> length (read h s) = s_len s.
Proof.
  intros [L [Z|[A B]]]; unfold read.
  - assert (E : s_len s = 0) by lia. rewrite E. reflexivity.
  - apply sub_length. lia.
Qed.

Lemma valid_frame h h' d s : valid h s -> frame h h' d -> valid h' s.
Proof.
  intros [L V] [F1 [F2 F3]]. split; [exact L|].
  destruct V as [Z|[A B]]; [left; exact Z|right].
  split; [lia|]. rewrite F2 by exact A. exact B.
Qed.

(* a slice that does not reach into the spare capacity of d reads the same *)
Lemma read_frame h h' d s p n :
  frame h h' d -> s_arr s < length h ->
  (forall j, j < n -> ~ in_spare d (s_arr s) (p + j)) ->
  sub (arr h' (s_arr s)) p n = sub (arr h (s_arr s)) p n.
Proof.
  intros [F1 [F2 F3]] A O. apply sub_ext. intros j Hj. apply F3; [exact A|apply O; exact Hj].
Qed.

(* the visible contents of the destination itself are kept *)
Lemma read_dst_frame h h' d : valid h d -> frame h h' d -> read h' d = read h d.
Proof.
  intros [L V] F. unfold read. destruct V as [Z|[A B]].
  - assert (E : s_len d = 0) by lia. rewrite E. reflexivity.
  - apply (read_frame h h' d d); [exact F|exact A|]. intros j Hj [_ S]. lia.
Qed.

Lemma frame_refl h d : frame h h d.
Proof. split; [lia|]. split; intros; reflexivity. Qed.

Lemma valid_reslice h s lo hi s' : valid h s -> go_reslice s lo hi = Some s' -> valid h s'.
Proof.
  intros [L V] E. unfold go_reslice in E.
  destruct ((lo <=? hi) && (hi <=? s_cap s)) eqn:C; [|discriminate]. injection E as <-.
  split; cbn [s_len s_cap s_arr s_off]; [lia|].
  destruct V as [Z|[A B]]; [left; lia|right]. split; [exact A|lia].
Qed.

(* ================================================================== *)
(* 3. append, make                                                     *)
(* ================================================================== *)

Lemma go_append_spec slack h d bs : valid h d ->
  let '(h1, s1) := go_append slack h d bs in
  read h1 s1 = read h d ++ bs /\ valid h1 s1 /\ frame h h1 d /\ s_len s1 = s_len d + length bs.
Proof.
  intros Vd. pose proof Vd as [L V]. unfold go_append.
  destruct (s_len d + length bs <=? s_cap d) eqn:C.
  - (* in place *)
    destruct V as [Z|[A B]].
    + assert (E0 : s_len d = 0) by lia. assert (Eb : bs = []) by (destruct bs; [reflexivity|cbn in C; lia]).
      subst bs. rewrite write_nil. cbn [length]. rewrite Nat.add_0_r, app_nil_r.
      split; [destruct d; reflexivity|]. split; [destruct d; exact Vd|].
      split; [apply frame_refl|reflexivity].
    + assert (P : s_off d + s_len d + length bs <= length (arr h (s_arr d))) by lia.
      split; [|split; [|split]].
      * unfold read. cbn [s_arr s_off s_len]. rewrite arr_write_same by exact A.
        rewrite sub_app_split. f_equal.
        -- apply sub_put_out; [exact P|left; lia].
        -- apply sub_put_same. exact P.
      * split; cbn [s_arr s_off s_len s_cap]; [lia|right].
        rewrite length_write. split; [exact A|]. rewrite arr_write_same by exact A.
        rewrite put_length by exact P. exact B.
      * split; [rewrite length_write; lia|]. split.
        -- intros a La. destruct (Nat.eq_dec a (s_arr d)) as [->|N].
           ++ rewrite arr_write_same by exact A. apply put_length. exact P.
           ++ rewrite arr_write_other by exact N. reflexivity.
        -- intros a p La O. destruct (Nat.eq_dec a (s_arr d)) as [->|N].
           ++ rewrite arr_write_same by exact A. rewrite nth_error_put by exact P.
              destruct (p <? s_off d + s_len d) eqn:E1; [reflexivity|].
              destruct (p <? s_off d + s_len d + length bs) eqn:E2; [|reflexivity].
              exfalso. apply O. split; [reflexivity|lia].
           ++ rewrite arr_write_other by exact N. reflexivity.
      * reflexivity.
  - (* a fresh array *)
    pose proof (read_length h d Vd) as RL.
    split; [|split; [|split]].
    + unfold read at 1. cbn [s_arr s_off s_len]. rewrite arr_app_new.
      rewrite app_assoc. apply sub_app_left. rewrite app_length, RL. reflexivity.
    + split; cbn [s_arr s_off s_len s_cap]; [lia|right].
      rewrite app_length. cbn [length]. split; [lia|]. rewrite arr_app_new.
      rewrite !app_length, RL, zeros_length. lia.
    + split; [rewrite app_length; lia|]. split.
      * intros a La. rewrite arr_app_old by exact La. reflexivity.
      * intros a p La _. rewrite arr_app_old by exact La. reflexivity.
    + reflexivity.
Qed.

(* ================================================================== *)
(* 4. base64 into a buffer that is not the source                      *)
(* ================================================================== *)

Lemma b64enc_cons3 a b c r : b64enc (a :: b :: c :: r) = b64enc [a; b; c] ++ b64enc r.
Proof. cbn [b64enc app]. reflexivity. Qed.

Lemma b64enc_length s : length (b64enc s) = enclen (length s).
Proof.
  assert (G : forall n s, length s <= n -> length (b64enc s) = enclen (length s)).
  { induction n as [|n IH]; intros s0 L.
    - destruct s0; [reflexivity|cbn in L; lia].
    - destruct s0 as [|a [|b [|c r]]]; try reflexivity.
      rewrite b64enc_cons3, app_length. rewrite (IH r) by (cbn [length] in L; lia).
      cbn [length]. unfold enclen.
      replace (S (S (S (length r))) + 2) with (length r + 2 + 1 * 3) by lia.
      rewrite Nat.div_add by lia. change (length (b64enc [a; b; c])) with 4. lia. }
  apply (G (length s)). lia.
Qed.

Lemma enclen_groups n : enclen n = 4 * ((n + 2) / 3).
Proof. unfold enclen. lia. Qed.

Lemma sub3 l p : p + 3 <= length l -> exists a b c, sub l p 3 = [a; b; c].
Proof.
  intro L. pose proof (sub_length l p 3 L) as E.
  destruct (sub l p 3) as [|a [|b [|c [|x r]]]]; cbn in E; try lia.
  exists a, b, c. reflexivity.
Qed.

Lemma enc_groups_spec k : forall h sa sp sn da dp,
  da <> sa -> da < length h -> k = (sn + 2) / 3 ->
  (sn = 0 \/ sp + sn <= length (arr h sa)) -> dp + 4 * k <= length (arr h da) ->
  let h' := enc_groups k h sa sp sn da dp in
  length h' = length h /\
  arr h' da = put (arr h da) dp (b64enc (sub (arr h sa) sp sn)) /\
  (forall a, a <> da -> arr h' a = arr h a).
Proof.
  induction k as [|k IH]; intros h sa sp sn da dp N Lda Ek Ls Ld; cbn [enc_groups].
  - assert (E0 : sn = 0).
    { destruct sn; [reflexivity|]. exfalso.
      assert (1 <= (S sn + 2) / 3) by (apply Nat.div_le_lower_bound; lia). lia. }
    subst sn. rewrite sub_zero. cbn [b64enc]. rewrite put_nil. repeat split; reflexivity.
  - assert (Lsn : 1 <= sn).
    { destruct sn; [|lia]. cbn in Ek. discriminate Ek. }
    destruct Ls as [Ls|Ls]; [lia|].
    set (g := sub (arr h sa) sp (Nat.min 3 sn)).
    assert (Lg : length g = Nat.min 3 sn) by (apply sub_length; lia).
    assert (Lb : length (b64enc g) = 4).
    { rewrite b64enc_length, Lg. destruct sn as [|[|[|sn]]]; try lia; reflexivity. }
    set (h1 := write h da dp (b64enc g)).
    assert (A1 : arr h1 sa = arr h sa) by (apply arr_write_other; lia).
    assert (A2 : arr h1 da = put (arr h da) dp (b64enc g)) by (apply arr_write_same; exact Lda).
    assert (L1 : length h1 = length h) by apply length_write.
    assert (Ek' : k = (sn - 3 + 2) / 3).
    { destruct (le_lt_dec 3 sn) as [G|G].
      - replace (sn + 2) with (sn - 3 + 2 + 1 * 3) in Ek by lia. rewrite Nat.div_add in Ek by lia. lia.
      - replace (sn - 3) with 0 by lia. cbn.
        assert ((sn + 2) / 3 < 2) by (apply Nat.div_lt_upper_bound; lia). lia. }
    specialize (IH h1 sa (sp + 3) (sn - 3) da (dp + 4) N).
    rewrite L1, A1, A2 in IH.
    assert (P : dp + length (b64enc g) <= length (arr h da)) by lia.
    rewrite put_length in IH by exact P.
    specialize (IH Lda Ek').
    assert (Ls' : sn - 3 = 0 \/ sp + 3 + (sn - 3) <= length (arr h sa)) by lia.
    specialize (IH Ls'). assert (Ld' : dp + 4 + 4 * k <= length (arr h da)) by lia.
    specialize (IH Ld'). cbn zeta in IH. destruct IH as [I1 [I2 I3]].
    fold g. fold h1. split; [exact I1|]. split.
    + rewrite I2. replace (dp + 4) with (dp + length (b64enc g)) by lia.
      rewrite put_put_adj.
      2:{ rewrite (b64enc_length (sub _ (sp + 3) (sn - 3))).
          assert (Lr : length (sub (arr h sa) (sp + 3) (sn - 3)) = sn - 3).
          { destruct Ls' as [Z|Ls']; [rewrite Z; reflexivity|apply sub_length; exact Ls']. }
          rewrite Lr, enclen_groups, <- Ek'. lia. }
      f_equal.
      destruct (le_lt_dec 3 sn) as [G|G].
      * assert (Es : sub (arr h sa) sp sn = sub (arr h sa) sp 3 ++ sub (arr h sa) (sp + 3) (sn - 3)).
        { rewrite <- sub_app_split. f_equal. lia. }
        rewrite Es. unfold g. rewrite Nat.min_l by lia.
        destruct (sub3 (arr h sa) sp) as [a [b [c E3]]]; [lia|]. rewrite E3.
        cbn [app]. symmetry. apply b64enc_cons3.
      * unfold g. rewrite Nat.min_r by lia. replace (sn - 3) with 0 by lia.
        rewrite sub_zero. cbn [b64enc]. apply app_nil_r.
    + intros a Na. rewrite I3 by exact Na. apply arr_write_other. exact Na.
Qed.

(* ================================================================== *)
(* 5. the tail of AppendHash as read from the source                   *)
(* ================================================================== *)

(* dst = h.Sum(dst); out := make([]byte, EncodedLen(len(dst))); Encode(out, dst); return out *)
Definition tail_as_modelled : list t_stmt :=
  [TAssign 0 (TSum (TVar 0));
   TAssign 1 (TMake (TEncLen (TLen 0)) None);
   TEncode (TVar 1) (TVar 0);
   TReturn (TVar 1)]%N.

Lemma tbl_tail : caps_tail = tail_as_modelled.
Proof. vm_compute. reflexivity. Qed.

Lemma tbl_hash_dst : caps_hash_dst = TNil.
Proof. vm_compute. reflexivity. Qed.

Lemma run_tail_unfold slack dg h d :
  run_tail slack dg tail_as_modelled h d =
    let '(h1, s1) := go_append slack h d dg in
    let n := enclen (s_len s1) in
    let out := mkslice (length h1) 0 n n in
    match heap_encode (h1 ++ [zeros n]) out s1 with
    | Some h3 => TOk h3 out
    | None => TPanic
    end.
Proof.
  unfold run_tail, tail_as_modelled.
  cbn -[go_append heap_encode enclen zeros Nat.leb].
  destruct (go_append slack h d dg) as [h1 s1].
  change (Pos.to_nat 1) with 1.
  cbn -[go_append heap_encode enclen zeros Nat.leb].
  unfold go_make. rewrite Nat.leb_refl.
  change (Pos.to_nat 1) with 1.
  cbn -[go_append heap_encode enclen zeros Nat.leb].
  destruct (heap_encode _ _ s1); reflexivity.
Qed.

Lemma put_all l bs : length bs = length l -> put l 0 bs = bs.
Proof.
  intro E. unfold put. cbn [firstn app plus]. rewrite E, skipn_all. apply app_nil_r.
Qed.

(* Encode into the freshly made buffer: it is not the source *)
Lemma encode_fresh_spec h1 s1 : valid h1 s1 ->
  let n := enclen (s_len s1) in
  let out := mkslice (length h1) 0 n n in
  exists h3, heap_encode (h1 ++ [zeros n]) out s1 = Some h3 /\
    length h3 = S (length h1) /\
    arr h3 (length h1) = b64enc (read h1 s1) /\
    (forall a, a < length h1 -> arr h3 a = arr h1 a).
Proof.
  intros V n out. pose proof (read_length h1 s1 V) as RL. destruct V as [L V].
  unfold heap_encode. cbn [s_len s_arr s_off out]. fold n. rewrite Nat.ltb_irrefl.
  eexists. split; [reflexivity|].
  assert (Lh2 : length (h1 ++ [zeros n]) = S (length h1)) by (rewrite app_length; cbn [length]; lia).
  destruct (Nat.eq_dec (s_len s1) 0) as [Z|NZ].
  - rewrite Z. cbn [plus Nat.div Nat.divmod fst enc_groups].
    split; [exact Lh2|]. split.
    + rewrite arr_app_new. unfold n. rewrite Z. unfold read. rewrite Z. reflexivity.
    + intros a La. apply arr_app_old. exact La.
  - destruct V as [Z|[A B]]; [lia|].
    pose proof (enc_groups_spec ((s_len s1 + 2) / 3) (h1 ++ [zeros n]) (s_arr s1) (s_off s1) (s_len s1)
                  (length h1) 0) as Sp.
    rewrite Lh2, arr_app_new, (arr_app_old h1 _ (s_arr s1) A), zeros_length in Sp.
    assert (C1 : length h1 <> s_arr s1) by lia. assert (C2 : length h1 < S (length h1)) by lia.
    assert (C4 : s_len s1 = 0 \/ s_off s1 + s_len s1 <= length (arr h1 (s_arr s1))) by lia.
    assert (C5 : 0 + 4 * ((s_len s1 + 2) / 3) <= n) by (unfold n; rewrite enclen_groups; lia).
    specialize (Sp C1 C2 eq_refl C4 C5). cbn zeta in Sp. destruct Sp as [S1 [S2 S3]].
    split; [exact S1|]. split.
    + rewrite S2. apply put_all. rewrite b64enc_length, zeros_length.
      fold (read h1 s1). rewrite RL. reflexivity.
    + intros a La. rewrite S3 by lia. apply arr_app_old. exact La.
Qed.

(* AppendHash's tail on any heap, any destination of that heap, any digest:
   a fresh slice holding base64(contents of the destination ++ digest); nothing
   but the spare capacity of the destination has changed. *)
Lemma tail_spec slack dg h d : valid h d ->
  exists h' out, run_tail slack dg caps_tail h d = TOk h' out /\
    read h' out = b64enc (read h d ++ dg) /\
    valid h' out /\ frame h h' d /\ length h <= s_arr out /\ s_cap out = s_len out.
Proof.
  intro V. rewrite tbl_tail, run_tail_unfold.
  pose proof (go_append_spec slack h d dg V) as A.
  destruct (go_append slack h d dg) as [h1 s1]. destruct A as [R1 [V1 [F1 L1]]].
  cbn zeta. destruct (encode_fresh_spec h1 s1 V1) as [h3 [E [Lh3 [A3 O3]]]].
  cbn zeta in E. rewrite E. destruct F1 as [F1a [F1b F1c]].
  eexists. eexists. split; [reflexivity|]. split; [|split; [|split; [|split]]].
  - rewrite <- R1. unfold read at 1. cbn [s_arr s_off s_len]. rewrite A3.
    rewrite <- (read_length h1 s1 V1), <- b64enc_length. apply sub_all.
  - split; cbn [s_arr s_off s_len s_cap]; [lia|right]. split; [lia|].
    rewrite A3, b64enc_length, (read_length h1 s1 V1). lia.
  - split; [lia|]. split.
    + intros a La. rewrite O3 by lia. apply F1b. exact La.
    + intros a p La O. rewrite O3 by lia. apply F1c; assumption.
  - cbn [s_arr]. exact F1a.
  - reflexivity.
Qed.

(* ================================================================== *)
(* 6. AppendHash and Hash over the heap; histories                     *)
(* ================================================================== *)

Lemma append_hash_heap_spec slack (H : bytes -> bytes) h d i : valid h d ->
  exists h' out, append_hash_heap slack H h d i = TOk h' out /\
    read h' out = b64enc (read h d ++ H (ver_string i)) /\
    valid h' out /\ frame h h' d /\ length h <= s_arr out /\ s_cap out = s_len out.
Proof.
  intro V. unfold append_hash_heap.
  destruct (no_panic H [] i) as [E _]. rewrite E. apply tail_spec. exact V.
Qed.

(* the heap model and the model on contents (Model.v) agree, whatever the capacity *)
Lemma append_hash_heap_contents slack (H : bytes -> bytes) h d i : valid h d ->
  exists h' out, append_hash_heap slack H h d i = TOk h' out /\
    append_hash H (read h d) i = Ok (read h' out).
Proof.
  intro V. destruct (append_hash_heap_spec slack H h d i V) as [h' [out [E [R _]]]].
  exists h', out. split; [exact E|]. rewrite append_hash_ok, R. reflexivity.
Qed.

Lemma read_empty h d : s_len d = 0 -> read h d = [].
Proof. intro Z. unfold read. rewrite Z. reflexivity. Qed.

Lemma hash_heap_spec slack (H : bytes -> bytes) h i :
  hash_heap slack H h i = HOk (b64enc (H (ver_string i))).
Proof.
  unfold hash_heap. rewrite tbl_hash_dst. cbn [eval_slice].
  destruct (append_hash_heap_spec slack H h nil_slice i (valid_nil h)) as [h' [out [E [R _]]]].
  rewrite E, R. reflexivity.
Qed.

(* Hash and AppendHash with an empty destination of ANY capacity, holding
   anything in its spare capacity, on any heap *)
Lemma hash_appendhash_heap slack (H : bytes -> bytes) h d i : valid h d -> s_len d = 0 ->
  exists h' out, append_hash_heap slack H h d i = TOk h' out /\
    hash_heap slack H h i = HOk (read h' out) /\
    hash_string H i = Ok (read h' out) /\
    read h' out = b64enc (H (ver_string i)).
Proof.
  intros V Z. destruct (append_hash_heap_spec slack H h d i V) as [h' [out [E [R _]]]].
  rewrite (read_empty h d Z) in R. cbn [app] in R.
  exists h', out. split; [exact E|]. split; [rewrite hash_heap_spec, R; reflexivity|].
  split; [|exact R]. destruct (hash_appendhash H i) as [E1 E2]. rewrite E1, E2, R. reflexivity.
Qed.

(* a slice s reaches into the spare capacity of d *)
Definition overlaps_spare (s d : slice) : Prop :=
  s_arr s = s_arr d /\
  exists p, s_off s <= p < s_off s + s_len s /\ s_off d + s_len d <= p < s_off d + s_cap d.

(* every other slice the caller holds — earlier results included — reads the same
   after the call, unless the caller handed its cells over as spare capacity *)
Lemma call_keeps_other_slices slack (H : bytes -> bytes) h d i s h' out :
  valid h d -> valid h s -> ~ overlaps_spare s d ->
  append_hash_heap slack H h d i = TOk h' out -> read h' s = read h s.
Proof.
  intros Vd [Ls Vs] NO E.
  destruct (append_hash_heap_spec slack H h d i Vd) as [h2 [out2 [E2 [_ [_ [F _]]]]]].
  rewrite E in E2. injection E2 as <- <-.
  unfold read. destruct Vs as [Z|[A B]].
  - assert (E0 : s_len s = 0) by lia. rewrite E0. reflexivity.
  - apply (read_frame h h' d s); [exact F|exact A|].
    intros j Hj [Ea Sp]. apply NO. split; [exact Ea|]. exists (s_off s + j). lia.
Qed.

Definition call_ok (H : bytes -> bytes) (r : callres) : Prop :=
  match r with
  | CallOk dc i out => out = b64enc (dc ++ H (ver_string i))
  | _ => False
  end.

Lemma valid_nth h known n : Forall (valid h) known -> valid h (nth n known nil_slice).
Proof.
  intro F. destruct (le_lt_dec (length known) n) as [G|G].
  - rewrite nth_overflow by exact G. apply valid_nil.
  - rewrite Forall_forall in F. apply F. apply nth_In. exact G.
Qed.

(* any history of calls whose destinations are slices the caller holds at that
   time (its buffers and earlier results, resliced at will): every call returns,
   and returns base64(what its destination held ++ digest) *)
Lemma run_calls_spec slack (H : bytes -> bytes) cs : forall h known,
  Forall (valid h) known ->
  let '(rs, hf, kf) := run_calls slack H h known cs in
  Forall (call_ok H) rs /\ Forall (valid hf) kf.
Proof.
  induction cs as [|c r IH]; intros h known F; cbn [run_calls].
  - split; [constructor|exact F].
  - destruct (go_reslice (nth (k_src c) known nil_slice) (k_lo c) (k_hi c)) as [d|] eqn:Er.
    2:{ split; [constructor|exact F]. }
    assert (Vd : valid h d) by (eapply valid_reslice; [apply valid_nth; exact F|exact Er]).
    destruct (append_hash_heap_spec slack H h d (k_info c) Vd) as [h' [out [E [R [Vo [Fr _]]]]]].
    rewrite E.
    assert (F' : Forall (valid h') (known ++ [out])).
    { apply Forall_app. split; [|constructor; [exact Vo|constructor]].
      eapply Forall_impl; [|exact F]. intros s Vs. eapply valid_frame; eassumption. }
    specialize (IH h' (known ++ [out]) F').
    destruct (run_calls slack H h' (known ++ [out]) r) as [[l hf] kf]. destruct IH as [I1 I2].
    split; [|exact I2]. constructor; [|exact I1]. cbn [call_ok]. exact R.
Qed.

(* in particular every call with an empty destination returns what Hash returns *)
Lemma run_calls_empty_dst slack (H : bytes -> bytes) cs h known :
  Forall (valid h) known ->
  Forall (fun r => match r with
                   | CallOk dc i out => dc = [] -> hash_string H i = Ok out
                   | _ => False end)
         (fst (fst (run_calls slack H h known cs))).
Proof.
  intro F. pose proof (run_calls_spec slack H cs h known F) as S.
  destruct (run_calls slack H h known cs) as [[rs hf] kf]. destruct S as [S _]. cbn [fst].
  eapply Forall_impl; [|exact S]. intros [dc i out| |]; cbn [call_ok]; try tauto.
  intros -> ->. cbn [app]. destruct (hash_appendhash H i) as [E1 E2]. rewrite E1, E2. reflexivity.
Qed.

Lemma run_calls_spec' slack (H : bytes -> bytes) cs h known :
  Forall (valid h) known ->
  let '(rs, hf, kf) := run_calls slack H h known cs in
  Forall (call_ok H) rs /\ Forall (valid hf) kf.
Proof. apply run_calls_spec. Qed.

Lemma tail_tables : caps_tail = tail_as_modelled /\ caps_hash_dst = TNil.
Proof. exact (conj tbl_tail tbl_hash_dst). Qed.
