(* Neg/Proofs.v — lemmas about the shared negotiation model that do not depend
   on a particular property: bit masks, the cache, feature lookup, and the fact
   that [run] never runs out of fuel. *)
From Coq Require Import ZifyBool ZifyNat ZifyN.
From XV Require Import lib.Bytes gen.NegTables Neg.Model.

(* ------------------------------------------------------------------ bytes, masks *)

Lemma bytes_eqb_refl a : bytes_eqb a a = true.
Proof. apply bytes_eqb_eq. reflexivity. Qed.

Lemma bytes_eqb_sym a b : bytes_eqb a b = bytes_eqb b a.
Proof.
  destruct (bytes_eqb a b) eqn:E; destruct (bytes_eqb b a) eqn:F; try reflexivity.
  - apply bytes_eqb_eq in E. subst. rewrite bytes_eqb_refl in F. discriminate.
  - apply bytes_eqb_eq in F. subst. rewrite bytes_eqb_refl in E. discriminate.
Qed.

Lemma has_refl x : has x x = true.
Proof. unfold has. rewrite N.land_diag. apply N.eqb_refl. Qed.

Lemma has_true st m : has st m = true <-> N.land st m = m.
Proof. unfold has. apply N.eqb_eq. Qed.

Lemma has_lor_l st a m : has st m = true -> has (N.lor st a) m = true.
Proof.
  rewrite !has_true. intro Hm. apply N.bits_inj. intro i.
  rewrite N.land_spec, N.lor_spec.
  assert (Hi : N.testbit (N.land st m) i = N.testbit m i) by (rewrite Hm; reflexivity).
  rewrite N.land_spec in Hi.
  destruct (N.testbit st i), (N.testbit a i), (N.testbit m i); simpl in *; congruence.
Qed.

Lemma has_lor_r st a : has (N.lor st a) a = true.
Proof.
  rewrite has_true. apply N.bits_inj. intro i. rewrite N.land_spec, N.lor_spec.
  destruct (N.testbit st i), (N.testbit a i); reflexivity.
Qed.

Lemma has_lor_self st : has (N.lor st st) st = true.
Proof. apply has_lor_r. Qed.

Lemma has_trans a b c : has a b = true -> has b c = true -> has a c = true.
Proof.
  rewrite !has_true. intros Hab Hbc. apply N.bits_inj. intro i.
  assert (H1 : N.testbit (N.land a b) i = N.testbit b i) by (rewrite Hab; reflexivity).
  assert (H2 : N.testbit (N.land b c) i = N.testbit c i) by (rewrite Hbc; reflexivity).
  rewrite N.land_spec in *.
  destruct (N.testbit a i), (N.testbit b i), (N.testbit c i); simpl in *; congruence.
Qed.

Lemma lor_absorb st m : has st m = true -> N.lor st m = st.
Proof.
  rewrite has_true. intro Hm. apply N.bits_inj. intro i. rewrite N.lor_spec.
  assert (Hi : N.testbit (N.land st m) i = N.testbit m i) by (rewrite Hm; reflexivity).
  rewrite N.land_spec in Hi.
  destruct (N.testbit st i), (N.testbit m i); simpl in *; congruence.
Qed.

Lemma has_lor_split st a b : has st (N.lor a b) = true <-> has st a = true /\ has st b = true.
Proof.
  rewrite !has_true. split.
  - intro Hab. split; apply N.bits_inj; intro i;
      assert (Hi : N.testbit (N.land st (N.lor a b)) i = N.testbit (N.lor a b) i) by (rewrite Hab; reflexivity);
      rewrite N.land_spec, N.lor_spec in Hi; rewrite N.land_spec;
      destruct (N.testbit st i), (N.testbit a i), (N.testbit b i); simpl in *; congruence.
  - intros [Ha Hb]. apply N.bits_inj. intro i.
    assert (H1 : N.testbit (N.land st a) i = N.testbit a i) by (rewrite Ha; reflexivity).
    assert (H2 : N.testbit (N.land st b) i = N.testbit b i) by (rewrite Hb; reflexivity).
    rewrite N.land_spec in *. rewrite N.lor_spec.
    destruct (N.testbit st i), (N.testbit a i), (N.testbit b i); simpl in *; congruence.
Qed.

(* Ready is a single bit *)
Lemma st_Ready_pow : st_Ready = (2 ^ 2)%N. Proof. reflexivity. Qed.

Lemma has_ready_testbit x : has x st_Ready = N.testbit x 2.
Proof.
  destruct (N.testbit x 2) eqn:E.
  - apply has_true. apply N.bits_inj. intro i. rewrite N.land_spec, st_Ready_pow, N.pow2_bits_eqb.
    destruct (N.eqb 2 i) eqn:F; [apply N.eqb_eq in F; subst; rewrite E; reflexivity | apply andb_false_r].
  - destruct (has x st_Ready) eqn:Hh; [|reflexivity].
    apply has_true in Hh.
    assert (X : N.testbit (N.land x st_Ready) 2 = N.testbit st_Ready 2) by (rewrite Hh; reflexivity).
    rewrite N.land_spec, E in X. rewrite andb_false_l in X.
    change (N.testbit st_Ready 2) with true in X. discriminate.
Qed.

Lemma has_ready_lor a b : has (N.lor a b) st_Ready = has a st_Ready || has b st_Ready.
Proof. rewrite !has_ready_testbit. apply N.lor_spec. Qed.

(* ------------------------------------------------------------------ lookup *)

Lemma name_eqb_eq a b : name_eqb a b = true <-> a = b.
Proof.
  unfold name_eqb. destruct a as [a1 a2], b as [b1 b2]. simpl. rewrite andb_true_iff, !bytes_eqb_eq.
  split; [intros [-> ->]; reflexivity | intro E; inversion E; auto].
Qed.

Lemma get_feature_spec n fs f : get_feature n fs = Some f -> In f fs /\ fname f = n.
Proof.
  induction fs as [|g r IH]; simpl; [discriminate|].
  destruct (name_eqb (fname g) n) eqn:E.
  - intro X. inversion X; subst. apply name_eqb_eq in E. auto.
  - intro X. destruct (IH X). auto.
Qed.

Lemma find_space_spec s fs f : find_space s fs = Some f -> In f fs /\ f_space f = s.
Proof.
  induction fs as [|g r IH]; simpl; [discriminate|].
  destruct (bytes_eqb (f_space g) s) eqn:E.
  - intro X. inversion X; subst. apply bytes_eqb_eq in E. auto.
  - intro X. destruct (IH X). auto.
Qed.

Lemma mem_In s l : mem s l = true <-> In s l.
Proof.
  induction l as [|x r IH]; simpl; [split; [discriminate|tauto]|].
  rewrite orb_true_iff, IH, bytes_eqb_eq. tauto.
Qed.

(* ------------------------------------------------------------------ the cache *)

Lemma In_cache_remove e s c : In e (cache_remove s c) -> In e c.
Proof.
  induction c as [|x r IH]; simpl; [tauto|].
  destruct (bytes_eqb (ckey x) s); simpl; tauto.
Qed.

Lemma In_cache_put e e' c : In e (cache_put e' c) -> e = e' \/ In e c.
Proof.
  unfold cache_put. rewrite in_app_iff. simpl. intros [X|[X|[]]]; [right; eapply In_cache_remove; eauto | left; auto].
Qed.

Lemma cache_get_In s c e : cache_get s c = Some e -> In e c /\ ckey e = s.
Proof.
  induction c as [|x r IH]; simpl; [discriminate|].
  destruct (bytes_eqb (ckey x) s) eqn:E.
  - intro X. inversion X; subst. apply bytes_eqb_eq in E. auto.
  - intro X. destruct (IH X). auto.
Qed.

Lemma In_cache_get e c : In e c -> cache_get (ckey e) c <> None.
Proof.
  induction c as [|x r IH]; simpl; [tauto|].
  intros [->|X].
  - rewrite bytes_eqb_refl. discriminate.
  - destruct (bytes_eqb (ckey x) (ckey e)); [discriminate | auto].
Qed.

Lemma cache_get_filter p s c e : cache_get s (filter p c) = Some e -> In e c /\ p e = true /\ ckey e = s.
Proof.
  intro X. apply cache_get_In in X. destruct X as [X1 X2]. apply filter_In in X1. tauto.
Qed.

Lemma In_cache_step e st f req ca : In e (cache_step st f req ca) -> e = (req, f) \/ In e ca.
Proof. unfold cache_step. apply In_cache_put. Qed.

(* keys of a cache are unique: it is a map *)
Definition ukeys (c : cache) : Prop := NoDup (map ckey c).

Lemma keys_cache_remove s c k : In k (map ckey (cache_remove s c)) -> In k (map ckey c) /\ k <> s.
Proof.
  induction c as [|x r IH]; simpl; [tauto|].
  destruct (bytes_eqb (ckey x) s) eqn:E; simpl.
  - intro X. destruct (IH X). auto.
  - intros [X|X].
    + subst. split; [auto|]. intro Y. subst. rewrite bytes_eqb_refl in E. discriminate.
    + destruct (IH X). auto.
Qed.

Lemma ukeys_remove s c : ukeys c -> ukeys (cache_remove s c).
Proof.
  unfold ukeys. induction c as [|x r IH]; simpl; [auto|].
  intro N. inversion N as [|? ? N1 N2]; subst.
  destruct (bytes_eqb (ckey x) s); simpl; [auto|].
  constructor; [|auto]. intro X. apply keys_cache_remove in X. tauto.
Qed.


Lemma NoDup_snoc {A} (l : list A) (a : A) : NoDup l -> ~ In a l -> NoDup (l ++ [a]).
Proof.
  induction l as [|x r IH]; simpl; intros N X.
  - constructor; [tauto | constructor].
  - inversion N; subst. constructor.
    + rewrite in_app_iff. simpl. intros [Y|[Y|[]]]; [tauto | subst; tauto].
    + apply IH; tauto.
Qed.

Lemma ukeys_put e c : ukeys c -> ukeys (cache_put e c).
Proof.
  intro U. unfold ukeys, cache_put. rewrite map_app. simpl.
  apply NoDup_snoc; [apply ukeys_remove; exact U|].
  intro X. apply keys_cache_remove in X. tauto.
Qed.

Lemma ukeys_step st f req ca : ukeys ca -> ukeys (cache_step st f req ca).
Proof. unfold cache_step. apply ukeys_put. Qed.

Lemma ukeys_unique c e1 e2 : ukeys c -> In e1 c -> In e2 c -> ckey e1 = ckey e2 -> e1 = e2.
Proof.
  unfold ukeys. induction c as [|x r IH]; simpl; [tauto|].
  intro N. inversion N as [|? ? N1 N2]; subst.
  intros [A|A] [B|B] K; subst; auto.
  - exfalso. apply N1. rewrite K. apply in_map. exact B.
  - exfalso. apply N1. rewrite <- K. apply in_map. exact A.
Qed.

Lemma ukeys_nil : ukeys []. Proof. constructor. Qed.

(* ------------------------------------------------------------------ traces *)

Lemma m_tr_emit e m : m_tr (emit e m) = e :: m_tr m.
Proof. reflexivity. Qed.

(* ------------------------------------------------------------------ the fuel of [run] is enough *)

Definition ilen (m : mstate) : nat := length (m_in m) + length (m_tlsin m).

Lemma read_ilen rp m m' r :
  read rp m = (m', r) -> match r with Some _ => S (ilen m') = ilen m | None => ilen m' = ilen m end.
Proof.
  unfold read. destruct (m_in m) as [|it rest] eqn:E; intro X; inversion X; subst; clear X; unfold ilen; simpl.
  - rewrite E. reflexivity.
  - rewrite E. reflexivity.
Qed.

Lemma expect_header_ilen m m' r :
  expect_header m = (m', r) -> match r with Good _ => ilen m' < ilen m | _ => ilen m' <= ilen m end.
Proof.
  unfold expect_header. destruct (read RPHeader m) as [m1 o] eqn:E. pose proof (read_ilen _ _ _ _ E) as L.
  intro X. inversion X; subst; clear X.
  destruct o as [it|]; simpl in L.
  - destruct (is_good_header (Some it)); lia.
  - simpl. lia.
Qed.

Lemma send_header_ilen c m m' r : send_header c m = (m', r) -> ilen m' = ilen m.
Proof.
  unfold send_header. destruct (m_tls m && m_hs m); [destruct (c_hs_ok c)|]; intro X; inversion X; reflexivity.
Qed.

Lemma switch_ilen m : ilen (switch_layer m) <= ilen m.
Proof. unfold ilen. simpl. lia. Qed.

Lemma starttls_negotiate_ilen c m m' o : starttls_negotiate c m = (m', o) -> ilen m' <= ilen m.
Proof.
  unfold starttls_negotiate. destruct (server m).
  - intro X. inversion X; subst. unfold ilen. simpl. lia.
  - destruct (read RPReply _) as [m2 r] eqn:E. pose proof (read_ilen _ _ _ _ E) as L.
    assert (L' : ilen m2 <= ilen m) by (destruct r; unfold ilen in *; simpl in *; lia).
    destruct (is_proceed r); intro X; inversion X; subst; [|exact L'].
    pose proof (switch_ilen m2). unfold ilen in *. simpl in *. lia.
Qed.

Lemma negotiate_one_ilen c m f m' o : negotiate_one c m f = (m', o) -> ilen m' <= ilen m.
Proof.
  unfold negotiate_one. destruct (f_kind f).
  - intro X. inversion X; subst. unfold ilen. simpl. lia.
  - destruct (starttls_negotiate c m) as [m1 o1] eqn:E. apply starttls_negotiate_ilen in E.
    intro X. inversion X; subst. unfold ilen in *. simpl. lia.
Qed.

Lemma after_pick_ilen c m req f m' r : after_pick c m req f = (m', r) -> ilen m' <= ilen m.
Proof.
  unfold after_pick. destruct (negotiate_one c m f) as [m1 o] eqn:E. apply negotiate_one_ilen in E.
  destruct (o_err o); [|destruct (o_restart o || req)]; intro X; inversion X; subst;
    unfold ilen in *; simpl; lia.
Qed.

Lemma select_ilen m m' r : select m = (m', r) -> ilen m' = ilen m.
Proof.
  unfold select. destruct (candidates m); [intro X; inversion X; reflexivity|].
  destruct (m_choices m); [intro X; inversion X; reflexivity|].
  destruct (cache_get _ _) as [e|]; [destruct (_ && _)|]; intro X; inversion X; reflexivity.
Qed.

Lemma init_loop_ilen c fuel : forall m fo m' r, init_loop fuel c m fo = (m', r) -> ilen m' <= ilen m.
Proof.
  induction fuel as [|k IH]; intros m fo m' r E; simpl in E; [inversion E; lia|].
  destruct fo as [f|].
  - destruct (m_choices m) as [|ch rest]; [inversion E; lia|].
    destruct (negb _); [inversion E; subst; unfold ilen; simpl; lia|].
    destruct (after_pick c (set_choices rest m) true f) as [m1 r1] eqn:Ea. apply after_pick_ilen in Ea.
    assert (ilen m1 <= ilen m) by (unfold ilen in *; simpl in *; lia).
    destruct r1 as [[x|]|e|]; inversion E; subst; lia.
  - destruct (select m) as [m1 rs] eqn:Es. apply select_ilen in Es.
    destruct rs as [[[req f]|]|e|]; try (inversion E; subst; lia).
    destruct (after_pick c m1 req f) as [m2 r2] eqn:Ea. apply after_pick_ilen in Ea.
    destruct r2 as [[x|]|e|]; try (inversion E; subst; lia).
    apply IH in E. lia.
Qed.

Lemma recv_loop_ilen c fuel : forall m m' r,
  recv_loop fuel c m = (m', r) -> match r with Good _ => ilen m' < ilen m | _ => ilen m' <= ilen m end.
Proof.
  induction fuel as [|k IH]; intros m m' r E; simpl in E; [inversion E; lia|].
  destruct (read RPSelect m) as [m1 o] eqn:Er. pose proof (read_ilen _ _ _ _ Er) as L.
  destruct o as [it|]; [|inversion E; subst; lia].
  destruct (selection_space c it); [|inversion E; subst; lia].
  destruct (acceptable m1 b) as [[req f]|]; [|inversion E; subst; lia].
  destruct (after_pick c m1 req f) as [m2 r2] eqn:Ea. apply after_pick_ilen in Ea.
  destruct r2 as [[x|]|e|]; try (inversion E; subst; lia).
  apply IH in E. destruct r; lia.
Qed.

Lemma read_children_ilen fs st : forall cs m ca tot lr al m' r,
  read_children fs st cs m ca tot lr al = (m', r) -> ilen m' = ilen m.
Proof.
  induction cs as [|ch rest IH]; intros m ca tot lr al m' r E; simpl in E; [inversion E; reflexivity|].
  destruct ch as [sp lo req perr|]; [|inversion E; reflexivity].
  destruct (get_feature (sp, lo) fs).
  - destruct perr; [inversion E; reflexivity|]. apply IH in E. exact E.
  - apply IH in E. exact E.
Qed.

Lemma list_loop_ilen st : forall l m ca lr tot names m' ca' lr' tot' names' err,
  list_loop l st m ca lr tot names = (m', ca', lr', tot', names', err) -> ilen m' = ilen m.
Proof.
  induction l as [|f rest IH]; intros m ca lr tot names m' ca' lr' tot' names' err E; simpl in E; [inversion E; reflexivity|].
  destruct (eligible f st).
  - destruct (f_lerr f); [inversion E; reflexivity|]. apply IH in E. exact E.
  - apply IH in E. exact E.
Qed.

Lemma write_features_ilen c m m' r : write_features c m = (m', r) -> ilen m' = ilen m.
Proof.
  unfold write_features. destruct (list_loop _ _ _ _ _ _ _) as [[[[[m1 ca] lr] tot] names] err] eqn:E.
  apply list_loop_ilen in E. intro X. inversion X; subst. exact E.
Qed.

Lemma after_read_ilen c m first al m' r : after_read c m first al = (m', r) -> ilen m' <= ilen m.
Proof.
  unfold after_read.
  assert (Tail : forall m' r,
     match m_total m, al with
     | O, _ => (m, Good (st_Ready, false))
     | _, O => (m, Bad EOther)
     | _, _ => init_loop (S (length (m_cache m))) c m None
     end = (m', r) -> ilen m' <= ilen m).
  { clear m' r. intros m' r E. destruct (m_total m); [inversion E; lia|].
    destruct al; [inversion E; lia|]. apply init_loop_ilen in E. exact E. }
  destruct (if first && _ && _ then find_space ns_StartTLS (c_feats c) else None) as [f|]; [|apply Tail].
  destruct (f_neg f && eligible f (m_bits m)); [|apply Tail]. apply init_loop_ilen.
Qed.

Lemma negotiate_features_ilen c m first m' r :
  negotiate_features c m first = (m', r) ->
  match r with Good _ => ilen m' < ilen m | _ => ilen m' <= ilen m end.
Proof.
  unfold negotiate_features. change (ilen m) with (ilen (set_rdy false m)).
  generalize (set_rdy false m). clear m. intro m. cbv zeta. destruct (server m).
  - destruct (write_features c m) as [m1 r1] eqn:Ew. apply write_features_ilen in Ew.
    destruct r1 as [u|e|]; try (intro X; inversion X; subst; lia).
    intro X. apply recv_loop_ilen in X. destruct r; lia.
  - destruct (read RPFeatures m) as [m1 o] eqn:Er. pose proof (read_ilen _ _ _ _ Er) as L.
    destruct (features_of o) as [cs|] eqn:Ef.
    + assert (L' : S (ilen m1) = ilen m) by (destruct o; [exact L | discriminate]).
      destruct (read_children _ _ _ _ _ _ _ _) as [m2 r2] eqn:Ec. apply read_children_ilen in Ec.
      destruct r2 as [[[[ca tot] lr] al]|e|]; try (intro X; inversion X; subst; lia).
      intro X. apply after_read_ilen in X. unfold ilen in *. simpl in *. destruct r; lia.
    + intro X. inversion X; subst. destruct o; lia.
Qed.

Lemma negotiator_body_ilen c m ns m' r :
  negotiator_body c m ns = (m', r) ->
  match r with Good _ => ilen m' < ilen m | _ => ilen m' <= ilen m end.
Proof.
  unfold negotiator_body.
  destruct (if ns_restart ns then _ else _) as [m1 r1] eqn:E1.
  assert (L1 : ilen m1 <= ilen m).
  { destruct (ns_restart ns); [|inversion E1; lia].
    destruct (server m).
    - destruct (expect_header m) as [ma ra] eqn:Ee. apply expect_header_ilen in Ee.
      destruct ra; [apply send_header_ilen in E1|inversion E1; subst|inversion E1; subst]; lia.
    - destruct (send_header c m) as [ma ra] eqn:Es. apply send_header_ilen in Es.
      destruct ra; [apply expect_header_ilen in E1; destruct r1|inversion E1; subst|inversion E1; subst]; lia. }
  destruct r1 as [u|e|]; try (intro X; inversion X; subst; lia).
  destruct (negotiate_features c m1 (ns_first ns)) as [m2 r2] eqn:En. apply negotiate_features_ilen in En.
  destruct r2 as [[mask restart]|e|]; intro X; inversion X; subst; lia.
Qed.

Definition cost (c : config) (m : mstate) (istee : bool) : nat :=
  2 * ilen m + (if c_tee c && negb istee then 1 else 0) + 1.

Lemma session_loop_fuel c fuel : forall m ns istee,
  cost c m istee <= fuel -> r_class (session_loop fuel c m ns istee) <> RFuel.
Proof.
  induction fuel as [|k IH]; intros m ns istee Hc; simpl.
  - unfold cost in Hc. lia.
  - destruct (has (m_bits m) st_Ready); [simpl; discriminate|].
    destruct (c_tee c && negb istee) eqn:Et.
    + apply IH. unfold cost in *. rewrite Et in Hc. rewrite andb_false_r. unfold ilen in *. simpl. lia.
    + destruct (negotiator_body c m ns) as [m1 rb] eqn:Eb. apply negotiator_body_ilen in Eb.
      destruct rb as [[[mask restart] ns1]|e|]; [|simpl; discriminate|simpl; discriminate].
      apply IH. unfold cost in *. rewrite Et in Hc.
      assert (X : ilen (set_bits (N.lor (m_bits (if restart then set_negd [] m1 else m1)) mask)
                         (if restart then set_negd [] m1 else m1)) = ilen m1) by (destruct restart; reflexivity).
      rewrite X. destruct (c_tee c && negb (if restart then false else istee)); lia.
Qed.

(* [run] never reports RFuel: its fuel covers every iteration of negotiateSession's loop *)
Lemma run_no_fuel c bits clear tls outs choices :
  r_class (run c bits clear tls outs choices) <> RFuel.
Proof.
  unfold run. apply session_loop_fuel. unfold cost, fuel_for, ilen. simpl.
  destruct (c_tee c); simpl; lia.
Qed.
