(* Neg/Proofs.v — lemmas about the shared negotiation model that do not depend
   on a particular property: bit masks, the cache, feature lookup, and the fact
   that [run] never runs out of fuel. *)
From Coq Require Import ZifyBool ZifyNat ZifyN.
From XV Require Import lib.Bytes gen.NegTables Neg.Model.

(* ------------------------------------------------------------------ bytes, masks *)

Lemma bytes_eqb_refl a : bytes_eqb a a = true.
Proof. apply bytes_eqb_eq. reflexivity. Qed.

Lemma bytes_eqb_sym a b : bytes_eqb a b = bytes_eqb b a.
Proof.
  destruct (bytes_eqb a b) eqn:E; destruct (bytes_eqb b a) eqn:F; try reflexivity.
  - apply bytes_eqb_eq in E. subst. rewrite bytes_eqb_refl in F. discriminate.
  - apply bytes_eqb_eq in F. subst. rewrite bytes_eqb_refl in E. discriminate.
Qed.

Lemma has_refl x : has x x = true.
Proof. unfold has. rewrite N.land_diag. apply N.eqb_refl. Qed.

Lemma has_true st m : has st m = true <-> N.land st m = m.
Proof. unfold has. apply N.eqb_eq. Qed.

Lemma has_lor_l st a m : has st m = true -> has (N.lor st a) m = true.
Proof.
  rewrite !has_true. intro Hm. apply N.bits_inj. intro i.
  rewrite N.land_spec, N.lor_spec.
  assert (Hi : N.testbit (N.land st m) i = N.testbit m i) by (rewrite Hm; reflexivity).
  rewrite N.land_spec in Hi.
  destruct (N.testbit st i), (N.testbit a i), (N.testbit m i); simpl in *; congruence.
Qed.

Lemma has_lor_r st a : has (N.lor st a) a = true.
Proof.
  rewrite has_true. apply N.bits_inj. intro i. rewrite N.land_spec, N.lor_spec.
  destruct (N.testbit st i), (N.testbit a i); reflexivity.
Qed.

Lemma has_lor_self st : has (N.lor st st) st = true.
Proof. apply has_lor_r. Qed.

Lemma has_trans a b c : has a b = true -> has b c = true -> has a c = true.
Proof.
  rewrite !has_true. intros Hab Hbc. apply N.bits_inj. intro i.
  assert (H1 : N.testbit (N.land a b) i = N.testbit b i) by (rewrite Hab; reflexivity).
  assert (H2 : N.testbit (N.land b c) i = N.testbit c i) by (rewrite Hbc; reflexivity).
  rewrite N.land_spec in *.
  destruct (N.testbit a i), (N.testbit b i), (N.testbit c i); simpl in *; congruence.
Qed.

Lemma lor_absorb st m : has st m = true -> N.lor st m = st.
Proof.
  rewrite has_true. intro Hm. apply N.bits_inj. intro i. rewrite N.lor_spec.
  assert (Hi : N.testbit (N.land st m) i = N.testbit m i) by (rewrite Hm; reflexivity).
  rewrite N.land_spec in Hi.
  destruct (N.testbit st i), (N.testbit m i); simpl in *; congruence.
Qed.

Lemma has_lor_split st a b : has st (N.lor a b) = true <-> has st a = true /\ has st b = true.
Proof.
  rewrite !has_true. split.
  - intro Hab. split; apply N.bits_inj; intro i;
      assert (Hi : N.testbit (N.land st (N.lor a b)) i = N.testbit (N.lor a b) i) by (rewrite Hab; reflexivity);
      rewrite N.land_spec, N.lor_spec in Hi; rewrite N.land_spec;
      destruct (N.testbit st i), (N.testbit a i), (N.testbit b i); simpl in *; congruence.
  - intros [Ha Hb]. apply N.bits_inj. intro i.
    assert (H1 : N.testbit (N.land st a) i = N.testbit a i) by (rewrite Ha; reflexivity).
    assert (H2 : N.testbit (N.land st b) i = N.testbit b i) by (rewrite Hb; reflexivity).
    rewrite N.land_spec in *. rewrite N.lor_spec.
    destruct (N.testbit st i), (N.testbit a i), (N.testbit b i); simpl in *; congruence.
Qed.

(* Ready is a single bit *)
Lemma st_Ready_pow : st_Ready = (2 ^ 2)%N. Proof. reflexivity. Qed.

Lemma has_ready_testbit x : has x st_Ready = N.testbit x 2.
Proof.
  destruct (N.testbit x 2) eqn:E.
  - apply has_true. apply N.bits_inj. intro i. rewrite N.land_spec, st_Ready_pow, N.pow2_bits_eqb.
    destruct (N.eqb 2 i) eqn:F; [apply N.eqb_eq in F; subst; rewrite E; reflexivity | apply andb_false_r].
  - destruct (has x st_Ready) eqn:Hh; [|reflexivity].
    apply has_true in Hh.
    assert (X : N.testbit (N.land x st_Ready) 2 = N.testbit st_Ready 2) by (rewrite Hh; reflexivity).
    rewrite N.land_spec, E in X. rewrite andb_false_l in X.
    change (N.testbit st_Ready 2) with true in X. discriminate.
Qed.

Lemma has_ready_lor a b : has (N.lor a b) st_Ready = has a st_Ready || has b st_Ready.
Proof. rewrite !has_ready_testbit. apply N.lor_spec. Qed.

(* ------------------------------------------------------------------ lookup *)

Lemma name_eqb_eq a b : name_eqb a b = true <-> a = b.
Proof.
  unfold name_eqb. destruct a as [a1 a2], b as [b1 b2]. simpl. rewrite andb_true_iff, !bytes_eqb_eq.
  split; [intros [-> ->]; reflexivity | intro E; inversion E; auto].
Qed.

Lemma get_feature_spec n fs f : get_feature n fs = Some f -> In f fs /\ fname f = n.
Proof.
  induction fs as [|g r IH]; simpl; [discriminate|].
  destruct (name_eqb (fname g) n) eqn:E.
  - intro X. inversion X; subst. apply name_eqb_eq in E. auto.
  - intro X. destruct (IH X). auto.
Qed.

Lemma find_space_spec s fs f : find_space s fs = Some f -> In f fs /\ f_space f = s.
Proof.
  induction fs as [|g r IH]; simpl; [discriminate|].
  destruct (bytes_eqb (f_space g) s) eqn:E.
  - intro X. inversion X; subst. apply bytes_eqb_eq in E. auto.
  - intro X. destruct (IH X). auto.
Qed.

Lemma mem_In s l : mem s l = true <-> In s l.
Proof.
  induction l as [|x r IH]; simpl; [split; [discriminate|tauto]|].
  rewrite orb_true_iff, IH, bytes_eqb_eq. tauto.
Qed.

(* ------------------------------------------------------------------ the cache *)

Lemma In_cache_remove e s c : In e (cache_remove s c) -> In e c.
Proof.
  induction c as [|x r IH]; simpl; [tauto|].
  destruct (bytes_eqb (ckey x) s); simpl; tauto.
Qed.

Lemma In_cache_put e e' c : In e (cache_put e' c) -> e = e' \/ In e c.
Proof.
  unfold cache_put. rewrite in_app_iff. simpl. intros [X|[X|[]]]; [right; eapply In_cache_remove; eauto | left; auto].
Qed.

Lemma cache_get_In s c e : cache_get s c = Some e -> In e c /\ ckey e = s.
Proof.
  induction c as [|x r IH]; simpl; [discriminate|].
  destruct (bytes_eqb (ckey x) s) eqn:E.
  - intro X. inversion X; subst. apply bytes_eqb_eq in E. auto.
  - intro X. destruct (IH X). auto.
Qed.

Lemma In_cache_get e c : In e c -> cache_get (ckey e) c <> None.
Proof.
  induction c as [|x r IH]; simpl; [tauto|].
  intros [->|X].
  - rewrite bytes_eqb_refl. discriminate.
  - destruct (bytes_eqb (ckey x) (ckey e)); [discriminate | auto].
Qed.

Lemma cache_get_filter p s c e : cache_get s (filter p c) = Some e -> In e c /\ p e = true /\ ckey e = s.
Proof.
  intro X. apply cache_get_In in X. destruct X as [X1 X2]. apply filter_In in X1. tauto.
Qed.

Lemma In_cache_step e st f req ca : In e (cache_step st f req ca) -> (e = (req, f) /\ eligible f st = true) \/ In e ca.
Proof.
  unfold cache_step. destruct (eligible f st) eqn:E; [|auto].
  intro X. apply In_cache_put in X. destruct X; auto.
Qed.

(* keys of a cache are unique: it is a map *)
Definition ukeys (c : cache) : Prop := NoDup (map ckey c).

Lemma keys_cache_remove s c k : In k (map ckey (cache_remove s c)) -> In k (map ckey c) /\ k <> s.
Proof.
  induction c as [|x r IH]; simpl; [tauto|].
  destruct (bytes_eqb (ckey x) s) eqn:E; simpl.
  - intro X. destruct (IH X). auto.
  - intros [X|X].
    + subst. split; [auto|]. intro Y. subst. rewrite bytes_eqb_refl in E. discriminate.
    + destruct (IH X). auto.
Qed.

Lemma ukeys_remove s c : ukeys c -> ukeys (cache_remove s c).
Proof.
  unfold ukeys. induction c as [|x r IH]; simpl; [auto|].
  intro N. inversion N as [|? ? N1 N2]; subst.
  destruct (bytes_eqb (ckey x) s); simpl; [auto|].
  constructor; [|auto]. intro X. apply keys_cache_remove in X. tauto.
Qed.


Lemma NoDup_snoc {A} (l : list A) (a : A) : NoDup l -> ~ In a l -> NoDup (l ++ [a]).
Proof.
  induction l as [|x r IH]; simpl; intros N X.
  - constructor; [tauto | constructor].
  - inversion N; subst. constructor.
    + rewrite in_app_iff. simpl. intros [Y|[Y|[]]]; [tauto | subst; tauto].
    + apply IH; tauto.
Qed.

Lemma ukeys_put e c : ukeys c -> ukeys (cache_put e c).
Proof.
  intro U. unfold ukeys, cache_put. rewrite map_app. simpl.
  apply NoDup_snoc; [apply ukeys_remove; exact U|].
  intro X. apply keys_cache_remove in X. tauto.
Qed.

Lemma ukeys_step st f req ca : ukeys ca -> ukeys (cache_step st f req ca).
Proof. unfold cache_step. destruct (eligible f st); [apply ukeys_put | auto]. Qed.

Lemma ukeys_unique c e1 e2 : ukeys c -> In e1 c -> In e2 c -> ckey e1 = ckey e2 -> e1 = e2.
Proof.
  unfold ukeys. induction c as [|x r IH]; simpl; [tauto|].
  intro N. inversion N as [|? ? N1 N2]; subst.
  intros [A|A] [B|B] K; subst; auto.
  - exfalso. apply N1. rewrite K. apply in_map. exact B.
  - exfalso. apply N1. rewrite <- K. apply in_map. exact A.
Qed.

Lemma ukeys_nil : ukeys []. Proof. constructor. Qed.

(* ------------------------------------------------------------------ traces *)

Lemma m_tr_emit e m : m_tr (emit e m) = e :: m_tr m.
Proof. reflexivity. Qed.
