(* Neg/Model.v — the shared, executable model of XMPP stream negotiation
   (DESIGN.md §7.0).  Used by C01 and C02 (and meant for reuse by C04).

   It mirrors, function by function, the code as it stands in the verified tree:

     session.go     negotiateSession      -> session_loop / run
     negotiator.go  negotiator (closure)  -> negotiator_body (+ the tee-wrapping
                                             branch, which lives in session_loop)
     features.go    negotiateFeatures     -> negotiate_features, init_loop
                                             (initiator selection loop), recv_loop
                                             (receiver selection loop), negotiate_one
                    readStreamFeatures    -> read_children (supported children are cached whether
                                             or not their prerequisites hold yet)
                    writeStreamFeatures   -> list_loop / write_features
     starttls.go    StartTLS.Negotiate    -> starttls_negotiate

   Abstraction boundary.  The peer's input is a list of *items*; every item is
   delivered by exactly one Read of the connection and is consumed whole by one
   read point of the code (or makes that read point fail).  What an abstract
   feature's Negotiate/Parse/List callbacks return is an input (scripted
   outcomes); the order in which Go iterates the feature map is an input
   (choice list) whose legality the model checks.  XML tokenisation, the
   address/identifier checks on stream headers (C12) and TLS itself are not
   modelled: a header is "good" or "bad" by construction, the TLS handshake is
   an oracle ([c_hs_ok]).

   Only computable definitions here; no proofs. *)
From XV Require Import lib.Bytes gen.NegTables.

(* ------------------------------------------------------------------ state bits *)

Definition has (st m : N) : bool := N.eqb (N.land st m) m.        (* st&m == m *)
Definition disj (st m : N) : bool := N.eqb (N.land st m) 0%N.      (* st&m == 0 *)

(* ------------------------------------------------------------------ features *)

Inductive fkind :=
| KAbstract     (* Negotiate is a callback with a scripted outcome and no I/O *)
| KStartTLS.    (* starttls.go's Negotiate, modelled concretely *)

Record feature := mkF {
  f_space : bytes; f_local : bytes;
  f_nec : N; f_proh : N;        (* Necessary, Prohibited *)
  f_neg : bool;                 (* Negotiate != nil *)
  f_kind : fkind;
  f_lreq : bool; f_lerr : bool  (* what List returns (receiver side) *) }.

Definition name := (bytes * bytes)%type.
Definition fname (f : feature) : name := (f_space f, f_local f).
Definition name_eqb (a b : name) : bool := bytes_eqb (fst a) (fst b) && bytes_eqb (snd a) (snd b).

(* the Necessary/Prohibited test of writeStreamFeatures / readStreamFeatures /
   the selection loops *)
Definition eligible (f : feature) (st : N) : bool := has st (f_nec f) && disj st (f_proh f).

(* getFeature: first configured feature with that full name *)
Fixpoint get_feature (n : name) (fs : list feature) : option feature :=
  match fs with
  | [] => None
  | f :: r => if name_eqb (fname f) n then Some f else get_feature n r
  end.

(* containsStartTLS: first configured feature in that name space *)
Fixpoint find_space (s : bytes) (fs : list feature) : option feature :=
  match fs with
  | [] => None
  | f :: r => if bytes_eqb (f_space f) s then Some f else find_space s r
  end.

Fixpoint mem (s : bytes) (l : list bytes) : bool :=
  match l with [] => false | x :: r => bytes_eqb x s || mem s r end.

(* streamFeaturesList.cache: map name space -> (req, feature) as an association
   list; insertion replaces an entry with the same key (Go map assignment) *)
Definition centry := (bool * feature)%type.
Definition cache := list centry.
Definition ckey (e : centry) : bytes := f_space (snd e).

Fixpoint cache_remove (s : bytes) (c : cache) : cache :=
  match c with
  | [] => []
  | e :: r => if bytes_eqb (ckey e) s then cache_remove s r else e :: cache_remove s r
  end.
Definition cache_put (e : centry) (c : cache) : cache := cache_remove (ckey e) c ++ [e].
Fixpoint cache_get (s : bytes) (c : cache) : option centry :=
  match c with
  | [] => None
  | e :: r => if bytes_eqb (ckey e) s then Some e else cache_get s r
  end.

(* what a Negotiate call returned: mask, rw != nil, err != nil *)
(* what kind of io.ReadWriter a restarting Negotiate returned: a bare wrapper
   (newConn puts it into a *conn, which has a ConnectionState method), the
   session's own connection (sasl.go returns s.Conn()), a net.Conn without a
   ConnectionState method, a net.Conn with one (a TLS-like layer).
   negotiateSession's restart block only renews conn, connState, decoder and
   encoder and empties the per-stream maps: whatever the kind, it leaves the
   state bits alone (only the mask is or-ed in) — the model has no case on it,
   which is what the theorems about state bits then say for every kind. *)
Inductive rwkind := RWWrap | RWSame | RWPlain | RWTls.

Record outcome := mkO { o_mask : N; o_restart : bool; o_err : bool; o_rw : rwkind }.
Definition default_outcome := mkO 0%N false false RWWrap.

(* s.state &^= Ready *)
Definition clear_ready (b : N) : N := N.ldiff b st_Ready.

(* the bits of a Negotiate call's mask that negotiateFeatures applies at once
   (`s.state |= mask &^ Ready`); Ready itself is deferred, see after_pick *)
Definition eff_mask (o : outcome) : N := clear_ready (o_mask o).

(* ------------------------------------------------------------------ peer items *)

Inductive hclass := HGood | HBad.   (* a stream header Expect + the address checks accept / reject *)

(* a child of <stream:features/>: an element (name, what Parse says about it:
   required, error) or character data *)
Inductive fchild := FC (space local : bytes) (req perr : bool) | FCText.

Inductive pbody :=
| PHeader (h : hclass)
| PFeatures (cs : list fchild)
| PStreamErr
| PElem (space local : bytes)     (* an empty element that is none of the above *)
| PIq (space local : bytes)       (* an <iq/> whose first child is an empty element *)
| PIqBad                          (* an <iq/> without an element child *)
| PGarbage.                       (* bytes that are not well-formed XML *)

(* i_sp: white space precedes the element *)
Record pitem := mkItem { i_sp : bool; i_body : pbody }.

(* ------------------------------------------------------------------ events *)

(* where the code was reading when an item was delivered *)
Inductive readpoint := RPHeader | RPFeatures | RPSelect | RPReply.

Inductive witem :=
| WHeader
| WFeatures (st : N) (names : list name) (closed : bool)  (* st: state bits when it was written *)
| WElem (space local : bytes).

Inductive event :=
| EIn (rp : readpoint) (st : N) (it : pitem)   (* item delivered; st = state bits at that moment *)
| EEof (rp : readpoint)                         (* the input ended *)
| EOut (w : witem)                              (* written to the peer *)
| EList (f : feature)                           (* List callback ran *)
| EParse (f : feature)                          (* Parse callback ran *)
| ENeg (f : feature) (st : N) (o : outcome)    (* Negotiate ran with session state st and returned o *)
| ESwitch (server_name : bytes)                 (* a TLS layer was put on the connection *)
| EHandshake (ok : bool).                       (* the TLS handshake ran (at the first write on the new layer) *)

(* ------------------------------------------------------------------ configuration, machine state *)

Record config := mkCfg {
  c_feats : list feature;
  c_tee : bool;                 (* StreamConfig.TeeIn / TeeOut set *)
  c_ws : bool;                  (* WebSocket framing *)
  c_hs_ok : bool;               (* oracle: the TLS handshake succeeds *)
  c_domain : bytes;             (* domainpart of the session's local address *)
  c_tlsname : option bytes;     (* ServerName of the tls.Config given to StartTLS, None = nil config *)
  c_teefirst : bool             (* which negotiator.go is under test: false = `first := data == nil`
                                   (false after the tee-wrapping call returned its state: the pinned
                                   tree); true = `first` survives the tee-wrapping call (C02's repair,
                                   e4379d7).  Without tee the two coincide.  The harness probes it. *) }.

(* negotiatorState *)
Record nstate := mkNS { ns_restart : bool; ns_first : bool }.

Record mstate := mkM {
  m_bits : N;                   (* s.state *)
  m_negd : list bytes;          (* s.negotiated (keys) *)
  m_cache : cache;              (* the current streamFeaturesList *)
  m_total : nat;
  m_lreq : bool;
  m_in : list pitem;            (* input not yet delivered, current layer *)
  m_tlsin : list pitem;         (* input the peer will send once a TLS layer is up *)
  m_tls : bool;                 (* a TLS layer is installed *)
  m_hs : bool;                  (* its handshake has not run yet *)
  m_outs : list outcome;        (* scripted outcomes of abstract Negotiate calls *)
  m_choices : list bytes;       (* observed map-iteration choices (name spaces) *)
  m_tr : list event;            (* events so far, most recent first *)
  m_rdy : bool                  (* negotiateFeatures' `ready`: a feature of the current list reported Ready *) }.

Definition emit (e : event) (m : mstate) : mstate :=
  mkM (m_bits m) (m_negd m) (m_cache m) (m_total m) (m_lreq m) (m_in m) (m_tlsin m) (m_tls m) (m_hs m)
      (m_outs m) (m_choices m) (e :: m_tr m) (m_rdy m).
Definition set_bits (b : N) (m : mstate) : mstate :=
  mkM b (m_negd m) (m_cache m) (m_total m) (m_lreq m) (m_in m) (m_tlsin m) (m_tls m) (m_hs m)
      (m_outs m) (m_choices m) (m_tr m) (m_rdy m).
Definition set_negd (l : list bytes) (m : mstate) : mstate :=
  mkM (m_bits m) l (m_cache m) (m_total m) (m_lreq m) (m_in m) (m_tlsin m) (m_tls m) (m_hs m)
      (m_outs m) (m_choices m) (m_tr m) (m_rdy m).
Definition set_list (c : cache) (t : nat) (r : bool) (m : mstate) : mstate :=
  mkM (m_bits m) (m_negd m) c t r (m_in m) (m_tlsin m) (m_tls m) (m_hs m)
      (m_outs m) (m_choices m) (m_tr m) (m_rdy m).
Definition set_in (i : list pitem) (m : mstate) : mstate :=
  mkM (m_bits m) (m_negd m) (m_cache m) (m_total m) (m_lreq m) i (m_tlsin m) (m_tls m) (m_hs m)
      (m_outs m) (m_choices m) (m_tr m) (m_rdy m).
Definition set_outs (o : list outcome) (m : mstate) : mstate :=
  mkM (m_bits m) (m_negd m) (m_cache m) (m_total m) (m_lreq m) (m_in m) (m_tlsin m) (m_tls m) (m_hs m)
      o (m_choices m) (m_tr m) (m_rdy m).
Definition set_choices (c : list bytes) (m : mstate) : mstate :=
  mkM (m_bits m) (m_negd m) (m_cache m) (m_total m) (m_lreq m) (m_in m) (m_tlsin m) (m_tls m) (m_hs m)
      (m_outs m) c (m_tr m) (m_rdy m).
Definition set_hs (h : bool) (m : mstate) : mstate :=
  mkM (m_bits m) (m_negd m) (m_cache m) (m_total m) (m_lreq m) (m_in m) (m_tlsin m) (m_tls m) h
      (m_outs m) (m_choices m) (m_tr m) (m_rdy m).
Definition set_rdy (b : bool) (m : mstate) : mstate :=
  mkM (m_bits m) (m_negd m) (m_cache m) (m_total m) (m_lreq m) (m_in m) (m_tlsin m) (m_tls m) (m_hs m)
      (m_outs m) (m_choices m) (m_tr m) b.
(* tls.Client / tls.Server around the connection: whatever clear text the peer
   had already sent is gone with the old decoder (session.go, rw != nil
   branch); from now on input comes from the TLS-layer script *)
Definition switch_layer (m : mstate) : mstate :=
  mkM (m_bits m) (m_negd m) (m_cache m) (m_total m) (m_lreq m) (m_tlsin m) [] true true
      (m_outs m) (m_choices m) (m_tr m) (m_rdy m).

Inductive eclass :=
| EPolicy     (* stream.PolicyViolation, raised locally *)
| EFeature    (* the error an abstract feature's callback returned *)
| EOther.

(* result of a step: a value, an error, or "the observed choice was not one
   the code could have made / a structural fuel ran out" *)
Inductive res (A : Type) := Good (a : A) | Bad (e : eclass) | Stuck.
Arguments Good {A} a. Arguments Bad {A} e. Arguments Stuck {A}.

Definition server (m : mstate) : bool := has (m_bits m) st_Received.

(* ------------------------------------------------------------------ reading, headers *)

Definition read (rp : readpoint) (m : mstate) : mstate * option pitem :=
  match m_in m with
  | [] => (emit (EEof rp) m, None)
  | it :: rest => (emit (EIn rp (m_bits m) it) (set_in rest m), Some it)
  end.

(* internal/stream.Expect followed by negotiator's address checks: leading
   white space is skipped, a good header is accepted, anything else is an error *)
Definition is_good_header (r : option pitem) : bool :=
  match r with
  | Some (mkItem _ (PHeader HGood)) => true
  | _ => false
  end.

Definition expect_header (m : mstate) : mstate * res unit :=
  let '(m1, r) := read RPHeader m in
  (m1, if is_good_header r then Good tt else Bad EOther).

(* internal/stream.Send.  The first write on a fresh TLS layer runs the handshake. *)
Definition send_header (c : config) (m : mstate) : mstate * res unit :=
  if m_tls m && m_hs m then
    if c_hs_ok c then (emit (EOut WHeader) (emit (EHandshake true) (set_hs false m)), Good tt)
    else (emit (EHandshake false) (set_hs false m), Bad EOther)
  else (emit (EOut WHeader) m, Good tt).

(* ------------------------------------------------------------------ readStreamFeatures *)

(* the effect of one supported, successfully parsed child on the cache: it is
   remembered whether or not its prerequisites hold right now (the selection
   loop tests them); [st] is kept for the count of children that are allowed *)
Definition cache_step (st : N) (f : feature) (req : bool) (ca : cache) : cache := cache_put (req, f) ca.

(* returns cache, total, list.req, list.allowed *)
Fixpoint read_children (fs : list feature) (st : N) (cs : list fchild) (m : mstate)
         (ca : cache) (tot : nat) (lr : bool) (al : nat) : mstate * res (cache * nat * bool * nat) :=
  match cs with
  | [] => (m, Good (ca, tot, lr, al))
  | FCText :: _ => (m, Bad EOther)                     (* stream.RestrictedXML *)
  | FC sp lo req perr :: rest =>
      match get_feature (sp, lo) fs with
      | Some f =>
          let m1 := emit (EParse f) m in
          if perr then (m1, Bad EFeature)
          else read_children fs st rest m1 (cache_step st f req ca) (S tot) (lr || req)
                             (if eligible f st then S al else al)
      | None => read_children fs st rest m ca (S tot) lr al
      end
  end.

(* ------------------------------------------------------------------ writeStreamFeatures *)

Fixpoint list_loop (fs : list feature) (st : N) (m : mstate) (ca : cache) (lr : bool) (tot : nat)
         (names : list name) : mstate * cache * bool * nat * list name * bool :=
  match fs with
  | [] => (m, ca, lr, tot, names, false)
  | f :: r =>
      if eligible f st then
        let m1 := emit (EList f) m in
        if f_lerr f then (m1, ca, lr, tot, names, true)
        else list_loop r st m1 (cache_put (f_lreq f, f) ca) (lr || f_lreq f) (S tot) (names ++ [fname f])
      else list_loop r st m ca lr tot names
  end.

Definition write_features (c : config) (m : mstate) : mstate * res unit :=
  let st := m_bits m in
  match list_loop (c_feats c) st m [] false 0 [] with
  | (m1, ca, lr, tot, names, err) =>
      let m2 := emit (EOut (WFeatures st names (negb err))) (set_list ca tot lr m1) in
      (m2, if err then Bad EFeature else Good tt)
  end.

(* ------------------------------------------------------------------ Negotiate *)

Definition tls_name (c : config) : bytes :=
  match c_tlsname c with Some n => n | None => c_domain c end.

Definition str_proceed : bytes := str "proceed".
Definition str_starttls : bytes := str "starttls".

(* starttls.go Negotiate.  Receiving side: write <proceed/>, wrap in tls.Server.
   Initiating side: write <starttls/>, read one element; <proceed/> in the TLS
   name space -> tls.Client; anything else is an error. *)
Definition is_proceed (r : option pitem) : bool :=
  match r with
  | Some (mkItem false (PElem sp lo)) => bytes_eqb sp ns_StartTLS && bytes_eqb lo str_proceed
  | _ => false
  end.

Definition starttls_negotiate (c : config) (m : mstate) : mstate * outcome :=
  if server m then
    (emit (ESwitch (tls_name c)) (switch_layer (emit (EOut (WElem ns_StartTLS str_proceed)) m)),
     mkO st_Secure true false RWTls)
  else
    let '(m2, r) := read RPReply (emit (EOut (WElem ns_StartTLS str_starttls)) m) in
    if is_proceed r then (emit (ESwitch (tls_name c)) (switch_layer m2), mkO st_Secure true false RWTls)
    else (m2, mkO 0%N false true RWWrap).

(* one Negotiate call; the ENeg event records the state bits at the call *)
Definition negotiate_one (c : config) (m : mstate) (f : feature) : mstate * outcome :=
  let st := m_bits m in
  match f_kind f with
  | KAbstract =>
      let o := match m_outs m with [] => default_outcome | o :: _ => o end in
      (emit (ENeg f st o) (set_outs (tl (m_outs m)) m), o)
  | KStartTLS =>
      let '(m1, o) := starttls_negotiate c m in
      (emit (ENeg f st o) m1, o)
  end.

Definition feature_err (f : feature) : eclass :=
  match f_kind f with KAbstract => EFeature | KStartTLS => EOther end.

(* the part of the selection loops after a feature was picked:
     mask, rw, err = Negotiate(...)
     if err == nil { ready = ready || mask&Ready == Ready; s.state |= mask &^ Ready }
     s.negotiated[space] = {}; if err != nil || rw != nil || req { break }
   and, after the loop,
     mask &^= Ready; if rw == nil && (ready || !list.req) { mask |= Ready }; return mask, rw, err.
   Returns Good None when the loop goes on. *)
Definition after_pick (c : config) (m : mstate) (req : bool) (f : feature)
  : mstate * res (option (N * bool)) :=
  let '(m1, o) := negotiate_one c m f in
  let m2 := if o_err o then m1
            else set_rdy (m_rdy m1 || has (o_mask o) st_Ready) (set_bits (N.lor (m_bits m1) (eff_mask o)) m1) in
  let m3 := set_negd (f_space f :: m_negd m2) m2 in
  if o_err o then (m3, Bad (feature_err f))
  else if o_restart o || req then
    (m3, Good (Some (N.lor (eff_mask o)
                           (if negb (o_restart o) && (m_rdy m3 || negb (m_lreq m3)) then st_Ready else 0%N),
                     o_restart o)))
  else (m3, Good None).

(* ------------------------------------------------------------------ initiator: selection *)

(* cached features that are not yet negotiated on this stream, can be
   negotiated at all, and whose prerequisites hold now *)
Definition cand (negd : list bytes) (st : N) (e : centry) : bool :=
  negb (mem (ckey e) negd) && f_neg (snd e) && eligible (snd e) st.
Definition candidates (m : mstate) : cache := filter (cand (m_negd m) (m_bits m)) (m_cache m).

(* `for _, v := range list.cache`: Go picks an order; whichever it is, the
   result is a voluntary candidate if there is one, else a required one.  The
   observed pick is taken from the choice list and checked. *)
Definition select (m : mstate) : mstate * res (option centry) :=
  match candidates m with
  | [] => (m, Good None)
  | cands =>
      match m_choices m with
      | [] => (m, Stuck)
      | ch :: rest =>
          let m1 := set_choices rest m in
          match cache_get ch cands with
          | None => (m1, Stuck)
          | Some e => if fst e && existsb (fun x => negb (fst x)) cands then (m1, Stuck)
                      else (m1, Good (Some e))
          end
      end
  end.

Fixpoint init_loop (fuel : nat) (c : config) (m : mstate) (forced : option feature)
  : mstate * res (N * bool) :=
  match fuel with
  | O => (m, Stuck)
  | S k =>
      match forced with
      | Some f =>       (* data = sfData{req: true, feature: startTLS}; the observed pick must be this one *)
          match m_choices m with
          | [] => (m, Stuck)
          | ch :: rest =>
          if negb (bytes_eqb ch (f_space f)) then (set_choices rest m, Stuck) else
          match after_pick c (set_choices rest m) true f with
          | (m1, Good (Some r)) => (m1, Good r)
          | (m1, Good None) => (m1, Stuck)     (* unreachable: req = true always ends the loop *)
          | (m1, Bad e) => (m1, Bad e)
          | (m1, Stuck) => (m1, Stuck)
          end
          end
      | None =>
          match select m with
          | (m1, Good None) => (m1, Good (st_Ready, false))   (* nothing left to negotiate *)
          | (m1, Good (Some (req, f))) =>
              match after_pick c m1 req f with
              | (m2, Good (Some r)) => (m2, Good r)
              | (m2, Good None) => init_loop k c m2 None
              | (m2, Bad e) => (m2, Bad e)
              | (m2, Stuck) => (m2, Stuck)
              end
          | (m1, Bad e) => (m1, Bad e)
          | (m1, Stuck) => (m1, Stuck)
          end
      end
  end.

(* ------------------------------------------------------------------ receiver: selection *)

Definition str_iq : bytes := str "iq".
Definition ns_client : bytes := str "jabber:client".
Definition ns_server : bytes := str "jabber:server".
Definition is_iq (sp lo : bytes) : bool :=
  bytes_eqb lo str_iq && (bytes_eqb sp ns_client || bytes_eqb sp ns_server).

(* the name space by which the receiver looks a selection up, or None when the
   element cannot be taken as a selection at all *)
Definition selection_space (c : config) (it : pitem) : option bytes :=
  if i_sp it then None                       (* CharData token *)
  else match i_body it with
       | PElem sp lo => if is_iq sp lo then None else Some sp   (* a bare <iq/> has no payload *)
       | PIq sp lo => Some sp
       | PFeatures _ => Some ns_stream
       | PStreamErr => Some ns_stream
       | PHeader _ => if c_ws c then Some ns_framing else None  (* "<?xml" comes first otherwise *)
       | PIqBad => None
       | PGarbage => None
       end.

(* the receiver refuses a selection that was not advertised, was already
   negotiated, is informational only, or whose prerequisites no longer hold *)
Definition accept (ca : cache) (negd : list bytes) (st : N) (sp : bytes) : option centry :=
  match cache_get sp ca with
  | Some e => if cand negd st e then Some e else None
  | None => None
  end.
Definition acceptable (m : mstate) (sp : bytes) : option centry :=
  accept (m_cache m) (m_negd m) (m_bits m) sp.

Fixpoint recv_loop (fuel : nat) (c : config) (m : mstate) : mstate * res (N * bool) :=
  match fuel with
  | O => (m, Stuck)
  | S k =>
      match read RPSelect m with
      | (m1, Some it) =>
          match selection_space c it with
          | Some sp =>
              match acceptable m1 sp with
              | Some (req, f) =>
                  match after_pick c m1 req f with
                  | (m2, Good (Some r)) => (m2, Good r)
                  | (m2, Good None) => recv_loop k c m2
                  | (m2, Bad e) => (m2, Bad e)
                  | (m2, Stuck) => (m2, Stuck)
                  end
              | None => (m1, Bad EPolicy)
              end
          | None => (m1, Bad EOther)
          end
      | (m1, None) => (m1, Bad EOther)
      end
  end.

(* ------------------------------------------------------------------ negotiateFeatures *)

(* the item is a well-formed features list *)
Definition features_of (r : option pitem) : option (list fchild) :=
  match r with
  | Some (mkItem false (PFeatures cs)) => Some cs
  | _ => None
  end.

(* after the list was read: the forced-STARTTLS rule, the `total == 0` and
   `len(cache) == 0` exits, then the selection loop *)
Definition after_read (c : config) (m : mstate) (first : bool) (al : nat) : mstate * res (N * bool) :=
  let ca := m_cache m in
  let advertised := match cache_get ns_StartTLS ca with Some _ => true | None => false end in
  let force := first && negb advertised && negb (has (m_bits m) st_Secure) in
  let normal :=
    match m_total m, al with
    | O, _ => (m, Good (st_Ready, false))
    | _, O => (m, Bad EOther)      (* "features advertised out of order": none of them can be negotiated *)
    | _, _ => init_loop (S (length ca)) c m None
    end in
  match (if force then find_space ns_StartTLS (c_feats c) else None) with
  | Some f =>
      if f_neg f && eligible f (m_bits m) then init_loop 1 c m (Some f)   (* startTLS.Negotiate != nil && startTLS.allowed(s.state) *)
      else normal
  | None => normal
  end.

Definition negotiate_features (c : config) (m0 : mstate) (first : bool) : mstate * res (N * bool) :=
  let m := set_rdy false m0 in      (* var ready bool *)
  if server m then
    match write_features c m with
    | (m1, Good _) => recv_loop (S (length (m_in m1))) c m1
    | (m1, Bad e) => (m1, Bad e)
    | (m1, Stuck) => (m1, Stuck)
    end
  else
    let '(m1, r) := read RPFeatures m in
    match features_of r with
    | Some cs =>
        match read_children (c_feats c) (m_bits m1) cs m1 [] 0 false 0 with
        | (m2, Good (ca, tot, lr, al)) => after_read c (set_list ca tot lr m2) first al
        | (m2, Bad e) => (m2, Bad e)
        | (m2, Stuck) => (m2, Stuck)
        end
    | None => (m1, Bad EOther)
    end.

(* ------------------------------------------------------------------ negotiator, negotiateSession *)

(* the negotiator closure after the tee branch: header exchange when a restart
   is due, then negotiateFeatures; returns mask, rw != nil and the new state *)
Definition negotiator_body (c : config) (m : mstate) (ns : nstate) : mstate * res (N * bool * nstate) :=
  let '(m1, r1) :=
    if ns_restart ns then
      if server m then
        match expect_header m with
        | (ma, Good _) => send_header c ma
        | other => other
        end
      else
        match send_header c m with
        | (ma, Good _) => expect_header ma
        | other => other
        end
    else (m, Good tt) in
  match r1 with
  | Good _ =>
      match negotiate_features c m1 (ns_first ns) with
      | (m2, Good (mask, restart)) => (m2, Good (mask, restart, mkNS restart false))
      | (m2, Bad e) => (m2, Bad e)
      | (m2, Stuck) => (m2, Stuck)
      end
  | Bad e => (m1, Bad e)
  | Stuck => (m1, Stuck)
  end.

Inductive rclass := ROk | RErr (e : eclass) | RFuel | RStuck.
Record result := mkR { r_class : rclass; r_bits : N; r_state : mstate }.

(* `for s.state&Ready == 0 { mask, rw, data, err = negotiate(...) ... }`.
   The tee branch of the negotiator returns a wrapped connection and no bits:
   one extra iteration in which the caches are cleared and the decoder renewed. *)
Fixpoint session_loop (fuel : nat) (c : config) (m : mstate) (ns : nstate) (istee : bool) : result :=
  match fuel with
  | O => mkR RFuel (m_bits m) m
  | S k =>
      if has (m_bits m) st_Ready then mkR ROk (m_bits m) m
      else if c_tee c && negb istee then
        (* s.Conn() is a teeConn from now on; the call returned its negotiatorState as
           `data`, so `data == nil` does not hold at the next call *)
        session_loop k c (set_negd [] m) (mkNS (ns_restart ns) (ns_first ns && c_teefirst c)) true
      else
        match negotiator_body c m ns with
        | (m1, Good (mask, restart, ns1)) =>
            (* a feature that restarts the stream returns a connection that is not a teeConn *)
            let m2 := if restart then set_negd [] m1 else m1 in
            session_loop k c (set_bits (N.lor (m_bits m2) mask) m2) ns1 (if restart then false else istee)
        | (m1, Bad e) => mkR (RErr e) (clear_ready (m_bits m1)) m1   (* a session returned with an error is never marked ready *)
        | (m1, Stuck) => mkR RStuck (m_bits m1) m1
        end
  end.

Definition init_state (bits : N) (clear tls : list pitem) (outs : list outcome) (choices : list bytes) : mstate :=
  mkM bits [] [] 0 false clear tls false false outs choices [] false.

Definition fuel_for (clear tls : list pitem) : nat := 2 * (length clear + length tls) + 4.

Definition run (c : config) (bits : N) (clear tls : list pitem) (outs : list outcome) (choices : list bytes) : result :=
  session_loop (fuel_for clear tls) c (init_state bits clear tls outs choices) (mkNS true true) false.

Definition trace (r : result) : list event := rev (m_tr (r_state r)).

(* ------------------------------------------------------------------ raw view (what the harness can observe) *)

Inductive rwitem := RWHeader | RWFeatures (names : list name) (closed : bool) | RWElem (space local : bytes).

Inductive revent :=
| RIn (it : pitem) | REof
| ROut (w : rwitem)
| RList (n : name) | RParse (n : name)
| RNeg (n : name) (st : N) (o : outcome)
| RSwitch (server_name : bytes)
| RHandshake (ok : bool).

Definition raw_w (w : witem) : rwitem :=
  match w with
  | WHeader => RWHeader
  | WFeatures _ ns cl => RWFeatures ns cl
  | WElem s l => RWElem s l
  end.

Definition raw (e : event) : revent :=
  match e with
  | EIn _ _ it => RIn it
  | EEof _ => REof
  | EOut w => ROut (raw_w w)
  | EList f => RList (fname f)
  | EParse f => RParse (fname f)
  | ENeg f st o => RNeg (fname f) st o
  | ESwitch n => RSwitch n
  | EHandshake b => RHandshake b
  end.

(* ---- decidable equality of raw events (for the case files) ---- *)

Definition rwkind_eqb (a b : rwkind) : bool :=
  match a, b with RWWrap, RWWrap | RWSame, RWSame | RWPlain, RWPlain | RWTls, RWTls => true | _, _ => false end.
Definition outcome_eqb (a b : outcome) : bool :=
  N.eqb (o_mask a) (o_mask b) && Bool.eqb (o_restart a) (o_restart b) && Bool.eqb (o_err a) (o_err b) &&
  rwkind_eqb (o_rw a) (o_rw b).

Fixpoint list_eqb {A} (eq : A -> A -> bool) (a b : list A) : bool :=
  match a, b with
  | [], [] => true
  | x :: a', y :: b' => eq x y && list_eqb eq a' b'
  | _, _ => false
  end.

Definition hclass_eqb (a b : hclass) : bool :=
  match a, b with HGood, HGood | HBad, HBad => true | _, _ => false end.

Definition fchild_eqb (a b : fchild) : bool :=
  match a, b with
  | FC s l r p, FC s' l' r' p' => bytes_eqb s s' && bytes_eqb l l' && Bool.eqb r r' && Bool.eqb p p'
  | FCText, FCText => true
  | _, _ => false
  end.

Definition pbody_eqb (a b : pbody) : bool :=
  match a, b with
  | PHeader h, PHeader h' => hclass_eqb h h'
  | PFeatures cs, PFeatures cs' => list_eqb fchild_eqb cs cs'
  | PStreamErr, PStreamErr => true
  | PElem s l, PElem s' l' => bytes_eqb s s' && bytes_eqb l l'
  | PIq s l, PIq s' l' => bytes_eqb s s' && bytes_eqb l l'
  | PIqBad, PIqBad => true
  | PGarbage, PGarbage => true
  | _, _ => false
  end.

Definition pitem_eqb (a b : pitem) : bool := Bool.eqb (i_sp a) (i_sp b) && pbody_eqb (i_body a) (i_body b).

Definition rwitem_eqb (a b : rwitem) : bool :=
  match a, b with
  | RWHeader, RWHeader => true
  | RWFeatures n c, RWFeatures n' c' => list_eqb name_eqb n n' && Bool.eqb c c'
  | RWElem s l, RWElem s' l' => bytes_eqb s s' && bytes_eqb l l'
  | _, _ => false
  end.

Definition revent_eqb (a b : revent) : bool :=
  match a, b with
  | RIn i, RIn i' => pitem_eqb i i'
  | REof, REof => true
  | ROut w, ROut w' => rwitem_eqb w w'
  | RList n, RList n' => name_eqb n n'
  | RParse n, RParse n' => name_eqb n n'
  | RNeg n st o, RNeg n' st' o' => name_eqb n n' && N.eqb st st' && outcome_eqb o o'
  | RSwitch n, RSwitch n' => bytes_eqb n n'
  | RHandshake b, RHandshake b' => Bool.eqb b b'
  | _, _ => false
  end.

Definition eclass_eqb (a b : eclass) : bool :=
  match a, b with EPolicy, EPolicy | EFeature, EFeature | EOther, EOther => true | _, _ => false end.

Definition rclass_eqb (a b : rclass) : bool :=
  match a, b with
  | ROk, ROk | RFuel, RFuel | RStuck, RStuck => true
  | RErr e, RErr e' => eclass_eqb e e'
  | _, _ => false
  end.

(* ---- correspondence records (terms of this type are written by the harnesses) ---- *)

Record ncase := mkNCase {
  k_cfg : config; k_bits : N; k_in : list pitem; k_tls : list pitem;
  k_outs : list outcome; k_choices : list bytes;
  x_class : rclass; x_bits : N; x_trace : list revent }.

Definition ncase_run (k : ncase) : result :=
  run (k_cfg k) (k_bits k) (k_in k) (k_tls k) (k_outs k) (k_choices k).

(* full comparison: result class, final state bits, the whole observation log *)
Definition ncase_ok (k : ncase) : bool :=
  let r := ncase_run k in
  rclass_eqb (r_class r) (x_class k) && N.eqb (r_bits r) (x_bits k) &&
  list_eqb revent_eqb (map raw (trace r)) (x_trace k).

Fixpoint failing {A} (ok : A -> bool) (i : nat) (l : list A) : list nat :=
  match l with
  | [] => []
  | x :: r => if ok x then failing ok (S i) r else i :: failing ok (S i) r
  end.
