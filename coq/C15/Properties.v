(* C15/Properties.v — the property theorems of C15 and nothing else.
   "An in-band bytestream is a reliable ordered byte pipe."

   The model is that of the repaired library (branch verif-C15: open inspects
   the reply, handlePayload decodes before it commits, Read waits in a loop on
   a signal channel with room for one pending signal, Close deregisters).
   The theorems named C15_pinned_*_refuted record, on the model of the pinned
   tree's design, why those repairs were needed. *)
From Coq Require Import ZArith.
From XV Require Import lib.Bytes lib.Base64 lib.Lts gen.Ibb C15.Model C15.Proofs C15.ProofsRecv C15.ProofsMore.

(* ---------------------------------------------------------------------- *)
(* what the model takes from the source's statement order                   *)
(* ---------------------------------------------------------------------- *)

(* handlePayload: the wake-up of a pending Read is an unconditional statement
   after the append and no successful return lies between them - on either
   carrier an accepted packet reaches the notify. *)
Theorem C15_src_notify_on_every_success_path :
  ibb_payload_notify_unconditional = true /\ ibb_payload_success_returns_before_notify = 0.
Proof. exact tbl_notify_on_every_success_path. Qed.
Print Assumptions C15_src_notify_on_every_success_path.

(* rmStream deletes an entry only if it refers to the connection being closed;
   Close and closeNoNotify reach it only after markClosed has succeeded. *)
Theorem C15_src_unregister_is_guarded :
  ibb_rmstream_guarded = true /\
  ibb_close_closeread_after_markclosed = true /\
  ibb_closenonotify_closeread_after_markclosed = true /\
  ibb_closeread_call_sites = 2.
Proof. exact tbl_unregister_is_guarded. Qed.
Print Assumptions C15_src_unregister_is_guarded.

(* ---------------------------------------------------------------------- *)
(* opening                                                                 *)
(* ---------------------------------------------------------------------- *)

(* Open succeeds only on a reply of type result; a refused open request
   returns no connection and leaves the handler exactly as it was; an open
   request that nobody listens for is refused with not-acceptable. *)
Theorem C15_open_only_if_accepted :
  (forall r, open_succeeds r = true -> r = OpenResult) /\
  (forall h sid bs, h_step h (EOpenLocal sid bs false) = (h, OOpen false)) /\
  (forall h sid bs, h_step h (EOpenRemote sid bs false) = (h, OReply (RErr NotAcceptable))).
Proof. exact open_only_if_accepted. Qed.
Print Assumptions C15_open_only_if_accepted.

(* ---------------------------------------------------------------------- *)
(* the sender: every payload, write partition, flush placement, block size  *)
(* ---------------------------------------------------------------------- *)

(* The i-th data packet carries sequence number seq0 + i modulo 65536. *)
Theorem C15_packets_consecutive : forall bs seq0 ops i p,
  (seq0 < 65536)%N ->
  nth_error (sender bs seq0 ops) i = Some p ->
  p_seq p = ((seq0 + N.of_nat i) mod 65536)%N.
Proof. exact packets_consecutive. Qed.
Print Assumptions C15_packets_consecutive.

(* Every packet decodes on its own, and the packets decoded one by one and
   concatenated are exactly the bytes written (Close included: nothing stays
   behind in the bufio layer or in the encoder). *)
Theorem C15_packets_carry_written : forall bs seq0 ops,
  Forall (fun p => exists d, decode_go (p_data p) = Some d) (sender bs seq0 ops) /\
  decode_go_pieces (map p_data (sender bs seq0 ops)) = Some (written ops).
Proof. exact packets_decodable_and_carry_written. Qed.
Print Assumptions C15_packets_carry_written.

(* ---------------------------------------------------------------------- *)
(* the pipe                                                                *)
(* ---------------------------------------------------------------------- *)

(* Stream integrity for every connection and every history of a handler,
   session identifiers reused at will: the bytes read from a connection,
   followed by what is buffered for it, are exactly the bytes of the data
   packets accepted while it was the connection registered under their
   identifier - once, in order, unmodified. *)
Theorem C15_stream_integrity : forall es h' os id c',
  h_run h_empty es = (h', os) -> get h' id = Some c' ->
  reads_of id es os ++ rc_buf c' = concat (map payload_of (accepted_to id h_empty es)).
Proof. exact stream_integrity. Qed.
Print Assumptions C15_stream_integrity.

(* Whatever else happens on the handler - reads of any size at any time, bad
   packets, other streams, older and newer streams under the same identifier,
   redundant Close calls, buffer limits - if the packets accepted for a
   connection are those of a sender, what the application has read followed by
   what is still buffered is exactly the bytes written. *)
Theorem C15_pipe_any_interleaving : forall es h' os id c' bs seq0 ops,
  h_run h_empty es = (h', os) -> get h' id = Some c' ->
  accepted_to id h_empty es = sender bs seq0 ops ->
  reads_of id es os ++ rc_buf c' = written ops.
Proof. exact pipe_any_interleaving. Qed.
Print Assumptions C15_pipe_any_interleaving.

(* Delivered in order to the connection registered under the identifier, which
   has room by the receiver's own estimate (or no limit), all packets of a
   sender are accepted - on either carrier - the buffer grows by exactly the
   bytes written, and no other connection is touched. *)
Theorem C15_pipe_delivers_exactly : forall bs ops h iq sid id c,
  lookup h sid = Some (id, c) -> rc_rclosed c = false ->
  has_room c (map p_data (sender bs (rc_seq c) ops)) ->
  exists h' c',
    h_run h (deliver iq sid (sender bs (rc_seq c) ops)) =
      (h', repeat (OReply (if iq then RAck else RSilent)) (length (sender bs (rc_seq c) ops))) /\
    lookup h' sid = Some (id, c') /\ rc_buf c' = rc_buf c ++ written ops /\ rc_rclosed c' = false /\
    (forall j, j <> id -> get h' j = get h j).
Proof. exact pipe_delivers_exactly_room. Qed.
Print Assumptions C15_pipe_delivers_exactly.

(* The receiver's estimate exceeds the bytes written by at most two per packet. *)
Theorem C15_room_estimate : forall bs seq0 ops,
  cap_need (map p_data (sender bs seq0 ops)) <= length (written ops) + 2 * length (sender bs seq0 ops).
Proof. exact sender_cap_need. Qed.
Print Assumptions C15_room_estimate.

(* ---------------------------------------------------------------------- *)
(* bad packets                                                             *)
(* ---------------------------------------------------------------------- *)

(* Unknown or closed session: item-not-found; out of sequence:
   unexpected-request; over the buffer limit: resource-constraint;
   undecodable: bad-request - and in each case the handler's state is exactly
   what it was. *)
Theorem C15_bad_packets_refused : forall h iq sid seq data,
  (lookup h sid = None -> handle_payload h iq sid seq data = (h, RErr ItemNotFound)) /\
  (forall id c, lookup h sid = Some (id, c) ->
     (rc_rclosed c = true -> handle_payload h iq sid seq data = (h, RErr ItemNotFound)) /\
     (rc_rclosed c = false -> seq <> rc_seq c ->
        handle_payload h iq sid seq data = (h, RErr UnexpectedRequest)) /\
     (rc_rclosed c = false -> seq = rc_seq c -> fits c data = false ->
        handle_payload h iq sid seq data = (h, RErr ResourceConstraint)) /\
     (rc_rclosed c = false -> seq = rc_seq c -> fits c data = true -> decode_go data = None ->
        handle_payload h iq sid seq data = (h, RErr BadRequest))).
Proof. exact bad_packets_refused. Qed.
Print Assumptions C15_bad_packets_refused.

(* Any error reply whatsoever means nothing changed. *)
Theorem C15_refused_leaves_state : forall h iq sid seq data h' e,
  handle_payload h iq sid seq data = (h', RErr e) -> h' = h.
Proof. exact refused_leaves_state. Qed.
Print Assumptions C15_refused_leaves_state.

(* A packet with none of the four defects is accepted (acknowledged on the iq
   carrier, silently on the message carrier), appended to the connection
   registered under the identifier and to no other. *)
Theorem C15_good_packet_accepted : forall h iq sid seq data id c d,
  lookup h sid = Some (id, c) -> rc_rclosed c = false -> seq = rc_seq c -> fits c data = true ->
  decode_go data = Some d ->
  handle_payload h iq sid seq data =
    (upd h id (fun _ => accept_data c seq data d), if iq then RAck else RSilent) /\
  buf_of (fst (handle_payload h iq sid seq data)) id = rc_buf c ++ d /\
  (forall j, j <> id -> get (fst (handle_payload h iq sid seq data)) j = get h j) /\
  lookup (fst (handle_payload h iq sid seq data)) sid = Some (id, accept_data c seq data d).
Proof. exact good_packet_accepted. Qed.
Print Assumptions C15_good_packet_accepted.

(* Nothing was ever opened: data and close requests are refused. *)
Theorem C15_unopened_is_unknown : forall iq sid seq data,
  h_step h_empty (EData iq sid seq data) = (h_empty, OReply (RErr ItemNotFound)) /\
  h_step h_empty (ECloseRemote sid) = (h_empty, OReply (RErr ItemNotFound)).
Proof. exact unopened_is_unknown. Qed.
Print Assumptions C15_unopened_is_unknown.

(* ---------------------------------------------------------------------- *)
(* session identifiers are reused                                           *)
(* ---------------------------------------------------------------------- *)

(* Opening under an identifier - fresh, in use, or used before - registers the
   new connection under it; every existing connection stays what it is. *)
Theorem C15_open_registers_new : forall h sid bs,
  lookup (add_conn h sid bs) sid = Some (length (h_conns h), new_conn sid bs) /\
  (forall id c, get h id = Some c -> get (add_conn h sid bs) id = Some c).
Proof. exact open_registers_new. Qed.
Print Assumptions C15_open_registers_new.

(* Close on one connection never changes which connection is registered under
   an identifier when that is another connection - in particular a newer
   stream under the same identifier survives the Close of an older one. *)
Theorem C15_old_close_keeps_new_stream : forall h id sid j c,
  lookup h sid = Some (j, c) -> j <> id ->
  lookup (fst (h_step h (ECloseLocal id))) sid = Some (j, c) /\
  snd (h_step h (ECloseLocal id)) = ONone.
Proof. exact old_close_keeps_new_stream. Qed.
Print Assumptions C15_old_close_keeps_new_stream.

(* A second Close on a closed connection does nothing at all. *)
Theorem C15_redundant_close_is_noop : forall h id c,
  get h id = Some c -> rc_rclosed c = true -> h_step h (ECloseLocal id) = (h, ONone).
Proof. exact redundant_close_is_noop. Qed.
Print Assumptions C15_redundant_close_is_noop.

(* After every history the connection registered under an identifier carries
   that identifier and is open: packets never reach a closed connection. *)
Theorem C15_registered_is_open : forall es h os sid id c,
  h_run h_empty es = (h, os) -> lookup h sid = Some (id, c) ->
  rc_sid c = sid /\ rc_rclosed c = false.
Proof. exact registered_is_open. Qed.
Print Assumptions C15_registered_is_open.

(* A closed connection stays closed and never receives another packet,
   whatever happens later - reopening under its identifier included. *)
Theorem C15_closed_conn_is_frozen : forall es h h' os id c,
  inv h -> h_run h es = (h', os) -> get h id = Some c -> rc_rclosed c = true ->
  exists c', get h' id = Some c' /\ rc_rclosed c' = true /\ rc_pk c' = rc_pk c /\ rc_sid c' = rc_sid c.
Proof. exact closed_conn_is_frozen. Qed.
Print Assumptions C15_closed_conn_is_frozen.

(* every handler reachable from the empty one satisfies the invariant used above *)
Theorem C15_inv_reachable : forall es h os, h_run h_empty es = (h, os) -> inv h.
Proof. exact (fun es h os => inv_run es h_empty h os inv_empty). Qed.
Print Assumptions C15_inv_reachable.

(* ---------------------------------------------------------------------- *)
(* close                                                                   *)
(* ---------------------------------------------------------------------- *)

(* A close request for a registered stream is acknowledged; from then on every
   data packet for the identifier is refused with item-not-found and changes
   nothing; the application reads what was buffered, in non-empty pieces, and
   then end-of-file. *)
Theorem C15_close_then_drain : forall h sid id c n,
  0 < n -> lookup h sid = Some (id, c) -> rc_sid c = sid ->
  let h1 := fst (h_step h (ECloseRemote sid)) in
  snd (h_step h (ECloseRemote sid)) = OReply RAck /\
  (forall iq seq data, handle_payload h1 iq sid seq data = (h1, RErr ItemNotFound)) /\
  exists k h' pre,
    h_run h1 (repeat (ERead id n) (S k)) = (h', pre ++ [ORead [] true]) /\
    Forall (fun o => exists d, o = ORead d false /\ d <> []) pre /\
    reads_of id (repeat (ERead id n) (S k)) (pre ++ [ORead [] true]) = rc_buf c.
Proof. exact close_then_drain. Qed.
Print Assumptions C15_close_then_drain.

(* The same for the application's own Close: afterwards the connection is not
   registered under its identifier any more, and its reader drains the buffer
   and then reads end-of-file. *)
Theorem C15_local_close_then_drain : forall h id c n,
  0 < n -> get h id = Some c -> rc_rclosed c = false ->
  let h1 := fst (h_step h (ECloseLocal id)) in
  (forall sid j cj, lookup h1 sid = Some (j, cj) -> j <> id \/ rc_sid c <> sid) /\
  exists k h' pre,
    h_run h1 (repeat (ERead id n) (S k)) = (h', pre ++ [ORead [] true]) /\
    Forall (fun o => exists d, o = ORead d false /\ d <> []) pre /\
    reads_of id (repeat (ERead id n) (S k)) (pre ++ [ORead [] true]) = rc_buf c.
Proof. exact local_close_then_drain. Qed.
Print Assumptions C15_local_close_then_drain.

(* The peer's close request is always answered: for every state of a registered
   stream - after every history, including one in which a data packet of the
   local writer was refused and its error is still pending in the buffered
   writer - the request is acknowledged, the stream is deregistered and what
   was buffered for the reader is untouched. *)
Theorem C15_peer_close_always_answered : forall h sid id c,
  lookup h sid = Some (id, c) ->
  h_step h (ECloseRemote sid) = (close_conn h id, OReply RAck) /\
  get (close_conn h id) id = Some (set_rclosed c) /\
  buf_of (close_conn h id) id = rc_buf c /\
  (rc_sid c = sid -> lookup (close_conn h id) sid = None).
Proof. exact peer_close_always_answered. Qed.
Print Assumptions C15_peer_close_always_answered.

Theorem C15_peer_close_answered_after_any_history : forall es h os sid id c,
  h_run h_empty es = (h, os) -> lookup h sid = Some (id, c) ->
  snd (h_step h (ECloseRemote sid)) = OReply RAck /\
  lookup (fst (h_step h (ECloseRemote sid))) sid = None.
Proof. exact peer_close_answered_after_any_history. Qed.
Print Assumptions C15_peer_close_answered_after_any_history.

(* A refused data packet is the local writer's business: that Write/Flush
   fails, every later one fails too and sends nothing, the table and the read
   side are unchanged. *)
Theorem C15_refused_write_sticks : forall h id c,
  get h id = Some c -> rc_rclosed c = false -> rc_werr c = false ->
  let h1 := upd h id set_werr in
  h_step h (EWrite id false) = (h1, OWrite false) /\
  (forall acc, h_step h1 (EWrite id acc) = (h1, OWrite false)) /\
  (forall j, buf_of h1 j = buf_of h j) /\
  h_tbl h1 = h_tbl h.
Proof. exact refused_write_sticks. Qed.
Print Assumptions C15_refused_write_sticks.

(* ---------------------------------------------------------------------- *)
(* reader / serve loop / close: every schedule                              *)
(* ---------------------------------------------------------------------- *)

(* No lost wake-up. After every schedule: a reader blocked in its wait has
   nothing to read and the stream is open; a reader that has found the buffer
   empty and not yet started to wait gets through as soon as there is data or
   the stream was closed. *)
Theorem C15_reader_no_lost_wakeup : forall tr s,
  lrun l_init tr = Some s ->
  (reader_blocked s = true -> l_buf s = [] /\ l_closed s = false) /\
  (forall n, l_pc s = PChecked n -> l_buf s <> [] \/ l_closed s = true ->
     exists s' b, lstep s LWait = Some s' /\ l_pc s' = PWoken n b).
Proof. exact reader_no_lost_wakeup. Qed.
Print Assumptions C15_reader_no_lost_wakeup.

(* The wake-up does not depend on the carrier: an accepted packet in an iq or
   in a message hands the signal to a reader blocked in the receive, and queues
   it for a reader that has found the buffer empty and not yet started to wait. *)
Theorem C15_deliver_wakes_reader_on_either_carrier : forall s iq d n,
  l_closed s = false ->
  (l_pc s = PRecv n ->
     exists s', lstep s (LDeliver iq d) = Some s' /\ l_pc s' = PWoken n true /\ l_buf s' = l_buf s ++ d /\
                hd_error (l_log s') = Some (accepted_obs iq)) /\
  (l_pc s = PChecked n ->
     exists s', lstep s (LDeliver iq d) = Some s' /\ l_pc s' = PChecked n /\ l_tok s' = true /\
                l_buf s' = l_buf s ++ d /\ hd_error (l_log s') = Some (accepted_obs iq)).
Proof. exact deliver_wakes_reader. Qed.
Print Assumptions C15_deliver_wakes_reader_on_either_carrier.

(* Progress: in every reachable state with data buffered, the reader's own
   steps alone (at most: leave the yield point, lock, read) make Read return
   a non-empty prefix of the buffer. *)
Theorem C15_reader_gets_buffered_data : forall tr s,
  lrun l_init tr = Some s -> l_buf s <> [] ->
  exists tr' s' d,
    lrun s tr' = Some s' /\ Forall reader_label tr' /\
    hd_error (l_log s') = Some (BReturned d false) /\ d <> [] /\
    l_buf s = d ++ l_buf s' /\ l_read s' = l_read s ++ d.
Proof. exact reader_gets_buffered_data. Qed.
Print Assumptions C15_reader_gets_buffered_data.

(* Read returns end-of-file only after the close and only when everything that
   was delivered has been read. *)
Theorem C15_eof_only_after_close : forall tr s l d,
  lrun l_init tr = Some s ->
  step_obs s l = Some (BReturned d true) ->
  d = [] /\ l_closed s = true /\ l_buf s = [] /\ l_read s = l_delivered s.
Proof. exact eof_only_after_close. Qed.
Print Assumptions C15_eof_only_after_close.

(* After the close, from every reachable state, the reader's own steps alone
   read everything that was delivered and then end-of-file. *)
Theorem C15_reader_drains_after_close : forall tr s,
  lrun l_init tr = Some s -> l_closed s = true ->
  exists tr' s', lrun s tr' = Some s' /\ Forall reader_label tr' /\
    l_closed s' = true /\ l_delivered s' = l_delivered s /\ l_read s' = l_delivered s /\
    l_buf s' = [] /\ l_pc s' = PIdle /\ hd_error (l_log s') = Some (BReturned [] true).
Proof. exact reader_drains_after_close. Qed.
Print Assumptions C15_reader_drains_after_close.

(* In every schedule what has been read followed by the buffer is what was
   delivered; a read without end-of-file returns a non-empty prefix of the
   buffer. *)
Theorem C15_reads_in_order : forall tr s,
  lrun l_init tr = Some s ->
  l_read s ++ l_buf s = l_delivered s /\
  (forall l d, step_obs s l = Some (BReturned d false) -> d <> [] /\ exists rest, l_buf s = d ++ rest).
Proof. exact reads_in_order. Qed.
Print Assumptions C15_reads_in_order.

(* After the close nothing is delivered any more. *)
Theorem C15_closed_refuses : forall s iq d s',
  l_closed s = true -> lstep s (LDeliver iq d) = Some s' ->
  l_buf s' = l_buf s /\ l_delivered s' = l_delivered s /\ hd_error (l_log s') = Some BRefused.
Proof. exact closed_refuses. Qed.
Print Assumptions C15_closed_refuses.

(* ---------------------------------------------------------------------- *)
(* the pinned tree's design (before the fix: commits), for the record       *)
(* ---------------------------------------------------------------------- *)

(* open() returned a connection for an error reply *)
Theorem C15_pinned_open_refuted : exists r, open_succeeds_pinned r = true /\ r <> OpenResult.
Proof. exact pinned_open_ignores_refusal. Qed.
Print Assumptions C15_pinned_open_refuted.

(* a packet refused with bad-request left its decoded prefix behind and used
   up its sequence number *)
Theorem C15_pinned_refusal_refuted :
  exists c iq seq data c',
    payload_conn_pinned c iq seq data = (c', RErr BadRequest) /\
    rc_buf c' <> rc_buf c /\ rc_seq c' <> rc_seq c.
Proof. exact pinned_refusal_disturbs. Qed.
Print Assumptions C15_pinned_refusal_refuted.

(* a reader blocked for ever with data in its buffer *)
Theorem C15_pinned_lost_wakeup_refuted :
  exists tr s, lrun_pinned l_init tr = Some s /\ reader_blocked s = true /\ l_buf s <> [].
Proof. exact pinned_lost_wakeup. Qed.
Print Assumptions C15_pinned_lost_wakeup_refuted.

(* end-of-file on an open stream (woken by an empty data packet) *)
Theorem C15_pinned_eof_before_close_refuted :
  exists tr s, lrun_pinned l_init tr = Some s /\
               hd_error (l_log s) = Some (BReturned [] true) /\ l_closed s = false.
Proof. exact pinned_eof_before_close. Qed.
Print Assumptions C15_pinned_eof_before_close_refuted.

(* main before fix "a peer's close request is answered whatever the writer's
   state": the stale error of the buffered writer escaped from the close
   handler, Serve ended and the request stayed unanswered *)
Theorem C15_stale_close_unanswered_refuted :
  exists c, rc_werr c = true /\ rc_rclosed c = false /\ close_remote_reply_stale c = None.
Proof. exact stale_write_error_left_close_unanswered. Qed.
Print Assumptions C15_stale_close_unanswered_refuted.

(* main before fix "closing a stream does not unregister a newer stream with
   the same session ID": the unguarded rmStream removed the newer stream *)
Theorem C15_unguarded_rmstream_refuted :
  exists t sid id j, tbl_find t sid = Some j /\ j <> id /\ tbl_find (tbl_rm_unguarded t sid id) sid = None /\
                     tbl_find (tbl_rm t sid id) sid = Some j.
Proof. exact unguarded_rm_unregisters_new_stream. Qed.
Print Assumptions C15_unguarded_rmstream_refuted.
