(* C15/Proofs.v — lemmas about the model of mellium.im/xmpp/ibb. *)
From Coq Require Import ZArith ZifyBool ZifyNat ZifyN.
From XV Require Import lib.Bytes lib.Base64 lib.Lts gen.Ibb C15.Model.

(* ===================================================================== *)
(* 0. tables regenerated from the source                                  *)
(* ===================================================================== *)

Lemma tbl_block_size_is_uint16 : (0 < ibb_block_size < 65536)%N.
Proof. vm_compute. split; reflexivity. Qed.

(* newConn doubles the limit when it is below the block size: with a 16 bit
   block size that never happens for the default limit *)
Lemma tbl_max_buffer_above_any_block : (65535 < ibb_max_buffer)%N.
Proof. vm_compute. reflexivity. Qed.

Lemma tbl_ns : ibb_ns = str "http://jabber.org/protocol/ibb".
Proof. vm_compute. reflexivity. Qed.

(* ===================================================================== *)
(* 1. sender                                                              *)
(* ===================================================================== *)

(* Everything the layers hand downstream is "encode of a chunk"; what matters
   is that the chunks, followed by what is still held back, are the input. *)

Lemma firstn_skipn_app {A} (n : nat) (l : list A) : firstn n l ++ skipn n l = l.
Proof. apply firstn_skipn. Qed.

Lemma bufio_write_spec : forall bs buf p chunks buf',
  bufio_write bs buf p = (chunks, buf') -> buf ++ p = concat chunks ++ buf'.
Proof.
  intros bs buf p chunks buf' H. unfold bufio_write in H.
  destruct (length p <=? bs - length buf) eqn:E1.
  - injection H as <- <-. reflexivity.
  - destruct buf as [|b0 buf0] eqn:Eb.
    + injection H as <- <-. cbn. rewrite !app_nil_r. reflexivity.
    + rewrite <- Eb in *.
      destruct (length (skipn (bs - length buf) p) <=? bs) eqn:E2; injection H as <- <-; cbn [concat].
      * rewrite app_nil_r, <- app_assoc, firstn_skipn. reflexivity.
      * rewrite !app_nil_r, <- app_assoc, firstn_skipn. reflexivity.
Qed.

Lemma bufio_flush_spec : forall buf chunks buf',
  bufio_flush buf = (chunks, buf') -> buf = concat chunks ++ buf' /\ buf' = [].
Proof.
  intros buf chunks buf' H. unfold bufio_flush in H. destruct buf as [|b0 r].
  - injection H as <- <-. split; reflexivity.
  - injection H as <- <-. cbn. rewrite !app_nil_r. split; reflexivity.
Qed.

(* bufio never holds more than its size *)
Lemma bufio_write_bound : forall bs buf p chunks buf',
  length buf <= bs -> bufio_write bs buf p = (chunks, buf') -> length buf' <= bs.
Proof.
  intros bs buf p chunks buf' Hb H. unfold bufio_write in H.
  destruct (length p <=? bs - length buf) eqn:E1.
  - injection H as <- <-. rewrite app_length. apply Nat.leb_le in E1. lia.
  - destruct buf as [|b0 buf0] eqn:Eb.
    + injection H as <- <-. cbn. lia.
    + rewrite <- Eb in *.
      destruct (length (skipn (bs - length buf) p) <=? bs) eqn:E2; injection H as <- <-.
      * apply Nat.leb_le in E2. exact E2.
      * cbn. lia.
Qed.

Lemma enc_interior_spec : forall fuel p out fr,
  enc_interior fuel p = (out, fr) ->
  exists chunks, out = map encode chunks /\ p = concat chunks ++ fr.
Proof.
  induction fuel as [|f IH]; intros p out fr H; cbn [enc_interior] in H.
  - injection H as <- <-. exists []. split; reflexivity.
  - destruct (length p <? 3) eqn:E.
    + injection H as <- <-. exists []. split; reflexivity.
    + destruct (enc_interior f (skipn (Nat.min 768 (length p - length p mod 3)) p)) as [o2 fr2] eqn:E2.
      injection H as <- <-.
      destruct (IH _ _ _ E2) as [chunks [Ho Hp]].
      exists (firstn (Nat.min 768 (length p - length p mod 3)) p :: chunks). split.
      * cbn [map]. rewrite Ho. reflexivity.
      * cbn [concat]. rewrite <- app_assoc, <- Hp, firstn_skipn. reflexivity.
Qed.

(* with the fuel the model passes the loop runs to completion: fewer than
   three bytes are held back *)
Lemma enc_interior_fringe : forall fuel p,
  length p <= fuel -> length (snd (enc_interior fuel p)) < 3.
Proof.
  induction fuel as [|f IH]; intros p Hl; cbn [enc_interior].
  - destruct p; cbn in *; lia.
  - destruct (length p <? 3) eqn:E.
    + cbn. apply Nat.ltb_lt in E. exact E.
    + apply Nat.ltb_ge in E.
      destruct (enc_interior f (skipn (Nat.min 768 (length p - length p mod 3)) p)) as [o2 fr2] eqn:E2.
      cbn [snd]. change fr2 with (snd (o2, fr2)). rewrite <- E2. apply IH.
      rewrite skipn_length.
      assert (Hm : length p mod 3 < 3) by (apply Nat.mod_upper_bound; lia).
      lia.
Qed.

Lemma enc_write_spec : forall fr p out fr',
  enc_write fr p = (out, fr') ->
  exists chunks, out = map encode chunks /\ fr ++ p = concat chunks ++ fr'.
Proof.
  intros fr p out fr' H. unfold enc_write in H. destruct fr as [|f0 fr0] eqn:Ef.
  - apply enc_interior_spec in H. exact H.
  - rewrite <- Ef in *.
    set (i := Nat.min (length p) (3 - length fr)) in *.
    destruct (length (fr ++ firstn i p) <? 3) eqn:E.
    + injection H as <- <-. exists []. split; [reflexivity|].
      cbn [concat app].
      assert (Hi : i = length p).
      { apply Nat.ltb_lt in E. rewrite app_length, firstn_length in E. unfold i in *. lia. }
      rewrite Hi, firstn_all. reflexivity.
    + destruct (enc_interior (length p) (skipn i p)) as [o2 fr2] eqn:E2.
      injection H as <- <-.
      destruct (enc_interior_spec _ _ _ _ E2) as [chunks [Ho Hp]].
      exists ((fr ++ firstn i p) :: chunks). split.
      * cbn [map]. rewrite Ho. reflexivity.
      * cbn [concat]. rewrite <- !app_assoc. f_equal. rewrite <- Hp, firstn_skipn. reflexivity.
Qed.

Lemma enc_feed_spec : forall chunks_in fr out fr',
  enc_feed fr chunks_in = (out, fr') ->
  exists chunks, out = map encode chunks /\ fr ++ concat chunks_in = concat chunks ++ fr'.
Proof.
  induction chunks_in as [|c rest IH]; intros fr out fr' H; cbn [enc_feed] in H.
  - injection H as <- <-. exists []. cbn. rewrite app_nil_r. split; reflexivity.
  - destruct (enc_write fr c) as [o1 fr1] eqn:E1.
    destruct (enc_feed fr1 rest) as [o2 fr2] eqn:E2.
    injection H as <- <-.
    destruct (enc_write_spec _ _ _ _ E1) as [ch1 [Ho1 Hp1]].
    destruct (IH _ _ _ E2) as [ch2 [Ho2 Hp2]].
    exists (ch1 ++ ch2). split.
    + rewrite map_app, Ho1, Ho2. reflexivity.
    + cbn [concat]. rewrite concat_app, app_assoc, Hp1, <- !app_assoc. f_equal. exact Hp2.
Qed.

Definition op_bytes (op : wop) : bytes := match op with WWrite b => b | WFlush => [] end.

Lemma s_step_spec : forall bs st op out st',
  s_step bs st op = (out, st') ->
  exists chunks, out = map encode chunks /\
    s_fr st ++ s_buf st ++ op_bytes op = concat chunks ++ s_fr st' ++ s_buf st'.
Proof.
  intros bs st op out st' H. unfold s_step in H.
  destruct (match op with WWrite p => bufio_write bs (s_buf st) p | WFlush => bufio_flush (s_buf st) end)
    as [chunks_in buf'] eqn:Eb.
  destruct (enc_feed (s_fr st) chunks_in) as [o fr'] eqn:Ee.
  injection H as <- <-. cbn [s_fr s_buf].
  destruct (enc_feed_spec _ _ _ _ Ee) as [chunks [Ho Hp]].
  exists chunks. split; [exact Ho|].
  assert (Hb : s_buf st ++ op_bytes op = concat chunks_in ++ buf').
  { destruct op as [p|]; cbn [op_bytes].
    - apply bufio_write_spec in Eb. exact Eb.
    - apply bufio_flush_spec in Eb. destruct Eb as [Eb _]. rewrite app_nil_r. exact Eb. }
  rewrite Hb, !app_assoc. f_equal. rewrite <- Hp. reflexivity.
Qed.

Lemma s_run_spec : forall bs ops st out st',
  s_run bs st ops = (out, st') ->
  exists chunks, out = map encode chunks /\
    s_fr st ++ s_buf st ++ written ops = concat chunks ++ s_fr st' ++ s_buf st'.
Proof.
  induction ops as [|op rest IH]; intros st out st' H; cbn [s_run] in H.
  - injection H as <- <-. exists []. split; [reflexivity|]. cbn. rewrite app_nil_r. reflexivity.
  - destruct (s_step bs st op) as [o1 st1] eqn:E1.
    destruct (s_run bs st1 rest) as [o2 st2] eqn:E2.
    injection H as <- <-.
    destruct (s_step_spec _ _ _ _ _ E1) as [ch1 [Ho1 Hp1]].
    destruct (IH _ _ _ E2) as [ch2 [Ho2 Hp2]].
    exists (ch1 ++ ch2). split.
    + rewrite map_app, Ho1, Ho2. reflexivity.
    + unfold written. cbn [map concat]. fold (written rest). fold (op_bytes op).
      rewrite concat_app.
      replace (s_fr st ++ s_buf st ++ op_bytes op ++ written rest)
        with ((s_fr st ++ s_buf st ++ op_bytes op) ++ written rest) by (rewrite <- !app_assoc; reflexivity).
      rewrite Hp1, <- !app_assoc. f_equal. rewrite <- Hp2. reflexivity.
Qed.

Lemma s_close_spec : forall st,
  exists chunks, s_close st = map encode chunks /\ s_fr st ++ s_buf st = concat chunks.
Proof.
  intros st. unfold s_close.
  destruct (bufio_flush (s_buf st)) as [chunks_in buf'] eqn:Eb.
  destruct (enc_feed (s_fr st) chunks_in) as [o fr'] eqn:Ee.
  destruct (enc_feed_spec _ _ _ _ Ee) as [chunks [Ho Hp]].
  apply bufio_flush_spec in Eb. destruct Eb as [Eb Eb'].
  unfold enc_close. destruct fr' as [|f0 fr0] eqn:Ef.
  - exists chunks. split; [rewrite app_nil_r; exact Ho|].
    rewrite Eb, Eb', app_nil_r, Hp, app_nil_r. reflexivity.
  - exists (chunks ++ [fr']). rewrite <- Ef. split.
    + rewrite map_app, Ho. reflexivity.
    + rewrite concat_app. cbn [concat]. rewrite app_nil_r, Eb, Eb', app_nil_r, Hp, Ef. reflexivity.
Qed.

(* the pieces of a whole transfer are encodings of chunks of what was written *)
Theorem sender_pieces_spec : forall bs ops,
  exists chunks, sender_pieces bs ops = map encode chunks /\ concat chunks = written ops.
Proof.
  intros bs ops. unfold sender_pieces.
  destruct (s_run bs s_init ops) as [o st] eqn:E.
  destruct (s_run_spec _ _ _ _ _ E) as [ch1 [Ho1 Hp1]].
  destruct (s_close_spec st) as [ch2 [Ho2 Hp2]].
  exists (ch1 ++ ch2). split.
  - rewrite map_app, Ho1, Ho2. reflexivity.
  - rewrite concat_app, <- Hp2. cbn [s_init s_fr s_buf app] in Hp1. rewrite Hp1. reflexivity.
Qed.

Lemma number_data : forall pieces seq, map p_data (number seq pieces) = pieces.
Proof.
  induction pieces as [|d rest IH]; intro seq; cbn [number map p_data]; [reflexivity|].
  rewrite IH. reflexivity.
Qed.

Lemma number_length : forall pieces seq, length (number seq pieces) = length pieces.
Proof.
  induction pieces as [|d rest IH]; intro seq; cbn [number length]; [reflexivity|].
  rewrite IH. reflexivity.
Qed.

Lemma seq_next_lt : forall s, (seq_next s < 65536)%N.
Proof. intro s. unfold seq_next. apply N.mod_lt. discriminate. Qed.

Lemma number_seq : forall pieces seq i p,
  (seq < 65536)%N ->
  nth_error (number seq pieces) i = Some p ->
  p_seq p = ((seq + N.of_nat i) mod 65536)%N.
Proof.
  induction pieces as [|d rest IH]; intros seq i p Hs H; cbn [number] in H.
  - destruct i; discriminate.
  - destruct i as [|i]; cbn [nth_error] in H.
    + injection H as <-. cbn [p_seq]. rewrite N.add_0_r, N.mod_small by exact Hs. reflexivity.
    + rewrite (IH _ _ _ (seq_next_lt seq) H). unfold seq_next.
      rewrite N.add_mod_idemp_l by discriminate. f_equal. lia.
Qed.

(* packets are numbered consecutively modulo 65536 from the first number *)
Theorem packets_consecutive : forall bs seq0 ops i p,
  (seq0 < 65536)%N ->
  nth_error (sender bs seq0 ops) i = Some p ->
  p_seq p = ((seq0 + N.of_nat i) mod 65536)%N.
Proof. intros bs seq0 ops i p Hs H. unfold sender in H. exact (number_seq _ _ _ _ Hs H). Qed.

(* decoding every piece the way the receiver does *)
Fixpoint decode_go_pieces (ps : list bytes) : option bytes :=
  match ps with
  | [] => Some []
  | p :: rest =>
      match decode_go p, decode_go_pieces rest with
      | Some a, Some b => Some (a ++ b)
      | _, _ => None
      end
  end.

Lemma decode_go_pieces_encode : forall chunks, decode_go_pieces (map encode chunks) = Some (concat chunks).
Proof.
  induction chunks as [|c rest IH]; [reflexivity|].
  cbn [map decode_go_pieces concat]. rewrite decode_go_encode, IH. reflexivity.
Qed.

(* every packet decodes on its own, and together they carry exactly the bytes
   written, in order *)
Theorem packets_carry_written : forall bs seq0 ops,
  decode_go_pieces (map p_data (sender bs seq0 ops)) = Some (written ops).
Proof.
  intros bs seq0 ops. unfold sender. rewrite number_data.
  destruct (sender_pieces_spec bs ops) as [chunks [Hp Hc]].
  rewrite Hp, decode_go_pieces_encode, Hc. reflexivity.
Qed.

Lemma decode_go_pieces_each : forall ps b,
  decode_go_pieces ps = Some b -> Forall (fun p => exists d, decode_go p = Some d) ps.
Proof.
  induction ps as [|p rest IH]; intros b H; [constructor|].
  cbn [decode_go_pieces] in H.
  destruct (decode_go p) as [a|] eqn:Ea; [|discriminate].
  destruct (decode_go_pieces rest) as [b'|] eqn:Eb; [|discriminate].
  constructor; [exists a; exact Ea|apply (IH b'); reflexivity].
Qed.

Theorem packets_each_decodable : forall bs seq0 ops,
  Forall (fun p => exists d, decode_go (p_data p) = Some d) (sender bs seq0 ops).
Proof.
  intros bs seq0 ops.
  pose proof (decode_go_pieces_each _ _ (packets_carry_written bs seq0 ops)) as H.
  rewrite Forall_forall in *. intros p Hp. apply H. apply in_map. exact Hp.
Qed.

(* ===================================================================== *)
(* 2. receiver                                                            *)
(* ===================================================================== *)

Lemma payload_conn_refused : forall c iq seq data e,
  refusal c seq data = Some e -> payload_conn c iq seq data = (c, RErr e).
Proof.
  intros c iq seq data e H. unfold refusal in H. unfold payload_conn.
  destruct (rc_rclosed c); [injection H as <-; reflexivity|].
  destruct (negb (seq =? rc_seq c)%N); [injection H as <-; reflexivity|].
  destruct (negb (fits c data)); [injection H as <-; reflexivity|].
  destruct (decode_go data); [discriminate|injection H as <-; reflexivity].
Qed.

Lemma payload_conn_accepted : forall c iq seq data,
  refusal c seq data = None ->
  exists d, decode_go data = Some d /\
    payload_conn c iq seq data =
      (mkrc (rc_sid c) (rc_bs c) (seq_next (rc_seq c)) (rc_buf c ++ d) (rc_max c) (rc_registered c) (rc_rclosed c) (rc_werr c),
       if iq then RAck else RSilent).
Proof.
  intros c iq seq data H. unfold refusal in H. unfold payload_conn.
  destruct (rc_rclosed c); [discriminate|].
  destruct (negb (seq =? rc_seq c)%N); [discriminate|].
  destruct (negb (fits c data)); [discriminate|].
  destruct (decode_go data) as [d|]; [|discriminate].
  exists d. split; reflexivity.
Qed.

Lemma payload_conn_sid : forall c iq seq data, rc_sid (fst (payload_conn c iq seq data)) = rc_sid c.
Proof.
  intros c iq seq data. destruct (refusal c seq data) as [e|] eqn:E.
  - rewrite (payload_conn_refused _ iq _ _ _ E). reflexivity.
  - destruct (payload_conn_accepted _ iq _ _ E) as [d [_ ->]]. reflexivity.
Qed.

Lemma find_conn_sid : forall h sid c, find_conn h sid = Some c -> rc_sid c = sid.
Proof.
  induction h as [|c0 h IH]; intros sid c H; cbn [find_conn] in H; [discriminate|].
  destruct (bytes_eqb (rc_sid c0) sid) eqn:E.
  - injection H as <-. apply bytes_eqb_eq. exact E.
  - apply IH. exact H.
Qed.

Lemma bytes_eqb_refl : forall a, bytes_eqb a a = true.
Proof. intro a. apply bytes_eqb_eq. reflexivity. Qed.

Lemma bytes_eqb_false : forall a b, bytes_eqb a b = false <-> a <> b.
Proof.
  intros a b. split.
  - intros H E. apply bytes_eqb_eq in E. congruence.
  - intro H. destruct (bytes_eqb a b) eqn:E; [apply bytes_eqb_eq in E; contradiction|reflexivity].
Qed.

Lemma update_same : forall h sid c, find_conn h sid = Some c -> update h sid (fun _ => c) = h.
Proof.
  induction h as [|c0 h IH]; intros sid c H; cbn [find_conn update] in *; [reflexivity|].
  destruct (bytes_eqb (rc_sid c0) sid).
  - injection H as <-. reflexivity.
  - rewrite IH by exact H. reflexivity.
Qed.

(* updating the connection of s with a function that keeps its sid *)
Lemma find_conn_update : forall h s sid f,
  (forall c, find_conn h s = Some c -> rc_sid (f c) = rc_sid c) ->
  find_conn (update h s f) sid =
    if bytes_eqb s sid then option_map f (find_conn h sid) else find_conn h sid.
Proof.
  induction h as [|c0 h IH]; intros s sid f Hf; cbn [find_conn update].
  - destruct (bytes_eqb s sid); reflexivity.
  - destruct (bytes_eqb (rc_sid c0) s) eqn:E1.
    + cbn [find_conn]. rewrite Hf by (cbn [find_conn]; rewrite E1; reflexivity).
      apply bytes_eqb_eq in E1. rewrite E1.
      destruct (bytes_eqb s sid) eqn:E2; reflexivity.
    + cbn [find_conn].
      assert (Hf' : forall c, find_conn h s = Some c -> rc_sid (f c) = rc_sid c).
      { intros c Hc. apply Hf. cbn [find_conn]. rewrite E1. exact Hc. }
      destruct (bytes_eqb (rc_sid c0) sid) eqn:E3.
      * destruct (bytes_eqb s sid) eqn:E2; [|reflexivity].
        apply bytes_eqb_eq in E2. apply bytes_eqb_eq in E3. apply bytes_eqb_false in E1. congruence.
      * apply IH. exact Hf'.
Qed.

Lemma find_conn_app_new : forall h sid c,
  find_conn (h ++ [c]) sid =
    match find_conn h sid with Some c0 => Some c0 | None => if bytes_eqb (rc_sid c) sid then Some c else None end.
Proof.
  induction h as [|c0 h IH]; intros sid c; cbn [app find_conn].
  - destruct (bytes_eqb (rc_sid c) sid); reflexivity.
  - destruct (bytes_eqb (rc_sid c0) sid); [reflexivity|apply IH].
Qed.

Lemma buf_of_app_new : forall h sid s bs, buf_of (h ++ [new_conn s bs]) sid = buf_of h sid.
Proof.
  intros h sid s bs. unfold buf_of. rewrite find_conn_app_new.
  destruct (find_conn h sid); [reflexivity|].
  destruct (bytes_eqb (rc_sid (new_conn s bs)) sid); reflexivity.
Qed.

(* updates that keep the sid and the buffer do not change what is buffered *)
Lemma buf_of_update_keep : forall h s sid f,
  (forall c, rc_sid (f c) = rc_sid c) -> (forall c, rc_buf (f c) = rc_buf c) ->
  buf_of (update h s f) sid = buf_of h sid.
Proof.
  intros h s sid f Hs Hb. unfold buf_of. rewrite find_conn_update by (intros; apply Hs).
  destruct (bytes_eqb s sid); [|reflexivity].
  destruct (find_conn h sid) as [c|]; [cbn; apply Hb|reflexivity].
Qed.

(* handlePayload at the level of the handler *)
Lemma handle_payload_unknown : forall h iq sid seq data,
  lookup h sid = None -> handle_payload h iq sid seq data = (h, RErr ItemNotFound).
Proof. intros h iq sid seq data H. unfold handle_payload. rewrite H. reflexivity. Qed.

Lemma lookup_find : forall h sid c, lookup h sid = Some c -> find_conn h sid = Some c.
Proof.
  intros h sid c H. unfold lookup in H. destruct (find_conn h sid) as [c0|]; [|discriminate].
  destruct (rc_registered c0); [exact H|discriminate].
Qed.

Lemma handle_payload_refused : forall h iq sid seq data c e,
  lookup h sid = Some c -> refusal c seq data = Some e ->
  handle_payload h iq sid seq data = (h, RErr e).
Proof.
  intros h iq sid seq data c e Hl Hr. unfold handle_payload. rewrite Hl.
  rewrite (payload_conn_refused _ iq _ _ _ Hr).
  rewrite (update_same _ _ _ (lookup_find _ _ _ Hl)). reflexivity.
Qed.

Lemma handle_payload_accepted : forall h iq sid seq data c,
  lookup h sid = Some c -> refusal c seq data = None ->
  exists d, decode_go data = Some d /\
    handle_payload h iq sid seq data =
      (update h sid (fun _ => mkrc (rc_sid c) (rc_bs c) (seq_next (rc_seq c)) (rc_buf c ++ d) (rc_max c)
                                   (rc_registered c) (rc_rclosed c) (rc_werr c)),
       if iq then RAck else RSilent).
Proof.
  intros h iq sid seq data c Hl Hr. unfold handle_payload. rewrite Hl.
  destruct (payload_conn_accepted _ iq _ _ Hr) as [d [Hd ->]].
  exists d. split; [exact Hd|reflexivity].
Qed.

(* a refused packet changes nothing; the error is the one that corresponds to
   the first reason in the order unknown/closed, sequence, size, encoding *)
Theorem bad_packets_refused : forall h iq sid seq data,
  (lookup h sid = None -> handle_payload h iq sid seq data = (h, RErr ItemNotFound)) /\
  (forall c, lookup h sid = Some c ->
     (rc_rclosed c = true -> handle_payload h iq sid seq data = (h, RErr ItemNotFound)) /\
     (rc_rclosed c = false -> seq <> rc_seq c ->
        handle_payload h iq sid seq data = (h, RErr UnexpectedRequest)) /\
     (rc_rclosed c = false -> seq = rc_seq c -> fits c data = false ->
        handle_payload h iq sid seq data = (h, RErr ResourceConstraint)) /\
     (rc_rclosed c = false -> seq = rc_seq c -> fits c data = true -> decode_go data = None ->
        handle_payload h iq sid seq data = (h, RErr BadRequest))).
Proof.
  intros h iq sid seq data. split; [apply handle_payload_unknown|].
  intros c Hl. repeat split.
  - intro Hc. apply (handle_payload_refused _ _ _ _ _ c); [exact Hl|]. unfold refusal. rewrite Hc. reflexivity.
  - intros Hc Hs. apply (handle_payload_refused _ _ _ _ _ c); [exact Hl|]. unfold refusal. rewrite Hc.
    apply N.eqb_neq in Hs. rewrite Hs. reflexivity.
  - intros Hc Hs Hf. apply (handle_payload_refused _ _ _ _ _ c); [exact Hl|]. unfold refusal. rewrite Hc.
    apply N.eqb_eq in Hs. rewrite Hs, Hf. reflexivity.
  - intros Hc Hs Hf Hd. apply (handle_payload_refused _ _ _ _ _ c); [exact Hl|]. unfold refusal. rewrite Hc.
    apply N.eqb_eq in Hs. rewrite Hs, Hf, Hd. reflexivity.
Qed.

(* whatever the packet: an error reply means the handler is exactly as before *)
Theorem refused_leaves_state : forall h iq sid seq data h' e,
  handle_payload h iq sid seq data = (h', RErr e) -> h' = h.
Proof.
  intros h iq sid seq data h' e H.
  destruct (lookup h sid) as [c|] eqn:El.
  - destruct (refusal c seq data) as [e0|] eqn:Er.
    + rewrite (handle_payload_refused _ iq _ _ _ _ _ El Er) in H. injection H as <- _. reflexivity.
    + destruct (handle_payload_accepted _ iq _ _ _ _ El Er) as [d [_ Hh]]. rewrite Hh in H.
      destruct iq; discriminate.
  - rewrite (handle_payload_unknown _ iq _ seq data El) in H. injection H as <- _. reflexivity.
Qed.

(* a packet that has none of the four defects is accepted *)
Theorem good_packet_accepted : forall h iq sid seq data c d,
  lookup h sid = Some c -> rc_rclosed c = false -> seq = rc_seq c -> fits c data = true ->
  decode_go data = Some d ->
  snd (handle_payload h iq sid seq data) = (if iq then RAck else RSilent) /\
  buf_of (fst (handle_payload h iq sid seq data)) sid = rc_buf c ++ d.
Proof.
  intros h iq sid seq data c d Hl Hc Hs Hf Hd.
  assert (Hr : refusal c seq data = None).
  { unfold refusal. apply N.eqb_eq in Hs. rewrite Hc, Hs, Hf, Hd. reflexivity. }
  destruct (handle_payload_accepted _ iq _ _ _ _ Hl Hr) as [d' [Hd' Hh]].
  rewrite Hh. cbn [fst snd]. split; [reflexivity|].
  unfold buf_of. rewrite find_conn_update.
  - rewrite bytes_eqb_refl, (lookup_find _ _ _ Hl). cbn. congruence.
  - intros c0 Hc0. cbn [rc_sid]. rewrite (lookup_find _ _ _ Hl) in Hc0. congruence.
Qed.

(* ---- the stream invariant over arbitrary event traces ---- *)

Lemma h_step_stream : forall h e h1 o sid,
  h_step h e = (h1, o) ->
  reads_of sid [e] [o] ++ buf_of h1 sid = buf_of h sid ++ accepted_bytes sid [e] [o].
Proof.
  intros h e h1 o sid H. unfold accepted_bytes.
  destruct e as [s bs acc|s bs lst|iq s seq data|s n|s max|s wacc|s|s]; cbn [h_step] in H.
  - destruct acc; injection H as <- <-; cbn [reads_of accepted_packets map concat]; rewrite app_nil_r;
      [apply buf_of_app_new|reflexivity].
  - destruct lst; injection H as <- <-; cbn [reads_of accepted_packets map concat]; rewrite app_nil_r;
      [apply buf_of_app_new|reflexivity].
  - destruct (handle_payload h iq s seq data) as [h' r] eqn:Eh. injection H as <- <-.
    cbn [reads_of accepted_packets app].
    destruct (bytes_eqb s sid) eqn:Es.
    + apply bytes_eqb_eq in Es. subst s.
      destruct (lookup h sid) as [c|] eqn:El.
      * destruct (refusal c seq data) as [e0|] eqn:Er.
        -- rewrite (handle_payload_refused _ iq _ _ _ _ _ El Er) in Eh. injection Eh as <- <-.
           cbn [is_ack andb app map concat]. rewrite app_nil_r. reflexivity.
        -- destruct (handle_payload_accepted _ iq _ _ _ _ El Er) as [d [Hd Hh]]. rewrite Hh in Eh.
           injection Eh as <- <-.
           assert (Hack : is_ack (if iq then RAck else RSilent) = true) by (destruct iq; reflexivity).
           rewrite Hack. cbn [andb app map concat]. unfold payload_of. cbn [p_data]. rewrite Hd, !app_nil_r.
           unfold buf_of. rewrite find_conn_update.
           ++ rewrite bytes_eqb_refl, (lookup_find _ _ _ El). reflexivity.
           ++ intros c0 Hc0. cbn [rc_sid]. rewrite (lookup_find _ _ _ El) in Hc0. congruence.
      * rewrite (handle_payload_unknown _ iq _ seq data El) in Eh. injection Eh as <- <-.
        cbn [is_ack andb app map concat]. rewrite app_nil_r. reflexivity.
    + cbn [andb app map concat]. rewrite app_nil_r.
      unfold handle_payload in Eh. destruct (lookup h s) as [c|] eqn:El.
      * destruct (payload_conn c iq seq data) as [c' r'] eqn:Ep. injection Eh as <- <-.
        unfold buf_of. rewrite find_conn_update.
        -- rewrite Es. reflexivity.
        -- intros c0 Hc0. rewrite (lookup_find _ _ _ El) in Hc0. injection Hc0 as <-.
           pose proof (payload_conn_sid c iq seq data) as Hs. rewrite Ep in Hs. exact Hs.
      * injection Eh as <- <-. reflexivity.
  - destruct (find_conn h s) as [c|] eqn:Ef.
    + destruct (rc_buf c) as [|b0 br] eqn:Eb.
      * destruct (rc_rclosed c); injection H as <- <-; cbn [reads_of accepted_packets map concat];
          rewrite ?app_nil_r; destruct (bytes_eqb s sid); reflexivity.
      * injection H as <- <-. cbn [reads_of accepted_packets map concat]. rewrite !app_nil_r.
        unfold buf_of. rewrite find_conn_update by (intros; reflexivity).
        destruct (bytes_eqb s sid) eqn:Es.
        -- apply bytes_eqb_eq in Es. subst s. rewrite Ef. cbn [option_map take_read rc_buf].
           rewrite Eb. apply firstn_skipn.
        -- reflexivity.
    + injection H as <- <-. cbn [reads_of accepted_packets map concat]. rewrite app_nil_r. reflexivity.
  - injection H as <- <-. cbn [reads_of accepted_packets map concat]. rewrite app_nil_r.
    apply buf_of_update_keep; intros; reflexivity.
  - destruct (find_conn h s) as [c|].
    + destruct (rc_rclosed c); [|destruct (rc_werr c); [|destruct wacc]]; injection H as <- <-;
        cbn [reads_of accepted_packets map concat]; rewrite app_nil_r; try reflexivity.
      apply buf_of_update_keep; intros; reflexivity.
    + injection H as <- <-. cbn [reads_of accepted_packets map concat]. rewrite app_nil_r. reflexivity.
  - destruct (lookup h s); injection H as <- <-; cbn [reads_of accepted_packets map concat]; rewrite app_nil_r;
      [apply buf_of_update_keep; intros; reflexivity|reflexivity].
  - injection H as <- <-. cbn [reads_of accepted_packets map concat]. rewrite app_nil_r.
    apply buf_of_update_keep; intros; reflexivity.
Qed.

Lemma reads_of_cons : forall sid e es o os,
  reads_of sid (e :: es) (o :: os) = reads_of sid [e] [o] ++ reads_of sid es os.
Proof.
  intros sid e es o os. destruct e; destruct o; cbn [reads_of]; rewrite ?app_nil_r; reflexivity.
Qed.

Lemma accepted_packets_cons : forall sid e es o os,
  accepted_packets sid (e :: es) (o :: os) = accepted_packets sid [e] [o] ++ accepted_packets sid es os.
Proof.
  intros sid e es o os. destruct e; destruct o; cbn [accepted_packets]; rewrite ?app_nil_r; reflexivity.
Qed.

Lemma accepted_bytes_cons : forall sid e es o os,
  accepted_bytes sid (e :: es) (o :: os) = accepted_bytes sid [e] [o] ++ accepted_bytes sid es os.
Proof.
  intros. unfold accepted_bytes. rewrite accepted_packets_cons, map_app, concat_app. reflexivity.
Qed.

(* Exactly once, in order, unmodified: at any point of any run - whatever bad
   packets, packets for other sessions, reads, limits and closes are mixed in -
   what the application has read from sid followed by what is buffered for it
   is what was buffered at the start followed by the payloads of the accepted
   packets. *)
Theorem stream_integrity : forall es h h' os sid,
  h_run h es = (h', os) ->
  reads_of sid es os ++ buf_of h' sid = buf_of h sid ++ accepted_bytes sid es os.
Proof.
  induction es as [|e es IH]; intros h h' os sid H; cbn [h_run] in H.
  - injection H as <- <-. unfold accepted_bytes. cbn. rewrite app_nil_r. reflexivity.
  - destruct (h_step h e) as [h1 o] eqn:E1. destruct (h_run h1 es) as [h2 os2] eqn:E2.
    injection H as <- <-.
    rewrite reads_of_cons, accepted_bytes_cons, <- app_assoc, (IH _ _ _ sid E2), !app_assoc.
    f_equal. apply (h_step_stream _ _ _ _ sid E1).
Qed.

Lemma payload_concat_pieces : forall ps b,
  decode_go_pieces (map p_data ps) = Some b -> concat (map payload_of ps) = b.
Proof.
  induction ps as [|p rest IH]; intros b H; cbn [map decode_go_pieces] in H.
  - injection H as <-. reflexivity.
  - cbn [map concat]. unfold payload_of at 1.
    destruct (decode_go (p_data p)) as [a|]; [|discriminate].
    destruct (decode_go_pieces (map p_data rest)) as [b'|] eqn:Eb; [|discriminate].
    injection H as <-. rewrite (IH b' eq_refl). reflexivity.
Qed.

(* Any interleaving: if, in a run, the packets accepted for sid are those of a
   sender (in order; anything else may be mixed in and refused or go to other
   sessions), then what the application reads followed by what is buffered is
   what was buffered before followed by exactly the bytes the sender wrote. *)
Theorem pipe_any_interleaving : forall es h h' os sid bs seq0 ops,
  h_run h es = (h', os) ->
  accepted_packets sid es os = sender bs seq0 ops ->
  reads_of sid es os ++ buf_of h' sid = buf_of h sid ++ written ops.
Proof.
  intros es h h' os sid bs seq0 ops H Ha.
  rewrite (stream_integrity _ _ _ _ sid H). f_equal. unfold accepted_bytes. rewrite Ha.
  apply payload_concat_pieces. apply packets_carry_written.
Qed.

(* ---- in-order delivery to an open connection with room: everything is accepted ---- *)

Lemma h_run_app : forall es1 es2 h,
  h_run h (es1 ++ es2) =
    (let '(h1, o1) := h_run h es1 in let '(h2, o2) := h_run h1 es2 in (h2, o1 ++ o2)).
Proof.
  induction es1 as [|e es1 IH]; intros es2 h; cbn [app h_run].
  - destruct (h_run h es2); reflexivity.
  - destruct (h_step h e) as [h1 o]. rewrite IH.
    destruct (h_run h1 es1) as [h2 o1]. destruct (h_run h2 es2) as [h3 o2]. reflexivity.
Qed.

Lemma fits_unlimited : forall c data, (rc_max c <= 0)%Z -> fits c data = true.
Proof.
  intros c data H. unfold fits. destruct (0 <? rc_max c)%Z eqn:E; [|reflexivity].
  apply Z.ltb_lt in E. lia.
Qed.

Lemma deliver_all_accepted : forall pieces h iq sid c seq b,
  lookup h sid = Some c -> rc_rclosed c = false -> rc_seq c = seq -> (rc_max c <= 0)%Z ->
  decode_go_pieces pieces = Some b ->
  exists h' c',
    h_run h (deliver iq sid (number seq pieces)) =
      (h', repeat (OReply (if iq then RAck else RSilent)) (length pieces)) /\
    lookup h' sid = Some c' /\ rc_buf c' = rc_buf c ++ b /\ rc_rclosed c' = false /\
    (rc_max c' <= 0)%Z.
Proof.
  induction pieces as [|p rest IH]; intros h iq sid c seq b Hl Hc Hs Hm Hd.
  - cbn in Hd. injection Hd as <-. exists h, c. cbn. rewrite app_nil_r. repeat split; assumption.
  - cbn [decode_go_pieces] in Hd.
    destruct (decode_go p) as [a|] eqn:Ea; [|discriminate].
    destruct (decode_go_pieces rest) as [b'|] eqn:Eb; [|discriminate].
    injection Hd as <-.
    cbn [number deliver map p_seq p_data h_run h_step].
    assert (Hr : refusal c seq p = None).
    { unfold refusal. rewrite Hc, <- Hs, N.eqb_refl, (fits_unlimited _ _ Hm), Ea. reflexivity. }
    destruct (handle_payload_accepted _ iq _ _ _ _ Hl Hr) as [d [Hd Hh]].
    rewrite Ea in Hd. injection Hd as <-. rewrite Hh.
    set (c1 := mkrc (rc_sid c) (rc_bs c) (seq_next (rc_seq c)) (rc_buf c ++ a) (rc_max c) (rc_registered c) (rc_rclosed c) (rc_werr c)).
    set (h1 := update h sid (fun _ => c1)).
    assert (Hl1 : lookup h1 sid = Some c1).
    { unfold lookup, h1. rewrite find_conn_update.
      - rewrite bytes_eqb_refl, (lookup_find _ _ _ Hl). cbn [option_map].
        unfold c1. cbn [rc_registered]. unfold lookup in Hl.
        rewrite (lookup_find _ _ _ Hl) in Hl. destruct (rc_registered c); [reflexivity|discriminate].
      - intros c0 Hc0. rewrite (lookup_find _ _ _ Hl) in Hc0. injection Hc0 as <-. reflexivity. }
    destruct (IH h1 iq sid c1 (seq_next seq) b' Hl1) as [h' [c' [Hrun [Hl' [Hb' [Hc' Hm']]]]]].
    + unfold c1. cbn. exact Hc.
    + unfold c1. cbn. rewrite Hs. reflexivity.
    + unfold c1. cbn. exact Hm.
    + reflexivity.
    + exists h', c'. unfold deliver in Hrun. fold h1. rewrite Hrun. cbn [length repeat].
      repeat split; try assumption. rewrite Hb'. unfold c1. cbn [rc_buf]. rewrite <- app_assoc. reflexivity.
Qed.

(* The pipe: the packets of any sender, delivered in order to an open
   connection without a buffer limit, are all accepted and the connection's
   buffer grows by exactly the bytes written. *)
Theorem pipe_delivers_exactly : forall bs ops h iq sid c,
  lookup h sid = Some c -> rc_rclosed c = false -> (rc_max c <= 0)%Z ->
  exists h' c',
    h_run h (deliver iq sid (sender bs (rc_seq c) ops)) =
      (h', repeat (OReply (if iq then RAck else RSilent)) (length (sender bs (rc_seq c) ops))) /\
    lookup h' sid = Some c' /\ rc_buf c' = rc_buf c ++ written ops /\ rc_rclosed c' = false.
Proof.
  intros bs ops h iq sid c Hl Hc Hm.
  pose proof (packets_carry_written bs (rc_seq c) ops) as Hd. unfold sender in *. rewrite number_data in Hd.
  destruct (deliver_all_accepted _ h iq sid c (rc_seq c) _ Hl Hc eq_refl Hm Hd) as [h' [c' [Hr [Hl' [Hb [Hc' _]]]]]].
  exists h', c'. rewrite number_length. repeat split; assumption.
Qed.

(* ---- after the close: drain, then end-of-file ---- *)

Lemma close_remote_known : forall h sid c,
  lookup h sid = Some c ->
  h_step h (ECloseRemote sid) = (update h sid set_rclosed, OReply RAck).
Proof. intros h sid c H. cbn [h_step]. rewrite H. reflexivity. Qed.

Lemma find_after_close : forall h sid c,
  find_conn h sid = Some c -> find_conn (update h sid set_rclosed) sid = Some (set_rclosed c).
Proof.
  intros h sid c H. rewrite find_conn_update by (intros; reflexivity).
  rewrite bytes_eqb_refl, H. reflexivity.
Qed.

(* a closed connection is no longer found by incoming packets *)
Lemma lookup_after_close : forall h sid c,
  find_conn h sid = Some c -> lookup (update h sid set_rclosed) sid = None.
Proof.
  intros h sid c H. unfold lookup. rewrite (find_after_close _ _ _ H). reflexivity.
Qed.

(* reading a closed connection with n > 0: the buffer in pieces of n, then
   end-of-file, and never a blocked read *)
Fixpoint drain_obs (n : nat) (fuel : nat) (buf : bytes) : list obs :=
  match fuel with
  | O => []
  | S f => match buf with
           | [] => [ORead [] true]
           | _ => ORead (firstn n buf) false :: drain_obs n f (skipn n buf)
           end
  end.

Lemma drain_closed : forall n fuel h sid c,
  0 < n -> find_conn h sid = Some c -> rc_rclosed c = true -> length (rc_buf c) < fuel ->
  exists h', h_run h (repeat (ERead sid n) (length (drain_obs n fuel (rc_buf c)))) =
             (h', drain_obs n fuel (rc_buf c)) /\ buf_of h' sid = [].
Proof.
  intros n fuel. induction fuel as [|f IH]; intros h sid c Hn Hf Hc Hl; [lia|].
  cbn [drain_obs]. destruct (rc_buf c) as [|b0 br] eqn:Eb.
  - cbn [length repeat h_run h_step]. rewrite Hf, Eb, Hc. exists h. split; [reflexivity|].
    unfold buf_of. rewrite Hf. exact Eb.
  - rewrite <- Eb in *. cbn [length repeat h_run h_step]. rewrite Hf.
    destruct (rc_buf c) as [|b1 br1] eqn:Eb1; [rewrite Eb in Eb1; discriminate|]. rewrite <- Eb1 in *.
    set (h1 := update h sid (take_read n)).
    assert (Hf1 : find_conn h1 sid = Some (take_read n c)).
    { unfold h1. rewrite find_conn_update by (intros; reflexivity). rewrite bytes_eqb_refl, Hf. reflexivity. }
    destruct (IH h1 sid (take_read n c) Hn Hf1) as [h' [Hrun Hb]].
    + cbn. exact Hc.
    + cbn [take_read rc_buf]. rewrite skipn_length.
      assert (0 < length (rc_buf c)) by (rewrite Eb1; cbn; lia). lia.
    + cbn [take_read rc_buf] in Hrun. rewrite Hrun. exists h'. split; [reflexivity|exact Hb].
Qed.

Lemma drain_obs_reads : forall n fuel buf sid,
  0 < n -> length buf < fuel ->
  reads_of sid (repeat (ERead sid n) (length (drain_obs n fuel buf))) (drain_obs n fuel buf) = buf.
Proof.
  intros n fuel. induction fuel as [|f IH]; intros buf sid Hn Hl; [lia|].
  cbn [drain_obs]. destruct buf as [|b0 br] eqn:Eb.
  - cbn. rewrite bytes_eqb_refl. reflexivity.
  - rewrite <- Eb in *. cbn [length repeat reads_of]. rewrite bytes_eqb_refl, IH.
    + apply firstn_skipn.
    + exact Hn.
    + rewrite skipn_length. assert (0 < length buf) by (rewrite Eb; cbn; lia). lia.
Qed.

Lemma drain_obs_last : forall n fuel buf,
  0 < n -> length buf < fuel ->
  exists pre, drain_obs n fuel buf = pre ++ [ORead [] true] /\
              Forall (fun o => exists d, o = ORead d false /\ d <> []) pre.
Proof.
  intros n fuel. induction fuel as [|f IH]; intros buf Hn Hl; [lia|].
  cbn [drain_obs]. destruct buf as [|b0 br] eqn:Eb.
  - exists []. split; [reflexivity|constructor].
  - rewrite <- Eb in *.
    destruct (IH (skipn n buf) Hn) as [pre [Hp Hf]].
    + rewrite skipn_length. assert (0 < length buf) by (rewrite Eb; cbn; lia). lia.
    + exists (ORead (firstn n buf) false :: pre). rewrite Hp. split; [reflexivity|].
      constructor; [|exact Hf]. exists (firstn n buf). split; [reflexivity|].
      rewrite Eb. destruct n; [lia|]. cbn. discriminate.
Qed.

(* After a close request the peer's packets are refused, and the application
   reads what remains and then end-of-file. *)
Theorem close_then_drain : forall h sid c n,
  0 < n -> lookup h sid = Some c ->
  let h1 := fst (h_step h (ECloseRemote sid)) in
  snd (h_step h (ECloseRemote sid)) = OReply RAck /\
  (forall iq seq data, handle_payload h1 iq sid seq data = (h1, RErr ItemNotFound)) /\
  exists k h' pre,
    h_run h1 (repeat (ERead sid n) (S k)) = (h', pre ++ [ORead [] true]) /\
    Forall (fun o => exists d, o = ORead d false /\ d <> []) pre /\
    reads_of sid (repeat (ERead sid n) (S k)) (pre ++ [ORead [] true]) = rc_buf c.
Proof.
  intros h sid c n Hn Hl h1. unfold h1. rewrite (close_remote_known _ _ _ Hl). cbn [fst snd].
  pose proof (lookup_find _ _ _ Hl) as Hf.
  split; [reflexivity|]. split.
  - intros iq seq data. apply handle_payload_unknown. apply (lookup_after_close _ _ _ Hf).
  - pose proof (find_after_close _ _ _ Hf) as Hf1.
    destruct (drain_closed n (S (length (rc_buf c))) _ sid (set_rclosed c) Hn Hf1 eq_refl) as [h' [Hrun _]];
      [cbn; lia|].
    cbn [set_rclosed rc_buf] in Hrun.
    destruct (drain_obs_last n (S (length (rc_buf c))) (rc_buf c) Hn) as [pre [Hp Hall]]; [lia|].
    pose proof (drain_obs_reads n (S (length (rc_buf c))) (rc_buf c) sid Hn) as Hreads.
    rewrite Hp in Hrun, Hreads. rewrite app_length in Hrun, Hreads. cbn [length] in Hrun, Hreads.
    rewrite Nat.add_1_r in Hrun, Hreads.
    exists (length pre), h', pre. repeat split; [exact Hrun|exact Hall|apply Hreads; lia].
Qed.

(* ---- opening ---- *)

Theorem open_only_if_accepted :
  (forall r, open_succeeds r = true -> r = OpenResult) /\
  (forall h sid bs, h_step h (EOpenLocal sid bs false) = (h, OOpen false)) /\
  (forall h sid bs, lookup h sid = None ->
     lookup (fst (h_step h (EOpenLocal sid bs false))) sid = None) /\
  (forall h sid bs, h_step h (EOpenRemote sid bs false) = (h, OReply (RErr NotAcceptable))).
Proof.
  repeat split.
  - intros r H. destruct r; [reflexivity|discriminate|discriminate].
  - intros h sid bs H. cbn [h_step fst]. exact H.
Qed.

(* a stream nobody opened (or whose opening was refused) is unknown: its
   packets and close requests are refused with item-not-found *)
Theorem unopened_is_unknown : forall iq sid seq data,
  h_step [] (EData iq sid seq data) = ([], OReply (RErr ItemNotFound)) /\
  h_step [] (ECloseRemote sid) = ([], OReply (RErr ItemNotFound)).
Proof. intros. split; reflexivity. Qed.

(* ===================================================================== *)
(* 3. control path                                                        *)
(* ===================================================================== *)

Definition pc_n (pc : rpc) : option nat :=
  match pc with PIdle => None | PChecked n | PRecv n | PWoken n _ => Some n end.

Record linv (s : lstate) : Prop := mklinv {
  inv_stream : l_read s ++ l_buf s = l_delivered s;
  inv_checked : forall n, l_pc s = PChecked n -> l_buf s <> [] -> l_tok s = true \/ l_closed s = true;
  inv_recv : forall n, l_pc s = PRecv n -> l_buf s = [] /\ l_tok s = false /\ l_closed s = false;
  inv_woken_closed : forall n, l_pc s = PWoken n false -> l_closed s = true;
  inv_n : forall n, pc_n (l_pc s) = Some n -> n <> 0
}.

Lemma linv_init : linv l_init.
Proof. constructor; cbn; intros; try discriminate; reflexivity. Qed.

Lemma read_locked_inv : forall s n, n <> 0 -> l_read s ++ l_buf s = l_delivered s -> linv (read_locked s n).
Proof.
  intros s n Hn Hs. unfold read_locked. destruct (l_buf s) as [|b0 br] eqn:Eb.
  - constructor; cbn; intros; try discriminate.
    + exact Hs.
    + congruence.
    + injection H as <-. exact Hn.
  - constructor; cbn; intros; try discriminate.
    rewrite <- app_assoc, firstn_skipn. exact Hs.
Qed.

Ltac inv_fin Hs Hc Hr Hw Hn :=
  constructor; cbn; intros;
  first
  [ discriminate
  | assumption
  | reflexivity
  | (left; reflexivity)
  | (right; reflexivity)
  | (rewrite app_assoc, Hs; reflexivity)
  | (rewrite <- app_assoc, firstn_skipn; exact Hs)
  | (match goal with H : Some _ = Some _ |- _ => injection H as <- end; apply Hn; reflexivity)
  | (match goal with H : PWoken _ _ = PWoken _ _ |- _ => injection H as <- end; eapply Hw; reflexivity)
  | (match goal with H : PWoken _ _ = PWoken _ _ |- _ => injection H as <- <- end; eapply Hw; reflexivity)
  | (match goal with H : PChecked _ = PChecked _ |- _ => injection H as <- end; eapply Hc; [reflexivity|eassumption])
  | (eapply Hn; eassumption)
  | idtac ].

Lemma lstep_inv : forall s l s', linv s -> lstep s l = Some s' -> linv s'.
Proof.
  intros s l s' [Hs Hc Hr Hw Hn] H. unfold lstep in H.
  destruct l as [n| | |d|]; destruct (l_pc s) as [|m|m|m o] eqn:Epc; try discriminate;
    cbn [pc_n] in Hn.
  - (* LStart *)
    destruct (n =? 0) eqn:E0; [discriminate|]. injection H as <-.
    apply read_locked_inv; [apply Nat.eqb_neq; exact E0|exact Hs].
  - (* LWait at PChecked *)
    assert (Hm : m <> 0) by (apply Hn; reflexivity).
    destruct (l_tok s) eqn:Et.
    + injection H as <-. inv_fin Hs Hc Hr Hw Hn.
    + destruct (l_closed s) eqn:Ecl.
      * injection H as <-. inv_fin Hs Hc Hr Hw Hn.
      * injection H as <-. inv_fin Hs Hc Hr Hw Hn.
        split; [|split; reflexivity].
        destruct (l_buf s) as [|b0 br] eqn:Eb; [reflexivity|].
        destruct (Hc m eq_refl) as [Ht|Hcl]; [discriminate|congruence|congruence].
  - (* LResume *)
    assert (Hm : m <> 0) by (apply Hn; reflexivity).
    destruct o.
    + injection H as <-. apply read_locked_inv; assumption.
    + destruct (l_buf s) as [|b0 br] eqn:Eb; injection H as <-; inv_fin Hs Hc Hr Hw Hn.
  - (* LDeliver, reader idle *)
    destruct (l_closed s) eqn:Ecl; injection H as <-; inv_fin Hs Hc Hr Hw Hn.
  - (* LDeliver, reader at checked *)
    destruct (l_closed s) eqn:Ecl; injection H as <-; inv_fin Hs Hc Hr Hw Hn.
  - (* LDeliver, reader in the receive *)
    destruct (Hr m eq_refl) as [Hb [Ht Hcl]]. rewrite Hcl in H. injection H as <-.
    inv_fin Hs Hc Hr Hw Hn.
  - (* LDeliver, reader woken *)
    destruct (l_closed s) eqn:Ecl; injection H as <-; inv_fin Hs Hc Hr Hw Hn.
    eapply Hw. exact H.
  - (* LClose, idle *)
    injection H as <-. inv_fin Hs Hc Hr Hw Hn.
  - (* LClose, checked *)
    injection H as <-. inv_fin Hs Hc Hr Hw Hn.
  - (* LClose, in the receive *)
    injection H as <-. inv_fin Hs Hc Hr Hw Hn.
  - (* LClose, woken *)
    injection H as <-. inv_fin Hs Hc Hr Hw Hn.
Qed.

Theorem linv_reachable : forall tr s, lrun l_init tr = Some s -> linv s.
Proof.
  intros tr s H. unfold lrun in H.
  exact (invariant_run lstate label lstep linv l_init linv_init lstep_inv tr s H).
Qed.

(* No lost wake-up: a reader blocked in its wait has nothing to read and the
   stream is open; and a reader that found the buffer empty, whatever happens
   before it starts to wait, gets through if there is data or the stream was
   closed. *)
Theorem reader_no_lost_wakeup : forall tr s,
  lrun l_init tr = Some s ->
  (reader_blocked s = true -> l_buf s = [] /\ l_closed s = false) /\
  (forall n, l_pc s = PChecked n -> l_buf s <> [] \/ l_closed s = true ->
     exists s' b, lstep s LWait = Some s' /\ l_pc s' = PWoken n b).
Proof.
  intros tr s H. pose proof (linv_reachable _ _ H) as [Hs Hc Hr Hw Hn]. split.
  - unfold reader_blocked. intro Hb. destruct (l_pc s) as [|m|m|m o] eqn:Epc; try discriminate.
    destruct (Hr m eq_refl) as [H1 [_ H3]]. split; assumption.
  - intros n Epc Hd. unfold lstep. rewrite Epc.
    destruct (l_tok s) eqn:Et; [eexists; eexists; split; reflexivity|].
    destruct (l_closed s) eqn:Ecl; [eexists; eexists; split; reflexivity|].
    exfalso. destruct Hd as [Hd|Hd]; [|discriminate].
    destruct (Hc n Epc Hd); congruence.
Qed.

(* End-of-file only after the close, and only when everything delivered has
   been read. *)
Theorem eof_only_after_close : forall tr s l d,
  lrun l_init tr = Some s ->
  step_obs s l = Some (BReturned d true) ->
  d = [] /\ l_closed s = true /\ l_buf s = [] /\ l_read s = l_delivered s.
Proof.
  intros tr s l d H Ho. pose proof (linv_reachable _ _ H) as [Hs Hc Hr Hw Hn].
  unfold step_obs, lstep in Ho.
  destruct l as [n| | |d0|]; destruct (l_pc s) as [|m|m|m o] eqn:Epc; try discriminate.
  - destruct (n =? 0); [discriminate|]. unfold read_locked in Ho.
    destruct (l_buf s); cbn in Ho; discriminate.
  - destruct (l_tok s); [cbn in Ho; discriminate|]. destruct (l_closed s); cbn in Ho; discriminate.
  - destruct o.
    + unfold read_locked in Ho. destruct (l_buf s); cbn in Ho; discriminate.
    + destruct (l_buf s) as [|b0 br] eqn:Eb; cbn in Ho; [|discriminate].
      injection Ho as <-. repeat split; try reflexivity.
      * apply (Hw m). reflexivity.
      * rewrite <- Hs, app_nil_r. reflexivity.
  - destruct (l_closed s); cbn in Ho; discriminate.
  - destruct (l_closed s); cbn in Ho; discriminate.
  - destruct (l_closed s); cbn in Ho; discriminate.
  - destruct (l_closed s); cbn in Ho; discriminate.
Qed.

(* What Read returns without end-of-file is a non-empty prefix of the buffer;
   everything read so far followed by the buffer is everything delivered. *)
Theorem reads_in_order : forall tr s,
  lrun l_init tr = Some s ->
  l_read s ++ l_buf s = l_delivered s /\
  (forall l d, step_obs s l = Some (BReturned d false) -> d <> [] /\ exists rest, l_buf s = d ++ rest).
Proof.
  intros tr s H. pose proof (linv_reachable _ _ H) as [Hs Hc Hr Hw Hn]. split; [exact Hs|].
  assert (Hrl : forall n d, n <> 0 -> hd_error (l_log (read_locked s n)) = Some (BReturned d false) ->
                d <> [] /\ exists rest, l_buf s = d ++ rest).
  { intros n d Hn0 Ho. unfold read_locked in Ho. destruct (l_buf s) as [|b0 br] eqn:Eb; cbn in Ho; [discriminate|].
    injection Ho as <-. split.
    - destruct n; [congruence|]. cbn. discriminate.
    - exists (skipn n (b0 :: br)). symmetry. apply firstn_skipn. }
  intros l d Ho. unfold step_obs, lstep in Ho.
  destruct l as [n| | |d0|]; destruct (l_pc s) as [|m|m|m o] eqn:Epc; try discriminate.
  - destruct (n =? 0) eqn:E0; [discriminate|]. apply (Hrl n); [apply Nat.eqb_neq; exact E0|exact Ho].
  - destruct (l_tok s); [cbn in Ho; discriminate|]. destruct (l_closed s); cbn in Ho; discriminate.
  - assert (Hm : m <> 0) by (apply Hn; reflexivity).
    destruct o; [apply (Hrl m); assumption|].
    destruct (l_buf s) as [|b0 br] eqn:Eb; cbn in Ho; [discriminate|].
    injection Ho as <-. split.
    + destruct m; [congruence|]. cbn. discriminate.
    + exists (skipn m (b0 :: br)). symmetry. apply firstn_skipn.
  - destruct (l_closed s); cbn in Ho; discriminate.
  - destruct (l_closed s); cbn in Ho; discriminate.
  - destruct (l_closed s); cbn in Ho; discriminate.
  - destruct (l_closed s); cbn in Ho; discriminate.
Qed.

(* after the close nothing is delivered any more *)
Theorem closed_refuses : forall s d s',
  l_closed s = true -> lstep s (LDeliver d) = Some s' ->
  l_buf s' = l_buf s /\ l_delivered s' = l_delivered s /\ hd_error (l_log s') = Some BRefused.
Proof.
  intros s d s' Hc H. unfold lstep in H. rewrite Hc in H.
  destruct (l_pc s); injection H as <-; repeat split; reflexivity.
Qed.

(* ---- the pinned tree's design fails both theorems ---- *)

Definition lrun_pinned := @run lstate label lstep_pinned.

Theorem pinned_lost_wakeup :
  exists tr s, lrun_pinned l_init tr = Some s /\ reader_blocked s = true /\ l_buf s <> [].
Proof.
  exists [LStart 4; LDeliver (str "ab"); LWait].
  eexists. split; [vm_compute; reflexivity|]. split; [reflexivity|discriminate].
Qed.

Theorem pinned_eof_before_close :
  exists tr s, lrun_pinned l_init tr = Some s /\
               hd_error (l_log s) = Some (BReturned [] true) /\ l_closed s = false.
Proof.
  exists [LStart 4; LWait; LDeliver []; LResume].
  eexists. split; [vm_compute; reflexivity|]. split; reflexivity.
Qed.
