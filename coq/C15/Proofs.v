(* C15/Proofs.v — lemmas about the model of mellium.im/xmpp/ibb. *)
From Coq Require Import ZArith ZifyBool ZifyNat ZifyN.
From XV Require Import lib.Bytes lib.Base64 lib.Lts gen.Ibb C15.Model.

(* ===================================================================== *)
(* 0. tables regenerated from the source                                  *)
(* ===================================================================== *)

Lemma tbl_block_size_is_uint16 : (0 < ibb_block_size < 65536)%N.
Proof. vm_compute. split; reflexivity. Qed.

(* newConn doubles the limit when it is below the block size: with a 16 bit
   block size that never happens for the default limit *)
Lemma tbl_max_buffer_above_any_block : (65535 < ibb_max_buffer)%N.
Proof. vm_compute. reflexivity. Qed.

Lemma tbl_ns : ibb_ns = str "http://jabber.org/protocol/ibb".
Proof. vm_compute. reflexivity. Qed.

(* Statement order of handlePayload (read from the AST): the wake-up of a
   pending Read is an unconditional top-level statement after the append to the
   read buffer, and no successful return lies between the two. Whatever the
   carrier, an accepted packet reaches the notify; this is what lets the model
   make the notify part of the deliver step for both carriers. (Two error
   returns lie in between: the buffer write and the acknowledgement failing.) *)
Lemma tbl_notify_on_every_success_path :
  ibb_payload_notify_unconditional = true /\ ibb_payload_success_returns_before_notify = 0.
Proof. split; reflexivity. Qed.

(* rmStream deletes the entry of a session identifier only if it still refers
   to the connection being closed; Close and closeNoNotify reach closeRead
   (the only caller of rmStream) only after markClosed has succeeded, so a
   second Close on a closed connection returns before it. The model's tbl_rm
   and the early return of ECloseLocal on a closed connection rest on this. *)
Lemma tbl_unregister_is_guarded :
  ibb_rmstream_guarded = true /\
  ibb_close_closeread_after_markclosed = true /\
  ibb_closenonotify_closeread_after_markclosed = true /\
  ibb_closeread_call_sites = 2.
Proof. repeat split; reflexivity. Qed.

(* ===================================================================== *)
(* 1. sender                                                              *)
(* ===================================================================== *)

(* Everything the layers hand downstream is "encode of a chunk"; what matters
   is that the chunks, followed by what is still held back, are the input. *)

Lemma firstn_skipn_app {A} (n : nat) (l : list A) : firstn n l ++ skipn n l = l.
Proof. apply firstn_skipn. Qed.

Lemma bufio_write_spec : forall bs buf p chunks buf',
  bufio_write bs buf p = (chunks, buf') -> buf ++ p = concat chunks ++ buf'.
Proof.
  intros bs buf p chunks buf' H. unfold bufio_write in H.
  destruct (length p <=? bs - length buf) eqn:E1.
  - injection H as <- <-. reflexivity.
  - destruct buf as [|b0 buf0] eqn:Eb.
    + injection H as <- <-. cbn. rewrite !app_nil_r. reflexivity.
    + rewrite <- Eb in *.
      destruct (length (skipn (bs - length buf) p) <=? bs) eqn:E2; injection H as <- <-; cbn [concat].
      * rewrite app_nil_r, <- app_assoc, firstn_skipn. reflexivity.
      * rewrite !app_nil_r, <- app_assoc, firstn_skipn. reflexivity.
Qed.

Lemma bufio_flush_spec : forall buf chunks buf',
  bufio_flush buf = (chunks, buf') -> buf = concat chunks ++ buf' /\ buf' = [].
Proof.
  intros buf chunks buf' H. unfold bufio_flush in H. destruct buf as [|b0 r].
  - injection H as <- <-. split; reflexivity.
  - injection H as <- <-. cbn. rewrite !app_nil_r. split; reflexivity.
Qed.

(* bufio never holds more than its size *)
Lemma bufio_write_bound : forall bs buf p chunks buf',
  length buf <= bs -> bufio_write bs buf p = (chunks, buf') -> length buf' <= bs.
Proof.
  intros bs buf p chunks buf' Hb H. unfold bufio_write in H.
  destruct (length p <=? bs - length buf) eqn:E1.
  - injection H as <- <-. rewrite app_length. apply Nat.leb_le in E1. lia.
  - destruct buf as [|b0 buf0] eqn:Eb.
    + injection H as <- <-. cbn. lia.
    + rewrite <- Eb in *.
      destruct (length (skipn (bs - length buf) p) <=? bs) eqn:E2; injection H as <- <-.
      * apply Nat.leb_le in E2. exact E2.
      * cbn. lia.
Qed.

Lemma enc_interior_spec : forall fuel p out fr,
  enc_interior fuel p = (out, fr) ->
  exists chunks, out = map encode chunks /\ p = concat chunks ++ fr.
Proof.
  induction fuel as [|f IH]; intros p out fr H; cbn [enc_interior] in H.
  - injection H as <- <-. exists []. split; reflexivity.
  - destruct (length p <? 3) eqn:E.
    + injection H as <- <-. exists []. split; reflexivity.
    + destruct (enc_interior f (skipn (Nat.min 768 (length p - length p mod 3)) p)) as [o2 fr2] eqn:E2.
      injection H as <- <-.
      destruct (IH _ _ _ E2) as [chunks [Ho Hp]].
      exists (firstn (Nat.min 768 (length p - length p mod 3)) p :: chunks). split.
      * cbn [map]. rewrite Ho. reflexivity.
      * cbn [concat]. rewrite <- app_assoc, <- Hp, firstn_skipn. reflexivity.
Qed.

(* with the fuel the model passes the loop runs to completion: fewer than
   three bytes are held back *)
Lemma enc_interior_fringe : forall fuel p,
  length p <= fuel -> length (snd (enc_interior fuel p)) < 3.
Proof.
  induction fuel as [|f IH]; intros p Hl; cbn [enc_interior].
  - destruct p; cbn in *; lia.
  - destruct (length p <? 3) eqn:E.
    + cbn. apply Nat.ltb_lt in E. exact E.
    + apply Nat.ltb_ge in E.
      destruct (enc_interior f (skipn (Nat.min 768 (length p - length p mod 3)) p)) as [o2 fr2] eqn:E2.
      cbn [snd]. change fr2 with (snd (o2, fr2)). rewrite <- E2. apply IH.
      rewrite skipn_length.
      assert (Hm : length p mod 3 < 3) by (apply Nat.mod_upper_bound; lia).
      lia.
Qed.

Lemma enc_write_spec : forall fr p out fr',
  enc_write fr p = (out, fr') ->
  exists chunks, out = map encode chunks /\ fr ++ p = concat chunks ++ fr'.
Proof.
  intros fr p out fr' H. unfold enc_write in H. destruct fr as [|f0 fr0] eqn:Ef.
  - apply enc_interior_spec in H. exact H.
  - rewrite <- Ef in *.
    set (i := Nat.min (length p) (3 - length fr)) in *.
    destruct (length (fr ++ firstn i p) <? 3) eqn:E.
    + injection H as <- <-. exists []. split; [reflexivity|].
      cbn [concat app].
      assert (Hi : i = length p).
      { apply Nat.ltb_lt in E. rewrite app_length, firstn_length in E. unfold i in *. lia. }
      rewrite Hi, firstn_all. reflexivity.
    + destruct (enc_interior (length p) (skipn i p)) as [o2 fr2] eqn:E2.
      injection H as <- <-.
      destruct (enc_interior_spec _ _ _ _ E2) as [chunks [Ho Hp]].
      exists ((fr ++ firstn i p) :: chunks). split.
      * cbn [map]. rewrite Ho. reflexivity.
      * cbn [concat]. rewrite <- !app_assoc. f_equal. rewrite <- Hp, firstn_skipn. reflexivity.
Qed.

Lemma enc_feed_spec : forall chunks_in fr out fr',
  enc_feed fr chunks_in = (out, fr') ->
  exists chunks, out = map encode chunks /\ fr ++ concat chunks_in = concat chunks ++ fr'.
Proof.
  induction chunks_in as [|c rest IH]; intros fr out fr' H; cbn [enc_feed] in H.
  - injection H as <- <-. exists []. cbn. rewrite app_nil_r. split; reflexivity.
  - destruct (enc_write fr c) as [o1 fr1] eqn:E1.
    destruct (enc_feed fr1 rest) as [o2 fr2] eqn:E2.
    injection H as <- <-.
    destruct (enc_write_spec _ _ _ _ E1) as [ch1 [Ho1 Hp1]].
    destruct (IH _ _ _ E2) as [ch2 [Ho2 Hp2]].
    exists (ch1 ++ ch2). split.
    + rewrite map_app, Ho1, Ho2. reflexivity.
    + cbn [concat]. rewrite concat_app, app_assoc, Hp1, <- !app_assoc. f_equal. exact Hp2.
Qed.

Definition op_bytes (op : wop) : bytes := match op with WWrite b => b | WFlush => [] end.

Lemma s_step_spec : forall bs st op out st',
  s_step bs st op = (out, st') ->
  exists chunks, out = map encode chunks /\
    s_fr st ++ s_buf st ++ op_bytes op = concat chunks ++ s_fr st' ++ s_buf st'.
Proof.
  intros bs st op out st' H. unfold s_step in H.
  destruct (match op with WWrite p => bufio_write bs (s_buf st) p | WFlush => bufio_flush (s_buf st) end)
    as [chunks_in buf'] eqn:Eb.
  destruct (enc_feed (s_fr st) chunks_in) as [o fr'] eqn:Ee.
  injection H as <- <-. cbn [s_fr s_buf].
  destruct (enc_feed_spec _ _ _ _ Ee) as [chunks [Ho Hp]].
  exists chunks. split; [exact Ho|].
  assert (Hb : s_buf st ++ op_bytes op = concat chunks_in ++ buf').
  { destruct op as [p|]; cbn [op_bytes].
    - apply bufio_write_spec in Eb. exact Eb.
    - apply bufio_flush_spec in Eb. destruct Eb as [Eb _]. rewrite app_nil_r. exact Eb. }
  rewrite Hb, !app_assoc. f_equal. rewrite <- Hp. reflexivity.
Qed.

Lemma s_run_spec : forall bs ops st out st',
  s_run bs st ops = (out, st') ->
  exists chunks, out = map encode chunks /\
    s_fr st ++ s_buf st ++ written ops = concat chunks ++ s_fr st' ++ s_buf st'.
Proof.
  induction ops as [|op rest IH]; intros st out st' H; cbn [s_run] in H.
  - injection H as <- <-. exists []. split; [reflexivity|]. cbn. rewrite app_nil_r. reflexivity.
  - destruct (s_step bs st op) as [o1 st1] eqn:E1.
    destruct (s_run bs st1 rest) as [o2 st2] eqn:E2.
    injection H as <- <-.
    destruct (s_step_spec _ _ _ _ _ E1) as [ch1 [Ho1 Hp1]].
    destruct (IH _ _ _ E2) as [ch2 [Ho2 Hp2]].
    exists (ch1 ++ ch2). split.
    + rewrite map_app, Ho1, Ho2. reflexivity.
    + unfold written. cbn [map concat]. fold (written rest). fold (op_bytes op).
      rewrite concat_app.
      replace (s_fr st ++ s_buf st ++ op_bytes op ++ written rest)
        with ((s_fr st ++ s_buf st ++ op_bytes op) ++ written rest) by (rewrite <- !app_assoc; reflexivity).
      rewrite Hp1, <- !app_assoc. f_equal. rewrite <- Hp2. reflexivity.
Qed.

Lemma s_close_spec : forall st,
  exists chunks, s_close st = map encode chunks /\ s_fr st ++ s_buf st = concat chunks.
Proof.
  intros st. unfold s_close.
  destruct (bufio_flush (s_buf st)) as [chunks_in buf'] eqn:Eb.
  destruct (enc_feed (s_fr st) chunks_in) as [o fr'] eqn:Ee.
  destruct (enc_feed_spec _ _ _ _ Ee) as [chunks [Ho Hp]].
  apply bufio_flush_spec in Eb. destruct Eb as [Eb Eb'].
  unfold enc_close. destruct fr' as [|f0 fr0] eqn:Ef.
  - exists chunks. split; [rewrite app_nil_r; exact Ho|].
    rewrite Eb, Eb', app_nil_r, Hp, app_nil_r. reflexivity.
  - exists (chunks ++ [fr']). rewrite <- Ef. split.
    + rewrite map_app, Ho. reflexivity.
    + rewrite concat_app. cbn [concat]. rewrite app_nil_r, Eb, Eb', app_nil_r, Hp, Ef. reflexivity.
Qed.

(* the pieces of a whole transfer are encodings of chunks of what was written *)
Theorem sender_pieces_spec : forall bs ops,
  exists chunks, sender_pieces bs ops = map encode chunks /\ concat chunks = written ops.
Proof.
  intros bs ops. unfold sender_pieces.
  destruct (s_run bs s_init ops) as [o st] eqn:E.
  destruct (s_run_spec _ _ _ _ _ E) as [ch1 [Ho1 Hp1]].
  destruct (s_close_spec st) as [ch2 [Ho2 Hp2]].
  exists (ch1 ++ ch2). split.
  - rewrite map_app, Ho1, Ho2. reflexivity.
  - rewrite concat_app, <- Hp2. cbn [s_init s_fr s_buf app] in Hp1. rewrite Hp1. reflexivity.
Qed.

Lemma number_data : forall pieces seq, map p_data (number seq pieces) = pieces.
Proof.
  induction pieces as [|d rest IH]; intro seq; cbn [number map p_data]; [reflexivity|].
  rewrite IH. reflexivity.
Qed.

Lemma number_length : forall pieces seq, length (number seq pieces) = length pieces.
Proof.
  induction pieces as [|d rest IH]; intro seq; cbn [number length]; [reflexivity|].
  rewrite IH. reflexivity.
Qed.

Lemma seq_next_lt : forall s, (seq_next s < 65536)%N.
Proof. intro s. unfold seq_next. apply N.mod_lt. discriminate. Qed.

Lemma number_seq : forall pieces seq i p,
  (seq < 65536)%N ->
  nth_error (number seq pieces) i = Some p ->
  p_seq p = ((seq + N.of_nat i) mod 65536)%N.
Proof.
  induction pieces as [|d rest IH]; intros seq i p Hs H; cbn [number] in H.
  - destruct i; discriminate.
  - destruct i as [|i]; cbn [nth_error] in H.
    + injection H as <-. cbn [p_seq]. rewrite N.add_0_r, N.mod_small by exact Hs. reflexivity.
    + rewrite (IH _ _ _ (seq_next_lt seq) H). unfold seq_next.
      rewrite N.add_mod_idemp_l by discriminate. f_equal. lia.
Qed.

(* packets are numbered consecutively modulo 65536 from the first number *)
Theorem packets_consecutive : forall bs seq0 ops i p,
  (seq0 < 65536)%N ->
  nth_error (sender bs seq0 ops) i = Some p ->
  p_seq p = ((seq0 + N.of_nat i) mod 65536)%N.
Proof. intros bs seq0 ops i p Hs H. unfold sender in H. exact (number_seq _ _ _ _ Hs H). Qed.

(* decoding every piece the way the receiver does *)
Fixpoint decode_go_pieces (ps : list bytes) : option bytes :=
  match ps with
  | [] => Some []
  | p :: rest =>
      match decode_go p, decode_go_pieces rest with
      | Some a, Some b => Some (a ++ b)
      | _, _ => None
      end
  end.

Lemma decode_go_pieces_encode : forall chunks, decode_go_pieces (map encode chunks) = Some (concat chunks).
Proof.
  induction chunks as [|c rest IH]; [reflexivity|].
  cbn [map decode_go_pieces concat]. rewrite decode_go_encode, IH. reflexivity.
Qed.

(* every packet decodes on its own, and together they carry exactly the bytes
   written, in order *)
Theorem packets_carry_written : forall bs seq0 ops,
  decode_go_pieces (map p_data (sender bs seq0 ops)) = Some (written ops).
Proof.
  intros bs seq0 ops. unfold sender. rewrite number_data.
  destruct (sender_pieces_spec bs ops) as [chunks [Hp Hc]].
  rewrite Hp, decode_go_pieces_encode, Hc. reflexivity.
Qed.

Lemma decode_go_pieces_each : forall ps b,
  decode_go_pieces ps = Some b -> Forall (fun p => exists d, decode_go p = Some d) ps.
Proof.
  induction ps as [|p rest IH]; intros b H; [constructor|].
  cbn [decode_go_pieces] in H.
  destruct (decode_go p) as [a|] eqn:Ea; [|discriminate].
  destruct (decode_go_pieces rest) as [b'|] eqn:Eb; [|discriminate].
  constructor; [exists a; exact Ea|apply (IH b'); reflexivity].
Qed.

Theorem packets_each_decodable : forall bs seq0 ops,
  Forall (fun p => exists d, decode_go (p_data p) = Some d) (sender bs seq0 ops).
Proof.
  intros bs seq0 ops.
  pose proof (decode_go_pieces_each _ _ (packets_carry_written bs seq0 ops)) as H.
  rewrite Forall_forall in *. intros p Hp. apply H. apply in_map. exact Hp.
Qed.

(* ===================================================================== *)
(* 3. control path                                                        *)
(* ===================================================================== *)

Definition pc_n (pc : rpc) : option nat :=
  match pc with PIdle => None | PChecked n | PRecv n | PWoken n _ => Some n end.

Record linv (s : lstate) : Prop := mklinv {
  inv_stream : l_read s ++ l_buf s = l_delivered s;
  inv_checked : forall n, l_pc s = PChecked n -> l_buf s <> [] -> l_tok s = true \/ l_closed s = true;
  inv_recv : forall n, l_pc s = PRecv n -> l_buf s = [] /\ l_tok s = false /\ l_closed s = false;
  inv_woken_closed : forall n, l_pc s = PWoken n false -> l_closed s = true;
  inv_n : forall n, pc_n (l_pc s) = Some n -> n <> 0
}.

Lemma linv_init : linv l_init.
Proof. constructor; cbn; intros; try discriminate; reflexivity. Qed.

Lemma read_locked_inv : forall s n, n <> 0 -> l_read s ++ l_buf s = l_delivered s -> linv (read_locked s n).
Proof.
  intros s n Hn Hs. unfold read_locked. destruct (l_buf s) as [|b0 br] eqn:Eb.
  - constructor; cbn; intros; try discriminate.
    + exact Hs.
    + congruence.
    + injection H as <-. exact Hn.
  - constructor; cbn; intros; try discriminate.
    rewrite <- app_assoc, firstn_skipn. exact Hs.
Qed.

Ltac inv_fin Hs Hc Hr Hw Hn :=
  constructor; cbn; intros;
  first
  [ discriminate
  | assumption
  | reflexivity
  | (left; reflexivity)
  | (right; reflexivity)
  | (rewrite app_assoc, Hs; reflexivity)
  | (rewrite <- app_assoc, firstn_skipn; exact Hs)
  | (match goal with H : Some _ = Some _ |- _ => injection H as <- end; apply Hn; reflexivity)
  | (match goal with H : PWoken _ _ = PWoken _ _ |- _ => injection H as <- end; eapply Hw; reflexivity)
  | (match goal with H : PWoken _ _ = PWoken _ _ |- _ => injection H as <- <- end; eapply Hw; reflexivity)
  | (match goal with H : PChecked _ = PChecked _ |- _ => injection H as <- end; eapply Hc; [reflexivity|eassumption])
  | (eapply Hn; eassumption)
  | idtac ].

Lemma lstep_inv : forall s l s', linv s -> lstep s l = Some s' -> linv s'.
Proof.
  intros s l s' [Hs Hc Hr Hw Hn] H. unfold lstep in H.
  destruct l as [n| | |iq d|]; destruct (l_pc s) as [|m|m|m o] eqn:Epc; try discriminate;
    cbn [pc_n] in Hn.
  - (* LStart *)
    destruct (n =? 0) eqn:E0; [discriminate|]. injection H as <-.
    apply read_locked_inv; [apply Nat.eqb_neq; exact E0|exact Hs].
  - (* LWait at PChecked *)
    assert (Hm : m <> 0) by (apply Hn; reflexivity).
    destruct (l_tok s) eqn:Et.
    + injection H as <-. inv_fin Hs Hc Hr Hw Hn.
    + destruct (l_closed s) eqn:Ecl.
      * injection H as <-. inv_fin Hs Hc Hr Hw Hn.
      * injection H as <-. inv_fin Hs Hc Hr Hw Hn.
        split; [|split; reflexivity].
        destruct (l_buf s) as [|b0 br] eqn:Eb; [reflexivity|].
        destruct (Hc m eq_refl) as [Ht|Hcl]; [discriminate|congruence|congruence].
  - (* LResume *)
    assert (Hm : m <> 0) by (apply Hn; reflexivity).
    destruct o.
    + injection H as <-. apply read_locked_inv; assumption.
    + destruct (l_buf s) as [|b0 br] eqn:Eb; injection H as <-; inv_fin Hs Hc Hr Hw Hn.
  - (* LDeliver, reader idle *)
    destruct (l_closed s) eqn:Ecl; injection H as <-; inv_fin Hs Hc Hr Hw Hn.
  - (* LDeliver, reader at checked *)
    destruct (l_closed s) eqn:Ecl; injection H as <-; inv_fin Hs Hc Hr Hw Hn.
  - (* LDeliver, reader in the receive *)
    destruct (Hr m eq_refl) as [Hb [Ht Hcl]]. rewrite Hcl in H. injection H as <-.
    inv_fin Hs Hc Hr Hw Hn.
  - (* LDeliver, reader woken *)
    destruct (l_closed s) eqn:Ecl; injection H as <-; inv_fin Hs Hc Hr Hw Hn.
    eapply Hw. exact H.
  - (* LClose, idle *)
    injection H as <-. inv_fin Hs Hc Hr Hw Hn.
  - (* LClose, checked *)
    injection H as <-. inv_fin Hs Hc Hr Hw Hn.
  - (* LClose, in the receive *)
    injection H as <-. inv_fin Hs Hc Hr Hw Hn.
  - (* LClose, woken *)
    injection H as <-. inv_fin Hs Hc Hr Hw Hn.
Qed.

Theorem linv_reachable : forall tr s, lrun l_init tr = Some s -> linv s.
Proof.
  intros tr s H. unfold lrun in H.
  exact (invariant_run lstate label lstep linv l_init linv_init lstep_inv tr s H).
Qed.

(* No lost wake-up: a reader blocked in its wait has nothing to read and the
   stream is open; and a reader that found the buffer empty, whatever happens
   before it starts to wait, gets through if there is data or the stream was
   closed. *)
Theorem reader_no_lost_wakeup : forall tr s,
  lrun l_init tr = Some s ->
  (reader_blocked s = true -> l_buf s = [] /\ l_closed s = false) /\
  (forall n, l_pc s = PChecked n -> l_buf s <> [] \/ l_closed s = true ->
     exists s' b, lstep s LWait = Some s' /\ l_pc s' = PWoken n b).
Proof.
  intros tr s H. pose proof (linv_reachable _ _ H) as [Hs Hc Hr Hw Hn]. split.
  - unfold reader_blocked. intro Hb. destruct (l_pc s) as [|m|m|m o] eqn:Epc; try discriminate.
    destruct (Hr m eq_refl) as [H1 [_ H3]]. split; assumption.
  - intros n Epc Hd. unfold lstep. rewrite Epc.
    destruct (l_tok s) eqn:Et; [eexists; eexists; split; reflexivity|].
    destruct (l_closed s) eqn:Ecl; [eexists; eexists; split; reflexivity|].
    exfalso. destruct Hd as [Hd|Hd]; [|discriminate].
    destruct (Hc n Epc Hd); congruence.
Qed.

(* End-of-file only after the close, and only when everything delivered has
   been read. *)
Theorem eof_only_after_close : forall tr s l d,
  lrun l_init tr = Some s ->
  step_obs s l = Some (BReturned d true) ->
  d = [] /\ l_closed s = true /\ l_buf s = [] /\ l_read s = l_delivered s.
Proof.
  intros tr s l d H Ho. pose proof (linv_reachable _ _ H) as [Hs Hc Hr Hw Hn].
  unfold step_obs, lstep in Ho.
  destruct l as [n| | |iq0 d0|]; destruct (l_pc s) as [|m|m|m o] eqn:Epc; try discriminate.
  - destruct (n =? 0); [discriminate|]. unfold read_locked in Ho.
    destruct (l_buf s); cbn in Ho; discriminate.
  - destruct (l_tok s); [cbn in Ho; discriminate|]. destruct (l_closed s); cbn in Ho; discriminate.
  - destruct o.
    + unfold read_locked in Ho. destruct (l_buf s); cbn in Ho; discriminate.
    + destruct (l_buf s) as [|b0 br] eqn:Eb; cbn in Ho; [|discriminate].
      injection Ho as <-. repeat split; try reflexivity.
      * apply (Hw m). reflexivity.
      * rewrite <- Hs, app_nil_r. reflexivity.
  - destruct (l_closed s); destruct iq0; cbn in Ho; discriminate.
  - destruct (l_closed s); destruct iq0; cbn in Ho; discriminate.
  - destruct (l_closed s); destruct iq0; cbn in Ho; discriminate.
  - destruct (l_closed s); destruct iq0; cbn in Ho; discriminate.
Qed.

(* What Read returns without end-of-file is a non-empty prefix of the buffer;
   everything read so far followed by the buffer is everything delivered. *)
Theorem reads_in_order : forall tr s,
  lrun l_init tr = Some s ->
  l_read s ++ l_buf s = l_delivered s /\
  (forall l d, step_obs s l = Some (BReturned d false) -> d <> [] /\ exists rest, l_buf s = d ++ rest).
Proof.
  intros tr s H. pose proof (linv_reachable _ _ H) as [Hs Hc Hr Hw Hn]. split; [exact Hs|].
  assert (Hrl : forall n d, n <> 0 -> hd_error (l_log (read_locked s n)) = Some (BReturned d false) ->
                d <> [] /\ exists rest, l_buf s = d ++ rest).
  { intros n d Hn0 Ho. unfold read_locked in Ho. destruct (l_buf s) as [|b0 br] eqn:Eb; cbn in Ho; [discriminate|].
    injection Ho as <-. split.
    - destruct n; [congruence|]. cbn. discriminate.
    - exists (skipn n (b0 :: br)). symmetry. apply firstn_skipn. }
  intros l d Ho. unfold step_obs, lstep in Ho.
  destruct l as [n| | |iq0 d0|]; destruct (l_pc s) as [|m|m|m o] eqn:Epc; try discriminate.
  - destruct (n =? 0) eqn:E0; [discriminate|]. apply (Hrl n); [apply Nat.eqb_neq; exact E0|exact Ho].
  - destruct (l_tok s); [cbn in Ho; discriminate|]. destruct (l_closed s); cbn in Ho; discriminate.
  - assert (Hm : m <> 0) by (apply Hn; reflexivity).
    destruct o; [apply (Hrl m); assumption|].
    destruct (l_buf s) as [|b0 br] eqn:Eb; cbn in Ho; [discriminate|].
    injection Ho as <-. split.
    + destruct m; [congruence|]. cbn. discriminate.
    + exists (skipn m (b0 :: br)). symmetry. apply firstn_skipn.
  - destruct (l_closed s); destruct iq0; cbn in Ho; discriminate.
  - destruct (l_closed s); destruct iq0; cbn in Ho; discriminate.
  - destruct (l_closed s); destruct iq0; cbn in Ho; discriminate.
  - destruct (l_closed s); destruct iq0; cbn in Ho; discriminate.
Qed.

(* after the close nothing is delivered any more *)
Theorem closed_refuses : forall s iq d s',
  l_closed s = true -> lstep s (LDeliver iq d) = Some s' ->
  l_buf s' = l_buf s /\ l_delivered s' = l_delivered s /\ hd_error (l_log s') = Some BRefused.
Proof.
  intros s iq d s' Hc H. unfold lstep in H. rewrite Hc in H.
  destruct (l_pc s); injection H as <-; repeat split; reflexivity.
Qed.

(* ---- the pinned tree's design fails both theorems ---- *)

Definition lrun_pinned := @run lstate label lstep_pinned.

Theorem pinned_lost_wakeup :
  exists tr s, lrun_pinned l_init tr = Some s /\ reader_blocked s = true /\ l_buf s <> [].
Proof.
  exists [LStart 4; LDeliver false (str "ab"); LWait].
  eexists. split; [vm_compute; reflexivity|]. split; [reflexivity|discriminate].
Qed.

Theorem pinned_eof_before_close :
  exists tr s, lrun_pinned l_init tr = Some s /\
               hd_error (l_log s) = Some (BReturned [] true) /\ l_closed s = false.
Proof.
  exists [LStart 4; LWait; LDeliver true []; LResume].
  eexists. split; [vm_compute; reflexivity|]. split; reflexivity.
Qed.
