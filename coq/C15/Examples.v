(* C15/Examples.v — non-vacuity of the theorems' hypotheses and worked examples. *)
From Coq Require Import ZArith.
From XV Require Import lib.Bytes lib.Base64 lib.Lts gen.Ibb C15.Model C15.Proofs C15.ProofsRecv C15.ProofsMore.

(* ---- sender ---- *)

(* ibb_test.go TestSendSelf/msg: block size 5, one Write, Close *)
Example ex_sender_test_suite :
  map p_data (sender 5 0 [WWrite (str "One is the danger")]) =
    [str "T25lIGlzIHRoZSBkYW5n"; str "ZXI="] /\
  map p_seq (sender 5 0 [WWrite (str "One is the danger")]) = [0%N; 1%N].
Proof. vm_compute. split; reflexivity. Qed.

(* writes smaller than the block are gathered; a Flush cuts a packet; the
   encoder holds back an incomplete 3-byte group until Close *)
Example ex_sender_flush :
  sender 4 0 [WWrite (str "ab"); WFlush; WWrite (str "c"); WFlush; WWrite (str "defgh"); WFlush] =
    [mkpkt 0 (str "YWJj"); mkpkt 1 (str "ZGVm"); mkpkt 2 (str "Z2g=")].
Proof. vm_compute. reflexivity. Qed.

(* the hypothesis of C15_packets_consecutive at the wrap-around *)
Example ex_sender_wrap :
  map p_seq (sender 3 65534 [WWrite (str "abc"); WWrite (str "def"); WWrite (str "ghi"); WWrite (str "jkl")]) =
    [65534%N; 65535%N; 0%N; 1%N].
Proof. vm_compute. reflexivity. Qed.

Example ex_sender_wrap_nth :
  nth_error (sender 3 65534 [WWrite (str "abc"); WWrite (str "def"); WWrite (str "ghi")]) 2 =
    Some (mkpkt 0 (str "Z2hp")).
Proof. vm_compute. reflexivity. Qed.

(* ---- receiver: an open stream, as the hypotheses of the pipe theorems need it ---- *)

Definition ex_h : handler := fst (h_step h_empty (EOpenLocal (str "s1") 8 true)).
Definition ex_c : rconn := new_conn (str "s1") 8.

Example ex_lookup : lookup ex_h (str "s1") = Some (0, ex_c) /\ rc_rclosed ex_c = false /\ rc_seq ex_c = 0%N.
Proof. vm_compute. repeat split; reflexivity. Qed.

(* the default limit (262144) has room for this sender's packets *)
Example ex_has_room :
  has_room ex_c (map p_data (sender 8 (rc_seq ex_c) [WWrite (str "hello, "); WFlush; WWrite (str "world")])).
Proof. right. vm_compute. discriminate. Qed.

(* ... and a limit of 8 has not: the hypothesis is not trivially true *)
Example ex_has_no_room :
  ~ has_room (set_max 8 ex_c) (map p_data (sender 8 0 [WWrite (str "hello, "); WFlush; WWrite (str "world")])).
Proof. intros [H|H]; vm_compute in H; apply H; reflexivity. Qed.

(* the hypothesis of C15_pipe_any_interleaving: reads, a corrupt packet, an
   out-of-sequence packet and a packet for another stream in between — the
   accepted packets are exactly the sender's *)
Definition ex_ops : list wop := [WWrite (str "hello, "); WFlush; WWrite (str "world")].
Definition ex_events : list event :=
  [EOpenLocal (str "s1") 8 true;
   EData true (str "s1") 0 (str "aGVsbG8s");
   ERead 0 3;
   EData true (str "s1") 1 (str "IHdv!!!!");
   EData true (str "s1") 5 (str "cmxk");
   EData false (str "zz") 0 (str "QUJD");
   EData true (str "s1") 1 (str "IHdv");
   EData false (str "s1") 2 (str "cmxk");
   ERead 0 100;
   ECloseRemote (str "s1");
   EData true (str "s1") 3 (str "QUJD");
   ERead 0 100].

Example ex_interleaving_obs :
  snd (h_run h_empty ex_events) =
    [OOpen true; OReply RAck; ORead (str "hel") false; OReply (RErr BadRequest);
     OReply (RErr UnexpectedRequest); OReply (RErr ItemNotFound); OReply RAck; OReply RSilent;
     ORead (str "lo, world") false; OReply RAck; OReply (RErr ItemNotFound); ORead [] true].
Proof. vm_compute. reflexivity. Qed.

Example ex_interleaving_hyp : accepted_to 0 h_empty ex_events = sender 8 0 ex_ops.
Proof. vm_compute. reflexivity. Qed.

Example ex_interleaving_reads : reads_of 0 ex_events (snd (h_run h_empty ex_events)) = written ex_ops.
Proof. vm_compute. reflexivity. Qed.

(* the four refusals of C15_bad_packets_refused, each reachable *)
Example ex_refusals :
  let h := fst (h_run h_empty [EOpenLocal (str "s1") 4 true; ESetMax 0 4]) in
  snd (handle_payload h true (str "nosuch") 0 (str "QUJD")) = RErr ItemNotFound /\
  snd (handle_payload h true (str "s1") 1 (str "QUJD")) = RErr UnexpectedRequest /\
  snd (handle_payload h true (str "s1") 0 (str "QUJDREVG")) = RErr ResourceConstraint /\
  snd (handle_payload h true (str "s1") 0 (str "QUJ")) = RErr BadRequest /\
  snd (handle_payload h false (str "s1") 0 (str "QUJD")) = RSilent /\
  snd (handle_payload h true (str "s1") 0 (str "QUJD")) = RAck.
Proof. vm_compute. repeat split; reflexivity. Qed.

(* TestBufferFull: refused with resource-constraint, accepted under the same
   number once the application has read *)
Example ex_buffer_full :
  snd (h_run h_empty [EOpenRemote (str "a") 4 true; ESetMax 0 6;
                 EData true (str "a") 0 (str "QUJDRA=="); EData true (str "a") 1 (str "QUJDRA==");
                 ERead 0 4; EData true (str "a") 1 (str "QUJDRA=="); ERead 0 64]) =
    [OReply RAck; ONone; OReply RAck; OReply (RErr ResourceConstraint);
     ORead (str "ABCD") false; OReply RAck; ORead (str "ABCD") false].
Proof. vm_compute. reflexivity. Qed.

(* a refused open leaves the stream unknown *)
Example ex_open_refused :
  snd (h_run h_empty [EOpenLocal (str "a") 8 false; EData true (str "a") 0 (str "QUJD")]) =
    [OOpen false; OReply (RErr ItemNotFound)].
Proof. vm_compute. reflexivity. Qed.

(* ---- one session identifier, several streams ---- *)

(* open(x), transfer, close, open(x) again, redundant Close on the old
   connection at several points, transfer on the new one; the peer reopens the
   identifier a third time (handle 2) and the second connection is closed
   afterwards: the third stream stays registered *)
Definition ex_reuse : list event :=
  [EOpenLocal (str "x") 8 true;
   EData true (str "x") 0 (str "QUJD");
   ECloseLocal 0;
   EData true (str "x") 1 (str "QUJD");
   EOpenLocal (str "x") 8 true;
   ECloseLocal 0;
   EData true (str "x") 0 (str "REVG");
   ECloseLocal 0;
   EData false (str "x") 1 (str "R0hJ");
   ERead 1 64; ERead 0 64; ERead 0 64;
   EOpenRemote (str "x") 4 true;
   ECloseLocal 1;
   EData true (str "x") 0 (str "SktM");
   ERead 2 64; ERead 1 64].

Example ex_reuse_obs :
  snd (h_run h_empty ex_reuse) =
    [OOpen true; OReply RAck; ONone; OReply (RErr ItemNotFound); OOpen true; ONone; OReply RAck; ONone;
     OReply RSilent; ORead (str "DEFGHI") false; ORead (str "ABC") false; ORead [] true;
     OReply RAck; ONone; OReply RAck; ORead (str "JKL") false; ORead [] true].
Proof. vm_compute. reflexivity. Qed.

Example ex_reuse_accepted :
  accepted_to 0 h_empty ex_reuse = [mkpkt 0 (str "QUJD")] /\
  accepted_to 1 h_empty ex_reuse = [mkpkt 0 (str "REVG"); mkpkt 1 (str "R0hJ")] /\
  accepted_to 2 h_empty ex_reuse = [mkpkt 0 (str "SktM")].
Proof. vm_compute. repeat split; reflexivity. Qed.

(* the hypotheses of C15_old_close_keeps_new_stream and C15_redundant_close_is_noop *)
Example ex_reuse_hyp :
  let h := fst (h_run h_empty (firstn 5 ex_reuse)) in
  (exists c, lookup h (str "x") = Some (1, c)) /\
  (exists c0, get h 0 = Some c0 /\ rc_rclosed c0 = true /\ rc_sid c0 = str "x").
Proof. split; eexists; [vm_compute; reflexivity|]. split; [vm_compute; reflexivity|split; reflexivity]. Qed.

(* with the unguarded rmStream the second connection's Close would have
   removed the third stream: the witness of C15_unguarded_rmstream_refuted in
   terms of this history *)
Example ex_reuse_unguarded :
  let h := fst (h_run h_empty (firstn 13 ex_reuse)) in
  tbl_find (h_tbl h) (str "x") = Some 2 /\
  tbl_find (tbl_rm (h_tbl h) (str "x") 1) (str "x") = Some 2 /\
  tbl_find (tbl_rm_unguarded (h_tbl h) (str "x") 1) (str "x") = None.
Proof. vm_compute. repeat split; reflexivity. Qed.

(* ---- schedules ---- *)

(* the schedule that lost the wake-up on the pinned tree: the packet is handled
   between the reader's empty test and its wait *)
Example ex_sched_notify_before_wait :
  sched_run l_init [LStart 4; LDeliver true (str "ab"); LWait; LResume] =
    [SDid BParked; SDid BAck; SDid BWoke; SDid (BReturned (str "ab") false)].
Proof. vm_compute. reflexivity. Qed.

(* woken by an empty packet: the reader goes back to waiting instead of
   returning end-of-file *)
Example ex_sched_empty_packet :
  sched_run l_init [LStart 4; LWait; LDeliver true []; LResume; LWait; LClose; LResume] =
    [SDid BParked; SDid BInRecv; SDid BAck; SDid BParked; SDid BInRecv; SDid BClosed; SDid (BReturned [] true)].
Proof. vm_compute. reflexivity. Qed.

(* reachable states for the hypotheses of the schedule theorems *)
Example ex_reachable_checked_with_data :
  exists s, lrun l_init [LStart 4; LDeliver false (str "ab")] = Some s /\ l_pc s = PChecked 4 /\ l_buf s <> [].
Proof. eexists. split; [vm_compute; reflexivity|]. split; [reflexivity|discriminate]. Qed.

Example ex_reachable_blocked :
  exists s, lrun l_init [LStart 4; LWait] = Some s /\ reader_blocked s = true.
Proof. eexists. split; [vm_compute; reflexivity|reflexivity]. Qed.

Example ex_reachable_closed_with_data :
  exists s, lrun l_init [LDeliver false (str "abc"); LStart 1; LClose] = Some s /\ l_closed s = true /\ l_buf s = str "bc".
Proof. eexists. split; [vm_compute; reflexivity|]. split; reflexivity. Qed.

Example ex_eof :
  exists s, lrun l_init [LClose; LStart 1; LWait] = Some s /\ step_obs s LResume = Some (BReturned [] true).
Proof. eexists. split; [vm_compute; reflexivity|reflexivity]. Qed.

(* the same two schedules on the pinned design *)
Example ex_pinned_lost :
  match lrun_pinned l_init [LStart 4; LDeliver true (str "ab"); LWait] with
  | Some s => reader_blocked s = true /\ l_buf s = str "ab"
  | None => False
  end.
Proof. vm_compute. split; reflexivity. Qed.

(* ---- the peer refuses a data packet, then closes the stream ---- *)

Definition ex_refused_then_close : list event :=
  [EOpenLocal (str "a") 8 true;
   EData true (str "a") 0 (str "QUJD");
   EWrite 0 true;
   EWrite 0 false;
   EWrite 0 true;
   ECloseRemote (str "a");
   EWrite 0 true;
   ERead 0 64; ERead 0 64].

Example ex_refused_then_close_obs :
  snd (h_run h_empty ex_refused_then_close) =
    [OOpen true; OReply RAck; OWrite true; OWrite false; OWrite false; OReply RAck; OWrite false;
     ORead (str "ABC") false; ORead [] true].
Proof. vm_compute. reflexivity. Qed.

(* the hypothesis of C15_peer_close_always_answered with the error pending *)
Example ex_close_hyp_with_stale_error :
  exists c, lookup (fst (h_run h_empty (firstn 5 ex_refused_then_close))) (str "a") = Some (0, c) /\ rc_werr c = true.
Proof. eexists. split; [vm_compute; reflexivity|reflexivity]. Qed.

(* ---- the message carrier wakes a parked reader like the iq carrier ---- *)

Example ex_sched_message_carrier :
  sched_run l_init [LStart 4; LWait; LDeliver false (str "ab"); LResume; LStart 4; LDeliver false (str "c"); LWait; LResume] =
    [SDid BParked; SDid BInRecv; SDid BTaken; SDid (BReturned (str "ab") false);
     SDid BParked; SDid BTaken; SDid BWoke; SDid (BReturned (str "c") false)].
Proof. vm_compute. reflexivity. Qed.
