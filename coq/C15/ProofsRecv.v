(* C15/ProofsRecv.v — lemmas about the receiver model: the handler's stream
   table with reusable session identifiers, handlePayload, reads, closes. *)
From Coq Require Import ZArith ZifyBool ZifyNat ZifyN.
From XV Require Import lib.Bytes lib.Base64 gen.Ibb C15.Model C15.Proofs.

(* ===================================================================== *)
(* 0. lists by position, the table                                        *)
(* ===================================================================== *)

Lemma bytes_eqb_refl : forall a, bytes_eqb a a = true.
Proof. intro a. apply bytes_eqb_eq. reflexivity. Qed.

Lemma bytes_eqb_false : forall a b, bytes_eqb a b = false <-> a <> b.
Proof.
  intros a b. split.
  - intros H E. apply bytes_eqb_eq in E. congruence.
  - intro H. destruct (bytes_eqb a b) eqn:E; [apply bytes_eqb_eq in E; contradiction|reflexivity].
Qed.

Lemma nth_upd_list_same : forall l id f c,
  nth_error l id = Some c -> nth_error (upd_list l id f) id = Some (f c).
Proof.
  induction l as [|c0 l IH]; intros [|id] f c H; cbn in *; try discriminate.
  - injection H as <-. reflexivity.
  - apply IH. exact H.
Qed.

Lemma nth_upd_list_other : forall l id j f,
  j <> id -> nth_error (upd_list l id f) j = nth_error l j.
Proof.
  induction l as [|c0 l IH]; intros [|id] [|j] f H; cbn; try reflexivity; try congruence.
  apply IH. congruence.
Qed.

Lemma upd_list_none : forall l id f, nth_error l id = None -> upd_list l id f = l.
Proof.
  induction l as [|c0 l IH]; intros [|id] f H; cbn in *; try reflexivity; try discriminate.
  rewrite IH by exact H. reflexivity.
Qed.

Lemma upd_list_const_same : forall l id c, nth_error l id = Some c -> upd_list l id (fun _ => c) = l.
Proof.
  induction l as [|c0 l IH]; intros [|id] c H; cbn in *; try discriminate.
  - injection H as <-. reflexivity.
  - rewrite IH by exact H. reflexivity.
Qed.

Lemma upd_list_length : forall l id f, length (upd_list l id f) = length l.
Proof. induction l as [|c0 l IH]; intros [|id] f; cbn; try reflexivity. rewrite IH. reflexivity. Qed.

Lemma Forall_upd_list : forall (P : rconn -> Prop) l id f,
  Forall P l -> (forall c, nth_error l id = Some c -> P c -> P (f c)) -> Forall P (upd_list l id f).
Proof.
  intros P. induction l as [|c0 l IH]; intros [|id] f H Hf; cbn; try exact H.
  - inversion H as [|? ? H1 H2]; subst. constructor; [apply Hf; [reflexivity|exact H1]|exact H2].
  - inversion H as [|? ? H1 H2]; subst. constructor; [exact H1|]. apply IH; [exact H2|].
    intros c Hc. apply Hf. exact Hc.
Qed.

Lemma get_upd_same : forall h id f c, get h id = Some c -> get (upd h id f) id = Some (f c).
Proof. intros h id f c H. apply nth_upd_list_same. exact H. Qed.

Lemma get_upd_other : forall h id j f, j <> id -> get (upd h id f) j = get h j.
Proof. intros h id j f H. apply nth_upd_list_other. exact H. Qed.

Lemma upd_const_same : forall h id c, get h id = Some c -> upd h id (fun _ => c) = h.
Proof.
  intros [cs t] id c H. unfold upd. cbn [h_conns h_tbl]. unfold get in H. cbn in H.
  rewrite (upd_list_const_same _ _ _ H). reflexivity.
Qed.

Lemma tbl_upd : forall h id f, h_tbl (upd h id f) = h_tbl h.
Proof. reflexivity. Qed.

(* the table *)
Lemma tbl_find_drop_same : forall t sid, tbl_find (tbl_drop t sid) sid = None.
Proof.
  induction t as [|[s i] t IH]; intro sid; cbn [tbl_drop filter fst]; [reflexivity|].
  destruct (bytes_eqb s sid) eqn:E; cbn [negb]; [apply IH|].
  cbn [tbl_find]. rewrite E. apply IH.
Qed.

Lemma tbl_find_drop_other : forall t sid s,
  bytes_eqb sid s = false -> tbl_find (tbl_drop t sid) s = tbl_find t s.
Proof.
  induction t as [|[s0 i] t IH]; intros sid s H; cbn [tbl_drop filter fst]; [reflexivity|].
  destruct (bytes_eqb s0 sid) eqn:E; cbn [negb].
  - cbn [tbl_find]. apply bytes_eqb_eq in E. subst s0. rewrite H. apply IH. exact H.
  - cbn [tbl_find]. destruct (bytes_eqb s0 s); [reflexivity|]. apply IH. exact H.
Qed.

Lemma tbl_find_set_same : forall t sid id, tbl_find (tbl_set t sid id) sid = Some id.
Proof. intros. unfold tbl_set. cbn [tbl_find]. rewrite bytes_eqb_refl. reflexivity. Qed.

Lemma tbl_find_set_other : forall t sid id s,
  bytes_eqb sid s = false -> tbl_find (tbl_set t sid id) s = tbl_find t s.
Proof.
  intros t sid id s H. unfold tbl_set. cbn [tbl_find]. rewrite H. apply tbl_find_drop_other. exact H.
Qed.

(* rmStream(sid, conn) touches nothing but the entry of sid, and that only if
   it refers to conn *)
Lemma tbl_find_rm : forall t sid id s,
  tbl_find (tbl_rm t sid id) s =
    if bytes_eqb sid s
    then match tbl_find t s with Some j => if j =? id then None else Some j | None => None end
    else tbl_find t s.
Proof.
  intros t sid id s. unfold tbl_rm.
  destruct (bytes_eqb sid s) eqn:E.
  - apply bytes_eqb_eq in E. subst s.
    destruct (tbl_find t sid) as [j|] eqn:Ef.
    + destruct (j =? id); [apply tbl_find_drop_same|exact Ef].
    + exact Ef.
  - destruct (tbl_find t sid) as [j|]; [|reflexivity].
    destruct (j =? id); [apply tbl_find_drop_other; exact E|reflexivity].
Qed.

Lemma lookup_get : forall h sid id c, lookup h sid = Some (id, c) -> get h id = Some c /\ tbl_find (h_tbl h) sid = Some id.
Proof.
  intros h sid id c H. unfold lookup in H.
  destruct (tbl_find (h_tbl h) sid) as [j|]; [|discriminate].
  destruct (get h j) as [c0|] eqn:Eg; [|discriminate]. injection H as <- <-. split; [exact Eg|reflexivity].
Qed.

(* data, reads, limits and writes do not touch the table: a registered
   connection stays the registered one *)
Lemma lookup_upd_same : forall h sid id c f,
  lookup h sid = Some (id, c) -> lookup (upd h id f) sid = Some (id, f c).
Proof.
  intros h sid id c f H. destruct (lookup_get _ _ _ _ H) as [Hg Ht].
  unfold lookup. rewrite tbl_upd, Ht, (get_upd_same _ _ _ _ Hg). reflexivity.
Qed.

Lemma lookup_upd_other : forall h sid id j c f,
  lookup h sid = Some (j, c) -> j <> id -> lookup (upd h id f) sid = Some (j, c).
Proof.
  intros h sid id j c f H Hne. destruct (lookup_get _ _ _ _ H) as [Hg Ht].
  unfold lookup. rewrite tbl_upd, Ht, (get_upd_other _ _ _ _ Hne), Hg. reflexivity.
Qed.

Lemma lookup_upd_none : forall h sid id f, lookup h sid = None -> get h id <> None \/ True ->
  tbl_find (h_tbl h) sid = None -> lookup (upd h id f) sid = None.
Proof. intros h sid id f _ _ Ht. unfold lookup. rewrite tbl_upd, Ht. reflexivity. Qed.

(* ===================================================================== *)
(* 1. handlePayload                                                       *)
(* ===================================================================== *)

Lemma payload_conn_refused : forall c iq seq data e,
  refusal c seq data = Some e -> payload_conn c iq seq data = (c, RErr e).
Proof.
  intros c iq seq data e H. unfold refusal in H. unfold payload_conn.
  destruct (rc_rclosed c); [injection H as <-; reflexivity|].
  destruct (negb (seq =? rc_seq c)%N); [injection H as <-; reflexivity|].
  destruct (negb (fits c data)); [injection H as <-; reflexivity|].
  destruct (decode_go data); [discriminate|injection H as <-; reflexivity].
Qed.

Lemma payload_conn_accepted : forall c iq seq data,
  refusal c seq data = None ->
  exists d, decode_go data = Some d /\
    payload_conn c iq seq data = (accept_data c seq data d, if iq then RAck else RSilent).
Proof.
  intros c iq seq data H. unfold refusal in H. unfold payload_conn.
  destruct (rc_rclosed c); [discriminate|].
  destruct (negb (seq =? rc_seq c)%N); [discriminate|].
  destruct (negb (fits c data)); [discriminate|].
  destruct (decode_go data) as [d|]; [|discriminate].
  exists d. split; reflexivity.
Qed.

Lemma handle_payload_unknown : forall h iq sid seq data,
  lookup h sid = None -> handle_payload h iq sid seq data = (h, RErr ItemNotFound).
Proof. intros h iq sid seq data H. unfold handle_payload. rewrite H. reflexivity. Qed.

Lemma handle_payload_refused : forall h iq sid seq data id c e,
  lookup h sid = Some (id, c) -> refusal c seq data = Some e ->
  handle_payload h iq sid seq data = (h, RErr e).
Proof.
  intros h iq sid seq data id c e Hl Hr. unfold handle_payload. rewrite Hl.
  rewrite (payload_conn_refused _ iq _ _ _ Hr).
  rewrite (upd_const_same _ _ _ (proj1 (lookup_get _ _ _ _ Hl))). reflexivity.
Qed.

Lemma handle_payload_accepted : forall h iq sid seq data id c,
  lookup h sid = Some (id, c) -> refusal c seq data = None ->
  exists d, decode_go data = Some d /\
    handle_payload h iq sid seq data =
      (upd h id (fun _ => accept_data c seq data d), if iq then RAck else RSilent).
Proof.
  intros h iq sid seq data id c Hl Hr. unfold handle_payload. rewrite Hl.
  destruct (payload_conn_accepted _ iq _ _ Hr) as [d [Hd ->]].
  exists d. split; [exact Hd|reflexivity].
Qed.

(* a refused packet changes nothing; the error is the one that corresponds to
   the first reason in the order unknown/closed, sequence, size, encoding *)
Theorem bad_packets_refused : forall h iq sid seq data,
  (lookup h sid = None -> handle_payload h iq sid seq data = (h, RErr ItemNotFound)) /\
  (forall id c, lookup h sid = Some (id, c) ->
     (rc_rclosed c = true -> handle_payload h iq sid seq data = (h, RErr ItemNotFound)) /\
     (rc_rclosed c = false -> seq <> rc_seq c ->
        handle_payload h iq sid seq data = (h, RErr UnexpectedRequest)) /\
     (rc_rclosed c = false -> seq = rc_seq c -> fits c data = false ->
        handle_payload h iq sid seq data = (h, RErr ResourceConstraint)) /\
     (rc_rclosed c = false -> seq = rc_seq c -> fits c data = true -> decode_go data = None ->
        handle_payload h iq sid seq data = (h, RErr BadRequest))).
Proof.
  intros h iq sid seq data. split; [apply handle_payload_unknown|].
  intros id c Hl. repeat split.
  - intro Hc. apply (handle_payload_refused _ _ _ _ _ id c); [exact Hl|]. unfold refusal. rewrite Hc. reflexivity.
  - intros Hc Hs. apply (handle_payload_refused _ _ _ _ _ id c); [exact Hl|]. unfold refusal. rewrite Hc.
    apply N.eqb_neq in Hs. rewrite Hs. reflexivity.
  - intros Hc Hs Hf. apply (handle_payload_refused _ _ _ _ _ id c); [exact Hl|]. unfold refusal. rewrite Hc.
    apply N.eqb_eq in Hs. rewrite Hs, Hf. reflexivity.
  - intros Hc Hs Hf Hd. apply (handle_payload_refused _ _ _ _ _ id c); [exact Hl|]. unfold refusal. rewrite Hc.
    apply N.eqb_eq in Hs. rewrite Hs, Hf, Hd. reflexivity.
Qed.

(* whatever the packet: an error reply means the handler is exactly as before *)
Theorem refused_leaves_state : forall h iq sid seq data h' e,
  handle_payload h iq sid seq data = (h', RErr e) -> h' = h.
Proof.
  intros h iq sid seq data h' e H.
  destruct (lookup h sid) as [[id c]|] eqn:El.
  - destruct (refusal c seq data) as [e0|] eqn:Er.
    + rewrite (handle_payload_refused _ iq _ _ _ _ _ _ El Er) in H. injection H as <- _. reflexivity.
    + destruct (handle_payload_accepted _ iq _ _ _ _ _ El Er) as [d [_ Hh]]. rewrite Hh in H.
      destruct iq; discriminate.
  - rewrite (handle_payload_unknown _ iq _ seq data El) in H. injection H as <- _. reflexivity.
Qed.

(* a packet that has none of the four defects is accepted, on either carrier:
   it goes to the connection registered under the identifier and to no other *)
Theorem good_packet_accepted : forall h iq sid seq data id c d,
  lookup h sid = Some (id, c) -> rc_rclosed c = false -> seq = rc_seq c -> fits c data = true ->
  decode_go data = Some d ->
  handle_payload h iq sid seq data =
    (upd h id (fun _ => accept_data c seq data d), if iq then RAck else RSilent) /\
  buf_of (fst (handle_payload h iq sid seq data)) id = rc_buf c ++ d /\
  (forall j, j <> id -> get (fst (handle_payload h iq sid seq data)) j = get h j) /\
  lookup (fst (handle_payload h iq sid seq data)) sid = Some (id, accept_data c seq data d).
Proof.
  intros h iq sid seq data id c d Hl Hc Hs Hf Hd.
  assert (Hr : refusal c seq data = None).
  { unfold refusal. apply N.eqb_eq in Hs. rewrite Hc, Hs, Hf, Hd. reflexivity. }
  destruct (handle_payload_accepted _ iq _ _ _ _ _ Hl Hr) as [d' [Hd' Hh]].
  rewrite Hd in Hd'. injection Hd' as <-. rewrite Hh. cbn [fst].
  destruct (lookup_get _ _ _ _ Hl) as [Hg _].
  split; [reflexivity|]. split; [|split].
  - unfold buf_of. rewrite (get_upd_same _ _ _ _ Hg). reflexivity.
  - intros j Hj. apply get_upd_other. exact Hj.
  - apply (lookup_upd_same _ _ _ _ (fun _ => accept_data c seq data d) Hl).
Qed.

(* ===================================================================== *)
(* 2. invariants over arbitrary histories                                 *)
(* ===================================================================== *)

(* per connection: what was read, followed by what is buffered, is the bytes
   of the packets accepted for it *)
Definition conn_ok (c : rconn) : Prop := rc_rd c ++ rc_buf c = accepted_bytes c.

(* the table refers to existing, open connections carrying that identifier *)
Definition wf (h : handler) : Prop :=
  forall sid id, tbl_find (h_tbl h) sid = Some id ->
    exists c, get h id = Some c /\ rc_sid c = sid /\ rc_rclosed c = false.

Definition inv (h : handler) : Prop := Forall conn_ok (h_conns h) /\ wf h.

Lemma inv_empty : inv h_empty.
Proof. split; [constructor|]. intros sid id H. discriminate. Qed.

Lemma conn_ok_new : forall sid bs, conn_ok (new_conn sid bs).
Proof. intros. reflexivity. Qed.

Lemma payload_of_pkt : forall seq data d, decode_go data = Some d -> payload_of (mkpkt seq data) = d.
Proof. intros seq data d H. unfold payload_of. cbn [p_data]. rewrite H. reflexivity. Qed.

Lemma conn_ok_accept : forall c seq data d,
  conn_ok c -> decode_go data = Some d -> conn_ok (accept_data c seq data d).
Proof.
  intros c seq data d H Hd. unfold conn_ok, accepted_bytes, accept_data in *. cbn [rc_rd rc_buf rc_pk].
  rewrite map_app, concat_app. cbn [map concat]. rewrite (payload_of_pkt _ _ _ Hd), app_nil_r, app_assoc, H.
  reflexivity.
Qed.

Lemma conn_ok_take : forall c n, conn_ok c -> conn_ok (take_read n c).
Proof.
  intros c n H. unfold conn_ok, accepted_bytes, take_read in *. cbn [rc_rd rc_buf rc_pk].
  rewrite <- app_assoc, firstn_skipn. exact H.
Qed.

(* updates that keep identifier and closed flag keep the table well-formed *)
Lemma wf_upd : forall h id f,
  wf h -> (forall c, rc_sid (f c) = rc_sid c /\ rc_rclosed (f c) = rc_rclosed c) -> wf (upd h id f).
Proof.
  intros h id f Hw Hf sid j Ht. rewrite tbl_upd in Ht.
  destruct (Hw sid j Ht) as [c [Hg [Hs Hc]]].
  destruct (Nat.eq_dec j id) as [->|Hne].
  - exists (f c). rewrite (get_upd_same _ _ _ _ Hg). destruct (Hf c) as [H1 H2].
    split; [reflexivity|]. split; congruence.
  - exists c. rewrite (get_upd_other _ _ _ _ Hne). repeat split; assumption.
Qed.

Lemma get_close_same : forall h id c, get h id = Some c -> get (close_conn h id) id = Some (set_rclosed c).
Proof.
  intros h id c H. unfold close_conn. rewrite H. unfold get. cbn [h_conns].
  apply nth_upd_list_same. exact H.
Qed.

Lemma get_close_other : forall h id j, j <> id -> get (close_conn h id) j = get h j.
Proof.
  intros h id j H. unfold close_conn. destruct (get h id) as [c|]; [|reflexivity].
  unfold get. cbn [h_conns]. apply nth_upd_list_other. exact H.
Qed.

Lemma tbl_close : forall h id c, get h id = Some c -> h_tbl (close_conn h id) = tbl_rm (h_tbl h) (rc_sid c) id.
Proof. intros h id c H. unfold close_conn. rewrite H. reflexivity. Qed.

Lemma wf_close : forall h id, wf h -> wf (close_conn h id).
Proof.
  intros h id Hw. destruct (get h id) as [c|] eqn:Eg; [|unfold close_conn; rewrite Eg; exact Hw].
  intros sid j Ht. rewrite (tbl_close _ _ _ Eg), tbl_find_rm in Ht.
  assert (Hold : tbl_find (h_tbl h) sid = Some j /\ j <> id).
  { destruct (bytes_eqb (rc_sid c) sid) eqn:E.
    - destruct (tbl_find (h_tbl h) sid) as [j0|]; [|discriminate].
      destruct (j0 =? id) eqn:Ej; [discriminate|]. injection Ht as <-.
      split; [reflexivity|]. apply Nat.eqb_neq. exact Ej.
    - split; [exact Ht|]. intros ->. destruct (Hw sid id Ht) as [c0 [Hg [Hs _]]].
      rewrite Eg in Hg. injection Hg as <-. apply bytes_eqb_false in E. contradiction. }
  destruct Hold as [Ht0 Hne]. destruct (Hw sid j Ht0) as [c0 [Hg [Hs Hc]]].
  exists c0. rewrite (get_close_other _ _ _ Hne). repeat split; assumption.
Qed.

Lemma conns_close : forall h id,
  h_conns (close_conn h id) = upd_list (h_conns h) id set_rclosed.
Proof.
  intros h id. unfold close_conn. destruct (get h id) as [c|] eqn:Eg; [reflexivity|].
  symmetry. apply upd_list_none. exact Eg.
Qed.

Lemma inv_close : forall h id, inv h -> inv (close_conn h id).
Proof.
  intros h id [Hc Hw]. split; [|apply wf_close; exact Hw].
  rewrite conns_close. apply Forall_upd_list; [exact Hc|]. intros c _ H. exact H.
Qed.

Lemma get_add_old : forall h sid bs id c, get h id = Some c -> get (add_conn h sid bs) id = Some c.
Proof.
  intros h sid bs id c H. unfold get, add_conn in *. cbn [h_conns].
  rewrite nth_error_app1; [exact H|]. apply nth_error_Some. congruence.
Qed.

Lemma get_add_new : forall h sid bs, get (add_conn h sid bs) (length (h_conns h)) = Some (new_conn sid bs).
Proof.
  intros h sid bs. unfold get, add_conn. cbn [h_conns].
  rewrite nth_error_app2 by lia. rewrite Nat.sub_diag. reflexivity.
Qed.

Lemma inv_add : forall h sid bs, inv h -> inv (add_conn h sid bs).
Proof.
  intros h sid bs [Hc Hw]. split.
  - unfold add_conn. cbn [h_conns]. apply Forall_app. split; [exact Hc|]. constructor; [apply conn_ok_new|constructor].
  - intros s j Ht. unfold add_conn in Ht. cbn [h_tbl] in Ht.
    destruct (bytes_eqb sid s) eqn:E.
    + apply bytes_eqb_eq in E. subst s. rewrite tbl_find_set_same in Ht. injection Ht as <-.
      exists (new_conn sid bs). rewrite get_add_new. repeat split; reflexivity.
    + rewrite (tbl_find_set_other _ _ _ _ E) in Ht. destruct (Hw s j Ht) as [c [Hg [Hs Hcl]]].
      exists c. rewrite (get_add_old _ _ _ _ _ Hg). repeat split; assumption.
Qed.

Lemma inv_upd : forall h id f,
  inv h -> (forall c, conn_ok c -> conn_ok (f c)) ->
  (forall c, rc_sid (f c) = rc_sid c /\ rc_rclosed (f c) = rc_rclosed c) -> inv (upd h id f).
Proof.
  intros h id f [Hc Hw] H1 H2. split; [|apply wf_upd; assumption].
  unfold upd. cbn [h_conns]. apply Forall_upd_list; [exact Hc|]. intros c _ H. apply H1. exact H.
Qed.

Lemma Forall_get : forall h id c, Forall conn_ok (h_conns h) -> get h id = Some c -> conn_ok c.
Proof.
  intros h id c H Hg. rewrite Forall_forall in H. apply H. eapply nth_error_In. exact Hg.
Qed.

Lemma h_step_inv : forall h e h1 o, inv h -> h_step h e = (h1, o) -> inv h1.
Proof.
  intros h e h1 o Hi H.
  destruct e as [s bs acc|s bs lst|iq s seq data|id n|id max|id wacc|s|id]; cbn [h_step] in H.
  - destruct acc; injection H as <- <-; [apply inv_add|]; exact Hi.
  - destruct lst; injection H as <- <-; [apply inv_add|]; exact Hi.
  - destruct (handle_payload h iq s seq data) as [h' r] eqn:Eh. injection H as <- <-.
    destruct (lookup h s) as [[id c]|] eqn:El.
    + destruct (refusal c seq data) as [e0|] eqn:Er.
      * rewrite (handle_payload_refused _ iq _ _ _ _ _ _ El Er) in Eh. injection Eh as <- <-. exact Hi.
      * destruct (handle_payload_accepted _ iq _ _ _ _ _ El Er) as [d [Hd Hh]]. rewrite Hh in Eh.
        injection Eh as <- <-. destruct Hi as [Hc Hw]. split.
        -- unfold upd. cbn [h_conns]. apply Forall_upd_list; [exact Hc|]. intros c0 Hc0 _.
           destruct (lookup_get _ _ _ _ El) as [Hg _]. unfold get in Hg. rewrite Hg in Hc0. injection Hc0 as <-.
           apply conn_ok_accept; [|exact Hd]. apply (Forall_get h id); assumption.
        -- intros sid j Ht. rewrite tbl_upd in Ht. destruct (Hw sid j Ht) as [c0 [Hg [Hs Hcl]]].
           destruct (Nat.eq_dec j id) as [->|Hne].
           ++ destruct (lookup_get _ _ _ _ El) as [Hg' _]. rewrite Hg in Hg'. injection Hg' as ->.
              exists (accept_data c seq data d). rewrite (get_upd_same _ _ _ _ Hg). repeat split; assumption.
           ++ exists c0. rewrite (get_upd_other _ _ _ _ Hne). repeat split; assumption.
    + rewrite (handle_payload_unknown _ iq _ seq data El) in Eh. injection Eh as <- <-. exact Hi.
  - destruct (get h id) as [c|]; [|injection H as <- <-; exact Hi].
    destruct (rc_buf c); [destruct (rc_rclosed c); injection H as <- <-; exact Hi|].
    injection H as <- <-. apply inv_upd; [exact Hi|intros; apply conn_ok_take; assumption|intros; split; reflexivity].
  - injection H as <- <-. apply inv_upd; [exact Hi|intros c0 H0; exact H0|intros; split; reflexivity].
  - destruct (get h id) as [c|]; [|injection H as <- <-; exact Hi].
    destruct (rc_rclosed c); [injection H as <- <-; exact Hi|].
    destruct (rc_werr c); [injection H as <- <-; exact Hi|].
    destruct wacc; injection H as <- <-; [exact Hi|].
    apply inv_upd; [exact Hi|intros c0 H0; exact H0|intros; split; reflexivity].
  - destruct (lookup h s) as [[id c]|]; injection H as <- <-; [apply inv_close|]; exact Hi.
  - destruct (get h id) as [c|]; [|injection H as <- <-; exact Hi].
    destruct (rc_rclosed c); injection H as <- <-; [|apply inv_close]; exact Hi.
Qed.

Theorem inv_run : forall es h h' os, inv h -> h_run h es = (h', os) -> inv h'.
Proof.
  induction es as [|e es IH]; intros h h' os Hi H; cbn [h_run] in H.
  - injection H as <- _. exact Hi.
  - destruct (h_step h e) as [h1 o] eqn:E1. destruct (h_run h1 es) as [h2 os2] eqn:E2.
    injection H as <- _. apply (IH h1 h2 os2); [apply (h_step_inv _ _ _ _ Hi E1)|exact E2].
Qed.

(* ===================================================================== *)
(* 3. the ghost fields and what is observable                             *)
(* ===================================================================== *)

Definition rd_of (h : handler) (id : nat) : bytes := match get h id with Some c => rc_rd c | None => [] end.
Definition pk_of (h : handler) (id : nat) : list packet := match get h id with Some c => rc_pk c | None => [] end.

(* the data packets of a run that were accepted (acknowledged, or - on the
   message carrier - not answered with an error) while the connection with
   handle id was the one registered under their session identifier *)
Fixpoint accepted_to (id : nat) (h : handler) (es : list event) : list packet :=
  match es with
  | [] => []
  | e :: rest =>
      let '(h1, o) := h_step h e in
      (match e, o with
       | EData _ sid seq data, OReply r =>
           if is_ack r then match lookup h sid with
                            | Some (j, _) => if j =? id then [mkpkt seq data] else []
                            | None => []
                            end
           else []
       | _, _ => []
       end) ++ accepted_to id h1 rest
  end.

Lemma get_add : forall h sid bs id,
  get (add_conn h sid bs) id =
    match get h id with
    | Some c => Some c
    | None => if id =? length (h_conns h) then Some (new_conn sid bs) else None
    end.
Proof.
  intros h sid bs id. destruct (get h id) as [c|] eqn:Eg; [apply get_add_old; exact Eg|].
  destruct (id =? length (h_conns h)) eqn:E.
  - apply Nat.eqb_eq in E. subst id. apply get_add_new.
  - apply Nat.eqb_neq in E. unfold get, add_conn in *. cbn [h_conns]. apply nth_error_None.
    apply nth_error_None in Eg. rewrite app_length. cbn. lia.
Qed.

Lemma h_step_ghost : forall h e h1 o id,
  h_step h e = (h1, o) ->
  rd_of h1 id = rd_of h id ++ reads_of id [e] [o] /\
  pk_of h1 id = pk_of h id ++ accepted_to id h [e].
Proof.
  intros h e h1 o id H. cbn [accepted_to]. rewrite H. rewrite app_nil_r.
  destruct e as [s bs acc|s bs lst|iq s seq data|i n|i max|i wacc|s|i]; cbn [h_step] in H.
  - destruct acc; injection H as <- <-; cbn [reads_of]; rewrite !app_nil_r; [|split; reflexivity].
    unfold rd_of, pk_of. rewrite get_add. destruct (get h id); [split; reflexivity|].
    destruct (id =? length (h_conns h)); split; reflexivity.
  - destruct lst; injection H as <- <-; cbn [reads_of]; rewrite !app_nil_r; [|split; reflexivity].
    unfold rd_of, pk_of. rewrite get_add. destruct (get h id); [split; reflexivity|].
    destruct (id =? length (h_conns h)); split; reflexivity.
  - destruct (handle_payload h iq s seq data) as [h' r] eqn:Eh. injection H as <- <-.
    cbn [reads_of]. rewrite app_nil_r.
    destruct (lookup h s) as [[j c]|] eqn:El.
    + destruct (refusal c seq data) as [e0|] eqn:Er.
      * rewrite (handle_payload_refused _ iq _ _ _ _ _ _ El Er) in Eh. injection Eh as <- <-.
        cbn [is_ack]. rewrite app_nil_r. split; reflexivity.
      * destruct (handle_payload_accepted _ iq _ _ _ _ _ El Er) as [d [Hd Hh]]. rewrite Hh in Eh.
        injection Eh as <- <-.
        assert (Hack : is_ack (if iq then RAck else RSilent) = true) by (destruct iq; reflexivity).
        rewrite Hack. destruct (lookup_get _ _ _ _ El) as [Hg _]. unfold rd_of, pk_of.
        destruct (j =? id) eqn:Ej.
        -- apply Nat.eqb_eq in Ej. subst j. rewrite (get_upd_same _ _ _ _ Hg), Hg. split; reflexivity.
        -- apply Nat.eqb_neq in Ej. rewrite get_upd_other by congruence. rewrite app_nil_r. split; reflexivity.
    + rewrite (handle_payload_unknown _ iq _ seq data El) in Eh. injection Eh as <- <-.
      cbn [is_ack]. rewrite app_nil_r. split; reflexivity.
  - destruct (get h i) as [c|] eqn:Eg.
    + destruct (rc_buf c) as [|b0 br] eqn:Eb.
      * destruct (rc_rclosed c); injection H as <- <-; cbn [reads_of]; rewrite ?app_nil_r;
          destruct (i =? id); rewrite ?app_nil_r; split; reflexivity.
      * injection H as <- <-. cbn [reads_of]. rewrite !app_nil_r. unfold rd_of, pk_of.
        destruct (i =? id) eqn:Ei.
        -- apply Nat.eqb_eq in Ei. subst i. rewrite (get_upd_same _ _ _ _ Eg), Eg.
           cbn [take_read rc_rd rc_pk]. rewrite Eb. split; reflexivity.
        -- apply Nat.eqb_neq in Ei. rewrite get_upd_other by congruence. rewrite app_nil_r. split; reflexivity.
    + injection H as <- <-. cbn [reads_of]. rewrite !app_nil_r. split; reflexivity.
  - injection H as <- <-. cbn [reads_of]. rewrite !app_nil_r. unfold rd_of, pk_of.
    destruct (Nat.eq_dec id i) as [->|Hne].
    + destruct (get h i) as [c|] eqn:Eg; [rewrite (get_upd_same _ _ _ _ Eg); split; reflexivity|].
      unfold get, upd in *. cbn [h_conns]. rewrite (upd_list_none _ _ _ Eg), Eg. split; reflexivity.
    + rewrite get_upd_other by exact Hne. split; reflexivity.
  - destruct (get h i) as [c|] eqn:Eg.
    + destruct (rc_rclosed c); [|destruct (rc_werr c); [|destruct wacc]]; injection H as <- <-;
        cbn [reads_of]; rewrite !app_nil_r; try (split; reflexivity).
      unfold rd_of, pk_of. destruct (Nat.eq_dec id i) as [->|Hne].
      * rewrite (get_upd_same _ _ _ _ Eg), Eg. split; reflexivity.
      * rewrite get_upd_other by exact Hne. split; reflexivity.
    + injection H as <- <-. cbn [reads_of]. rewrite !app_nil_r. split; reflexivity.
  - destruct (lookup h s) as [[j c]|] eqn:El; injection H as <- <-; cbn [reads_of]; rewrite !app_nil_r;
      [|split; reflexivity].
    unfold rd_of, pk_of. destruct (Nat.eq_dec id j) as [->|Hne].
    + destruct (lookup_get _ _ _ _ El) as [Hg _]. rewrite (get_close_same _ _ _ Hg), Hg. split; reflexivity.
    + rewrite get_close_other by exact Hne. split; reflexivity.
  - destruct (get h i) as [c|] eqn:Eg.
    + destruct (rc_rclosed c); injection H as <- <-; cbn [reads_of]; rewrite !app_nil_r; [split; reflexivity|].
      unfold rd_of, pk_of. destruct (Nat.eq_dec id i) as [->|Hne].
      * rewrite (get_close_same _ _ _ Eg), Eg. split; reflexivity.
      * rewrite get_close_other by exact Hne. split; reflexivity.
    + injection H as <- <-. cbn [reads_of]. rewrite !app_nil_r. split; reflexivity.
Qed.

Lemma reads_of_cons : forall id e es o os,
  reads_of id (e :: es) (o :: os) = reads_of id [e] [o] ++ reads_of id es os.
Proof.
  intros id e es o os. destruct e; destruct o; cbn [reads_of]; rewrite ?app_nil_r; reflexivity.
Qed.

Theorem ghost_run : forall es h h' os id,
  h_run h es = (h', os) ->
  rd_of h' id = rd_of h id ++ reads_of id es os /\
  pk_of h' id = pk_of h id ++ accepted_to id h es.
Proof.
  induction es as [|e es IH]; intros h h' os id H; cbn [h_run] in H.
  - injection H as <- <-. cbn. rewrite !app_nil_r. split; reflexivity.
  - destruct (h_step h e) as [h1 o] eqn:E1. destruct (h_run h1 es) as [h2 os2] eqn:E2.
    injection H as <- <-. destruct (IH _ _ _ id E2) as [Hr Hp].
    destruct (h_step_ghost _ _ _ _ id E1) as [Hr1 Hp1].
    rewrite reads_of_cons, Hr, Hr1, Hp, Hp1, <- !app_assoc. split; [reflexivity|].
    f_equal. cbn [accepted_to]. rewrite E1, app_nil_r. reflexivity.
Qed.

(* Stream integrity, for every connection and every history of a handler
   (session identifiers reused at will): the bytes the application has read
   from a connection, followed by what is buffered for it, are exactly the
   bytes of the data packets that were accepted while it was the connection
   registered under their identifier - in order, once, unmodified. *)
Theorem stream_integrity : forall es h' os id c',
  h_run h_empty es = (h', os) -> get h' id = Some c' ->
  reads_of id es os ++ rc_buf c' = concat (map payload_of (accepted_to id h_empty es)).
Proof.
  intros es h' os id c' H Hg.
  pose proof (inv_run _ _ _ _ inv_empty H) as [Hok _].
  pose proof (Forall_get _ _ _ Hok Hg) as Hc. unfold conn_ok, accepted_bytes in Hc.
  destruct (ghost_run _ _ _ _ id H) as [Hr Hp]. unfold rd_of, pk_of in Hr, Hp. rewrite Hg in Hr, Hp.
  assert (He : get h_empty id = None) by (unfold get; cbn; destruct id; reflexivity).
  rewrite He in Hr, Hp. cbn [app] in Hr, Hp. rewrite <- Hr, <- Hp. exact Hc.
Qed.

Lemma payload_concat_pieces : forall ps b,
  decode_go_pieces (map p_data ps) = Some b -> concat (map payload_of ps) = b.
Proof.
  induction ps as [|p rest IH]; intros b H; cbn [map decode_go_pieces] in H.
  - injection H as <-. reflexivity.
  - cbn [map concat]. unfold payload_of at 1.
    destruct (decode_go (p_data p)) as [a|]; [|discriminate].
    destruct (decode_go_pieces (map p_data rest)) as [b'|] eqn:Eb; [|discriminate].
    injection H as <-. rewrite (IH b' eq_refl). reflexivity.
Qed.

(* Any interleaving: if the packets accepted for a connection are those of a
   sender (anything else may be mixed in: reads of any size, refused packets,
   other streams, older and newer streams under the same identifier, redundant
   Close calls), what the application reads followed by what is buffered is
   exactly the bytes the sender wrote. *)
Theorem pipe_any_interleaving : forall es h' os id c' bs seq0 ops,
  h_run h_empty es = (h', os) -> get h' id = Some c' ->
  accepted_to id h_empty es = sender bs seq0 ops ->
  reads_of id es os ++ rc_buf c' = written ops.
Proof.
  intros es h' os id c' bs seq0 ops H Hg Ha.
  rewrite (stream_integrity _ _ _ _ _ H Hg), Ha.
  apply payload_concat_pieces. apply packets_carry_written.
Qed.

(* ===================================================================== *)
(* 4. session identifiers are reused                                      *)
(* ===================================================================== *)

(* closing one connection never touches the registration of another one, even
   under the same session identifier *)
Theorem close_keeps_other_stream : forall h id sid j c,
  lookup h sid = Some (j, c) -> j <> id ->
  lookup (close_conn h id) sid = Some (j, c).
Proof.
  intros h id sid j c Hl Hne. destruct (lookup_get _ _ _ _ Hl) as [Hg Ht].
  destruct (get h id) as [ci|] eqn:Eg; [|unfold close_conn; rewrite Eg; exact Hl].
  unfold lookup. rewrite (tbl_close _ _ _ Eg), tbl_find_rm, Ht.
  assert (Hj : (j =? id) = false) by (apply Nat.eqb_neq; exact Hne).
  rewrite Hj. destruct (bytes_eqb (rc_sid ci) sid); rewrite (get_close_other _ _ _ Hne), Hg; reflexivity.
Qed.

Theorem old_close_keeps_new_stream : forall h id sid j c,
  lookup h sid = Some (j, c) -> j <> id ->
  lookup (fst (h_step h (ECloseLocal id))) sid = Some (j, c) /\
  snd (h_step h (ECloseLocal id)) = ONone.
Proof.
  intros h id sid j c Hl Hne. cbn [h_step].
  destruct (get h id) as [ci|] eqn:Eg; [|split; [exact Hl|reflexivity]].
  destruct (rc_rclosed ci); cbn [fst snd]; split; try reflexivity; [exact Hl|].
  apply close_keeps_other_stream; assumption.
Qed.

(* a second Close on a closed connection does nothing at all *)
Theorem redundant_close_is_noop : forall h id c,
  get h id = Some c -> rc_rclosed c = true -> h_step h (ECloseLocal id) = (h, ONone).
Proof. intros h id c Hg Hc. cbn [h_step]. rewrite Hg, Hc. reflexivity. Qed.

(* opening under an identifier - fresh, in use or used before - registers the
   new connection; the others stay what they are *)
Theorem open_registers_new : forall h sid bs,
  lookup (add_conn h sid bs) sid = Some (length (h_conns h), new_conn sid bs) /\
  (forall id c, get h id = Some c -> get (add_conn h sid bs) id = Some c).
Proof.
  intros h sid bs. split.
  - unfold lookup, add_conn at 1. cbn [h_tbl]. rewrite tbl_find_set_same, get_add_new. reflexivity.
  - intros id c Hg. apply get_add_old. exact Hg.
Qed.

(* on every reachable handler the connection registered under an identifier
   carries that identifier and is open *)
Theorem registered_is_open : forall es h os sid id c,
  h_run h_empty es = (h, os) -> lookup h sid = Some (id, c) ->
  rc_sid c = sid /\ rc_rclosed c = false.
Proof.
  intros es h os sid id c H Hl. pose proof (inv_run _ _ _ _ inv_empty H) as [_ Hw].
  destruct (lookup_get _ _ _ _ Hl) as [Hg Ht]. destruct (Hw sid id Ht) as [c0 [Hg0 [Hs Hc]]].
  rewrite Hg in Hg0. injection Hg0 as <-. split; assumption.
Qed.

(* a closed connection stays closed and never receives another packet,
   whatever happens later under its session identifier *)
Lemma closed_frozen_step : forall h e h1 o id c,
  wf h -> h_step h e = (h1, o) -> get h id = Some c -> rc_rclosed c = true ->
  exists c1, get h1 id = Some c1 /\ rc_rclosed c1 = true /\ rc_pk c1 = rc_pk c /\ rc_sid c1 = rc_sid c.
Proof.
  intros h e h1 o id c Hw H Hg Hc.
  assert (Hsame : forall f, (forall x, rc_rclosed (f x) = rc_rclosed x /\ rc_pk (f x) = rc_pk x /\ rc_sid (f x) = rc_sid x) ->
            forall i, exists c1, get (upd h i f) id = Some c1 /\ rc_rclosed c1 = true /\ rc_pk c1 = rc_pk c /\ rc_sid c1 = rc_sid c).
  { intros f Hf i. destruct (Nat.eq_dec id i) as [->|Hne].
    - exists (f c). rewrite (get_upd_same _ _ _ _ Hg). destruct (Hf c) as [H1 [H2 H3]]. repeat split; congruence.
    - exists c. rewrite get_upd_other by exact Hne. repeat split; assumption. }
  assert (Hclose : forall i, exists c1, get (close_conn h i) id = Some c1 /\ rc_rclosed c1 = true /\ rc_pk c1 = rc_pk c /\ rc_sid c1 = rc_sid c).
  { intro i. destruct (Nat.eq_dec id i) as [->|Hne].
    - exists (set_rclosed c). rewrite (get_close_same _ _ _ Hg). repeat split; reflexivity.
    - exists c. rewrite get_close_other by exact Hne. repeat split; assumption. }
  assert (Hkeep : exists c1, get h id = Some c1 /\ rc_rclosed c1 = true /\ rc_pk c1 = rc_pk c /\ rc_sid c1 = rc_sid c)
    by (exists c; repeat split; assumption).
  destruct e as [s bs acc|s bs lst|iq s seq data|i n|i max|i wacc|s|i]; cbn [h_step] in H.
  - destruct acc; injection H as <- <-; [|exact Hkeep]. exists c. rewrite (get_add_old _ _ _ _ _ Hg). repeat split; assumption.
  - destruct lst; injection H as <- <-; [|exact Hkeep]. exists c. rewrite (get_add_old _ _ _ _ _ Hg). repeat split; assumption.
  - destruct (handle_payload h iq s seq data) as [h' r] eqn:Eh. injection H as <- <-.
    unfold handle_payload in Eh. destruct (lookup h s) as [[j cj]|] eqn:El; [|injection Eh as <- <-; exact Hkeep].
    destruct (payload_conn cj iq seq data) as [c' r'] eqn:Ep. injection Eh as <- <-.
    destruct (lookup_get _ _ _ _ El) as [Hgj Htj]. destruct (Hw s j Htj) as [c0 [Hg0 [_ Hc0]]].
    rewrite Hgj in Hg0. injection Hg0 as <-.
    assert (Hne : id <> j) by (intros ->; rewrite Hg in Hgj; injection Hgj as <-; congruence).
    exists c. rewrite get_upd_other by exact Hne. repeat split; assumption.
  - destruct (get h i) as [ci|]; [|injection H as <- <-; exact Hkeep].
    destruct (rc_buf ci); [destruct (rc_rclosed ci); injection H as <- <-; exact Hkeep|].
    injection H as <- <-. apply Hsame. intros; repeat split; reflexivity.
  - injection H as <- <-. apply Hsame. intros; repeat split; reflexivity.
  - destruct (get h i) as [ci|]; [|injection H as <- <-; exact Hkeep].
    destruct (rc_rclosed ci); [injection H as <- <-; exact Hkeep|].
    destruct (rc_werr ci); [injection H as <- <-; exact Hkeep|].
    destruct wacc; injection H as <- <-; [exact Hkeep|]. apply Hsame. intros; repeat split; reflexivity.
  - destruct (lookup h s) as [[j cj]|]; injection H as <- <-; [apply Hclose|exact Hkeep].
  - destruct (get h i) as [ci|]; [|injection H as <- <-; exact Hkeep].
    destruct (rc_rclosed ci); injection H as <- <-; [exact Hkeep|apply Hclose].
Qed.

Theorem closed_conn_is_frozen : forall es h h' os id c,
  inv h -> h_run h es = (h', os) -> get h id = Some c -> rc_rclosed c = true ->
  exists c', get h' id = Some c' /\ rc_rclosed c' = true /\ rc_pk c' = rc_pk c /\ rc_sid c' = rc_sid c.
Proof.
  induction es as [|e es IH]; intros h h' os id c Hi H Hg Hc; cbn [h_run] in H.
  - injection H as <- _. exists c. repeat split; assumption.
  - destruct (h_step h e) as [h1 o] eqn:E1. destruct (h_run h1 es) as [h2 os2] eqn:E2.
    injection H as <- _.
    destruct (closed_frozen_step _ _ _ _ _ _ (proj2 Hi) E1 Hg Hc) as [c1 [Hg1 [Hc1 [Hp1 Hs1]]]].
    destruct (IH _ _ _ _ _ (h_step_inv _ _ _ _ Hi E1) E2 Hg1 Hc1) as [c' [Hg' [Hc' [Hp' Hs']]]].
    exists c'. repeat split; congruence.
Qed.

(* rmStream before the fix: closing an old connection removed whatever was
   registered under its identifier *)
Theorem unguarded_rm_unregisters_new_stream :
  exists t sid id j, tbl_find t sid = Some j /\ j <> id /\ tbl_find (tbl_rm_unguarded t sid id) sid = None /\
                     tbl_find (tbl_rm t sid id) sid = Some j.
Proof.
  exists [(str "x", 1)], (str "x"), 0, 1. repeat split; try reflexivity. discriminate.
Qed.

(* ===================================================================== *)
(* 5. close, drain, open, the local writer's errors                       *)
(* ===================================================================== *)

Lemma h_run_app : forall es1 es2 h,
  h_run h (es1 ++ es2) =
    (let '(h1, o1) := h_run h es1 in let '(h2, o2) := h_run h1 es2 in (h2, o1 ++ o2)).
Proof.
  induction es1 as [|e es1 IH]; intros es2 h; cbn [app h_run].
  - destruct (h_run h es2); reflexivity.
  - destruct (h_step h e) as [h1 o]. rewrite IH.
    destruct (h_run h1 es1) as [h2 o1]. destruct (h_run h2 es2) as [h3 o2]. reflexivity.
Qed.

Lemma close_remote_known : forall h sid id c,
  lookup h sid = Some (id, c) ->
  h_step h (ECloseRemote sid) = (close_conn h id, OReply RAck).
Proof. intros h sid id c H. cbn [h_step]. rewrite H. reflexivity. Qed.

(* a closed connection is no longer found by incoming packets *)
Lemma lookup_after_close : forall h sid id c,
  lookup h sid = Some (id, c) -> rc_sid c = sid -> lookup (close_conn h id) sid = None.
Proof.
  intros h sid id c Hl Hs. destruct (lookup_get _ _ _ _ Hl) as [Hg Ht].
  unfold lookup. rewrite (tbl_close _ _ _ Hg), tbl_find_rm, Hs, bytes_eqb_refl, Ht, Nat.eqb_refl. reflexivity.
Qed.

(* reading a closed connection with n > 0: the buffer in pieces of n, then
   end-of-file, and never a blocked read *)
Fixpoint drain_obs (n : nat) (fuel : nat) (buf : bytes) : list obs :=
  match fuel with
  | O => []
  | S f => match buf with
           | [] => [ORead [] true]
           | _ => ORead (firstn n buf) false :: drain_obs n f (skipn n buf)
           end
  end.

Lemma drain_closed : forall n fuel h id c,
  0 < n -> get h id = Some c -> rc_rclosed c = true -> length (rc_buf c) < fuel ->
  exists h', h_run h (repeat (ERead id n) (length (drain_obs n fuel (rc_buf c)))) =
             (h', drain_obs n fuel (rc_buf c)) /\ buf_of h' id = [].
Proof.
  intros n fuel. induction fuel as [|f IH]; intros h id c Hn Hf Hc Hl; [lia|].
  cbn [drain_obs]. destruct (rc_buf c) as [|b0 br] eqn:Eb.
  - cbn [length repeat h_run h_step]. rewrite Hf, Eb, Hc. exists h. split; [reflexivity|].
    unfold buf_of. rewrite Hf. exact Eb.
  - rewrite <- Eb in *. cbn [length repeat h_run h_step]. rewrite Hf.
    destruct (rc_buf c) as [|b1 br1] eqn:Eb1; [rewrite Eb in Eb1; discriminate|]. rewrite <- Eb1 in *.
    set (h1 := upd h id (take_read n)).
    assert (Hf1 : get h1 id = Some (take_read n c)) by (apply get_upd_same; exact Hf).
    destruct (IH h1 id (take_read n c) Hn Hf1) as [h' [Hrun Hb]].
    + cbn. exact Hc.
    + cbn [take_read rc_buf]. rewrite skipn_length.
      assert (0 < length (rc_buf c)) by (rewrite Eb1; cbn; lia). lia.
    + cbn [take_read rc_buf] in Hrun. rewrite Hrun. exists h'. split; [reflexivity|exact Hb].
Qed.

Lemma drain_obs_reads : forall n fuel buf id,
  0 < n -> length buf < fuel ->
  reads_of id (repeat (ERead id n) (length (drain_obs n fuel buf))) (drain_obs n fuel buf) = buf.
Proof.
  intros n fuel. induction fuel as [|f IH]; intros buf id Hn Hl; [lia|].
  cbn [drain_obs]. destruct buf as [|b0 br] eqn:Eb.
  - cbn. rewrite Nat.eqb_refl. reflexivity.
  - rewrite <- Eb in *. cbn [length repeat reads_of]. rewrite Nat.eqb_refl, IH.
    + apply firstn_skipn.
    + exact Hn.
    + rewrite skipn_length. assert (0 < length buf) by (rewrite Eb; cbn; lia). lia.
Qed.

Lemma drain_obs_last : forall n fuel buf,
  0 < n -> length buf < fuel ->
  exists pre, drain_obs n fuel buf = pre ++ [ORead [] true] /\
              Forall (fun o => exists d, o = ORead d false /\ d <> []) pre.
Proof.
  intros n fuel. induction fuel as [|f IH]; intros buf Hn Hl; [lia|].
  cbn [drain_obs]. destruct buf as [|b0 br] eqn:Eb.
  - exists []. split; [reflexivity|constructor].
  - rewrite <- Eb in *.
    destruct (IH (skipn n buf) Hn) as [pre [Hp Hf]].
    + rewrite skipn_length. assert (0 < length buf) by (rewrite Eb; cbn; lia). lia.
    + exists (ORead (firstn n buf) false :: pre). rewrite Hp. split; [reflexivity|].
      constructor; [|exact Hf]. exists (firstn n buf). split; [reflexivity|].
      rewrite Eb. destruct n; [lia|]. cbn. discriminate.
Qed.

(* After a close request the peer's packets are refused, and the application
   reads what remains and then end-of-file. *)
Theorem close_then_drain : forall h sid id c n,
  0 < n -> lookup h sid = Some (id, c) -> rc_sid c = sid ->
  let h1 := fst (h_step h (ECloseRemote sid)) in
  snd (h_step h (ECloseRemote sid)) = OReply RAck /\
  (forall iq seq data, handle_payload h1 iq sid seq data = (h1, RErr ItemNotFound)) /\
  exists k h' pre,
    h_run h1 (repeat (ERead id n) (S k)) = (h', pre ++ [ORead [] true]) /\
    Forall (fun o => exists d, o = ORead d false /\ d <> []) pre /\
    reads_of id (repeat (ERead id n) (S k)) (pre ++ [ORead [] true]) = rc_buf c.
Proof.
  intros h sid id c n Hn Hl Hs h1. unfold h1. rewrite (close_remote_known _ _ _ _ Hl). cbn [fst snd].
  destruct (lookup_get _ _ _ _ Hl) as [Hg _].
  split; [reflexivity|]. split.
  - intros iq seq data. apply handle_payload_unknown. apply (lookup_after_close _ _ _ _ Hl Hs).
  - pose proof (get_close_same _ _ _ Hg) as Hf1.
    destruct (drain_closed n (S (length (rc_buf c))) _ id (set_rclosed c) Hn Hf1 eq_refl) as [h' [Hrun _]];
      [cbn; lia|].
    cbn [set_rclosed rc_buf] in Hrun.
    destruct (drain_obs_last n (S (length (rc_buf c))) (rc_buf c) Hn) as [pre [Hp Hall]]; [lia|].
    pose proof (drain_obs_reads n (S (length (rc_buf c))) (rc_buf c) id Hn) as Hreads.
    rewrite Hp in Hrun, Hreads. rewrite app_length in Hrun, Hreads. cbn [length] in Hrun, Hreads.
    rewrite Nat.add_1_r in Hrun, Hreads.
    exists (length pre), h', pre. repeat split; [exact Hrun|exact Hall|apply Hreads; lia].
Qed.

(* the same for the application's own Close *)
Theorem local_close_then_drain : forall h id c n,
  0 < n -> get h id = Some c -> rc_rclosed c = false ->
  let h1 := fst (h_step h (ECloseLocal id)) in
  (forall sid j cj, lookup h1 sid = Some (j, cj) -> j <> id \/ rc_sid c <> sid) /\
  exists k h' pre,
    h_run h1 (repeat (ERead id n) (S k)) = (h', pre ++ [ORead [] true]) /\
    Forall (fun o => exists d, o = ORead d false /\ d <> []) pre /\
    reads_of id (repeat (ERead id n) (S k)) (pre ++ [ORead [] true]) = rc_buf c.
Proof.
  intros h id c n Hn Hg Hc h1. unfold h1. cbn [h_step]. rewrite Hg, Hc. cbn [fst]. split.
  - intros sid j cj Hl. destruct (Nat.eq_dec j id) as [->|Hne]; [right|left; exact Hne].
    intro Hs. destruct (lookup_get _ _ _ _ Hl) as [_ Ht]. rewrite (tbl_close _ _ _ Hg), tbl_find_rm, Hs, bytes_eqb_refl in Ht.
    destruct (tbl_find (h_tbl h) sid) as [j0|]; [|discriminate].
    destruct (j0 =? id) eqn:Ej; [discriminate|]. injection Ht as ->. rewrite Nat.eqb_refl in Ej. discriminate.
  - pose proof (get_close_same _ _ _ Hg) as Hf1.
    destruct (drain_closed n (S (length (rc_buf c))) _ id (set_rclosed c) Hn Hf1 eq_refl) as [h' [Hrun _]];
      [cbn; lia|].
    cbn [set_rclosed rc_buf] in Hrun.
    destruct (drain_obs_last n (S (length (rc_buf c))) (rc_buf c) Hn) as [pre [Hp Hall]]; [lia|].
    pose proof (drain_obs_reads n (S (length (rc_buf c))) (rc_buf c) id Hn) as Hreads.
    rewrite Hp in Hrun, Hreads. rewrite app_length in Hrun, Hreads. cbn [length] in Hrun, Hreads.
    rewrite Nat.add_1_r in Hrun, Hreads.
    exists (length pre), h', pre. repeat split; [exact Hrun|exact Hall|apply Hreads; lia].
Qed.

(* ---- opening ---- *)

Theorem open_only_if_accepted :
  (forall r, open_succeeds r = true -> r = OpenResult) /\
  (forall h sid bs, h_step h (EOpenLocal sid bs false) = (h, OOpen false)) /\
  (forall h sid bs, h_step h (EOpenRemote sid bs false) = (h, OReply (RErr NotAcceptable))).
Proof.
  repeat split. intros r H. destruct r; [reflexivity|discriminate|discriminate].
Qed.

(* a stream nobody opened (or whose opening was refused) is unknown: its
   packets and close requests are refused with item-not-found *)
Theorem unopened_is_unknown : forall iq sid seq data,
  h_step h_empty (EData iq sid seq data) = (h_empty, OReply (RErr ItemNotFound)) /\
  h_step h_empty (ECloseRemote sid) = (h_empty, OReply (RErr ItemNotFound)).
Proof. intros. split; reflexivity. Qed.

(* ---- the peer's close request and the local writer's errors ---- *)

(* A close request for a registered stream is acknowledged and deregisters it,
   whatever state the connection is in — in particular when a data packet of
   the local writer was refused earlier and its error is still pending. What
   was buffered for the reader is untouched. *)
Theorem peer_close_always_answered : forall h sid id c,
  lookup h sid = Some (id, c) ->
  h_step h (ECloseRemote sid) = (close_conn h id, OReply RAck) /\
  get (close_conn h id) id = Some (set_rclosed c) /\
  buf_of (close_conn h id) id = rc_buf c /\
  (rc_sid c = sid -> lookup (close_conn h id) sid = None).
Proof.
  intros h sid id c H. destruct (lookup_get _ _ _ _ H) as [Hg _].
  split; [apply (close_remote_known _ _ _ _ H)|].
  split; [apply (get_close_same _ _ _ Hg)|].
  split; [unfold buf_of; rewrite (get_close_same _ _ _ Hg); reflexivity|].
  intro Hs. apply (lookup_after_close _ _ _ _ H Hs).
Qed.

Theorem peer_close_answered_after_any_history : forall es h os sid id c,
  h_run h_empty es = (h, os) -> lookup h sid = Some (id, c) ->
  snd (h_step h (ECloseRemote sid)) = OReply RAck /\
  lookup (fst (h_step h (ECloseRemote sid))) sid = None.
Proof.
  intros es h os sid id c Hr H. rewrite (close_remote_known _ _ _ _ H). cbn [fst snd].
  split; [reflexivity|]. apply (lookup_after_close _ _ _ _ H).
  apply (proj1 (registered_is_open _ _ _ _ _ _ Hr H)).
Qed.

(* A refused data packet is the local writer's business: that Write/Flush
   fails, every later one fails the same way and sends nothing, and the
   handler's table and read side are exactly as before. *)
Theorem refused_write_sticks : forall h id c,
  get h id = Some c -> rc_rclosed c = false -> rc_werr c = false ->
  let h1 := upd h id set_werr in
  h_step h (EWrite id false) = (h1, OWrite false) /\
  (forall acc, h_step h1 (EWrite id acc) = (h1, OWrite false)) /\
  (forall j, buf_of h1 j = buf_of h j) /\
  h_tbl h1 = h_tbl h.
Proof.
  intros h id c Hf Hc Hw h1.
  assert (Hf1 : get h1 id = Some (set_werr c)) by (apply get_upd_same; exact Hf).
  split; [|split; [|split]].
  - cbn [h_step]. rewrite Hf, Hc, Hw. reflexivity.
  - intro acc. cbn [h_step]. rewrite Hf1. cbn [set_werr rc_rclosed rc_werr]. rewrite Hc. reflexivity.
  - intro j. unfold buf_of. destruct (Nat.eq_dec j id) as [->|Hne].
    + rewrite Hf1, Hf. reflexivity.
    + unfold h1. rewrite get_upd_other by exact Hne. reflexivity.
  - reflexivity.
Qed.

(* before the repair: with the stale error pending the request was not answered *)
Theorem stale_write_error_left_close_unanswered :
  exists c, rc_werr c = true /\ rc_rclosed c = false /\ close_remote_reply_stale c = None.
Proof. exists (set_werr (new_conn (str "a") 8)). repeat split; reflexivity. Qed.
