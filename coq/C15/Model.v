(* C15/Model.v — executable model of mellium.im/xmpp/ibb (XEP-0047 in-band
   bytestreams): "an in-band bytestream is a reliable ordered byte pipe".

   Data path, sender      Conn.Write / Flush / Close (ibb/conn.go):
                          bufio.Writer(block size) -> base64.NewEncoder -> stanzaWriter
   Data path, receiver    Handler.HandleIQ / HandleMessage -> handlePayload (ibb/ibb.go),
                          open / handleOpen, the close IQ, Conn.Read on buffered data
   Control path           Conn.Read (lock; empty-test; unlock; wait; lock), the wake-up
                          token sent by handlePayload, Close / closeNoNotify — a
                          labelled transition system whose labels are the library's
                          `verif` yield points, so that the harness can force them.

   Only computable definitions; no proofs here. *)
From Coq Require Import ZArith.
From XV Require Import lib.Bytes lib.Base64 lib.Lts gen.Ibb.

(* ===================================================================== *)
(* 1. sender                                                              *)
(* ===================================================================== *)

Inductive wop := WWrite (b : bytes) | WFlush.

(* bufio.Writer.Write on a writer of size bs holding buf, over a downstream
   writer that accepts everything: returns the slices handed downstream and
   the new buffer content.  (bufio.go: while len(p) > Available: an empty
   buffer passes p through unbuffered; otherwise fill, flush, continue.) *)
Definition bufio_write (bs : nat) (buf p : bytes) : list bytes * bytes :=
  let avail := bs - length buf in
  if length p <=? avail then ([], buf ++ p)
  else match buf with
       | [] => ([p], [])
       | _ => let first := buf ++ firstn avail p in
              let r := skipn avail p in
              if length r <=? bs then ([first], r) else ([first; r], [])
       end.

Definition bufio_flush (buf : bytes) : list bytes * bytes :=
  match buf with [] => ([], []) | _ => ([buf], []) end.

(* base64 stream encoder (encoding/base64 encoder.Write): a fringe of 0-2
   bytes is kept between calls; full 3-byte groups are encoded and written
   downstream in slices of at most 768 bytes (1024 characters), never padded.
   fuel: one unit per loop iteration; length p is always enough. *)
Fixpoint enc_interior (fuel : nat) (p : bytes) : list bytes * bytes :=
  match fuel with
  | O => ([], p)
  | S f =>
      if length p <? 3 then ([], p)
      else let nn := Nat.min 768 (length p - length p mod 3) in
           let '(out, fr) := enc_interior f (skipn nn p) in
           (encode (firstn nn p) :: out, fr)
  end.

Definition enc_write (fr p : bytes) : list bytes * bytes :=
  match fr with
  | [] => enc_interior (length p) p
  | _ => let i := Nat.min (length p) (3 - length fr) in
         let fr' := fr ++ firstn i p in
         if length fr' <? 3 then ([], fr')
         else let '(out, fr'') := enc_interior (length p) (skipn i p) in
              (encode fr' :: out, fr'')
  end.

(* encoder.Close: the fringe, padded *)
Definition enc_close (fr : bytes) : list bytes :=
  match fr with [] => [] | _ => [encode fr] end.

(* several downstream writes of the bufio layer, in order *)
Fixpoint enc_feed (fr : bytes) (chunks : list bytes) : list bytes * bytes :=
  match chunks with
  | [] => ([], fr)
  | c :: rest => let '(o1, fr1) := enc_write fr c in
                 let '(o2, fr2) := enc_feed fr1 rest in
                 (o1 ++ o2, fr2)
  end.

Record sstate := mkss { s_buf : bytes; s_fr : bytes }.
Definition s_init : sstate := mkss [] [].

(* one Write or Flush call: the encoded pieces written to the stanza writer *)
Definition s_step (bs : nat) (st : sstate) (op : wop) : list bytes * sstate :=
  let '(chunks, buf') := match op with
                         | WWrite p => bufio_write bs (s_buf st) p
                         | WFlush => bufio_flush (s_buf st)
                         end in
  let '(out, fr') := enc_feed (s_fr st) chunks in
  (out, mkss buf' fr').

Fixpoint s_run (bs : nat) (st : sstate) (ops : list wop) : list bytes * sstate :=
  match ops with
  | [] => ([], st)
  | op :: rest => let '(o1, st1) := s_step bs st op in
                  let '(o2, st2) := s_run bs st1 rest in
                  (o1 ++ o2, st2)
  end.

(* Close and closeNoNotify: flush the bufio layer, then close the encoder *)
Definition s_close (st : sstate) : list bytes :=
  let '(chunks, _) := bufio_flush (s_buf st) in
  let '(out, fr') := enc_feed (s_fr st) chunks in
  out ++ enc_close fr'.

Definition sender_pieces (bs : nat) (ops : list wop) : list bytes :=
  let '(o, st) := s_run bs s_init ops in o ++ s_close st.

(* stanzaWriter: one data packet per piece, uint16 sequence numbers *)
Record packet := mkpkt { p_seq : N; p_data : bytes }.

Definition seq_next (s : N) : N := ((s + 1) mod 65536)%N.

Fixpoint number (seq : N) (pieces : list bytes) : list packet :=
  match pieces with
  | [] => []
  | d :: rest => mkpkt seq d :: number (seq_next seq) rest
  end.

Definition sender (bs : nat) (seq0 : N) (ops : list wop) : list packet :=
  number seq0 (sender_pieces bs ops).

Definition written (ops : list wop) : bytes :=
  concat (map (fun op => match op with WWrite b => b | WFlush => [] end) ops).

(* the block size a connection uses: 0 in the open request means the default *)
Definition effective_bs (bs : N) : nat :=
  N.to_nat (if (bs =? 0)%N then ibb_block_size else bs).

(* ===================================================================== *)
(* 2. receiver: the handler as a state machine over incoming events       *)
(* ===================================================================== *)

Inductive cond := ItemNotFound | UnexpectedRequest | ResourceConstraint | BadRequest | NotAcceptable.
Inductive reply := RAck | RSilent | RErr (c : cond).

(* One Conn. The application refers to a connection by its handle (the order of
   creation on the handler: position in h_conns); packets refer to it by
   session identifier through Handler.streams (h_tbl). Session identifiers may
   be reused: several connections can carry the same rc_sid, at most one of
   them is registered. *)
Record rconn := mkrc {
  rc_sid : bytes;
  rc_bs : N;            (* negotiated block size (never 0) *)
  rc_seq : N;           (* next expected sequence number *)
  rc_buf : bytes;       (* readBuf *)
  rc_max : Z;           (* maxBufSize; <= 0: unlimited *)
  rc_rclosed : bool;    (* closed (markClosed / readClosed): readers see end-of-file after the buffer *)
  rc_werr : bool;       (* write side: a data packet was refused; bufio.Writer and the encoder keep that error *)
  rc_pk : list packet;  (* ghost: the data packets accepted for this connection, in order *)
  rc_rd : bytes         (* ghost: everything Read has returned *)
}.

Record handler := mkh {
  h_conns : list rconn;          (* every connection ever created, by handle *)
  h_tbl : list (bytes * nat)     (* Handler.streams: session identifier -> handle; one entry per identifier *)
}.

Definition h_empty : handler := mkh [] [].

Definition new_conn (sid : bytes) (bs : N) : rconn :=
  let bs' := (if (bs =? 0)%N then ibb_block_size else bs) in
  mkrc sid bs' 0 [] (Z.of_N ibb_max_buffer) false false [] [].

Definition get (h : handler) (id : nat) : option rconn := nth_error (h_conns h) id.

Fixpoint upd_list (l : list rconn) (id : nat) (f : rconn -> rconn) : list rconn :=
  match l, id with
  | [], _ => []
  | c :: rest, O => f c :: rest
  | c :: rest, S i => c :: upd_list rest i f
  end.

Definition upd (h : handler) (id : nat) (f : rconn -> rconn) : handler :=
  mkh (upd_list (h_conns h) id f) (h_tbl h).

(* Handler.streams as an association list with one entry per key *)
Fixpoint tbl_find (t : list (bytes * nat)) (sid : bytes) : option nat :=
  match t with
  | [] => None
  | (s, i) :: rest => if bytes_eqb s sid then Some i else tbl_find rest sid
  end.

Definition tbl_drop (t : list (bytes * nat)) (sid : bytes) : list (bytes * nat) :=
  filter (fun e => negb (bytes_eqb (fst e) sid)) t.

(* addStream: h.streams[sid] = conn (an older entry is overwritten) *)
Definition tbl_set (t : list (bytes * nat)) (sid : bytes) (id : nat) : list (bytes * nat) :=
  (sid, id) :: tbl_drop t sid.

(* rmStream(sid, conn): the entry is deleted only if it still refers to conn *)
Definition tbl_rm (t : list (bytes * nat)) (sid : bytes) (id : nat) : list (bytes * nat) :=
  match tbl_find t sid with
  | Some j => if j =? id then tbl_drop t sid else t
  | None => t
  end.

(* rmStream before fix "closing a stream does not unregister a newer stream
   with the same session ID" (kept for the record): whatever is registered
   under the identifier goes *)
Definition tbl_rm_unguarded (t : list (bytes * nat)) (sid : bytes) (id : nat) : list (bytes * nat) :=
  tbl_drop t sid.

(* Handler.streams[sid] *)
Definition lookup (h : handler) (sid : bytes) : option (nat * rconn) :=
  match tbl_find (h_tbl h) sid with
  | Some id => match get h id with Some c => Some (id, c) | None => None end
  | None => None
  end.

Definition add_conn (h : handler) (sid : bytes) (bs : N) : handler :=
  mkh (h_conns h ++ [new_conn sid bs]) (tbl_set (h_tbl h) sid (length (h_conns h))).

(* handlePayload on a registered connection *)
Definition fits (c : rconn) (data : bytes) : bool :=
  negb ((0 <? rc_max c)%Z &&
        (rc_max c <? Z.of_nat (length (rc_buf c)) + Z.of_nat (decoded_len (length data)))%Z).

Definition accept_data (c : rconn) (seq : N) (data d : bytes) : rconn :=
  mkrc (rc_sid c) (rc_bs c) (seq_next (rc_seq c)) (rc_buf c ++ d) (rc_max c)
       (rc_rclosed c) (rc_werr c) (rc_pk c ++ [mkpkt seq data]) (rc_rd c).

(* both carriers take the same path: the carrier only decides whether the
   acceptance is acknowledged (iq) or silent (message) *)
Definition payload_conn (c : rconn) (iq : bool) (seq : N) (data : bytes) : rconn * reply :=
  if rc_rclosed c then (c, RErr ItemNotFound)
  else if negb (seq =? rc_seq c)%N then (c, RErr UnexpectedRequest)
  else if negb (fits c data) then (c, RErr ResourceConstraint)
  else match decode_go data with
       | None => (c, RErr BadRequest)
       | Some d => (accept_data c seq data d, if iq then RAck else RSilent)
       end.

Definition handle_payload (h : handler) (iq : bool) (sid : bytes) (seq : N) (data : bytes)
  : handler * reply :=
  match lookup h sid with
  | None => (h, RErr ItemNotFound)
  | Some (id, c) => let '(c', r) := payload_conn c iq seq data in (upd h id (fun _ => c'), r)
  end.

Definition set_rclosed (c : rconn) : rconn :=
  mkrc (rc_sid c) (rc_bs c) (rc_seq c) (rc_buf c) (rc_max c) true (rc_werr c) (rc_pk c) (rc_rd c).

(* closeRead: rmStream(sid, c), readClosed *)
Definition close_conn (h : handler) (id : nat) : handler :=
  match get h id with
  | Some c => mkh (upd_list (h_conns h) id set_rclosed) (tbl_rm (h_tbl h) (rc_sid c) id)
  | None => h
  end.

(* SetReadBuffer *)
Definition set_max (max : Z) (c : rconn) : rconn :=
  let m := if ((max <? Z.of_N (rc_bs c)) && (0 <? max))%Z then Z.of_N (rc_bs c) else max in
  mkrc (rc_sid c) (rc_bs c) (rc_seq c) (rc_buf c) m (rc_rclosed c) (rc_werr c) (rc_pk c) (rc_rd c).

Definition take_read (n : nat) (c : rconn) : rconn :=
  mkrc (rc_sid c) (rc_bs c) (rc_seq c) (skipn n (rc_buf c)) (rc_max c) (rc_rclosed c) (rc_werr c)
       (rc_pk c) (rc_rd c ++ firstn n (rc_buf c)).

(* a data packet of the local writer was refused by the peer: the error sticks *)
Definition set_werr (c : rconn) : rconn :=
  mkrc (rc_sid c) (rc_bs c) (rc_seq c) (rc_buf c) (rc_max c) (rc_rclosed c) true (rc_pk c) (rc_rd c).

Inductive event :=
| EOpenLocal (sid : bytes) (bs : N) (accepted : bool)   (* Handler.Open/OpenIQ; the peer's reply is result / error *)
| EOpenRemote (sid : bytes) (bs : N) (listening : bool) (* an open request arrives *)
| EData (iq : bool) (sid : bytes) (seq : N) (data : bytes)
| ERead (id : nat) (n : nat)                            (* Conn.Read with a buffer of n > 0 bytes, issued when it cannot block *)
| ESetMax (id : nat) (max : Z)
| EWrite (id : nat) (accepted : bool)                   (* Conn.Write of one block + Flush; the peer acknowledges / refuses the data packet *)
| ECloseRemote (sid : bytes)                            (* a close request arrives *)
| ECloseLocal (id : nat).                               (* Conn.Close; the peer answers *)

Inductive obs :=
| OOpen (ok : bool)
| OReply (r : reply)
| ORead (data : bytes) (eof : bool)
| OWrite (ok : bool)  (* Write and Flush both returned nil *)
| OBlocked            (* the read would block: the harness never issues such a read *)
| ONone.

Definition h_step (h : handler) (e : event) : handler * obs :=
  match e with
  | EOpenLocal sid bs accepted =>
      if accepted then (add_conn h sid bs, OOpen true) else (h, OOpen false)
  | EOpenRemote sid bs listening =>
      if listening then (add_conn h sid bs, OReply RAck) else (h, OReply (RErr NotAcceptable))
  | EData iq sid seq data =>
      let '(h', r) := handle_payload h iq sid seq data in (h', OReply r)
  | ERead id n =>
      match get h id with
      | None => (h, ONone)
      | Some c =>
          match rc_buf c with
          | [] => if rc_rclosed c then (h, ORead [] true) else (h, OBlocked)
          | _ => (upd h id (take_read n), ORead (firstn n (rc_buf c)) false)
          end
      end
  | ESetMax id max => (upd h id (set_max max), ONone)
  | EWrite id accepted =>
      match get h id with
      | None => (h, ONone)
      | Some c =>
          if rc_rclosed c then (h, OWrite false)        (* closed: io.EOF *)
          else if rc_werr c then (h, OWrite false)      (* the earlier error again; nothing is sent *)
          else if accepted then (h, OWrite true)
          else (upd h id set_werr, OWrite false)
      end
  | ECloseRemote sid =>
      match lookup h sid with
      | None => (h, OReply (RErr ItemNotFound))
      | Some (id, _) => (close_conn h id, OReply RAck)
      end
  | ECloseLocal id =>
      match get h id with
      | None => (h, ONone)
      | Some c => if rc_rclosed c then (h, ONone)      (* markClosed: closed already, nothing happens *)
                  else (close_conn h id, ONone)
      end
  end.

Fixpoint h_run (h : handler) (es : list event) : handler * list obs :=
  match es with
  | [] => (h, [])
  | e :: rest => let '(h1, o) := h_step h e in
                 let '(h2, os) := h_run h1 rest in
                 (h2, o :: os)
  end.

(* Opening: the only thing the initiator looks at is the type of the reply. *)
Inductive open_reply := OpenResult | OpenError (c : cond) | OpenNoReply.
Definition open_succeeds (r : open_reply) : bool :=
  match r with OpenResult => true | _ => false end.

(* The pinned tree's open() never looked at the reply: any reply at all made
   it return a connection (kept for the record; see design/C15.md). *)
Definition open_succeeds_pinned (r : open_reply) : bool :=
  match r with OpenNoReply => false | _ => true end.

(* The pinned tree's handlePayload, kept for the record: the sequence number
   was advanced before the size test and the decoding, and the decoder
   streamed into the buffer, so that the quanta in front of a corrupt one were
   appended although the packet was refused. *)
Fixpoint decoded_prefix (fuel : nat) (s : bytes) : bytes :=
  match fuel with
  | O => []
  | S f =>
      if length s <? 4 then []
      else match decode (firstn 4 s) with
           | Some d => d ++ decoded_prefix f (skipn 4 s)
           | None => []
           end
  end.

Definition payload_conn_pinned (c : rconn) (iq : bool) (seq : N) (data : bytes) : rconn * reply :=
  if negb (seq =? rc_seq c)%N then (c, RErr UnexpectedRequest)
  else
    let adv b := mkrc (rc_sid c) (rc_bs c) (seq_next (rc_seq c)) b (rc_max c)
                      (rc_rclosed c) (rc_werr c) (rc_pk c) (rc_rd c) in
    if negb (fits c data) then (adv (rc_buf c), RErr ResourceConstraint)
    else match decode_go data with
         | None => (adv (rc_buf c ++ decoded_prefix (length data) (strip_newlines data)), RErr BadRequest)
         | Some d => (adv (rc_buf c ++ d), if iq then RAck else RSilent)
         end.

(* The close request on main before fix "a peer's close request is answered
   whatever the writer's state" (kept for the record): the handler returned
   the buffered writer's stale error, Serve ended with it and the request
   stayed unanswered (None). *)
Definition close_remote_reply_stale (c : rconn) : option reply :=
  if rc_werr c then None else Some RAck.

(* the bytes an application reads from the connection with handle id over a run *)
Fixpoint reads_of (id : nat) (es : list event) (os : list obs) : bytes :=
  match es, os with
  | ERead i _ :: es', ORead d _ :: os' => (if i =? id then d else []) ++ reads_of id es' os'
  | _ :: es', _ :: os' => reads_of id es' os'
  | _, _ => []
  end.

Definition is_ack (r : reply) : bool := match r with RAck | RSilent => true | RErr _ => false end.

Definition payload_of (p : packet) : bytes :=
  match decode_go (p_data p) with Some d => d | None => [] end.

(* the bytes of the packets accepted for a connection *)
Definition accepted_bytes (c : rconn) : bytes := concat (map payload_of (rc_pk c)).

(* what is buffered for the application on a connection *)
Definition buf_of (h : handler) (id : nat) : bytes :=
  match get h id with Some c => rc_buf c | None => [] end.

(* why (if at all) handlePayload refuses a packet on a connection *)
Definition refusal (c : rconn) (seq : N) (data : bytes) : option cond :=
  if rc_rclosed c then Some ItemNotFound
  else if negb (seq =? rc_seq c)%N then Some UnexpectedRequest
  else if negb (fits c data) then Some ResourceConstraint
  else match decode_go data with None => Some BadRequest | Some _ => None end.

(* the events by which a peer delivers a list of packets to sid *)
Definition deliver (iq : bool) (sid : bytes) (ps : list packet) : list event :=
  map (fun p => EData iq sid (p_seq p) (p_data p)) ps.

(* ===================================================================== *)
(* 3. control path: reader / serve loop / close as a transition system     *)
(* ===================================================================== *)

Inductive rpc :=
| PIdle                          (* no Read call in progress *)
| PChecked (n : nat)             (* found the buffer empty, released the lock; yield point ibb.read.checked *)
| PRecv (n : nat)                (* blocked in the receive from readReady (nothing queued, not closed) *)
| PWoken (n : nat) (isopen : bool). (* received from readReady (isopen = false: the channel was closed); ibb.read.woken *)

Inductive lobs :=
| BReturned (d : bytes) (eof : bool)   (* Read returned d, with io.EOF iff eof *)
| BParked                              (* Read is at ibb.read.checked *)
| BWoke                                (* Read is at ibb.read.woken *)
| BInRecv                              (* Read left ibb.read.checked and blocks in the receive *)
| BAck | BTaken | BRefused             (* outcome of a data packet: acknowledged (iq carrier), accepted
                                          without an answer (message carrier), refused *)
| BClosed.

Record lstate := mkls {
  l_buf : bytes;        (* readBuf *)
  l_tok : bool;         (* a value is queued in readReady (capacity 1) *)
  l_closed : bool;      (* readReady is closed *)
  l_pc : rpc;
  l_delivered : bytes;  (* ghost: everything ever appended to readBuf *)
  l_read : bytes;       (* ghost: everything Read has returned *)
  l_log : list lobs     (* observations, newest first *)
}.

Definition l_init : lstate := mkls [] false false PIdle [] [] [].

Inductive label :=
| LStart (n : nat)      (* the application calls Read with a buffer of n > 0 bytes *)
| LWait                 (* the reader leaves ibb.read.checked and receives from readReady *)
| LResume               (* the reader leaves ibb.read.woken, locks and re-tests *)
| LDeliver (iq : bool) (d : bytes)
                        (* handlePayload on either carrier, under readLock: append, acknowledge
                           (iq carrier only), notify (both carriers) *)
| LClose.               (* Close after its handshake / closeNoNotify: close readReady under readLock *)

(* the locked region of Read entered with the buffer b: return data or go waiting *)
Definition accepted_obs (iq : bool) : lobs := if iq then BAck else BTaken.

Definition read_locked (s : lstate) (n : nat) : lstate :=
  match l_buf s with
  | [] => mkls [] (l_tok s) (l_closed s) (PChecked n) (l_delivered s) (l_read s) (BParked :: l_log s)
  | b => mkls (skipn n b) (l_tok s) (l_closed s) PIdle (l_delivered s) (l_read s ++ firstn n b)
              (BReturned (firstn n b) false :: l_log s)
  end.

Definition lstep (s : lstate) (l : label) : option lstate :=
  match l, l_pc s with
  | LStart n, PIdle => if n =? 0 then None else Some (read_locked s n)
  | LWait, PChecked n =>
      (* a value still queued in a closed channel is received before the
         "closed" indication *)
      if l_tok s then
        Some (mkls (l_buf s) false (l_closed s) (PWoken n true) (l_delivered s) (l_read s) (BWoke :: l_log s))
      else if l_closed s then
        Some (mkls (l_buf s) false true (PWoken n false) (l_delivered s) (l_read s) (BWoke :: l_log s))
      else                                       (* nothing queued: block in the receive *)
        Some (mkls (l_buf s) false false (PRecv n) (l_delivered s) (l_read s) (BInRecv :: l_log s))
  | LResume, PWoken n true => Some (read_locked s n)
  | LResume, PWoken n false =>
      (* channel closed: leave the loop, bytes.Buffer.Read decides *)
      match l_buf s with
      | [] => Some (mkls [] (l_tok s) (l_closed s) PIdle (l_delivered s) (l_read s)
                         (BReturned [] true :: l_log s))
      | b => Some (mkls (skipn n b) (l_tok s) (l_closed s) PIdle (l_delivered s) (l_read s ++ firstn n b)
                        (BReturned (firstn n b) false :: l_log s))
      end
  | LDeliver iq d, _ =>
      if l_closed s then
        Some (mkls (l_buf s) (l_tok s) true (l_pc s) (l_delivered s) (l_read s) (BRefused :: l_log s))
      else
        (* the non-blocking send: a reader blocked in the receive takes the value
           directly, otherwise it is queued (or dropped when one is queued already) *)
        match l_pc s with
        | PRecv n =>
            Some (mkls (l_buf s ++ d) (l_tok s) false (PWoken n true) (l_delivered s ++ d) (l_read s) (accepted_obs iq :: l_log s))
        | _ =>
            Some (mkls (l_buf s ++ d) true false (l_pc s) (l_delivered s ++ d) (l_read s) (accepted_obs iq :: l_log s))
        end
  | LClose, _ =>
      Some (mkls (l_buf s) (l_tok s) true
                 (match l_pc s with PRecv n => PWoken n false | pc => pc end)
                 (l_delivered s) (l_read s) (BClosed :: l_log s))
  | _, _ => None
  end.

Definition lrun := @run lstate label lstep.

(* the observation a step makes *)
Definition step_obs (s : lstate) (l : label) : option lobs :=
  match lstep s l with
  | Some s' => hd_error (l_log s')
  | None => None
  end.

(* The pinned tree's Read and notify, kept for the record (the defects C15
   found): readReady had no capacity, so a wake-up reached the reader only if
   it was already blocked in the receive, and Read did not test the buffer
   again after waking. *)
Definition lstep_pinned (s : lstate) (l : label) : option lstate :=
  match l, l_pc s with
  | LStart n, PIdle => if n =? 0 then None else Some (read_locked s n)
  | LWait, PChecked n =>
      if l_closed s then
        Some (mkls (l_buf s) false true (PWoken n false) (l_delivered s) (l_read s) (BWoke :: l_log s))
      else
        Some (mkls (l_buf s) false false (PRecv n) (l_delivered s) (l_read s) (BInRecv :: l_log s))
  | LResume, PWoken n _ =>
      match l_buf s with
      | [] => Some (mkls [] false (l_closed s) PIdle (l_delivered s) (l_read s) (BReturned [] true :: l_log s))
      | b => Some (mkls (skipn n b) false (l_closed s) PIdle (l_delivered s) (l_read s ++ firstn n b)
                        (BReturned (firstn n b) false :: l_log s))
      end
  | LDeliver iq d, _ =>
      if l_closed s then
        Some (mkls (l_buf s) false true (l_pc s) (l_delivered s) (l_read s) (BRefused :: l_log s))
      else
        Some (mkls (l_buf s ++ d) false false
                   (match l_pc s with PRecv n => PWoken n true | pc => pc end)  (* else: the wake-up is dropped *)
                   (l_delivered s ++ d) (l_read s) (accepted_obs iq :: l_log s))
  | LClose, _ =>
      Some (mkls (l_buf s) false true
                 (match l_pc s with PRecv n => PWoken n false | pc => pc end)
                 (l_delivered s) (l_read s) (BClosed :: l_log s))
  | _, _ => None
  end.

(* a reader that can make no step of its own *)
Definition reader_blocked (s : lstate) : bool :=
  match l_pc s with
  | PRecv _ => true
  | _ => false
  end.

(* schedules with an observation of "blocked" where a label is not enabled:
   the harness forces a label sequence and records, for LWait, whether the
   reader got through. *)
Inductive sobs := SDid (o : lobs) | SBlocked | SSkip.

Fixpoint sched_run (s : lstate) (ls : list label) : list sobs :=
  match ls with
  | [] => []
  | l :: rest =>
      match lstep s l with
      | Some s' => match l_log s' with
                   | o :: _ => SDid o :: sched_run s' rest
                   | [] => SSkip :: sched_run s' rest
                   end
      | None => match l, l_pc s with
                | LWait, PRecv _ => SBlocked :: sched_run s rest
                | _, _ => SSkip :: sched_run s rest
                end
      end
  end.

(* ===================================================================== *)
(* 4. correspondence records (terms of these types are written by the     *)
(*    harness; every checker is evaluated with vm_compute)                *)
(* ===================================================================== *)

Definition opt_eqb {A} (eqb : A -> A -> bool) (a b : option A) : bool :=
  match a, b with Some x, Some y => eqb x y | None, None => true | _, _ => false end.

Fixpoint list_eqb {A} (eqb : A -> A -> bool) (a b : list A) : bool :=
  match a, b with
  | [], [] => true
  | x :: a', y :: b' => eqb x y && list_eqb eqb a' b'
  | _, _ => false
  end.

Definition packet_eqb (a b : packet) : bool := (p_seq a =? p_seq b)%N && bytes_eqb (p_data a) (p_data b).

(* sender case: block size as sent in the open request, first sequence number,
   the calls made, then Close (local) or a close request from the peer; observed:
   the data packets on the wire, and how many of them preceded the close. *)
Record scase := mkscase {
  sc_bs : N; sc_seq0 : N; sc_ops : list wop;
  so_packets : list packet; so_before_close : nat }.

Definition scase_ok (c : scase) : bool :=
  let bs := effective_bs (sc_bs c) in
  list_eqb packet_eqb (sender bs (sc_seq0 c) (sc_ops c)) (so_packets c) &&
  (length (fst (s_run bs s_init (sc_ops c))) =? so_before_close c).

(* the same without the count (packets recorded on a link between two sessions) *)
Definition scase_packets_ok (c : scase) : bool :=
  list_eqb packet_eqb (sender (effective_bs (sc_bs c)) (sc_seq0 c) (sc_ops c)) (so_packets c).

Definition cond_eqb (a b : cond) : bool :=
  match a, b with
  | ItemNotFound, ItemNotFound | UnexpectedRequest, UnexpectedRequest
  | ResourceConstraint, ResourceConstraint | BadRequest, BadRequest | NotAcceptable, NotAcceptable => true
  | _, _ => false
  end.

Definition reply_eqb (a b : reply) : bool :=
  match a, b with
  | RAck, RAck | RSilent, RSilent => true
  | RErr x, RErr y => cond_eqb x y
  | _, _ => false
  end.

Definition obs_eqb (a b : obs) : bool :=
  match a, b with
  | OOpen x, OOpen y => Bool.eqb x y
  | OReply x, OReply y => reply_eqb x y
  | ORead d e, ORead d' e' => bytes_eqb d d' && Bool.eqb e e'
  | OWrite x, OWrite y => Bool.eqb x y
  | OBlocked, OBlocked | ONone, ONone => true
  | _, _ => false
  end.

(* receiver case: a script of events against one handler and what was observed *)
Record rcase := mkrcase { rc_events : list event; ro_obs : list obs }.

Definition rcase_ok (c : rcase) : bool :=
  list_eqb obs_eqb (snd (h_run h_empty (rc_events c))) (ro_obs c).

Definition lobs_eqb (a b : lobs) : bool :=
  match a, b with
  | BReturned d e, BReturned d' e' => bytes_eqb d d' && Bool.eqb e e'
  | BParked, BParked | BWoke, BWoke | BInRecv, BInRecv | BAck, BAck | BTaken, BTaken
  | BRefused, BRefused | BClosed, BClosed => true
  | _, _ => false
  end.

Definition sobs_eqb (a b : sobs) : bool :=
  match a, b with
  | SDid x, SDid y => lobs_eqb x y
  | SBlocked, SBlocked | SSkip, SSkip => true
  | _, _ => false
  end.

(* schedule case: a forced label sequence and what the implementation did *)
Record lcase := mklcase { lc_labels : list label; lo_obs : list sobs }.

Definition lcase_ok (c : lcase) : bool :=
  list_eqb sobs_eqb (sched_run l_init (lc_labels c)) (lo_obs c).

Fixpoint failing {A} (ok : A -> bool) (i : nat) (l : list A) : list nat :=
  match l with
  | [] => []
  | x :: r => if ok x then failing ok (S i) r else i :: failing ok (S i) r
  end.
