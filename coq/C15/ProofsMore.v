(* C15/ProofsMore.v — further lemmas: the receive-buffer limit, the reader's
   progress (liveness by explicit reader-only schedules) and the recorded
   failures of the pinned tree's design. *)
From Coq Require Import ZArith ZifyBool ZifyNat ZifyN.
From XV Require Import lib.Bytes lib.Base64 lib.Lts gen.Ibb C15.Model C15.Proofs C15.ProofsRecv.

(* ===================================================================== *)
(* 1. DecodedLen is an upper bound: a limit with room accepts everything   *)
(* ===================================================================== *)

Lemma dec3_length : forall a b c d, length (dec3 a b c d) = 3.
Proof.
  intros [[[[[a5 a4] a3] a2] a1] a0] [[[[[b5 b4] b3] b2] b1] b0]
         [[[[[c5 c4] c3] c2] c1] c0] [[[[[d5 d4] d3] d2] d1] d0]. reflexivity.
Qed.

Lemma dec2_length : forall a b c, length (dec2 a b c) = 2.
Proof.
  intros [[[[[a5 a4] a3] a2] a1] a0] [[[[[b5 b4] b3] b2] b1] b0]
         [[[[[c5 c4] c3] c2] c1] c0]. reflexivity.
Qed.

Lemma dec1_length : forall a b, length (dec1 a b) = 1.
Proof.
  intros [[[[[a5 a4] a3] a2] a1] a0] [[[[[b5 b4] b3] b2] b1] b0]. reflexivity.
Qed.

Lemma decoded_len_step : forall n, decoded_len (4 + n) = 3 + decoded_len n.
Proof.
  intro n. unfold decoded_len.
  replace (4 + n) with (n + 1 * 4) by lia. rewrite Nat.div_add by discriminate. lia.
Qed.

Lemma decoded_len_mono : forall a b, a <= b -> decoded_len a <= decoded_len b.
Proof.
  intros a b H. unfold decoded_len.
  apply Nat.mul_le_mono_r. apply Nat.div_le_mono; [discriminate|exact H].
Qed.

Lemma decode_length_le : forall n s d,
  length s <= n -> decode s = Some d -> length d <= decoded_len (length s).
Proof.
  induction n as [|n IH]; intros s d Hn H.
  - destruct s; [|cbn in Hn; lia]. cbn in H. injection H as <-. cbn. lia.
  - destruct s as [|c1 [|c2 [|c3 [|c4 rest]]]]; cbn [decode] in H; try discriminate.
    + injection H as <-. cbn. lia.
    + change (length (c1 :: c2 :: c3 :: c4 :: rest)) with (4 + length rest).
      rewrite decoded_len_step.
      destruct (dec6 c1) as [s1|]; [|discriminate].
      destruct (dec6 c2) as [s2|]; [|discriminate].
      destruct (dec6 c3) as [s3|].
      * destruct (dec6 c4) as [s4|].
        -- destruct (decode rest) as [d'|] eqn:Er; [|discriminate].
           cbn [option_map] in H. injection H as <-.
           rewrite app_length, dec3_length.
           assert (length d' <= decoded_len (length rest)).
           { apply (IH rest d'); [cbn in Hn; lia|exact Er]. }
           lia.
        -- destruct (byte_eqb c4 b64_pad && is_nil rest); [|discriminate].
           injection H as <-. rewrite dec2_length. lia.
      * destruct (byte_eqb c3 b64_pad && byte_eqb c4 b64_pad && is_nil rest); [|discriminate].
        injection H as <-. rewrite dec1_length. lia.
Qed.

Lemma strip_newlines_length : forall s, length (strip_newlines s) <= length s.
Proof.
  unfold strip_newlines. induction s as [|c s IH]; cbn [filter length]; [lia|].
  destruct (negb (is_newline c)); cbn [length]; lia.
Qed.

(* what handlePayload's size test assumes about a packet is an upper bound of
   what the packet adds to the buffer *)
Lemma decode_go_length_le : forall p a,
  decode_go p = Some a -> length a <= decoded_len (length p).
Proof.
  intros p a H. unfold decode_go in H.
  pose proof (decode_length_le _ _ _ (le_n _) H) as H1.
  pose proof (decoded_len_mono _ _ (strip_newlines_length p)). lia.
Qed.

(* the room a list of packets needs by the receiver's own estimate *)
Fixpoint cap_need (pieces : list bytes) : nat :=
  match pieces with
  | [] => 0
  | p :: rest => decoded_len (length p) + cap_need rest
  end.

Definition has_room (c : rconn) (pieces : list bytes) : Prop :=
  (rc_max c <= 0)%Z \/
  (Z.of_nat (length (rc_buf c)) + Z.of_nat (cap_need pieces) <= rc_max c)%Z.

Lemma fits_unlimited : forall c data, (rc_max c <= 0)%Z -> fits c data = true.
Proof.
  intros c data H. unfold fits. destruct (0 <? rc_max c)%Z eqn:E; [|reflexivity].
  apply Z.ltb_lt in E. lia.
Qed.

Lemma fits_room : forall c p rest, has_room c (p :: rest) -> fits c p = true.
Proof.
  intros c p rest [H|H].
  - apply fits_unlimited. exact H.
  - unfold fits. cbn [cap_need] in H.
    destruct (0 <? rc_max c)%Z; [|reflexivity]. cbn [andb negb].
    destruct (rc_max c <? Z.of_nat (length (rc_buf c)) + Z.of_nat (decoded_len (length p)))%Z eqn:E;
      [|reflexivity].
    apply Z.ltb_lt in E. lia.
Qed.

Lemma deliver_all_accepted_room : forall pieces h iq sid id c seq b,
  lookup h sid = Some (id, c) -> rc_rclosed c = false -> rc_seq c = seq -> has_room c pieces ->
  decode_go_pieces pieces = Some b ->
  exists h' c',
    h_run h (deliver iq sid (number seq pieces)) =
      (h', repeat (OReply (if iq then RAck else RSilent)) (length pieces)) /\
    lookup h' sid = Some (id, c') /\ rc_buf c' = rc_buf c ++ b /\ rc_rclosed c' = false /\
    rc_max c' = rc_max c /\ rc_pk c' = rc_pk c ++ number seq pieces /\
    (forall j, j <> id -> get h' j = get h j).
Proof.
  induction pieces as [|p rest IH]; intros h iq sid id c seq b Hl Hc Hs Hm Hd.
  - cbn in Hd. injection Hd as <-. exists h, c. cbn. rewrite !app_nil_r. repeat split; try assumption; reflexivity.
  - cbn [decode_go_pieces] in Hd.
    destruct (decode_go p) as [a|] eqn:Ea; [|discriminate].
    destruct (decode_go_pieces rest) as [b'|] eqn:Eb; [|discriminate].
    injection Hd as <-.
    cbn [number deliver map p_seq p_data h_run h_step].
    assert (Hr : refusal c seq p = None).
    { unfold refusal. rewrite Hc, <- Hs, N.eqb_refl, (fits_room _ _ _ Hm), Ea. reflexivity. }
    destruct (handle_payload_accepted _ iq _ _ _ _ _ Hl Hr) as [d [Hd Hh]].
    rewrite Ea in Hd. injection Hd as <-. rewrite Hh.
    set (c1 := accept_data c seq p a).
    set (h1 := upd h id (fun _ => c1)).
    assert (Hl1 : lookup h1 sid = Some (id, c1)) by (apply (lookup_upd_same _ _ _ _ (fun _ => c1) Hl)).
    assert (Hm1 : has_room c1 rest).
    { destruct Hm as [Hm|Hm]; [left; exact Hm|right].
      unfold c1, accept_data. cbn [rc_buf rc_max]. cbn [cap_need] in Hm. rewrite app_length.
      pose proof (decode_go_length_le _ _ Ea). lia. }
    destruct (IH h1 iq sid id c1 (seq_next seq) b' Hl1) as [h' [c' [Hrun [Hl' [Hb' [Hc' [Hm' [Hp' Ho']]]]]]]].
    + exact Hc.
    + unfold c1, accept_data. cbn [rc_seq]. rewrite Hs. reflexivity.
    + exact Hm1.
    + reflexivity.
    + exists h', c'. unfold deliver in Hrun. fold h1. rewrite Hrun. cbn [length repeat].
      repeat split; try assumption.
      * rewrite Hb'. unfold c1, accept_data. cbn [rc_buf]. rewrite <- app_assoc. reflexivity.
      * rewrite Hp'. unfold c1, accept_data. cbn [rc_pk]. rewrite <- app_assoc. reflexivity.
      * intros j Hj. rewrite (Ho' j Hj). unfold h1. apply get_upd_other. exact Hj.
Qed.

(* The pipe with a buffer limit: the packets of any sender, delivered in order
   - on either carrier - to the connection registered under the identifier,
   which has room for them by its own estimate, are all accepted, the buffer
   grows by exactly the bytes written, and no other connection (an older one
   under the same identifier, for instance) is touched. *)
Theorem pipe_delivers_exactly_room : forall bs ops h iq sid id c,
  lookup h sid = Some (id, c) -> rc_rclosed c = false ->
  has_room c (map p_data (sender bs (rc_seq c) ops)) ->
  exists h' c',
    h_run h (deliver iq sid (sender bs (rc_seq c) ops)) =
      (h', repeat (OReply (if iq then RAck else RSilent)) (length (sender bs (rc_seq c) ops))) /\
    lookup h' sid = Some (id, c') /\ rc_buf c' = rc_buf c ++ written ops /\ rc_rclosed c' = false /\
    (forall j, j <> id -> get h' j = get h j).
Proof.
  intros bs ops h iq sid id c Hl Hc Hm.
  pose proof (packets_carry_written bs (rc_seq c) ops) as Hd. unfold sender in *. rewrite number_data in *.
  destruct (deliver_all_accepted_room _ h iq sid id c (rc_seq c) _ Hl Hc eq_refl Hm Hd) as [h' [c' [Hr [Hl' [Hb [Hc' [_ [_ Ho]]]]]]]].
  exists h', c'. rewrite number_length. repeat split; assumption.
Qed.

(* the estimate exceeds the bytes written by at most two per packet *)
Lemma cap_need_encode : forall chunks,
  cap_need (map encode chunks) <= length (concat chunks) + 2 * length chunks.
Proof.
  induction chunks as [|c rest IH]; cbn [map cap_need concat length]; [lia|].
  rewrite app_length, encode_length. unfold decoded_len.
  replace (4 * ((length c + 2) / 3)) with ((length c + 2) / 3 * 4) by lia.
  rewrite Nat.div_mul by discriminate.
  pose proof (Nat.div_mod (length c + 2) 3 ltac:(discriminate)).
  pose proof (Nat.mod_upper_bound (length c + 2) 3 ltac:(discriminate)). lia.
Qed.

Theorem sender_cap_need : forall bs seq0 ops,
  cap_need (map p_data (sender bs seq0 ops)) <= length (written ops) + 2 * length (sender bs seq0 ops).
Proof.
  intros bs seq0 ops. unfold sender. rewrite number_data, number_length.
  destruct (sender_pieces_spec bs ops) as [chunks [-> <-]]. rewrite map_length.
  apply cap_need_encode.
Qed.

(* ===================================================================== *)
(* 2. the reader's progress: reader-only schedules                        *)
(* ===================================================================== *)

Definition reader_label (l : label) : Prop :=
  match l with LStart n => n <> 0 | LWait | LResume => True | _ => False end.

Lemma lrun_cons : forall s l s1 tr s',
  lstep s l = Some s1 -> lrun s1 tr = Some s' -> lrun s (l :: tr) = Some s'.
Proof. intros s l s1 tr s' H1 H2. unfold lrun in *. cbn [run]. rewrite H1. exact H2. Qed.

Lemma lrun_one : forall s l s1, lstep s l = Some s1 -> lrun s [l] = Some s1.
Proof. intros s l s1 H. apply (lrun_cons s l s1 [] s1 H). reflexivity. Qed.

(* the locked region entered with data in the buffer returns a non-empty prefix *)
Lemma read_locked_data : forall s n, n <> 0 -> l_buf s <> [] ->
  read_locked s n =
    mkls (skipn n (l_buf s)) (l_tok s) (l_closed s) PIdle (l_delivered s)
         (l_read s ++ firstn n (l_buf s)) (BReturned (firstn n (l_buf s)) false :: l_log s) /\ firstn n (l_buf s) <> [].
Proof.
  intros s n Hn Hb. unfold read_locked. destruct (l_buf s) as [|b0 br]; [contradiction|].
  split; [reflexivity|]. destruct n; [contradiction|]. cbn. discriminate.
Qed.

(* Buffered data reaches the reader by the reader's own steps, whatever
   happened before: no state with data buffered is a dead end for Read. *)
Theorem reader_gets_buffered_data : forall tr s,
  lrun l_init tr = Some s -> l_buf s <> [] ->
  exists tr' s' d,
    lrun s tr' = Some s' /\ Forall reader_label tr' /\ hd_error (l_log s') = Some (BReturned d false) /\ d <> [] /\ l_buf s = d ++ l_buf s' /\ l_read s' = l_read s ++ d.
Proof.
  intros tr s H Hb. pose proof (linv_reachable _ _ H) as [Hs Hc Hr Hw Hn].
  (* a state t that differs from s only in token, program counter and log *)
  assert (Hfin : forall t n, n <> 0 -> l_buf t = l_buf s -> l_read t = l_read s ->
            hd_error (l_log (read_locked t n)) = Some (BReturned (firstn n (l_buf s)) false) /\ firstn n (l_buf s) <> [] /\ l_buf s = firstn n (l_buf s) ++ l_buf (read_locked t n) /\ l_read (read_locked t n) = l_read s ++ firstn n (l_buf s)).
  { intros t n Hn0 Hbt Hrt. assert (Hbt' : l_buf t <> []) by (rewrite Hbt; exact Hb).
    destruct (read_locked_data t n Hn0 Hbt') as [-> Hne]. cbn [l_log l_buf l_read hd_error].
    rewrite Hbt, Hrt in *. repeat split; try assumption. symmetry. apply firstn_skipn. }
  destruct (l_pc s) as [|m|m|m o] eqn:Epc.
  - (* idle: start a read *)
    destruct (Hfin s 1 ltac:(discriminate) eq_refl eq_refl) as [H1 [H2 [H3 H4]]].
    exists [LStart 1], (read_locked s 1), (firstn 1 (l_buf s)).
    repeat split; try assumption.
    + apply lrun_one. unfold lstep. rewrite Epc. reflexivity.
    + constructor; [cbn; discriminate|constructor].
  - (* found the buffer empty earlier: a wake-up or the close is pending *)
    assert (Hm : m <> 0) by (apply Hn; reflexivity).
    destruct (l_tok s) eqn:Et.
    + set (s1 := mkls (l_buf s) false (l_closed s) (PWoken m true) (l_delivered s) (l_read s) (BWoke :: l_log s)).
      destruct (Hfin s1 m Hm eq_refl eq_refl) as [H1 [H2 [H3 H4]]].
      exists [LWait; LResume], (read_locked s1 m), (firstn m (l_buf s)).
      repeat split; try assumption.
      * apply (lrun_cons s LWait s1); [unfold lstep; rewrite Epc, Et; reflexivity|].
        apply lrun_one. reflexivity.
      * repeat constructor.
    + destruct (Hc m eq_refl Hb) as [Ht|Hcl]; [discriminate|].
      destruct (l_buf s) as [|b0 br] eqn:Eb; [contradiction|].
      set (s1 := mkls (b0 :: br) false true (PWoken m false) (l_delivered s) (l_read s) (BWoke :: l_log s)).
      exists [LWait; LResume],
        (mkls (skipn m (b0 :: br)) false true PIdle (l_delivered s) (l_read s ++ firstn m (b0 :: br))
              (BReturned (firstn m (b0 :: br)) false :: BWoke :: l_log s)),
        (firstn m (b0 :: br)).
      repeat split.
      * apply (lrun_cons s LWait s1); [unfold lstep; rewrite Epc, Et, Hcl, Eb; reflexivity|].
        apply lrun_one. unfold lstep, s1. cbn [l_pc l_buf l_tok l_closed l_delivered l_read l_log].
        reflexivity.
      * repeat constructor.
      * destruct m; [contradiction|]. cbn. discriminate.
      * cbn [l_buf]. symmetry. apply firstn_skipn.
  - (* blocked in the receive: impossible with data buffered *)
    destruct (Hr m eq_refl) as [Hb0 _]. contradiction.
  - (* woken: lock and read *)
    assert (Hm : m <> 0) by (apply Hn; reflexivity).
    destruct o.
    + destruct (Hfin s m Hm eq_refl eq_refl) as [H1 [H2 [H3 H4]]].
      exists [LResume], (read_locked s m), (firstn m (l_buf s)).
      repeat split; try assumption.
      * apply lrun_one. unfold lstep. rewrite Epc. reflexivity.
      * repeat constructor.
    + destruct (l_buf s) as [|b0 br] eqn:Eb; [contradiction|].
      exists [LResume],
        (mkls (skipn m (b0 :: br)) (l_tok s) (l_closed s) PIdle (l_delivered s) (l_read s ++ firstn m (b0 :: br))
              (BReturned (firstn m (b0 :: br)) false :: l_log s)),
        (firstn m (b0 :: br)).
      repeat split.
      * apply lrun_one. unfold lstep. rewrite Epc, Eb. reflexivity.
      * repeat constructor.
      * destruct m; [contradiction|]. cbn. discriminate.
      * cbn [l_buf]. symmetry. apply firstn_skipn.
Qed.

(* After the close the reader, by its own steps alone, reads everything that
   was delivered and then end-of-file — from every reachable state. *)
Definition rank (pc : rpc) : nat :=
  match pc with PIdle => 4 | PWoken _ true => 3 | PChecked _ => 2 | PWoken _ false => 1 | PRecv _ => 0 end.

Definition measure (s : lstate) : nat :=
  16 * length (l_buf s) + (if l_tok s then 4 else 0) + rank (l_pc s).

Definition drained (s0 s' : lstate) : Prop :=
  l_closed s' = true /\ l_delivered s' = l_delivered s0 /\ l_read s' = l_delivered s0 /\
  l_buf s' = [] /\ l_pc s' = PIdle /\ hd_error (l_log s') = Some (BReturned [] true).

Lemma skipn_shorter {A} : forall n (l : list A), n <> 0 -> l <> [] -> length (skipn n l) < length l.
Proof.
  intros n l Hn Hl. destruct n; [contradiction|]. destruct l; [contradiction|].
  cbn [skipn length]. pose proof (skipn_length n l). lia.
Qed.

Lemma drain_step : forall s l s1 (P : Prop),
  lstep s l = Some s1 -> reader_label l ->
  (exists tr' s', lrun s1 tr' = Some s' /\ Forall reader_label tr' /\ P /\ drained s1 s') ->
  l_delivered s1 = l_delivered s ->
  exists tr' s', lrun s tr' = Some s' /\ Forall reader_label tr' /\ drained s s'.
Proof.
  intros s l s1 P Hst Hl [tr' [s' [Hrun [Hf [_ Hd]]]]] Hdel.
  exists (l :: tr'), s'. split; [|split].
  - unfold lrun in *. cbn [run]. rewrite Hst. exact Hrun.
  - constructor; assumption.
  - unfold drained in *. rewrite <- Hdel. exact Hd.
Qed.

Lemma drain_aux : forall k s,
  measure s <= k -> linv s -> l_closed s = true ->
  exists tr' s', lrun s tr' = Some s' /\ Forall reader_label tr' /\ drained s s'.
Proof.
  induction k as [|k IH]; intros s Hk Hinv Hcl.
  - (* measure 0: only a reader blocked in the receive, which a closed stream excludes *)
    destruct Hinv as [Hs Hc Hr Hw Hn]. unfold measure in Hk.
    destruct (l_pc s) as [|m|m|m o] eqn:Epc; cbn [rank] in Hk; try lia.
    all: try (destruct o; lia).
    all: try (destruct (Hr m eq_refl) as [_ [_ Hf]]; congruence).
  - pose proof Hinv as [Hs Hc Hr Hw Hn].
    assert (Hnext : forall l s1, lstep s l = Some s1 -> reader_label l ->
              measure s1 <= k -> l_closed s1 = true -> l_delivered s1 = l_delivered s ->
              exists tr' s', lrun s tr' = Some s' /\ Forall reader_label tr' /\ drained s s').
    { intros l s1 Hst Hl Hm1 Hcl1 Hd1.
      apply (drain_step s l s1 True Hst Hl); [|exact Hd1].
      destruct (IH s1 Hm1 (lstep_inv _ _ _ Hinv Hst) Hcl1) as [tr' [s' [H1 [H2 H3]]]].
      exists tr', s'. split; [exact H1|]. split; [exact H2|]. split; [exact I|exact H3]. }
    unfold measure in Hk.
    destruct (l_pc s) as [|m|m|m o] eqn:Epc; cbn [rank] in Hk.
    + (* idle: start a read *)
      destruct (l_buf s) as [|b0 br] eqn:Eb.
      * apply (Hnext (LStart 1) (read_locked s 1)).
        -- unfold lstep. rewrite Epc. reflexivity.
        -- cbn. discriminate.
        -- unfold read_locked, measure. rewrite Eb. cbn [l_buf l_tok l_pc rank length] in *. lia.
        -- unfold read_locked. rewrite Eb. exact Hcl.
        -- unfold read_locked. rewrite Eb. reflexivity.
      * apply (Hnext (LStart 1) (read_locked s 1)).
        -- unfold lstep. rewrite Epc. reflexivity.
        -- cbn. discriminate.
        -- unfold read_locked, measure. rewrite Eb. cbn [l_buf l_tok l_pc rank length skipn] in *. lia.
        -- unfold read_locked. rewrite Eb. exact Hcl.
        -- unfold read_locked. rewrite Eb. reflexivity.
    + (* at the yield point after the empty test *)
      destruct (l_tok s) eqn:Et.
      * eapply (Hnext LWait).
        -- unfold lstep. rewrite Epc, Et. reflexivity.
        -- exact I.
        -- unfold measure. cbn [l_buf l_tok l_pc rank]. lia.
        -- exact Hcl.
        -- reflexivity.
      * eapply (Hnext LWait).
        -- unfold lstep. rewrite Epc, Et, Hcl. reflexivity.
        -- exact I.
        -- unfold measure. cbn [l_buf l_tok l_pc rank]. lia.
        -- reflexivity.
        -- reflexivity.
    + (* blocked in the receive: excluded *)
      destruct (Hr m eq_refl) as [_ [_ Hf]]. congruence.
    + assert (Hm : m <> 0) by (apply Hn; reflexivity).
      destruct o.
      * (* woken by a signal: lock and test again *)
        destruct (l_buf s) as [|b0 br] eqn:Eb.
        -- apply (Hnext LResume (read_locked s m)).
           ++ unfold lstep. rewrite Epc. reflexivity.
           ++ exact I.
           ++ unfold read_locked, measure. rewrite Eb. cbn [l_buf l_tok l_pc rank length] in *. lia.
           ++ unfold read_locked. rewrite Eb. exact Hcl.
           ++ unfold read_locked. rewrite Eb. reflexivity.
        -- apply (Hnext LResume (read_locked s m)).
           ++ unfold lstep. rewrite Epc. reflexivity.
           ++ exact I.
           ++ unfold read_locked, measure. rewrite Eb. cbn [l_buf l_tok l_pc rank].
              pose proof (skipn_shorter m (b0 :: br) Hm ltac:(discriminate)).
              destruct (l_tok s); lia.
           ++ unfold read_locked. rewrite Eb. exact Hcl.
           ++ unfold read_locked. rewrite Eb. reflexivity.
      * (* woken by the close *)
        destruct (l_buf s) as [|b0 br] eqn:Eb.
        -- (* nothing left: end-of-file *)
           eexists [LResume], _. split; [|split].
           ++ unfold lrun. cbn [run lstep]. rewrite Epc, Eb. reflexivity.
           ++ repeat constructor.
           ++ unfold drained. cbn [l_closed l_delivered l_read l_buf l_pc l_log hd_error].
              repeat split; try assumption; try reflexivity.
              rewrite <- Hs, app_nil_r. reflexivity.
        -- eapply (Hnext LResume).
           ++ unfold lstep. rewrite Epc, Eb. reflexivity.
           ++ exact I.
           ++ unfold measure. cbn [l_buf l_tok l_pc rank].
              pose proof (skipn_shorter m (b0 :: br) Hm ltac:(discriminate)).
              destruct (l_tok s); lia.
           ++ exact Hcl.
           ++ reflexivity.
Qed.

Theorem reader_drains_after_close : forall tr s,
  lrun l_init tr = Some s -> l_closed s = true ->
  exists tr' s', lrun s tr' = Some s' /\ Forall reader_label tr' /\ drained s s'.
Proof.
  intros tr s H Hcl. apply (drain_aux (measure s) s (le_n _) (linv_reachable _ _ H) Hcl).
Qed.

(* ===================================================================== *)
(* 3. the pinned tree's data path and open, for the record                *)
(* ===================================================================== *)

Definition pinned_witness_conn : rconn :=
  mkrc (str "a") 8 1 (str "ABC") (Z.of_N ibb_max_buffer) false false [] [].

(* a packet refused with bad-request left its decoded prefix in the buffer and
   used up its sequence number *)
Theorem pinned_refusal_disturbs :
  exists c iq seq data c',
    payload_conn_pinned c iq seq data = (c', RErr BadRequest) /\
    rc_buf c' <> rc_buf c /\ rc_seq c' <> rc_seq c.
Proof.
  exists pinned_witness_conn, true, 1%N, (str "REVG!!!!"). eexists.
  split; [vm_compute; reflexivity|]. split; discriminate.
Qed.

(* the repaired handlePayload on the same input *)
Lemma repaired_on_pinned_witness :
  payload_conn pinned_witness_conn true 1%N (str "REVG!!!!") = (pinned_witness_conn, RErr BadRequest).
Proof. vm_compute. reflexivity. Qed.

Theorem pinned_open_ignores_refusal :
  exists r, open_succeeds_pinned r = true /\ r <> OpenResult.
Proof. exists (OpenError NotAcceptable). split; [reflexivity|discriminate]. Qed.

(* every packet decodes on its own and together they carry the bytes written *)
Theorem packets_decodable_and_carry_written : forall bs seq0 ops,
  Forall (fun p => exists d, decode_go (p_data p) = Some d) (sender bs seq0 ops) /\
  decode_go_pieces (map p_data (sender bs seq0 ops)) = Some (written ops).
Proof.
  intros bs seq0 ops. exact (conj (packets_each_decodable bs seq0 ops) (packets_carry_written bs seq0 ops)).
Qed.

(* On either carrier an accepted packet wakes the reader: one blocked in the
   receive is handed the signal directly, one that has found the buffer empty
   and not yet started to wait finds the signal queued. *)
Theorem deliver_wakes_reader : forall s iq d n,
  l_closed s = false ->
  (l_pc s = PRecv n ->
     exists s', lstep s (LDeliver iq d) = Some s' /\ l_pc s' = PWoken n true /\ l_buf s' = l_buf s ++ d /\
                hd_error (l_log s') = Some (accepted_obs iq)) /\
  (l_pc s = PChecked n ->
     exists s', lstep s (LDeliver iq d) = Some s' /\ l_pc s' = PChecked n /\ l_tok s' = true /\
                l_buf s' = l_buf s ++ d /\ hd_error (l_log s') = Some (accepted_obs iq)).
Proof.
  intros s iq d n Hc. split; intro Hp; unfold lstep; rewrite Hp, Hc; eexists; repeat split; reflexivity.
Qed.
