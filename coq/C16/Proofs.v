(* C16/Proofs.v — lemmas about the escape/unescape models. *)
From XV Require Import lib.Bytes gen.JidEscape C16.Model.

(* ---------- table facts, re-checked whenever Generated.v changes ---------- *)

(* The nine characters a localpart may not contain (RFC 7622) plus the escape
   introducer: XEP-0106's ten escaped characters. *)
Definition xep_chars : bytes := str " ""&'/:<>@\".
Definition localpart_forbidden : bytes := str " ""&'/:<>@".

Definition hi (c : byte) : byte := hexdigit (bN c / 16)%N.
Definition lo (c : byte) : byte := hexdigit (bN c mod 16)%N.

Lemma tbl_escape_set_is_xep :
  forallb (fun c => in_bytes c escape_set) xep_chars = true /\
  forallb (fun c => in_bytes c xep_chars) escape_set = true.
Proof. split; vm_compute; reflexivity. Qed.

Lemma tbl_bslash_escaped : is_esc bslash = true.
Proof. vm_compute; reflexivity. Qed.

Lemma tbl_escapes_unescape :
  forallb (fun c => should_unescape (hi c) (lo c) && byte_eqb (unesc_val (hi c) (lo c)) c) escape_set = true.
Proof. vm_compute; reflexivity. Qed.

Lemma tbl_pairs_first_hex :
  forallb (fun p => ishex (fst p)) unescape_pairs = true.
Proof. vm_compute; reflexivity. Qed.

(* every accepted pair decodes to one of the ten characters, and both hex cases
   of each of the ten are accepted *)
Definition upper (c : byte) : byte :=
  let n := bN c in if ((97 <=? n) && (n <=? 102))%N then byte_of_N (n - 32)%N else c.

Lemma tbl_pairs_are_the_ten :
  forallb (fun p => in_bytes (unesc_val (fst p) (snd p)) xep_chars) unescape_pairs = true /\
  forallb (fun c => should_unescape (hi c) (lo c) && should_unescape (upper (hi c)) (upper (lo c))
                    && should_unescape (hi c) (upper (lo c)) && should_unescape (upper (hi c)) (lo c))
          xep_chars = true.
Proof. split; vm_compute; reflexivity. Qed.

Lemma is_esc_facts c : is_esc c = true ->
  should_unescape (hi c) (lo c) = true /\ unesc_val (hi c) (lo c) = c.
Proof.
  intro H. unfold is_esc in H. apply in_bytes_In in H.
  pose proof tbl_escapes_unescape as T. rewrite forallb_forall in T.
  specialize (T c H). apply andb_true_iff in T. destruct T as [T1 T2].
  apply byte_eqb_eq in T2. split; assumption.
Qed.

Lemma should_unescape_ishex a b : should_unescape a b = true -> ishex a = true.
Proof.
  unfold should_unescape. rewrite existsb_exists. intros [[x y] [Hin E]].
  apply andb_true_iff in E. destruct E as [E1 _]. apply byte_eqb_eq in E1. simpl in E1. subst x.
  pose proof tbl_pairs_first_hex as T. rewrite forallb_forall in T. exact (T _ Hin).
Qed.

(* ---------- escape ---------- *)

Lemma escape_spec_app a b : escape_spec (a ++ b) = escape_spec a ++ escape_spec b.
Proof. unfold escape_spec. apply flat_map_app. Qed.

Lemma esc_byte_length c : length (esc_byte c) = if is_esc c then 3 else 1.
Proof. unfold esc_byte. destruct (is_esc c); reflexivity. Qed.

(* One call: what was written is the escape of exactly the consumed prefix;
   the capacity is respected; the only errors are nil and ErrShortDst; nil
   means everything was consumed; with room for one escape the call makes progress. *)
Lemma esc_transform_sound cap src :
  let r := esc_transform cap src in
  r_out r = escape_spec (firstn (r_nsrc r) src) /\
  r_nsrc r <= length src /\
  length (r_out r) <= cap /\
  (r_err r = ENil /\ r_nsrc r = length src \/ r_err r = EShortDst /\ r_nsrc r < length src) /\
  (3 <= cap -> src <> [] -> 0 < r_nsrc r).
Proof.
  revert cap. induction src as [|c rest IH]; intro cap; cbn [esc_transform].
  - cbn. repeat split; try lia. left. split; reflexivity. intros _ H. congruence.
  - destruct (cap <? length (esc_byte c)) eqn:E.
    + apply Nat.ltb_lt in E. cbn. repeat split; try lia. right. split; [reflexivity|lia].
      intros H3 _. rewrite esc_byte_length in E. destruct (is_esc c); lia.
    + apply Nat.ltb_ge in E. specialize (IH (cap - length (esc_byte c))).
      cbv zeta in IH. destruct IH as (I1 & I2 & I3 & I4 & _).
      set (r := esc_transform (cap - length (esc_byte c)) rest) in *.
      unfold cons_out. cbn [r_out r_nsrc r_err]. cbn [plus firstn].
      repeat split.
      * change (c :: firstn (r_nsrc r) rest) with ([c] ++ firstn (r_nsrc r) rest).
        rewrite escape_spec_app. cbn [escape_spec flat_map]. rewrite app_nil_r. rewrite I1. reflexivity.
      * cbn [length]. lia.
      * rewrite app_length. lia.
      * cbn [length]. destruct I4 as [[? ?]|[? ?]]; [left|right]; split; try assumption; lia.
      * intros; lia.
Qed.

Lemma esc_span_sound src :
  let '(n, e) := esc_span src in
  n <= length src /\
  escape_spec (firstn n src) = firstn n src /\
  (e = ENil /\ n = length src \/
   e = EEndOfSpan /\ exists c, nth_error src n = Some c /\ is_esc c = true).
Proof.
  induction src as [|c rest IH]; cbn [esc_span].
  - cbn. repeat split; auto.
  - destruct (is_esc c) eqn:E.
    + cbn. repeat split; try lia. right. split; [reflexivity|]. exists c. split; [reflexivity|exact E].
    + destruct (esc_span rest) as [n e]. destruct IH as (I1 & I2 & I3).
      cbn [length firstn]. repeat split; try lia.
      * change (c :: firstn n rest) with ([c] ++ firstn n rest). rewrite escape_spec_app, I2.
        cbn. unfold esc_byte. rewrite E. reflexivity.
      * destruct I3 as [[? ?]|[? [c' [? ?]]]]; [left; split; [assumption|lia] | right; split; [assumption|]].
        exists c'. split; assumption.
Qed.

(* ---------- round trip ---------- *)

Lemma unescape_spec_plain c t : byte_eqb c bslash = false ->
  unescape_spec (c :: t) = c :: unescape_spec t.
Proof. intro H. cbn [unescape_spec]. rewrite H. destruct t as [|a [|b r]]; reflexivity. Qed.

Lemma unescape_escape s : unescape_spec (escape_spec s) = s.
Proof.
  induction s as [|c rest IH]; [reflexivity|].
  cbn [escape_spec flat_map]. fold (escape_spec rest).
  unfold esc_byte. destruct (is_esc c) eqn:E.
  - destruct (is_esc_facts c E) as [F1 F2]. fold (hi c) (lo c).
    cbn [app unescape_spec]. change (byte_eqb bslash bslash) with true. rewrite F1. cbn [andb].
    rewrite F2, IH. reflexivity.
  - assert (Hc : byte_eqb c bslash = false).
    { apply byte_eqb_neq. intro; subst. rewrite tbl_bslash_escaped in E. discriminate. }
    cbn [app]. rewrite (unescape_spec_plain _ _ Hc), IH. reflexivity.
Qed.

(* escaped output contains none of the nine characters forbidden in a localpart *)
Lemma hexdigit_not_forbidden n : in_bytes (hexdigit n) localpart_forbidden = false.
Proof.
  destruct n as [|p]; [reflexivity|].
  do 4 (destruct p as [p|p|]; try reflexivity).
Qed.

Lemma escape_no_forbidden s c :
  In c (escape_spec s) -> in_bytes c localpart_forbidden = false.
Proof.
  induction s as [|x rest IH]; cbn [escape_spec flat_map]; [intros []|].
  rewrite in_app_iff. intros [H|H]; [|exact (IH H)].
  unfold esc_byte in H. destruct (is_esc x) eqn:E.
  - destruct H as [H|[H|[H|[]]]]; subst c; try apply hexdigit_not_forbidden. reflexivity.
  - destruct H as [H|[]]. subst c.
    destruct (in_bytes x localpart_forbidden) eqn:F; [|reflexivity].
    exfalso. apply in_bytes_In in F.
    assert (In x xep_chars) as Hx.
    { unfold localpart_forbidden, xep_chars in *. vm_compute in F |- *. intuition. }
    pose proof (proj1 tbl_escape_set_is_xep) as T. rewrite forallb_forall in T.
    specialize (T x Hx). unfold is_esc in E. congruence.
Qed.

(* ---------- unescape ---------- *)

(* "no accepted escape sequence occurs in s" *)
Fixpoint no_seq (s : bytes) : bool :=
  match s with
  | c :: ((a :: b :: _) as rest) => negb (byte_eqb c bslash && should_unescape a b) && no_seq rest
  | _ => true
  end.

Lemma unescape_only_sequences s : no_seq s = true -> unescape_spec s = s.
Proof.
  induction s as [|c rest IH]; [reflexivity|].
  destruct rest as [|a [|b r2]].
  - reflexivity.
  - reflexivity.
  - intro H. cbn [no_seq] in H. apply andb_true_iff in H. destruct H as [H1 H2].
    apply negb_true_iff in H1. cbn [unescape_spec]. rewrite H1. f_equal. apply IH. exact H2.
Qed.

(* One call of the unescaper, with any continuation [tail] of the source that a
   later call may bring (none when atEOF): the spec of the whole equals what was
   written followed by the spec of what is left. *)
Lemma unesc_transform_sound n : forall cap at_eof src tail,
  length src <= n ->
  (at_eof = true -> tail = []) ->
  let r := unesc_transform cap at_eof src in
  unescape_spec (src ++ tail) = r_out r ++ unescape_spec (skipn (r_nsrc r) src ++ tail) /\
  r_nsrc r <= length src /\
  length (r_out r) <= cap /\
  (r_err r = ENil -> r_nsrc r = length src) /\
  (r_err r <> EEndOfSpan) /\
  (at_eof = true -> r_err r <> EShortSrc) /\
  (1 <= cap -> (3 <= length src \/ at_eof = true) -> src <> [] -> 0 < r_nsrc r).
Proof.
  induction n as [|n IH]; intros cap at_eof src tail Hlen Htail.
  { destruct src; [|cbn in Hlen; lia]. cbn. repeat split; try lia; try congruence. }
  destruct src as [|c rest]; [cbn; repeat split; try lia; congruence|].
  cbn [length] in Hlen.
  (* the generic "copy one byte" step *)
  assert (COPY : forall (Hspec : unescape_spec ((c :: rest) ++ tail) = c :: unescape_spec (rest ++ tail)),
     let r := (if cap <? 1 then mkres [] 0 EShortDst
               else cons_out [c] 1 (unesc_transform (cap - 1) at_eof rest)) in
     unescape_spec ((c :: rest) ++ tail) = r_out r ++ unescape_spec (skipn (r_nsrc r) (c :: rest) ++ tail) /\
     r_nsrc r <= length (c :: rest) /\ length (r_out r) <= cap /\
     (r_err r = ENil -> r_nsrc r = length (c :: rest)) /\ (r_err r <> EEndOfSpan) /\
     (at_eof = true -> r_err r <> EShortSrc) /\
     (1 <= cap -> (3 <= length (c :: rest) \/ at_eof = true) -> c :: rest <> [] -> 0 < r_nsrc r)).
  { intro Hspec. destruct (cap <? 1) eqn:Ecap.
    - apply Nat.ltb_lt in Ecap. cbn. repeat split; try lia; try congruence.
    - apply Nat.ltb_ge in Ecap.
      destruct (IH (cap - 1) at_eof rest tail ltac:(lia) Htail) as (I1 & I2 & I3 & I4 & I5 & I6 & _).
      set (r := unesc_transform (cap - 1) at_eof rest) in *.
      unfold cons_out. cbn [r_out r_nsrc r_err plus].
      repeat split; try assumption.
      + rewrite Hspec. cbn [skipn app]. rewrite I1. reflexivity.
      + cbn [length]. lia.
      + cbn [length app]. lia.
      + intro H. rewrite (I4 H). reflexivity.
      + intros. lia. }
  cbn [unesc_transform].
  destruct (byte_eqb c bslash) eqn:Ec; cbn [negb].
  2:{ apply COPY. cbn [app]. apply unescape_spec_plain; exact Ec. }
  destruct rest as [|a [|b rest2]].
  - (* backslash is the last byte of the chunk *)
    destruct at_eof.
    + apply COPY. rewrite (Htail eq_refl). reflexivity.
    + cbn. repeat split; try lia; try congruence.
  - (* backslash, one byte *)
    destruct (at_eof || negb (ishex a)) eqn:E.
    + apply COPY. cbn [app]. destruct at_eof.
      * rewrite (Htail eq_refl). reflexivity.
      * cbn [orb] in E. apply negb_true_iff in E. cbn [unescape_spec].
        destruct tail as [|b t]; [reflexivity|].
        destruct (should_unescape a b) eqn:S; [|rewrite andb_false_r; reflexivity].
        apply should_unescape_ishex in S. congruence.
    + apply orb_false_iff in E. destruct E as [E1 E2]. subst at_eof.
      cbn. repeat split; try lia; try congruence.
  - (* backslash and at least two more bytes *)
    destruct (should_unescape a b) eqn:S.
    + destruct (cap <? 1) eqn:Ecap.
      * apply Nat.ltb_lt in Ecap. cbn. repeat split; try lia; try congruence.
      * apply Nat.ltb_ge in Ecap. cbn [length] in Hlen.
        destruct (IH (cap - 1) at_eof rest2 tail ltac:(lia) Htail) as (I1 & I2 & I3 & I4 & I5 & I6 & _).
        set (r := unesc_transform (cap - 1) at_eof rest2) in *.
        unfold cons_out. cbn [r_out r_nsrc r_err plus skipn length app].
        repeat split; try lia; try assumption.
        -- cbn [unescape_spec]. rewrite Ec, S. cbn [andb]. rewrite I1. reflexivity.
        -- intro H. rewrite (I4 H). reflexivity.
    + apply COPY. cbn [app unescape_spec]. rewrite S, andb_false_r. reflexivity.
Qed.

Lemma unesc_span_sound n : forall at_eof src tail,
  length src <= n ->
  (at_eof = true -> tail = []) ->
  let '(k, e) := unesc_span at_eof src in
  k <= length src /\
  unescape_spec (src ++ tail) = firstn k src ++ unescape_spec (skipn k src ++ tail) /\
  (e = ENil -> k = length src) /\
  (e = EEndOfSpan -> exists a b r, skipn k src = bslash :: a :: b :: r /\ should_unescape a b = true) /\
  e <> EShortDst /\ (at_eof = true -> e <> EShortSrc).
Proof.
  induction n as [|n IH]; intros at_eof src tail Hlen Htail.
  { destruct src; [|cbn in Hlen; lia]. cbn. repeat split; try lia; try congruence; intro; discriminate. }
  destruct src as [|c rest]; [cbn; repeat split; try lia; try congruence; intro; discriminate|].
  cbn [length] in Hlen.
  assert (NEXT : unescape_spec ((c :: rest) ++ tail) = c :: unescape_spec (rest ++ tail) ->
     let '(k, e) := (let '(n0, e0) := unesc_span at_eof rest in (S n0, e0)) in
     k <= length (c :: rest) /\
     unescape_spec ((c :: rest) ++ tail) = firstn k (c :: rest) ++ unescape_spec (skipn k (c :: rest) ++ tail) /\
     (e = ENil -> k = length (c :: rest)) /\
     (e = EEndOfSpan -> exists a b r, skipn k (c :: rest) = bslash :: a :: b :: r /\ should_unescape a b = true) /\
     e <> EShortDst /\ (at_eof = true -> e <> EShortSrc)).
  { intro Hspec. specialize (IH at_eof rest tail ltac:(lia) Htail).
    destruct (unesc_span at_eof rest) as [k e]. destruct IH as (I1 & I2 & I3 & I4 & I5 & I6).
    repeat split; try assumption.
    - cbn [length]. lia.
    - rewrite Hspec. cbn [firstn skipn app]. rewrite I2. reflexivity.
    - intro H. rewrite (I3 H). reflexivity. }
  cbn [unesc_span].
  destruct (byte_eqb c bslash) eqn:Ec; cbn [negb].
  2:{ apply NEXT. cbn [app]. apply unescape_spec_plain; exact Ec. }
  apply byte_eqb_eq in Ec. subst c.
  destruct rest as [|a [|b rest2]].
  - destruct at_eof.
    + apply NEXT. rewrite (Htail eq_refl). reflexivity.
    + cbn. repeat split; try lia; try congruence; intro; discriminate.
  - destruct (at_eof || negb (ishex a)) eqn:E.
    + apply NEXT. cbn [app]. destruct at_eof.
      * rewrite (Htail eq_refl). reflexivity.
      * cbn [orb] in E. apply negb_true_iff in E. cbn [unescape_spec].
        destruct tail as [|b t]; [reflexivity|].
        destruct (should_unescape a b) eqn:S; [|rewrite andb_false_r; reflexivity].
        apply should_unescape_ishex in S. congruence.
    + apply orb_false_iff in E. destruct E as [E1 E2]. subst at_eof.
      cbn. repeat split; try lia; try congruence; intro; discriminate.
  - destruct (should_unescape a b) eqn:S.
    + cbn [firstn skipn app]. repeat split; try (cbn; lia); try congruence; try (intro; discriminate).
      intros _. exists a, b, rest2. split; [reflexivity|exact S].
    + apply NEXT. cbn [app unescape_spec]. rewrite S, andb_false_r. reflexivity.
Qed.

(* ---------- drivers ---------- *)

(* Any driver in the sense of golang.org/x/text/transform: a finite sequence of
   Transform calls, each with an arbitrary destination capacity and an arbitrary
   prefix chunk of the unconsumed source, atEOF only when the chunk reaches the
   end of the source; outputs are concatenated; the sequence ends when the source
   is exhausted.  transform.String, Bytes, Reader, Writer and Chain all drive a
   Transformer this way. *)
Inductive drives (T : nat -> bool -> bytes -> tres) : bytes -> bytes -> Prop :=
| drives_done : drives T [] []
| drives_step : forall src cap k at_eof out',
    k <= length src ->
    (at_eof = true -> k = length src) ->
    let r := T cap at_eof (firstn k src) in
    drives T (skipn (r_nsrc r) src) out' ->
    drives T src (r_out r ++ out').

Definition esc_T (cap : nat) (_ : bool) (src : bytes) : tres := esc_transform cap src.

Lemma firstn_firstn_le {A} (l : list A) a b : a <= b -> firstn a (firstn b l) = firstn a l.
Proof. intro H. rewrite firstn_firstn. f_equal. lia. Qed.

Lemma escape_any_driver src out : drives esc_T src out -> out = escape_spec src.
Proof.
  induction 1 as [|src cap k at_eof out' Hk Heof r Hd IH]; [reflexivity|].
  subst r. unfold esc_T in *.
  pose proof (esc_transform_sound cap (firstn k src)) as S. cbv zeta in S.
  destruct S as (S1 & S2 & _).
  set (r := esc_transform cap (firstn k src)) in *.
  rewrite firstn_length in S2.
  rewrite firstn_firstn_le in S1 by lia.
  rewrite IH, S1, <- escape_spec_app, firstn_skipn. reflexivity.
Qed.

Lemma skipn_firstn_app {A} (l : list A) : forall n k, n <= k ->
  skipn n (firstn k l) ++ skipn k l = skipn n l.
Proof.
  induction l as [|x l IH]; intros n k H.
  - rewrite firstn_nil, !skipn_nil. reflexivity.
  - destruct k as [|k].
    { assert (n = 0) by lia. subst. reflexivity. }
    destruct n as [|n].
    { cbn [firstn skipn app]. f_equal. apply firstn_skipn. }
    cbn [firstn skipn]. apply IH. lia.
Qed.

Lemma unescape_any_driver src out : drives unesc_transform src out -> out = unescape_spec src.
Proof.
  induction 1 as [|src cap k at_eof out' Hk Heof r Hd IH]; [reflexivity|].
  subst r.
  assert (Htail : at_eof = true -> skipn k src = []).
  { intro H. rewrite (Heof H). apply skipn_all. }
  pose proof (unesc_transform_sound (length (firstn k src)) cap at_eof (firstn k src) (skipn k src)
                (le_n _) Htail) as S.
  cbv zeta in S. destruct S as (S1 & S2 & _).
  set (r := unesc_transform cap at_eof (firstn k src)) in *.
  rewrite firstn_skipn in S1. rewrite S1, IH. f_equal. f_equal.
  rewrite firstn_length in S2.
  destruct (Nat.le_gt_cases k (length src)) as [Hle|Hgt]; [|lia].
  rewrite Nat.min_l in S2 by lia.
  symmetry. apply skipn_firstn_app. exact S2.
Qed.

(* Span agrees with the transform's specification: the span is a prefix that the
   transform leaves unchanged, and it stops exactly where a change would happen. *)
Lemma escape_span_prefix src :
  let '(n, e) := esc_span src in
  escape_spec (firstn n src) = firstn n src /\
  (e = ENil -> escape_spec src = src) .
Proof.
  pose proof (esc_span_sound src) as S. destruct (esc_span src) as [n e].
  destruct S as (S1 & S2 & S3). split; [exact S2|].
  intro He. destruct S3 as [[_ Hn]|[He' _]]; [|congruence].
  subst n. rewrite firstn_all in S2. exact S2.
Qed.
