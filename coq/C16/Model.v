(* C16/Model.v — executable model of jid/escape.go (XEP-0106 JID escaping).

   Transform calls are modelled with an explicit destination capacity, source
   chunk and atEOF flag and return (bytes written, nSrc, err), exactly the
   observable result of the Go methods
       escapeMapping.Transform / unescapeMapping.Transform / .Span.
   The Go code copies runs of bytes with copy(); a copy truncated by the
   destination is observationally the same as copying byte by byte until the
   capacity runs out, so the model is structural recursion on the source.
   The escape character set and the accepted escape pairs come from
   gen/Generated.v, which the translator rewrites from jid/escape.go. *)
From XV Require Import lib.Bytes gen.JidEscape.

Inductive terr := ENil | EShortDst | EShortSrc | EEndOfSpan.

Definition terr_eqb (a b : terr) : bool :=
  match a, b with
  | ENil, ENil | EShortDst, EShortDst | EShortSrc, EShortSrc | EEndOfSpan, EEndOfSpan => true
  | _, _ => false
  end.

Record tres := mkres { r_out : bytes; r_nsrc : nat; r_err : terr }.

Definition cons_out (pre : bytes) (k : nat) (r : tres) : tres :=
  mkres (pre ++ r_out r) (k + r_nsrc r) (r_err r).

(* ---- escape ---- *)

Definition is_esc (c : byte) : bool := in_bytes c escape_set.

Definition esc_byte (c : byte) : bytes :=
  if is_esc c then ["\"%byte; hexdigit (bN c / 16)%N; hexdigit (bN c mod 16)%N] else [c].

Definition escape_spec (s : bytes) : bytes := flat_map esc_byte s.

Fixpoint esc_transform (cap : nat) (src : bytes) : tres :=
  match src with
  | [] => mkres [] 0 ENil
  | c :: rest =>
      let e := esc_byte c in
      if cap <? length e then mkres [] 0 EShortDst
      else cons_out e 1 (esc_transform (cap - length e) rest)
  end.

Fixpoint esc_span (src : bytes) : nat * terr :=
  match src with
  | [] => (0, ENil)
  | c :: rest => if is_esc c then (0, EEndOfSpan)
                 else let '(n, e) := esc_span rest in (S n, e)
  end.

(* ---- unescape ---- *)

Definition ishex (c : byte) : bool :=
  match hexval c with Some _ => true | None => false end.

Definition unhex (c : byte) : N := match hexval c with Some n => n | None => 0%N end.

Definition should_unescape (a b : byte) : bool :=
  existsb (fun p => byte_eqb a (fst p) && byte_eqb b (snd p)) unescape_pairs.

Definition unesc_val (a b : byte) : byte := byte_of_N (unhex a * 16 + unhex b)%N.

Definition bslash : byte := "\"%byte.

(* The reference semantics: left-to-right replacement of the accepted
   three-byte sequences; everything else is copied. *)
Fixpoint unescape_spec (s : bytes) : bytes :=
  match s with
  | [] => []
  | c :: rest =>
      match rest with
      | a :: b :: rest2 =>
          if byte_eqb c bslash && should_unescape a b
          then unesc_val a b :: unescape_spec rest2
          else c :: unescape_spec rest
      | _ => c :: unescape_spec rest
      end
  end.

(* unescapeMapping.Transform(dst[:cap], src, atEOF). *)
Fixpoint unesc_transform (cap : nat) (at_eof : bool) (src : bytes) : tres :=
  match src with
  | [] => mkres [] 0 ENil
  | c :: rest =>
      let copy1 := if cap <? 1 then mkres [] 0 EShortDst
                   else cons_out [c] 1 (unesc_transform (cap - 1) at_eof rest) in
      if negb (byte_eqb c bslash) then copy1
      else match rest with
           | [] => if at_eof then copy1 else mkres [] 0 EShortSrc
           | [a] => if at_eof || negb (ishex a) then copy1 else mkres [] 0 EShortSrc
           | a :: b :: rest2 =>
               if should_unescape a b then
                 if cap <? 1 then mkres [] 0 EShortDst
                 else cons_out [unesc_val a b] 3 (unesc_transform (cap - 1) at_eof rest2)
               else copy1
           end
  end.

(* unescapeMapping.Span(src, atEOF). *)
Fixpoint unesc_span (at_eof : bool) (src : bytes) : nat * terr :=
  match src with
  | [] => (0, ENil)
  | c :: rest =>
      let next := let '(n, e) := unesc_span at_eof rest in (S n, e) in
      if negb (byte_eqb c bslash) then next
      else match rest with
           | [] => if at_eof then next else (0, EShortSrc)
           | [a] => if at_eof || negb (ishex a) then next else (0, EShortSrc)
           | a :: b :: _ => if should_unescape a b then (0, EEndOfSpan) else next
           end
  end.

(* ---- correspondence records (used by the harness-written case files) ---- *)

Inductive which := WEscape | WUnescape.

Record tcase := mkcase {
  c_which : which; c_cap : nat; c_eof : bool; c_src : bytes;
  o_out : bytes; o_nsrc : nat; o_err : terr }.

Definition run_case (c : tcase) : tres :=
  match c_which c with
  | WEscape => esc_transform (c_cap c) (c_src c)
  | WUnescape => unesc_transform (c_cap c) (c_eof c) (c_src c)
  end.

Definition case_ok (c : tcase) : bool :=
  let r := run_case c in
  bytes_eqb (r_out r) (o_out c) && Nat.eqb (r_nsrc r) (o_nsrc c) && terr_eqb (r_err r) (o_err c).

Record scase := mkscase { s_which : which; s_eof : bool; s_src : bytes; so_n : nat; so_err : terr }.

Definition span_ok (c : scase) : bool :=
  let '(n, e) := match s_which c with
                 | WEscape => esc_span (s_src c)
                 | WUnescape => unesc_span (s_eof c) (s_src c)
                 end in
  Nat.eqb n (so_n c) && terr_eqb e (so_err c).

(* whole-string interfaces (String/Bytes/Reader/Writer): compared with the spec *)
Record wcase := mkwcase { w_which : which; w_src : bytes; wo_out : bytes }.

Definition whole_ok (c : wcase) : bool :=
  bytes_eqb (match w_which c with WEscape => escape_spec (w_src c) | WUnescape => unescape_spec (w_src c) end)
            (wo_out c).

Fixpoint failing {A} (ok : A -> bool) (i : nat) (l : list A) : list nat :=
  match l with
  | [] => []
  | x :: r => if ok x then failing ok (S i) r else i :: failing ok (S i) r
  end.
