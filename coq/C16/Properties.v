(* C16/Properties.v — the property theorems of C16 and nothing else.
   "JID escaping is a lossless, chunk-independent transform." *)
From XV Require Import lib.Bytes gen.JidEscape C16.Model C16.Proofs.

(* Escaping then unescaping any byte string returns it unchanged. *)
Theorem C16_roundtrip : forall s : bytes, unescape_spec (escape_spec s) = s.
Proof. exact unescape_escape. Qed.
Print Assumptions C16_roundtrip.

(* Escaped output contains none of the nine characters forbidden in a localpart
   (the tenth escaped character, the backslash, is the escape introducer). *)
Theorem C16_escaped_has_no_forbidden : forall s c,
  In c (escape_spec s) -> in_bytes c localpart_forbidden = false.
Proof. exact escape_no_forbidden. Qed.
Print Assumptions C16_escaped_has_no_forbidden.

(* The code's tables are XEP-0106's: the escape set is exactly the ten
   characters, every accepted sequence decodes to one of them, and both hex
   cases of every one of them are accepted. *)
Theorem C16_tables_are_xep0106 :
  (forallb (fun c => in_bytes c escape_set) xep_chars = true /\
   forallb (fun c => in_bytes c xep_chars) escape_set = true) /\
  (forallb (fun p => in_bytes (unesc_val (fst p) (snd p)) xep_chars) unescape_pairs = true /\
   forallb (fun c => should_unescape (hi c) (lo c) && should_unescape (upper (hi c)) (upper (lo c))
                     && should_unescape (hi c) (upper (lo c)) && should_unescape (upper (hi c)) (lo c))
           xep_chars = true).
Proof. exact (conj tbl_escape_set_is_xep tbl_pairs_are_the_ten). Qed.
Print Assumptions C16_tables_are_xep0106.

(* Unescaping alters nothing but the accepted sequences. *)
Theorem C16_unescape_only_sequences : forall s, no_seq s = true -> unescape_spec s = s.
Proof. exact unescape_only_sequences. Qed.
Print Assumptions C16_unescape_only_sequences.

(* Chunk and destination-size independence: whatever sequence of Transform calls
   a driver makes (String, Bytes, Reader, Writer), the concatenated output is
   the specification applied to the whole input. *)
Theorem C16_escape_any_driver : forall src out, drives esc_T src out -> out = escape_spec src.
Proof. exact escape_any_driver. Qed.
Print Assumptions C16_escape_any_driver.

Theorem C16_unescape_any_driver : forall src out,
  drives unesc_transform src out -> out = unescape_spec src.
Proof. exact unescape_any_driver. Qed.
Print Assumptions C16_unescape_any_driver.

(* Each single call: writes the transform of exactly the consumed prefix, stays
   within the destination, reports only the documented errors, and makes
   progress once the driver offers three bytes of room (and three bytes of
   source, or atEOF) — so every driver terminates. Totality of the model
   functions (they are Gallina fixpoints returning a value for every capacity,
   chunk and flag) is the no-panic statement at model level; the tie to the Go
   code is the correspondence check. *)
Theorem C16_escape_call : forall cap src,
  let r := esc_transform cap src in
  r_out r = escape_spec (firstn (r_nsrc r) src) /\
  r_nsrc r <= length src /\ length (r_out r) <= cap /\
  (r_err r = ENil /\ r_nsrc r = length src \/ r_err r = EShortDst /\ r_nsrc r < length src) /\
  (3 <= cap -> src <> [] -> 0 < r_nsrc r).
Proof. exact esc_transform_sound. Qed.
Print Assumptions C16_escape_call.

Theorem C16_unescape_call : forall cap at_eof src tail,
  (at_eof = true -> tail = []) ->
  let r := unesc_transform cap at_eof src in
  unescape_spec (src ++ tail) = r_out r ++ unescape_spec (skipn (r_nsrc r) src ++ tail) /\
  r_nsrc r <= length src /\ length (r_out r) <= cap /\
  (r_err r = ENil -> r_nsrc r = length src) /\ (r_err r <> EEndOfSpan) /\
  (at_eof = true -> r_err r <> EShortSrc) /\
  (1 <= cap -> (3 <= length src \/ at_eof = true) -> src <> [] -> 0 < r_nsrc r).
Proof. intros cap at_eof src tail H. exact (unesc_transform_sound (length src) cap at_eof src tail (le_n _) H). Qed.
Print Assumptions C16_unescape_call.

(* Span agrees with Transform: it returns the length of a prefix the transform
   leaves unchanged and stops exactly at the first byte (sequence) it would alter. *)
Theorem C16_escape_span : forall src,
  let '(n, e) := esc_span src in
  n <= length src /\ escape_spec (firstn n src) = firstn n src /\
  (e = ENil /\ n = length src \/
   e = EEndOfSpan /\ exists c, nth_error src n = Some c /\ is_esc c = true).
Proof. exact esc_span_sound. Qed.
Print Assumptions C16_escape_span.

Theorem C16_unescape_span : forall at_eof src tail,
  (at_eof = true -> tail = []) ->
  let '(k, e) := unesc_span at_eof src in
  k <= length src /\
  unescape_spec (src ++ tail) = firstn k src ++ unescape_spec (skipn k src ++ tail) /\
  (e = ENil -> k = length src) /\
  (e = EEndOfSpan -> exists a b r, skipn k src = bslash :: a :: b :: r /\ should_unescape a b = true) /\
  e <> EShortDst /\ (at_eof = true -> e <> EShortSrc).
Proof. intros at_eof src tail H. exact (unesc_span_sound (length src) at_eof src tail (le_n _) H). Qed.
Print Assumptions C16_unescape_span.
