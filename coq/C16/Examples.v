(* C16/Examples.v — non-vacuity and worked examples (XEP-0106 §5.1-style). *)
From XV Require Import lib.Bytes gen.JidEscape C16.Model C16.Proofs.

Example ex_escape : escape_spec (str "d'artagnan@musketeers.lit") = str "d\27artagnan\40musketeers.lit".
Proof. vm_compute. reflexivity. Qed.
Example ex_unescape_offset : unescape_spec (str "ab\20cd") = str "ab cd".
Proof. vm_compute. reflexivity. Qed.
Example ex_unescape_upper : unescape_spec (str "\2F\3a\5C\5c20") = str "/:\\20".
Proof. vm_compute. reflexivity. Qed.
(* a driver in the sense of [drives]: 2-byte chunks, tiny destination *)
Example ex_driver : drives unesc_transform (str "a\20") (str "a ").
Proof.
  apply (drives_step unesc_transform (str "a\20") 1 2 false (str " ")); [cbn; lia|discriminate|].
  apply (drives_step unesc_transform (str "\20") 1 3 true []); [cbn; lia|reflexivity|].
  apply drives_done.
Qed.
Example ex_no_seq : no_seq (str "a\2b\g0\") = true.
Proof. vm_compute. reflexivity. Qed.
Example ex_short_src : r_err (unesc_transform 10 false (str "ab\2")) = EShortSrc /\ r_nsrc (unesc_transform 10 false (str "ab\2")) = 2.
Proof. vm_compute. split; reflexivity. Qed.
