(* SessClose.v — written by /verif/translator from the repository's sources on every run. Do not edit. *)
From XV Require Import lib.Bytes.

From Coq Require Import NArith.

(* ---- session.go: the two closed bits ---- *)
Definition sc_output_closed : N := 16%N.
Definition sc_input_closed : N := 32%N.

(* ---- internal/stream/stream.go: closing tags ---- *)
Definition sc_close_tag : bytes := hex "3c2f73747265616d3a73747265616d3e".
Definition sc_close_ws_tag : bytes := hex "3c636c6f736520786d6c6e733d2275726e3a696574663a706172616d733a786d6c3a6e733a786d70702d6672616d696e67222f3e".
Definition sc_send_records_opening_element : bool := true.
Definition sc_reader_ws_close_is_eof : bool := true.
Definition sc_negotiator_records_ws : bool := true.

(* ---- session.go: calls that can block inside a critical section of the state mutex ---- *)
Definition sc_statelock_blocking_calls : list bytes := [].

(* ---- session.go: who takes the output lock, and who of them tests the closed bit after taking it ---- *)
Definition sc_out_lockers : list bytes := [hex "53657373696f6e2e436c6f7365" (* Session.Close *); hex "53657373696f6e2e456e636f6465" (* Session.Encode *); hex "53657373696f6e2e456e636f6465456c656d656e74" (* Session.EncodeElement *); hex "53657373696f6e2e546f6b656e577269746572" (* Session.TokenWriter *); hex "53657373696f6e2e73656e644572726f72" (* Session.sendError *); hex "73656e64" (* send *)].
Definition sc_out_lockers_guarded : list bytes := [hex "53657373696f6e2e436c6f7365" (* Session.Close *); hex "53657373696f6e2e456e636f6465" (* Session.Encode *); hex "53657373696f6e2e456e636f6465456c656d656e74" (* Session.EncodeElement *); hex "53657373696f6e2e73656e644572726f72" (* Session.sendError *); hex "73656e64" (* send *)].

(* ---- session.go: who sets the closed bits, who calls closeSession, who touches the output encoder ---- *)
Definition sc_sets_output_closed : list bytes := [hex "53657373696f6e2e636c6f736553657373696f6e" (* Session.closeSession *)].
Definition sc_sets_input_closed : list bytes := [hex "53657373696f6e2e636c6f7365496e70757453747265616d" (* Session.closeInputStream *)].
Definition sc_closesession_callers : list bytes := [hex "53657373696f6e2e436c6f7365" (* Session.Close *); hex "53657373696f6e2e73656e644572726f72" (* Session.sendError *)].
Definition sc_encoder_users : list bytes := [hex "53657373696f6e2e456e636f6465" (* Session.Encode *); hex "53657373696f6e2e456e636f6465456c656d656e74" (* Session.EncodeElement *); hex "53657373696f6e2e73656e644572726f72" (* Session.sendError *); hex "6c6f636b5772697465436c6f7365722e456e636f6465546f6b656e" (* lockWriteCloser.EncodeToken *); hex "6c6f636b5772697465436c6f7365722e466c757368" (* lockWriteCloser.Flush *); hex "6e65676f746961746553657373696f6e" (* negotiateSession *); hex "73656e64" (* send *)].

(* ---- session.go: closed-bit tests of the token writer and token reader ---- *)
Definition sc_tw_encodetoken_tests_closed : bool := true.
Definition sc_tw_flush_tests_closed : bool := true.
Definition sc_tr_token_tests_closed : bool := true.

(* ---- session.go: Serve's deferred shutdown calls, in order ---- *)
Definition sc_serve_defer_calls : list bytes := [hex "636c6f7365496e70757453747265616d" (* closeInputStream *); hex "436c6f7365" (* Close *)].

(* ---- session.go: SetCloseDeadline replaces the input context under a lock ---- *)
Definition sc_setclosedeadline_locked : bool := true.
Definition sc_serve_reads_context_every_turn : bool := true.
Definition sc_closesession_sets_bit_before_write : bool := true.
Definition sc_writedeadline_cleared_where_expired : bool := true.
Definition sc_newconn_deadlines_from_prev : bool := true.
Definition sc_setclosedeadline_fresh_context : bool := true.
Definition sc_setclosedeadline_cancels_previous : bool := true.
Definition sc_setclosedeadline_zero_is_no_deadline : bool := true.
