(* C04Facts.v — written by /verif/translator from the repository's sources on every run. Do not edit. *)
From XV Require Import lib.Bytes.

(* session.go setDeadline: the goroutine that watches ctx.Done() is started unconditionally *)
Definition setdeadline_watcher_unconditional : bool := true.

(* session.go negotiateSession: err = ctx.Err() only under `if err == nil`; a step's error is never replaced *)
Definition negsession_keeps_step_error : bool := true.
