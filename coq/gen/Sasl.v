(* Sasl.v — written by /verif/translator from the repository's sources on every run. Do not edit. *)
From XV Require Import lib.Bytes.

(* ---- sasl.go, internal/saslerr/errors.go ---- *)
Definition sasl_ns : bytes := (hex "75726e3a696574663a706172616d733a786d6c3a6e733a786d70702d7361736c").
Definition sasl_necessary : bytes := (hex "536563757265").   (* Secure *)
Definition sasl_prohibited : bytes := (hex "417574686e").  (* Authn *)
Definition sasl_negotiateClient_returns : list (bytes * bytes) := [
  ((hex "6d61736b"), (hex "6572724e6f4d656368616e69736d73"));  (* return mask, nil, errNoMechanisms *)
  ((hex "6d61736b"), (hex "657272"));  (* return mask, nil, err *)
  ((hex "6d61736b"), (hex "657272"));  (* return mask, nil, err *)
  ((hex "6d61736b"), (hex "657272"));  (* return mask, nil, err *)
  ((hex "6d61736b"), (hex "6374782e4572722829"));  (* return mask, nil, ctx.Err() *)
  ((hex "6d61736b"), (hex "657272"));  (* return mask, nil, err *)
  ((hex "6d61736b"), (hex "657272"));  (* return mask, nil, err *)
  ((hex "6d61736b"), (hex "657272556e65787065637465645061796c6f6164"));  (* return mask, nil, errUnexpectedPayload *)
  ((hex "6d61736b"), (hex "657272"));  (* return mask, nil, err *)
  ((hex "6d61736b"), (hex "657272"));  (* return mask, nil, err *)
  ((hex "6d61736b"), (hex "657272"));  (* return mask, nil, err *)
  ((hex "6d61736b"), (hex "657272"));  (* return mask, nil, err *)
  ((hex "6d61736b"), (hex "657272"));  (* return mask, nil, err *)
  ((hex "6d61736b"), (hex "657272556e65787065637465645061796c6f6164"));  (* return mask, nil, errUnexpectedPayload *)
  ((hex "417574686e"), (hex "6e696c"))  (* return Authn, session.Conn(), nil *)
].
Definition sasl_negotiateClient_mask_writes : nat := 0.
Definition sasl_negotiateClient_elements : list bytes := [].
Definition sasl_negotiateServer_returns : list (bytes * bytes) := [
  ((hex "30"), (hex "657272"));  (* return 0, nil, err *)
  ((hex "30"), (hex "657272556e65787065637465645061796c6f6164"));  (* return 0, nil, errUnexpectedPayload *)
  ((hex "30"), (hex "657272"));  (* return 0, nil, err *)
  ((hex "30"), (hex "6661696c"));  (* return 0, nil, fail *)
  ((hex "30"), (hex "657272"));  (* return 0, nil, err *)
  ((hex "30"), (hex "657272"));  (* return 0, nil, err *)
  ((hex "30"), (hex "6572724e6f4d656368616e69736d73"));  (* return 0, nil, errNoMechanisms *)
  ((hex "30"), (hex "657272"));  (* return 0, nil, err *)
  ((hex "30"), (hex "6572725465726d696e61746564"));  (* return 0, nil, errTerminated *)
  ((hex "30"), (hex "657272"));  (* return 0, nil, err *)
  ((hex "30"), (hex "657272556e65787065637465645061796c6f6164"));  (* return 0, nil, errUnexpectedPayload *)
  ((hex "30"), (hex "657272"));  (* return 0, nil, err *)
  ((hex "30"), (hex "657272556e65787065637465645061796c6f6164"));  (* return 0, nil, errUnexpectedPayload *)
  ((hex "30"), (hex "657272"));  (* return 0, nil, err *)
  ((hex "30"), (hex "657272"));  (* return 0, nil, err *)
  ((hex "30"), (hex "657272"));  (* return 0, nil, err *)
  ((hex "30"), (hex "657272"));  (* return 0, nil, err *)
  ((hex "30"), (hex "657272"));  (* return 0, nil, err *)
  ((hex "30"), (hex "657272"));  (* return 0, nil, err *)
  ((hex "30"), (hex "657272"));  (* return 0, nil, err *)
  ((hex "417574686e"), (hex "6e696c"));  (* return Authn, session.Conn(), nil *)
  ((hex "30"), (hex "657272"));  (* return 0, nil, err *)
  ((hex "30"), (hex "657272"));  (* return 0, nil, err *)
  ((hex "417574686e"), (hex "6e696c"))  (* return Authn, session.Conn(), nil *)
].
Definition sasl_negotiateServer_mask_writes : nat := 0.
Definition sasl_negotiateServer_elements : list bytes := [(hex "61757468"); (hex "61626f7274"); (hex "726573706f6e7365")].
Definition sasl_decodeSASLChallenge_elements : list bytes := [(hex "6368616c6c656e6765"); (hex "73756363657373"); (hex "6661696c757265")].
Definition sasl_server_decode_subject : bytes := (hex "73656c656374696f6e2e5061796c6f6164").   (* selection.Payload *)
Definition sasl_server_decode_guard : bytes := (hex "6c656e287029203e20302026262021286c656e287029203d3d203120262620705b305d203d3d20273d2729").   (* if len(p) > 0 && !(len(p) == 1 && p[0] == '=') { decode } *)
Definition sasl_conditions : list (bytes * nat) := [((hex "436f6e646974696f6e4e6f6e65"), 0); ((hex "436f6e646974696f6e41626f72746564"), 1); ((hex "436f6e646974696f6e4163636f756e7444697361626c6564"), 2); ((hex "436f6e646974696f6e43726564656e7469616c7345787069726564"), 3); ((hex "436f6e646974696f6e456e6372797074696f6e5265717569726564"), 4); ((hex "436f6e646974696f6e496e636f7272656374456e636f64696e67"), 5); ((hex "436f6e646974696f6e496e76616c6964417574687a4944"), 6); ((hex "436f6e646974696f6e496e76616c69644d656368616e69736d"), 7); ((hex "436f6e646974696f6e4d616c666f726d656452657175657374"), 8); ((hex "436f6e646974696f6e4d656368616e69736d546f6f5765616b"), 9); ((hex "436f6e646974696f6e4e6f74417574686f72697a6564"), 10); ((hex "436f6e646974696f6e54656d706f72617279417574684661696c757265"), 11)].
Definition sasl_server_conditions : list bytes := [(hex "436f6e646974696f6e496e76616c69644d656368616e69736d"); (hex "436f6e646974696f6e41626f72746564"); (hex "436f6e646974696f6e4d616c666f726d656452657175657374"); (hex "436f6e646974696f6e4d616c666f726d656452657175657374"); (hex "436f6e646974696f6e4e6f74417574686f72697a6564")].  (* [ConditionInvalidMechanism ConditionAborted ConditionMalformedRequest ConditionMalformedRequest ConditionNotAuthorized] *)

(* ---- sasl.go newSASL: the feature value and what its closures capture ---- *)
Definition sasl_newSASL_params : list bytes := [(hex "6964656e74697479") (* identity *); (hex "70617373776f7264") (* password *); (hex "7065726d697373696f6e73") (* permissions *); (hex "6d656368616e69736d73") (* mechanisms *)].
(* variables newSASL declares besides its parameters (outside the function literals) *)
Definition sasl_newSASL_locals : list bytes := [].
Definition sasl_feature_closures : list bytes := [(hex "4c697374") (* List *); (hex "5061727365") (* Parse *); (hex "4e65676f7469617465") (* Negotiate *)].
(* (closure, variable of newSASL it mentions) *)
Definition sasl_closure_captures : list (bytes * bytes) := [((hex "4c697374"), (hex "6d656368616e69736d73")) (* List, mechanisms *); ((hex "4e65676f7469617465"), (hex "6964656e74697479")) (* Negotiate, identity *); ((hex "4e65676f7469617465"), (hex "70617373776f7264")) (* Negotiate, password *); ((hex "4e65676f7469617465"), (hex "7065726d697373696f6e73")) (* Negotiate, permissions *); ((hex "4e65676f7469617465"), (hex "6d656368616e69736d73")) (* Negotiate, mechanisms *)].
(* (closure, use of a variable of newSASL that can change it or hand out a reference into it) *)
Definition sasl_closure_writes : list (bytes * bytes) := [].
(* where the value that Parse decodes <mechanisms/> into (`parsed`) is declared: 0 = inside the call of Parse, 1 = in newSASL (captured by the feature value), 2 = elsewhere *)
Definition sasl_parse_target_scope : nat := 0.
Definition sasl_package_vars : list bytes := [(hex "6572724e6f4d656368616e69736d73") (* errNoMechanisms *); (hex "657272556e65787065637465645061796c6f6164") (* errUnexpectedPayload *); (hex "6572725465726d696e61746564") (* errTerminated *)].
(* (function, assignment / address-of / slicing of a package-level variable of sasl.go) *)
Definition sasl_package_var_writes : list (bytes * bytes) := [].
(* (function, assignment / address-of / slicing through its parameter `mechanisms` or `data`) *)
Definition sasl_param_writes : list (bytes * bytes) := [].

(* ---- sasl.go: calls of base64.StdEncoding.Decode and whether the error is tested and returned at once ---- *)
Definition sasl_b64_decodes : list (bytes * bytes) := [((hex "6e65676f7469617465536572766572"), (hex "636865636b6564")) (* negotiateServer, checked *); ((hex "6465636f64655341534c4368616c6c656e6765"), (hex "636865636b6564")) (* decodeSASLChallenge, checked *)].
