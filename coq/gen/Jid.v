(* Jid.v — written by /verif/translator from the repository's sources on every run. Do not edit. *)
From XV Require Import lib.Bytes.

(* ---- jid/jid.go ---- *)
Definition jid_forbidden_local : bytes := hex "2226272f3a3c3e40".
Definition jid_local_max : N := 1023.
Definition jid_resource_max : N := 1023.
Definition jid_domain_min : N := 1.
Definition jid_domain_max : N := 1023.

(* ---- write sites of package jid: (function:written slice, origin) ---- *)
Inductive wkind := WFresh | WShared.
Definition jid_write_sites : list (bytes * wkind) := [
  (hex "4e65773a64617461", WFresh)  (* New: data *);
  (hex "4e65773a64617461", WFresh)  (* New: data *);
  (hex "4e65773a64617461", WFresh)  (* New: data *);
  (hex "576974684c6f63616c3a64617461", WFresh)  (* WithLocal: data *);
  (hex "576974684c6f63616c3a64617461", WFresh)  (* WithLocal: data *);
  (hex "57697468446f6d61696e3a64617461", WFresh)  (* WithDomain: data *);
  (hex "57697468446f6d61696e3a64617461", WFresh)  (* WithDomain: data *);
  (hex "57697468446f6d61696e3a64617461", WFresh)  (* WithDomain: data *);
  (hex "576974685265736f757263653a64617461", WFresh)  (* WithResource: data *);
  (hex "576974685265736f757263653a64617461", WFresh)  (* WithResource: data *);
  (hex "4e6577556e736166653a64617461", WFresh)  (* NewUnsafe: data *);
  (hex "4e6577556e736166653a64617461", WFresh)  (* NewUnsafe: data *);
  (hex "4e6577556e736166653a64617461", WFresh)  (* NewUnsafe: data *)].
Definition jid_writers : list bytes := [hex "4e6577" (* New *); hex "576974684c6f63616c" (* WithLocal *); hex "57697468446f6d61696e" (* WithDomain *); hex "576974685265736f75726365" (* WithResource *); hex "4e6577556e73616665" (* NewUnsafe *)].
