(* Jid.v — written by /verif/translator from the repository's sources on every run. Do not edit. *)
From XV Require Import lib.Bytes.

(* ---- jid/jid.go ---- *)
Definition jid_forbidden_local : bytes := hex "2226272f3a3c3e40".
Definition jid_local_max : N := 1023.
Definition jid_resource_max : N := 1023.
Definition jid_domain_min : N := 1.
Definition jid_domain_max : N := 1023.
