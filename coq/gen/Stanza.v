(* Stanza.v — written by /verif/translator from the repository's sources on every run. Do not edit. *)
From XV Require Import lib.Bytes.

(* ---- stanza/*.go, stream/error.go, stream/doc.go, internal/ns ---- *)
Definition ns_client : bytes := (hex "6a61626265723a636c69656e74"). (* "jabber:client" *)
Definition ns_server : bytes := (hex "6a61626265723a736572766572"). (* "jabber:server" *)
Definition ns_stanza_error : bytes := (hex "75726e3a696574663a706172616d733a786d6c3a6e733a786d70702d7374616e7a6173"). (* "urn:ietf:params:xml:ns:xmpp-stanzas" *)
Definition ns_stream : bytes := (hex "687474703a2f2f6574686572782e6a61626265722e6f72672f73747265616d73"). (* "http://etherx.jabber.org/streams" *)
Definition ns_stream_error : bytes := (hex "75726e3a696574663a706172616d733a786d6c3a6e733a786d70702d73747265616d73"). (* "urn:ietf:params:xml:ns:xmpp-streams" *)
Definition ns_xml : bytes := (hex "687474703a2f2f7777772e77332e6f72672f584d4c2f313939382f6e616d657370616365"). (* "http://www.w3.org/XML/1998/namespace" *)

Definition iq_types : list bytes := [(hex "676574"); (hex "736574"); (hex "726573756c74"); (hex "6572726f72")].
Definition msg_types : list bytes := [(hex "6e6f726d616c"); (hex "63686174"); (hex "6572726f72"); (hex "67726f757063686174"); (hex "686561646c696e65")].
Definition pres_types : list bytes := [(hex ""); (hex "6572726f72"); (hex "70726f6265"); (hex "737562736372696265"); (hex "73756273637269626564"); (hex "756e617661696c61626c65"); (hex "756e737562736372696265"); (hex "756e73756273637269626564")].
Definition err_types : list bytes := [(hex "63616e63656c"); (hex "61757468"); (hex "636f6e74696e7565"); (hex "6d6f64696679"); (hex "77616974")].
Definition stanza_conditions : list bytes := [(hex "6261642d72657175657374"); (hex "636f6e666c696374"); (hex "666561747572652d6e6f742d696d706c656d656e746564"); (hex "666f7262696464656e"); (hex "676f6e65"); (hex "696e7465726e616c2d7365727665722d6572726f72"); (hex "6974656d2d6e6f742d666f756e64"); (hex "6a69642d6d616c666f726d6564"); (hex "6e6f742d61636365707461626c65"); (hex "6e6f742d616c6c6f776564"); (hex "6e6f742d617574686f72697a6564"); (hex "706f6c6963792d76696f6c6174696f6e"); (hex "726563697069656e742d756e617661696c61626c65"); (hex "7265646972656374"); (hex "726567697374726174696f6e2d7265717569726564"); (hex "72656d6f74652d7365727665722d6e6f742d666f756e64"); (hex "72656d6f74652d7365727665722d74696d656f7574"); (hex "7265736f757263652d636f6e73747261696e74"); (hex "736572766963652d756e617661696c61626c65"); (hex "737562736372697074696f6e2d7265717569726564"); (hex "756e646566696e65642d636f6e646974696f6e"); (hex "756e65787065637465642d72657175657374")].
Definition stream_conditions : list bytes := [(hex "6261642d666f726d6174"); (hex "6261642d6e616d6573706163652d707265666978"); (hex "636f6e666c696374"); (hex "636f6e6e656374696f6e2d74696d656f7574"); (hex "686f73742d676f6e65"); (hex "686f73742d756e6b6e6f776e"); (hex "696d70726f7065722d61646472657373696e67"); (hex "696e7465726e616c2d7365727665722d6572726f72"); (hex "696e76616c69642d66726f6d"); (hex "696e76616c69642d6e616d657370616365"); (hex "696e76616c69642d786d6c"); (hex "6e6f742d617574686f72697a6564"); (hex "6e6f742d77656c6c2d666f726d6564"); (hex "706f6c6963792d76696f6c6174696f6e"); (hex "72656d6f74652d636f6e6e656374696f6e2d6661696c6564"); (hex "7265736574"); (hex "7265736f757263652d636f6e73747261696e74"); (hex "726573747269637465642d786d6c"); (hex "7365652d6f746865722d686f7374"); (hex "73797374656d2d73687574646f776e"); (hex "756e646566696e65642d636f6e646974696f6e"); (hex "756e737570706f727465642d656e636f64696e67"); (hex "756e737570706f727465642d66656174757265"); (hex "756e737570706f727465642d7374616e7a612d74797065"); (hex "756e737570706f727465642d76657273696f6e")].

Inductive fsel := FID | FTo | FFrom | FLang | FType.
Inductive fkind := KString | KJid | KIQType | KMsgType | KPresType.
Record afield := mkfield { f_sel : fsel; f_space : bytes; f_local : bytes; f_omit : bool; f_kind : fkind }.

Definition iq_tag_space : bytes := (hex "").
Definition iq_tag_local : bytes := (hex "6971").
Definition iq_schema : list afield := [
  mkfield FID (hex "") (hex "6964") false KString;
  mkfield FTo (hex "") (hex "746f") true KJid;
  mkfield FFrom (hex "") (hex "66726f6d") true KJid;
  mkfield FLang (hex "687474703a2f2f7777772e77332e6f72672f584d4c2f313939382f6e616d657370616365") (hex "6c616e67") true KString;
  mkfield FType (hex "") (hex "74797065") false KIQType].

Definition message_tag_space : bytes := (hex "").
Definition message_tag_local : bytes := (hex "6d657373616765").
Definition message_schema : list afield := [
  mkfield FID (hex "") (hex "6964") true KString;
  mkfield FTo (hex "") (hex "746f") true KJid;
  mkfield FFrom (hex "") (hex "66726f6d") true KJid;
  mkfield FLang (hex "687474703a2f2f7777772e77332e6f72672f584d4c2f313939382f6e616d657370616365") (hex "6c616e67") true KString;
  mkfield FType (hex "") (hex "74797065") true KMsgType].

Definition presence_tag_space : bytes := (hex "").
Definition presence_tag_local : bytes := (hex "70726573656e6365").
Definition presence_schema : list afield := [
  mkfield FID (hex "") (hex "6964") false KString;
  mkfield FTo (hex "") (hex "746f") false KJid;
  mkfield FFrom (hex "") (hex "66726f6d") false KJid;
  mkfield FLang (hex "687474703a2f2f7777772e77332e6f72672f584d4c2f313939382f6e616d657370616365") (hex "6c616e67") true KString;
  mkfield FType (hex "") (hex "74797065") true KPresType].

(* custom (un)marshalling methods declared on the attribute types *)
Definition iqtype_has_marshal_text : bool := true.
Definition iqtype_has_unmarshal_text : bool := false.
Definition iqtype_has_marshal_attr : bool := false.
Definition iqtype_has_unmarshal_attr : bool := false.
Definition msgtype_has_marshal_text : bool := true.
Definition msgtype_has_unmarshal_text : bool := false.
Definition msgtype_has_marshal_attr : bool := false.
Definition msgtype_has_unmarshal_attr : bool := true.
Definition prestype_has_marshal_text : bool := false.
Definition prestype_has_unmarshal_text : bool := false.
Definition prestype_has_marshal_attr : bool := false.
Definition prestype_has_unmarshal_attr : bool := false.
