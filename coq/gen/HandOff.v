(* HandOff.v — written by /verif/translator from the repository's sources on every run. Do not edit. *)
From XV Require Import lib.Bytes.

(* ---- session.go, receipts/receipts.go, muc/muc.go, muc/room.go, ibb/conn.go, ibb/ibb.go ---- *)
Definition ho_sendresp_chan_capacity : nat := 0.
Definition ho_sendresp_registers_derived_ctx : bool := true. (* ctx: regCtx *)
Definition ho_sendresp_deferred_delete : bool := true.
Definition ho_sendresp_select_cases : nat := 2.
Definition ho_sendresp_select_blocking_with_ctx : bool := true.
Definition ho_sendresp_yields : list bytes := [hex "73656e64726573702e72656769737465726564"; hex "73656e64726573702e73656e64657272"; hex "73656e64726573702e73656c6563742e6265666f7265"; hex "73656e64726573702e7265636569766564"; hex "73656e64726573702e637478646f6e65"]. (* sendresp.registered sendresp.senderr sendresp.select.before sendresp.received sendresp.ctxdone *)
Definition ho_serve_match_condition : bytes := hex "6f6b202626207265616465724368616e2e7374616e7a614e616d65203d3d2073746172742e4e616d65207c7c207265616465724368616e2e7374616e7a614e616d65203d3d20656d7074795370616365". (* ok && readerChan.stanzaName == start.Name || readerChan.stanzaName == emptySpace *)
Definition ho_serve_awaits_close_after_handoff : bool := true.
Definition ho_serve_yields : list bytes := [hex "73657276652e6c6f6f6b75702e6166746572"; hex "73657276652e6f666665722e6265666f7265"; hex "73657276652e6177616974636c6f73652e6265666f7265"; hex "73657276652e6177616974636c6f73652e6166746572"; hex "73657276652e6f666665722e637478646f6e65"; hex "73657276652e68616e646c65722e6265666f7265"]. (* serve.lookup.after serve.offer.before serve.awaitclose.before serve.awaitclose.after serve.offer.ctxdone serve.handler.before *)
Definition ho_getidtyp_skips_qualified : bool := true.
Definition ho_responder_close_closes_chan : bool := true.
Definition ho_send_iq_generates_id_when : nat := 1. (* 1: id == "", 2: attribute absent, 3: other, 0: never *)
Definition ho_send_iq_registers_completed_id : bool := true.
Definition ho_send_message_generates_id_when : nat := 1. (* 1: id == "", 2: attribute absent, 3: other, 0: never *)
Definition ho_send_message_registers_completed_id : bool := true.
Definition ho_send_presence_generates_id_when : nat := 1. (* 1: id == "", 2: attribute absent, 3: other, 0: never *)
Definition ho_send_presence_registers_completed_id : bool := true.
Definition ho_errcloser_token_closes : nat := 1. (* 0 nothing, 1 the guarded Close, 2 the embedded reader *)
Definition ho_errcloser_close_once : bool := true.
Definition ho_iter_wraps_response : bool := true.
Definition ho_iter_closes_on_error_return : bool := true.
Definition ho_unmarshal_closes_on_return : bool := true.
Definition ho_responder_close_tolerates_second_call : bool := true.
Definition ho_receipts_chan_capacity : nat := 1.
Definition ho_receipts_sender_close_calls : nat := 0.
Definition ho_receipts_sender_delete_calls : nat := 2.
Definition ho_receipts_handler_delete_calls : nat := 1.
Definition ho_receipts_handler_plain_sends : nat := 1.
Definition ho_receipts_yields : list bytes := [hex "72656365697074732e6e6f746966792e6265666f7265"; hex "72656365697074732e6e6f746966792e6166746572"; hex "72656365697074732e72656769737465726564"; hex "72656365697074732e73656e64657272"; hex "72656365697074732e776169742e6265666f7265"; hex "72656365697074732e637478646f6e65"]. (* receipts.notify.before receipts.notify.after receipts.registered receipts.senderr receipts.wait.before receipts.ctxdone *)
Definition ho_stanza_message_types : list bytes := [hex "63686174"; hex "6572726f72"; hex "67726f757063686174"; hex "686561646c696e65"; hex "6e6f726d616c"]. (* chat error groupchat headline normal *)
Definition ho_receipts_received_types : list bytes := [hex "63686174"; hex "6572726f72"; hex "67726f757063686174"; hex "686561646c696e65"; hex "6e6f726d616c"]. (* chat error groupchat headline normal *)
Definition ho_muc_join_capacity : nat := 1.
Definition ho_muc_depart_capacity : nat := 1.
Definition ho_muc_depart_send_nonblocking : bool := true.
Definition ho_muc_leave_drains_stale : nat := 1.
Definition ho_muc_leave_waits_for_depart : nat := 1.
Definition ho_muc_yields : list bytes := [hex "6d75632e70726573656e63652e6a6f696e2e74616b656e"; hex "6d75632e70726573656e63652e6465706172742e6265666f7265"; hex "6d75632e6a6f696e2e707573682e6265666f7265"; hex "6d75632e6a6f696e2e776169742e6265666f7265"; hex "6d75632e6c656176652e776169742e6265666f7265"]. (* muc.presence.join.taken muc.presence.depart.before muc.join.push.before muc.join.wait.before muc.leave.wait.before *)
Definition ho_ibb_readready_capacity : nat := 1.
Definition ho_ibb_read_loops : nat := 1.
Definition ho_ibb_read_tests_channel_open : bool := true.
Definition ho_ibb_notify_nonblocking : bool := true.
Definition ho_ibb_payload_holds_lock_to_return : bool := true.
Definition ho_ibb_payload_tests_closed_under_lock : bool := true.
Definition ho_ibb_close_unregisters : bool := true.
Definition ho_ibb_close_under_read_lock : bool := true.
Definition ho_ibb_both_closes_use_closeread : bool := true.
Definition ho_ibb_yields : list bytes := [hex "6962622e726561642e636865636b6564"; hex "6962622e726561642e776f6b656e"; hex "6962622e7061796c6f61642e6c6f636b6564"]. (* ibb.read.checked ibb.read.woken ibb.payload.locked *)
Definition ho_ibb_serve_close_blocking_write_locks : nat := 0.
Definition ho_ibb_serve_close_try_write_locks : nat := 1.
Definition ho_ibb_serve_close_sets_abort : bool := true.
Definition ho_ibb_serve_close_returns_error : bool := false.
Definition ho_ibb_expect_cleanup_deletes : nat := 1.
Definition ho_ibb_expect_cleanup_checks_owner : bool := true.
Definition ho_ibb_open_offer_gives_up_on_done : bool := true.
Definition ho_ibb_responses_obtained : nat := 1.
Definition ho_ibb_responses_closed_on_all_paths : nat := 1.
Definition ho_ibb_writer_tests_abort_first : bool := true.
