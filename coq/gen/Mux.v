(* Mux.v — written by /verif/translator from the repository's sources on every run. Do not edit. *)
From XV Require Import lib.Bytes.

(* ---- mux/mux.go, mux/option.go, stanza tables ---- *)
Inductive tbl := TblTop | TblIq | TblMsg | TblPres.

Definition iqStanza : bytes := hex "6971". (* "iq" *)
Definition msgStanza : bytes := hex "6d657373616765". (* "message" *)
Definition presStanza : bytes := hex "70726573656e6365". (* "presence" *)

Definition top_cascade : list (tbl * bool * bool) := [(TblTop, true, true); (TblTop, false, true); (TblTop, true, false)].
Definition iq_cascade : list (tbl * bool * bool) := [(TblIq, true, true); (TblIq, false, true); (TblIq, true, false); (TblIq, false, false)].
Definition iq_stanza : bytes := hex "6971". (* iqStanza *)
Definition iq_default : bytes := hex "495148616e646c657246756e6328697146616c6c6261636b29". (* IQHandlerFunc(iqFallback) *)
Definition msg_cascade : list (tbl * bool * bool) := [(TblMsg, true, true); (TblMsg, false, true); (TblMsg, true, false); (TblMsg, false, false)].
Definition msg_stanza : bytes := hex "6d657373616765". (* msgStanza *)
Definition msg_default : bytes := hex "6e6f7048616e646c65727b2e2e2e7d". (* nopHandler{...} *)
Definition pres_cascade : list (tbl * bool * bool) := [(TblPres, true, true); (TblPres, false, true); (TblPres, true, false); (TblPres, false, false)].
Definition pres_stanza : bytes := hex "70726573656e6365". (* presStanza *)
Definition pres_default : bytes := hex "6e6f7048616e646c65727b2e2e2e7d". (* nopHandler{...} *)
Definition router_map : list (bytes * bytes) := [(hex "6971", hex "6971526f75746572"); (hex "6d657373616765", hex "6d7367526f75746572"); (hex "70726573656e6365", hex "70726573656e6365526f75746572")]. (* stanza local name -> router method *)

Definition reg_handle : tbl * bool * bool * bool := (TblTop, true, true, true). (* table, refuses nil, refuses duplicate, refuses stanza names *)
Definition reg_iq : tbl * bool * bool * bool := (TblIq, true, true, false). (* table, refuses nil, refuses duplicate, refuses stanza names *)
Definition reg_message : tbl * bool * bool * bool := (TblMsg, true, true, false). (* table, refuses nil, refuses duplicate, refuses stanza names *)
Definition reg_presence : tbl * bool * bool * bool := (TblPres, true, true, false). (* table, refuses nil, refuses duplicate, refuses stanza names *)
Definition reg_iq_stanza : bytes := hex "6971". (* iqStanza *)
Definition reg_message_stanza : bytes := hex "6d657373616765". (* msgStanza *)
Definition reg_presence_stanza : bytes := hex "70726573656e6365". (* presStanza *)
Definition handlefunc_refuses_nil_func : bool := true.
Definition iqfunc_refuses_nil_func : bool := true.
Definition messagefunc_refuses_nil_func : bool := true.
Definition presencefunc_refuses_nil_func : bool := true.

Definition stanza_locals : list bytes := [hex "6971"; hex "6d657373616765"; hex "70726573656e6365"].
Definition message_types : list bytes := [hex "6e6f726d616c"; hex "63686174"; hex "6572726f72"; hex "67726f757063686174"; hex "686561646c696e65"].
Definition message_default : bytes := hex "6e6f726d616c".

Definition fallback_swaps_addresses : bool := true.
Definition fallback_reply_type : bytes := hex "6572726f72".
Definition fallback_silent_types : list bytes := [hex "6572726f72"; hex "726573756c74"].
Definition fallback_error_type : bytes := hex "63616e63656c".
Definition fallback_condition : bytes := hex "736572766963652d756e617661696c61626c65".
Definition iqtype_get : bytes := hex "676574".
Definition iqtype_set : bytes := hex "736574".
Definition iqtype_result : bytes := hex "726573756c74".
Definition iqtype_error : bytes := hex "6572726f72".

Inductive name_src := NsZero | NsStanza | NsChild. (* xml.Name{}; the stanza's own start.Name; the current child's start.Name *)
Definition child_lookup_arg_message : name_src := NsChild.
Definition child_lookup_arg_presence : name_src := NsChild.
Definition wildcard_lookup_arg_message : name_src := NsZero.
Definition wildcard_lookup_arg_presence : name_src := NsZero.
Definition bufreader_buffers_token_with_error : bool := true. (* a token that comes with an error is appended to the buffer all the same *)
Definition servemux_fields_touched_after_new : list bytes := []. (*  *)
Definition forchildren_buffer_is_local : bool := true. (* buf: make(<*ast.ArrayType>,0,10) *)
