(* NegTables.v — written by /verif/translator from the repository's sources on every run. Do not edit. *)
From XV Require Import lib.Bytes.

(* ---- session.go: SessionState bits ---- *)
Definition st_Secure : N := 0%N.
Definition st_Authn : N := 0%N.
Definition st_Ready : N := 0%N.
Definition st_Received : N := 0%N.
Definition st_OutputStreamClosed : N := 0%N.
Definition st_InputStreamClosed : N := 0%N.
Definition st_S2S : N := 0%N.

(* ---- name spaces ---- *)
Definition ns_StartTLS : bytes := hex "". (*  *)
Definition ns_SASL : bytes := hex "". (*  *)
Definition ns_Bind : bytes := hex "". (*  *)

(* ---- built-in stream features: name, Necessary, Prohibited, Negotiate != nil ---- *)
(* TRANSLATOR-ERROR: bind.go: open /tmp/wt/C02/bind.go: no such file or directory *)
(* TRANSLATOR-ERROR: features.go: open /tmp/wt/C02/features.go: no such file or directory *)
(* TRANSLATOR-ERROR: internal/ns/ns.go: const Bind not found *)
(* TRANSLATOR-ERROR: internal/ns/ns.go: const SASL not found *)
(* TRANSLATOR-ERROR: internal/ns/ns.go: const StartTLS not found *)
(* TRANSLATOR-ERROR: internal/ns/ns.go: open /tmp/wt/C02/internal/ns/ns.go: no such file or directory *)
(* TRANSLATOR-ERROR: internal/stream/stream.go: open /tmp/wt/C02/internal/stream/stream.go: no such file or directory *)
(* TRANSLATOR-ERROR: s2s/bidi.go: open /tmp/wt/C02/s2s/bidi.go: no such file or directory *)
(* TRANSLATOR-ERROR: s2s/bidi.go: open /tmp/wt/C02/s2s/bidi.go: no such file or directory *)
(* TRANSLATOR-ERROR: sasl.go: open /tmp/wt/C02/sasl.go: no such file or directory *)
(* TRANSLATOR-ERROR: session.go: open /tmp/wt/C02/session.go: no such file or directory *)
(* TRANSLATOR-ERROR: session.go: state bit Authn not found *)
(* TRANSLATOR-ERROR: session.go: state bit InputStreamClosed not found *)
(* TRANSLATOR-ERROR: session.go: state bit OutputStreamClosed not found *)
(* TRANSLATOR-ERROR: session.go: state bit Ready not found *)
(* TRANSLATOR-ERROR: session.go: state bit Received not found *)
(* TRANSLATOR-ERROR: session.go: state bit S2S not found *)
(* TRANSLATOR-ERROR: session.go: state bit Secure not found *)
(* TRANSLATOR-ERROR: starttls.go: open /tmp/wt/C02/starttls.go: no such file or directory *)
(* TRANSLATOR-ERROR: stream/doc.go: open /tmp/wt/C02/stream/doc.go: no such file or directory *)
