(* NegTables.v — written by /verif/translator from the repository's sources on every run. Do not edit. *)
From XV Require Import lib.Bytes.

(* ---- session.go: SessionState bits ---- *)
Definition st_Secure : N := 1%N.
Definition st_Authn : N := 2%N.
Definition st_Ready : N := 4%N.
Definition st_Received : N := 8%N.
Definition st_OutputStreamClosed : N := 16%N.
Definition st_InputStreamClosed : N := 32%N.
Definition st_S2S : N := 64%N.

(* ---- name spaces ---- *)
Definition ns_StartTLS : bytes := hex "75726e3a696574663a706172616d733a786d6c3a6e733a786d70702d746c73". (* urn:ietf:params:xml:ns:xmpp-tls *)
Definition ns_SASL : bytes := hex "75726e3a696574663a706172616d733a786d6c3a6e733a786d70702d7361736c". (* urn:ietf:params:xml:ns:xmpp-sasl *)
Definition ns_Bind : bytes := hex "75726e3a696574663a706172616d733a786d6c3a6e733a786d70702d62696e64". (* urn:ietf:params:xml:ns:xmpp-bind *)
Definition ns_stream : bytes := hex "687474703a2f2f6574686572782e6a61626265722e6f72672f73747265616d73". (* http://etherx.jabber.org/streams *)
Definition ns_framing : bytes := hex "75726e3a696574663a706172616d733a786d6c3a6e733a786d70702d6672616d696e67". (* urn:ietf:params:xml:ns:xmpp-framing *)
Definition features_local : bytes := hex "6665617475726573". (* features *)

(* ---- built-in stream features: name, Necessary, Prohibited, Negotiate != nil ---- *)
Definition ft_starttls_space : bytes := hex "75726e3a696574663a706172616d733a786d6c3a6e733a786d70702d746c73". (* urn:ietf:params:xml:ns:xmpp-tls *)
Definition ft_starttls_local : bytes := hex "7374617274746c73". (* starttls *)
Definition ft_starttls_nec : N := 0%N.
Definition ft_starttls_proh : N := 1%N.
Definition ft_starttls_negotiable : bool := true.

Definition ft_sasl_space : bytes := hex "75726e3a696574663a706172616d733a786d6c3a6e733a786d70702d7361736c". (* urn:ietf:params:xml:ns:xmpp-sasl *)
Definition ft_sasl_local : bytes := hex "6d656368616e69736d73". (* mechanisms *)
Definition ft_sasl_nec : N := 1%N.
Definition ft_sasl_proh : N := 2%N.
Definition ft_sasl_negotiable : bool := true.

Definition ft_bind_space : bytes := hex "75726e3a696574663a706172616d733a786d6c3a6e733a786d70702d62696e64". (* urn:ietf:params:xml:ns:xmpp-bind *)
Definition ft_bind_local : bytes := hex "62696e64". (* bind *)
Definition ft_bind_nec : N := 2%N.
Definition ft_bind_proh : N := 4%N.
Definition ft_bind_negotiable : bool := true.

Definition ft_bidi_space : bytes := hex "75726e3a786d70703a66656174757265733a62696469". (* urn:xmpp:features:bidi *)
Definition ft_bidi_local : bytes := hex "62696469". (* bidi *)
Definition ft_bidi_nec : N := 1%N.
Definition ft_bidi_proh : N := 2%N.
Definition ft_bidi_negotiable : bool := true.

Definition ns_bidi_select : bytes := hex "75726e3a786d70703a62696469". (* urn:xmpp:bidi *)

(* ---- every assignment to a session's state bits in session.go, features.go, negotiator.go:
        (file, function, operator, right-hand side) ---- *)
Definition state_writes : list (bytes * bytes * bytes * bytes) := [
  (hex "73657373696f6e2e676f", hex "6e65676f746961746553657373696f6e", hex "7c3d", hex "536563757265") (* session.go negotiateSession: s.state |= Secure *);
  (hex "73657373696f6e2e676f", hex "6e65676f746961746553657373696f6e", hex "265e3d", hex "5265616479") (* session.go negotiateSession: s.state &^= Ready *);
  (hex "73657373696f6e2e676f", hex "6e65676f746961746553657373696f6e", hex "7c3d", hex "6d61736b") (* session.go negotiateSession: s.state |= mask *);
  (hex "73657373696f6e2e676f", hex "636c6f736553657373696f6e", hex "7c3d", hex "4f757470757453747265616d436c6f736564") (* session.go closeSession: s.state |= OutputStreamClosed *);
  (hex "73657373696f6e2e676f", hex "636c6f7365496e70757453747265616d", hex "7c3d", hex "496e70757453747265616d436c6f736564") (* session.go closeInputStream: s.state |= InputStreamClosed *);
  (hex "66656174757265732e676f", hex "6e65676f74696174654665617475726573", hex "7c3d", hex "6d61736b20265e205265616479") (* features.go negotiateFeatures: s.state |= mask &^ Ready *)
].
