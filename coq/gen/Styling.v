(* Styling.v — written by /verif/translator from the repository's sources on every run. Do not edit. *)
From XV Require Import lib.Bytes.

(* ---- styling/styling.go ---- *)
Definition sBlockPre : N := 1%N.
Definition sBlockQuote : N := 2%N.
Definition sSpanEmph : N := 4%N.
Definition sSpanStrong : N := 8%N.
Definition sSpanStrike : N := 16%N.
Definition sSpanPre : N := 32%N.
Definition sBlockPreStart : N := 64%N.
Definition sBlockPreEnd : N := 128%N.
Definition sBlockQuoteStart : N := 256%N.
Definition sBlockQuoteEnd : N := 512%N.
Definition sSpanEmphStart : N := 1024%N.
Definition sSpanEmphEnd : N := 2048%N.
Definition sSpanStrongStart : N := 4096%N.
Definition sSpanStrongEnd : N := 8192%N.
Definition sSpanStrikeStart : N := 16384%N.
Definition sSpanStrikeEnd : N := 32768%N.
Definition sSpanPreStart : N := 65536%N.
Definition sSpanPreEnd : N := 131072%N.
Definition style_bit_names : list (string * N) := [("BlockPre"%string, 1%N); ("BlockQuote"%string, 2%N); ("SpanEmph"%string, 4%N); ("SpanStrong"%string, 8%N); ("SpanStrike"%string, 16%N); ("SpanPre"%string, 32%N); ("BlockPreStart"%string, 64%N); ("BlockPreEnd"%string, 128%N); ("BlockQuoteStart"%string, 256%N); ("BlockQuoteEnd"%string, 512%N); ("SpanEmphStart"%string, 1024%N); ("SpanEmphEnd"%string, 2048%N); ("SpanStrongStart"%string, 4096%N); ("SpanStrongEnd"%string, 8192%N); ("SpanStrikeStart"%string, 16384%N); ("SpanStrikeEnd"%string, 32768%N); ("SpanPreStart"%string, 65536%N); ("SpanPreEnd"%string, 131072%N)].

Definition fence : bytes := hex "606060".

(* runes r with unicode.IsSpace(r) || unicode.Is(unicode.Space, r), toolchain tables (Unicode 15.0.0) *)
Definition space_ranges : list (N * N) := [(9, 13); (32, 32); (133, 133); (160, 160); (5760, 5760); (8192, 8202); (8232, 8233); (8239, 8239); (8287, 8287); (12288, 12288)]%N.
