(* StreamHdr.v — written by /verif/translator from the repository's sources on every run. Do not edit. *)
From XV Require Import lib.Bytes.

(* ---- namespaces and constants ---- *)
Definition ns_stream : bytes := hex "687474703a2f2f6574686572782e6a61626265722e6f72672f73747265616d73".
Definition ns_stream_error : bytes := hex "75726e3a696574663a706172616d733a786d6c3a6e733a786d70702d73747265616d73".
Definition ns_client : bytes := hex "6a61626265723a636c69656e74".
Definition ns_server : bytes := hex "6a61626265723a736572766572".
Definition ns_ws : bytes := hex "75726e3a696574663a706172616d733a786d6c3a6e733a786d70702d6672616d696e67".
Definition ns_bind : bytes := hex "75726e3a696574663a706172616d733a786d6c3a6e733a786d70702d62696e64".
Definition ns_xml : bytes := hex "687474703a2f2f7777772e77332e6f72672f584d4c2f313939382f6e616d657370616365".
Definition xml_header : bytes := hex "3c3f786d6c2076657273696f6e3d22312e302220656e636f64696e673d225554462d38223f3e".
Definition iq_get : bytes := hex "676574".
Definition iq_set : bytes := hex "736574".
Definition iq_result : bytes := hex "726573756c74".
Definition iq_error : bytes := hex "6572726f72".
Definition default_version : N * N := (1, 0)%N.

(* ---- internal/stream/stream.go Send ---- *)
Definition send_literals : list bytes := [hex "6f70656e"; hex "73747265616d"; hex "3c6f70656e20786d6c6e733d2275726e3a696574663a706172616d733a786d6c3a6e733a786d70702d6672616d696e67222076657273696f6e3d27257327"; hex "3c73747265616d3a73747265616d20786d6c6e733d2725732720786d6c6e733a73747265616d3d27687474703a2f2f6574686572782e6a61626265722e6f72672f73747265616d73272076657273696f6e3d27257327"; hex "6964"; hex "746f"; hex "66726f6d"; hex "786d6c3a6c616e67"; hex "2f3e"; hex "3e"].
Definition write_attr_literals : list bytes := [hex "2025733d27"].
Definition send_attr_calls : list (bytes * bytes) := [(hex "6964", hex "6964"); (hex "746f", hex "746f"); (hex "66726f6d", hex "66726f6d"); (hex "786d6c3a6c616e67", hex "6c616e67")].
Definition send_recorded_names : list (bytes * bytes) := [(hex "77734e616d657370616365", hex "6f70656e"); (hex "73747265616d2e4e53", hex "73747265616d")].
Definition send_escaped_params : list bytes := [hex "76616c7565"].
