(* SessOut.v — written by /verif/translator from the repository's sources on every run. Do not edit. *)
From XV Require Import lib.Bytes.

From Coq Require Import NArith.

(* ---- session.go: SessionState bits ---- *)
Definition st_secure : N := 1%N.
Definition st_authn : N := 2%N.
Definition st_ready : N := 4%N.
Definition st_received : N := 8%N.
Definition st_output_closed : N := 16%N.
Definition st_input_closed : N := 32%N.
Definition st_s2s : N := 64%N.

(* ---- stanza/stanza.go ---- *)
Definition so_ns_client : bytes := hex "6a61626265723a636c69656e74".
Definition so_ns_server : bytes := hex "6a61626265723a736572766572".

(* ---- session.go: isStanzaEmptySpace ---- *)
Definition so_stanza_locals : list bytes := [hex "6971"; hex "6d657373616765"; hex "70726573656e6365"].
Definition so_stanza_spaces : list bytes := [hex "6a61626265723a636c69656e74"; hex "6a61626265723a736572766572"; hex ""].

(* ---- session.go isIQEmptySpace, session_message.go isMessageEmptySpace, session_presence.go isPresenceEmptySpace:
        (local names, name spaces) each accepts ---- *)
Definition so_kind_tables : list (list bytes * list bytes) := [
  ([hex "6971"], [hex ""; hex "6a61626265723a636c69656e74"; hex "6a61626265723a736572766572"]);
  ([hex "6d657373616765"], [hex ""; hex "6a61626265723a636c69656e74"; hex "6a61626265723a736572766572"]);
  ([hex "70726573656e6365"], [hex ""; hex "6a61626265723a636c69656e74"; hex "6a61626265723a736572766572"])].

(* ---- session.go stanzaEncoder.EncodeToken: its non-empty string literals, in order of first use ---- *)
Definition so_se_literals : list bytes := [hex "6964"; hex "66726f6d"; hex "786d6c6e73"].

(* ---- internal/marshal/encode.go rawTokenReader.Token: the binding stack ---- *)
Definition so_raw_push_after_inc : bool := true.
Definition so_raw_lookup_innermost : bool := true.
Definition so_raw_pop_before_dec : bool := true.
Definition so_raw_pop_cmp : bytes := hex "3e3d".
Definition so_raw_pop_rhs_is_depth : bool := true.

(* ---- session.go negotiateSession: the configuration of the stanza encoder ---- *)
Definition so_se_ns_field : bytes := hex "732e6f75742e496e666f2e584d4c4e53". (* s.out.Info.XMLNS *)
Definition so_se_from_cond : bytes := hex "732e6f75742e496e666f2e584d4c4e53203d3d207374616e7a612e4e53536572766572". (* s.out.Info.XMLNS == stanza.NSServer *)
Definition so_se_from_value : bytes := hex "732e4c6f63616c416464722829". (* s.LocalAddr() *)

(* ---- internal/attr/idgen.go, internal/stream/stream.go ---- *)
Definition so_id_len : nat := 16.
Definition so_ns_xml : bytes := hex "687474703a2f2f7777772e77332e6f72672f584d4c2f313939382f6e616d657370616365".
Definition so_close_tag : bytes := hex "3c2f73747265616d3a73747265616d3e".
