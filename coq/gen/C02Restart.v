(* C02Restart.v — written by /verif/translator from the repository's sources on every run. Do not edit. *)
From XV Require Import lib.Bytes.

(* ---- session.go negotiateSession: the restart block (if rw != nil after the negotiator call) ---- *)
(* maps emptied: (map ranged over, map deleted from) for every `for k := range s.X { delete(s.Y, k) }` *)
Definition restart_clears : list (bytes * bytes) := [(hex "6665617475726573", hex "6665617475726573") (* features, features *); (hex "6e65676f746961746564", hex "6e65676f746961746564") (* negotiated, negotiated *)].
Definition restart_renews_decoder : bool := true. (* s.in.d = xml.NewDecoder(s.conn) *)
Definition restart_renews_encoder : bool := true. (* s.out.e = xml.NewEncoder(s.conn) *)
(* stream infos reset to {To, From} before the negotiator is called again with a new connection *)
Definition restart_resets_info : list bytes := [hex "732e696e2e496e666f" (* s.in.Info *); hex "732e6f75742e496e666f" (* s.out.Info *)].

(* ---- starttls.go StartTLS: state captured by the Negotiate closure ---- *)
Definition starttls_captured : list bytes := [hex "636667" (* cfg *)].
(* captured variables that the closure assigns to (directly or through a selector, index or dereference) *)
Definition starttls_negotiate_writes : list bytes := [].

(* ---- negotiator.go negotiator: state captured by the returned closure ---- *)
Definition negotiator_captured : list bytes := [hex "66" (* f *); hex "636667" (* cfg *)].
(* captured variables that the closure assigns to (directly or through a selector, index or dereference) *)
Definition negotiator_writes : list bytes := [hex "636667" (* cfg *)].
