(* Muc.v — written by /verif/translator from the repository's sources on every run. Do not edit. *)
From XV Require Import lib.Bytes.

(* ---- muc/muc.go, muc/room.go ---- *)
Definition muc_join_capacity : nat := 1.
Definition muc_depart_capacity : nat := 1.
Definition muc_handles_available_presence : bool := true.
Definition muc_handles_unavailable_presence : bool := true.
Definition muc_handles_normal_message : bool := true.
Definition muc_registrations : nat := 3.
Definition muc_patterns : list (bytes * bytes * bytes * bytes) :=
  [(hex "50726573656e6365", hex "417661696c61626c6550726573656e6365", hex "687474703a2f2f6a61626265722e6f72672f70726f746f636f6c2f6d75632375736572", hex "78");
   (hex "50726573656e6365", hex "556e617661696c61626c6550726573656e6365", hex "687474703a2f2f6a61626265722e6f72672f70726f746f636f6c2f6d75632375736572", hex "78");
   (hex "4d657373616765", hex "4e6f726d616c4d657373616765", hex "687474703a2f2f6a61626265722e6f72672f70726f746f636f6c2f6d75632375736572", hex "78")].
Definition muc_ns_user : bytes := hex "687474703a2f2f6a61626265722e6f72672f70726f746f636f6c2f6d75632375736572".
Definition muc_presence_lookup_before_decode : bool := true.
Definition muc_join_registers_unconditionally : bool := true.
Definition muc_joined_returns_flag : bool := true.
