(* Muc.v — written by /verif/translator from the repository's sources on every run. Do not edit. *)
From XV Require Import lib.Bytes.

(* ---- muc/muc.go, muc/room.go ---- *)
Definition muc_join_capacity : nat := 1.
Definition muc_depart_capacity : nat := 1.
Definition muc_handles_available_presence : bool := true.
Definition muc_handles_unavailable_presence : bool := true.
Definition muc_handles_normal_message : bool := true.
Definition muc_registrations : nat := 3.
Definition muc_joined_returns_flag : bool := true.
