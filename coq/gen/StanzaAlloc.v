(* StanzaAlloc.v — written by /verif/translator from the repository's sources on every run. Do not edit. *)
From XV Require Import lib.Bytes.

(* ---- origin of the attribute slices handed to xmlstream.Wrap / returned by StartElement ---- *)
Inductive origin := OFresh (cap : nat) | OShared (gid : nat) (cap : nat) | OUnknown.

Definition iq_start_origin : origin := OFresh 5. (* stanza.IQ.StartElement: Attr of the returned element *)
Definition message_start_origin : origin := OFresh 5. (* stanza.Message.StartElement: Attr of the returned element *)
Definition presence_start_origin : origin := OFresh 5. (* stanza.Presence.StartElement: Attr of the returned element *)
Definition se_error_origin : origin := OFresh 0. (* stanza.Error.Wrap: the <error/> wrapper *)
Definition se_text_origin : origin := OFresh 1. (* stanza.Error.Wrap: a <text/> child *)
Definition se_cond_origin : origin := OFresh 0. (* stanza.Error.Wrap: the condition element (computed name) *)
Definition se_other_origin : origin := OFresh 0. (* stanza.Error.Wrap: other wrapped elements [] *)
Definition ste_error_origin : origin := OFresh 0. (* stream.Error.TokenReader: the <error/> wrapper *)
Definition ste_text_origin : origin := OFresh 0. (* stream.Error.TokenReader: a <text/> child *)
Definition ste_cond_origin : origin := OFresh 0. (* stream.Error.TokenReader: the condition element (computed name) *)
Definition ste_other_origin : origin := OFresh 0. (* stream.Error.TokenReader: other wrapped elements [] *)

(* capacity of each package-level array an OShared origin refers to (gid = position) *)
Definition shared_arrays : list nat := [].

(* package-level variables mentioned by the functions that build token readers / start elements *)
Definition reader_fn_globals : list (bytes * list bytes) := [
  ((hex "7374616e7a612e4572726f722e57726170"), []); (* stanza.Error.Wrap:  *)
  ((hex "7374616e7a612e4572726f722e546f6b656e526561646572"), []); (* stanza.Error.TokenReader:  *)
  ((hex "7374616e7a612e4572726f722e5772697465584d4c"), []); (* stanza.Error.WriteXML:  *)
  ((hex "7374616e7a612e4572726f722e4d61727368616c584d4c"), []); (* stanza.Error.MarshalXML:  *)
  ((hex "7374616e7a612e49512e5374617274456c656d656e74"), []); (* stanza.IQ.StartElement:  *)
  ((hex "7374616e7a612e49512e57726170"), []); (* stanza.IQ.Wrap:  *)
  ((hex "7374616e7a612e49512e4572726f72"), []); (* stanza.IQ.Error:  *)
  ((hex "7374616e7a612e4d6573736167652e5374617274456c656d656e74"), []); (* stanza.Message.StartElement:  *)
  ((hex "7374616e7a612e4d6573736167652e57726170"), []); (* stanza.Message.Wrap:  *)
  ((hex "7374616e7a612e4d6573736167652e4572726f72"), []); (* stanza.Message.Error:  *)
  ((hex "7374616e7a612e50726573656e63652e5374617274456c656d656e74"), []); (* stanza.Presence.StartElement:  *)
  ((hex "7374616e7a612e50726573656e63652e57726170"), []); (* stanza.Presence.Wrap:  *)
  ((hex "7374616e7a612e50726573656e63652e4572726f72"), []); (* stanza.Presence.Error:  *)
  ((hex "7374616e7a612e49512e526573756c74"), []); (* stanza.IQ.Result:  *)
  ((hex "73747265616d2e4572726f722e546f6b656e526561646572"), []); (* stream.Error.TokenReader:  *)
  ((hex "73747265616d2e4572726f722e5772697465584d4c"), []); (* stream.Error.WriteXML:  *)
  ((hex "73747265616d2e4572726f722e4d61727368616c584d4c"), []); (* stream.Error.MarshalXML:  *)
  ((hex "73747265616d2e4572726f722e4170706c69636174696f6e4572726f72"), []) (* stream.Error.ApplicationError:  *)
].
