(* JidEscape.v — written by /verif/translator from the repository's sources on every run. Do not edit. *)
From XV Require Import lib.Bytes.

(* ---- jid/escape.go ---- *)
Definition escape_set : bytes := hex "202226272f3a3c3e405c".
Fixpoint pair_up (s : bytes) : list (byte * byte) :=
  match s with a :: b :: r => (a, b) :: pair_up r | _ => [] end.

Definition unescape_pairs : list (byte * byte) := pair_up (hex "323032323236323732463266334133433345336133633365343035433563").

