(* DiscoCaps.v — written by /verif/translator from the repository's sources on every run. Do not edit. *)
From XV Require Import lib.Bytes.

(* ---- disco/info.go Info.AppendHash ---- *)
Definition caps_sep_literals : list bytes := [hex "3c"].
Definition caps_form_type_var : bytes := hex "464f524d5f54595045".
Definition caps_id_format : bytes := hex "25732f25732f25732f25733c".
Definition caps_id_format_args : list N := [0; 1; 2; 3]%N.
(* identity less function: (field tested with !=, field compared with <) in order; 99 = not of that shape *)
Definition caps_id_sort_keys : list (N * N) := [(0, 0); (1, 1); (2, 2)]%N.
(* make(_, _, x.Len() - k): the k of every such capacity *)
Definition caps_len_cap_deficits : list N := [0]%N.
Definition caps_other_caps_nonneg : bool := true.

(* ---- the tail of Info.AppendHash (the statements after its last loop) in a small
   language of slice operations; variables are numbered in order of appearance,
   slice variable 0 is the destination parameter ---- *)
Inductive t_int :=
| TLit (n : N) | TIntVar (v : N) | TLen (v : N) | TCap (v : N)
| TEncLen (e : t_int) | TAdd (a b : t_int) | TSub (a b : t_int) | TIntUnknown.
Inductive t_slice :=
| TNil | TVar (v : N) | TSum (e : t_slice)
| TMake (len : t_int) (cap : option t_int)
| TReslice (e : t_slice) (lo hi : option t_int)
| TAppend (e f : t_slice) | TSliceUnknown.
Inductive t_cmp := CLt | CLe | CGt | CGe | CEq | CNe.
Inductive t_cond := TCmp (c : t_cmp) (a b : t_int) | TCondUnknown.
Inductive t_stmt :=
| TAssign (v : N) (e : t_slice) | TAssignInt (v : N) (e : t_int)
| TIf (c : t_cond) (th el : list t_stmt)
| TEncode (dst src : t_slice) | TReturn (e : t_slice) | TUnknown.
Definition caps_tail : list t_stmt := [TAssign 0 (TSum (TVar 0)); TAssign 1 (TMake (TEncLen (TLen 0)) None); TEncode (TVar 1) (TVar 0); TReturn (TVar 1)]%N.
(* the destination that Info.Hash passes to AppendHash *)
Definition caps_hash_dst : t_slice := TNil%N.
