(* DiscoCaps.v — written by /verif/translator from the repository's sources on every run. Do not edit. *)
From XV Require Import lib.Bytes.

(* ---- disco/info.go Info.AppendHash ---- *)
Definition caps_sep_literals : list bytes := [hex "3c"].
Definition caps_form_type_var : bytes := hex "464f524d5f54595045".
Definition caps_id_format : bytes := hex "25732f25732f25732f25733c".
Definition caps_id_format_args : list N := [0; 1; 2; 3]%N.
(* identity less function: (field tested with !=, field compared with <) in order; 99 = not of that shape *)
Definition caps_id_sort_keys : list (N * N) := [(0, 0); (1, 1); (2, 2)]%N.
(* make(_, _, x.Len() - k): the k of every such capacity *)
Definition caps_len_cap_deficits : list N := [0]%N.
Definition caps_other_caps_nonneg : bool := true.
