(* Ibb.v — written by /verif/translator from the repository's sources on every run. Do not edit. *)
From XV Require Import lib.Bytes.

(* ---- ibb/ibb.go ---- *)
Definition ibb_ns : bytes := hex "687474703a2f2f6a61626265722e6f72672f70726f746f636f6c2f696262".
Definition ibb_block_size : N := 2048%N.
Definition ibb_max_buffer : N := 262144%N.

(* handlePayload: the wake-up of a pending Read is an unconditional top-level statement
   after the append to the read buffer; returns between the two, by kind *)
Definition ibb_payload_notify_unconditional : bool := true.
Definition ibb_payload_success_returns_before_notify : nat := 0.
Definition ibb_payload_error_returns_before_notify : nat := 2.

(* Handler.rmStream deletes the entry only under `if h.streams[sid] == conn` *)
Definition ibb_rmstream_guarded : bool := true.

(* Close / closeNoNotify call closeRead only after `if c.markClosed() { return }` *)
Definition ibb_close_closeread_after_markclosed : bool := true.
Definition ibb_closenonotify_closeread_after_markclosed : bool := true.
Definition ibb_closeread_call_sites : nat := 2.
