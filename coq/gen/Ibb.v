(* Ibb.v — written by /verif/translator from the repository's sources on every run. Do not edit. *)
From XV Require Import lib.Bytes.

(* ---- ibb/ibb.go ---- *)
Definition ibb_ns : bytes := hex "687474703a2f2f6a61626265722e6f72672f70726f746f636f6c2f696262".
Definition ibb_block_size : N := 2048%N.
Definition ibb_max_buffer : N := 262144%N.
