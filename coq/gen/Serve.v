(* Serve.v — written by /verif/translator from the repository's sources on every run. Do not edit. *)
From XV Require Import lib.Bytes.

(* ---- stream/doc.go, stanza/stanza.go, stanza/iq.go, stanza/error.go, stream/error.go,
        internal/stream/stream.go, session.go ---- *)
Definition sv_ns_stream : bytes := hex "687474703a2f2f6574686572782e6a61626265722e6f72672f73747265616d73". (* "http://etherx.jabber.org/streams" *)
Definition sv_ns_stream_error : bytes := hex "75726e3a696574663a706172616d733a786d6c3a6e733a786d70702d73747265616d73". (* "urn:ietf:params:xml:ns:xmpp-streams" *)
Definition sv_ns_framing : bytes := hex "75726e3a696574663a706172616d733a786d6c3a6e733a786d70702d6672616d696e67". (* "urn:ietf:params:xml:ns:xmpp-framing" *)
Definition sv_ns_client : bytes := hex "6a61626265723a636c69656e74". (* "jabber:client" *)
Definition sv_ns_server : bytes := hex "6a61626265723a736572766572". (* "jabber:server" *)
Definition sv_ns_stanza_error : bytes := hex "75726e3a696574663a706172616d733a786d6c3a6e733a786d70702d7374616e7a6173". (* "urn:ietf:params:xml:ns:xmpp-stanzas" *)
Definition sv_iq_get : bytes := hex "676574". (* "get" *)
Definition sv_iq_set : bytes := hex "736574". (* "set" *)
Definition sv_iq_result : bytes := hex "726573756c74". (* "result" *)
Definition sv_iq_error : bytes := hex "6572726f72". (* "error" *)
Definition sv_err_cancel : bytes := hex "63616e63656c". (* "cancel" *)
Definition sv_cond_service_unavailable : bytes := hex "736572766963652d756e617661696c61626c65". (* "service-unavailable" *)
Definition sv_cond_bad_format : bytes := hex "6261642d666f726d6174". (* "bad-format" *)
Definition sv_cond_undefined : bytes := hex "756e646566696e65642d636f6e646974696f6e". (* "undefined-condition" *)
Definition sv_is_iq_locals : list bytes := [hex "6971"].
Definition sv_is_iq_spaces : list bytes := [hex "6a61626265723a636c69656e74"; hex "6a61626265723a736572766572"].
Definition sv_is_iq_empty_locals : list bytes := [hex "6971"].
Definition sv_is_iq_empty_spaces : list bytes := [hex ""; hex "6a61626265723a636c69656e74"; hex "6a61626265723a736572766572"].
(* handleInputStream: `if <cond> { ... s.sentStanzas[id] ... }` — when the table of outstanding requests is consulted *)
Definition sv_lookup_types : list bytes := [hex "726573756c74"; hex "6572726f72"].
Definition sv_lookup_any_iq : bool := false.
Definition sv_lookup_unrecognised : nat := 0.
Definition sv_lookup_sites : nat := 1. (* if statements holding a sentStanzas lookup *)
Definition sv_lookup_uses : nat := 1. (* mentions of sentStanzas in handleInputStream *)
(* handleInputStream: iqNeedsResp := <cond> *)
Definition sv_needs_resp_types : list bytes := [hex "676574"; hex "736574"].
Definition sv_needs_resp_any_iq : bool := false.
Definition sv_needs_resp_unrecognised : nat := 0.
(* Session.Serve: `switch err { case nil: ...; case io.EOF: return nil; default: return s.sendError(err) }` *)
Definition sv_serve_eof_identity : bool := true. (* the peer's close is recognised by err == io.EOF *)
Definition sv_serve_switches : nat := 1.
Definition sv_serve_clauses : nat := 3.
(* session.go responseChecker: the methods a handler can write through, besides EncodeToken *)
Definition sv_rc_write_methods : list bytes := [hex "456e636f6465"; hex "456e636f6465456c656d656e74"]. (* [Encode EncodeElement] *)
Definition sv_rc_funnelled : nat := 2. (* of these, how many hand the checker itself to the encoder *)
Definition sv_rc_direct_uses : nat := 0. (* mentions of the embedded writer outside EncodeToken *)
Definition sv_rc_delegations : nat := 1. (* mentions of the embedded writer in EncodeToken *)
(* internal/stream/reader.go reader.Token: framing-namespace elements on an established WebSocket stream *)
Definition sv_ws_eof_locals : list bytes := [hex "636c6f7365"]. (* local names that end the input *)
Definition sv_ws_eof_top_only : bool := true. (* ... only as top-level elements *)
Definition sv_ws_eof_unrecognised : nat := 0.
