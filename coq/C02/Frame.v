(* C02/Frame.v — configuration-independent facts about the model: every model
   function only ever changes the machine state through a handful of primitive
   steps ([prim]); invariants of the primitive steps are invariants of a whole
   run ([session_loop_inv]).  Instances: accounting of delivered input
   (clear-text script vs TLS-layer script), constancy of the variable captured
   by the StartTLS feature value and the server names derived from it, the
   fuel bound, and invariance under the stream tee. *)
From Coq Require Import ZifyBool ZifyNat ZifyN.
From XV Require Import lib.Bytes gen.NegTables C02.Model.

Arguments N.lor : simpl never.
Arguments N.land : simpl never.

(* ------------------------------------------------------------------ primitive steps *)

Definition quiet (e : event) : bool :=
  match e with EIn _ _ _ | ESwitch _ => false | _ => true end.

Inductive prim (c : config) : mstate -> mstate -> Prop :=
| p_emit e m : quiet e = true -> prim c m (emit e m)
| p_bits b m : prim c m (set_bits b m)
| p_negd l m : prim c m (set_negd l m)
| p_list ca t al r m : prim c m (set_list ca t al r m)
| p_outs o m : prim c m (set_outs o m)
| p_choices ch m : prim c m (set_choices ch m)
| p_hs m : prim c m (set_hs false m)
| p_read rp it rest m : m_in m = it :: rest -> prim c m (emit (EIn rp (m_bits m) it) (set_in rest m))
| p_switch m : prim c m (emit (ESwitch (tls_name c m)) (switch_layer m))
| p_adv a m : prim c m (set_adv a m)
| p_info n m : prim c m (set_info n m)
| p_ready b m : prim c m (set_ready b m).

Inductive evolves (c : config) : mstate -> mstate -> Prop :=
| ev_refl m : evolves c m m
| ev_step m1 m2 m3 : evolves c m1 m2 -> prim c m2 m3 -> evolves c m1 m3.

Lemma ev_trans c m1 m2 m3 : evolves c m1 m2 -> evolves c m2 m3 -> evolves c m1 m3.
Proof.
  intros H12 H23. revert H12. induction H23 as [m|ma mb mc Hab IH Hp]; intro H12; [assumption|].
  eapply ev_step; [apply IH; assumption|exact Hp].
Qed.

Lemma ev1 c m1 m2 : prim c m1 m2 -> evolves c m1 m2.
Proof. intro H. eapply ev_step; [apply ev_refl|exact H]. Qed.

Lemma ev_then c m1 m2 m3 : prim c m1 m2 -> evolves c m2 m3 -> evolves c m1 m3.
Proof. intros H1 H2. eapply ev_trans; [apply ev1; exact H1|exact H2]. Qed.

#[export] Hint Constructors prim : c02.
#[export] Hint Resolve ev_refl ev1 : c02.

(* ------------------------------------------------------------------ every function evolves *)

Lemma read_ev c rp m m' r : read rp m = (m', r) -> evolves c m m'.
Proof.
  unfold read. destruct (m_in m) eqn:E; intro H; inversion H; subst.
  - apply ev1, p_emit. reflexivity.
  - apply ev1. eapply p_read. exact E.
Qed.

Lemma expect_header_ev c m m' r : expect_header c m = (m', r) -> evolves c m m'.
Proof.
  unfold expect_header. destruct (read RPHeader m) as [m1 x] eqn:E.
  pose proof (read_ev c _ _ _ _ E) as H1.
  destruct (header_of x) as [h|]; [|intro H; inversion H; subst; exact H1].
  destruct (header_ok c (assign h (m_info m1))); intro H; inversion H; subst;
    (eapply ev_step; [exact H1|apply p_info]).
Qed.

Lemma send_header_ev c m m' r : send_header c m = (m', r) -> evolves c m m'.
Proof.
  unfold send_header. destruct (m_tls m && m_hs m); [destruct (c_hs_ok c)|]; intro H; inversion H; subst.
  - eapply ev_step; [eapply ev_step; [apply ev1, p_hs|]|]; apply p_emit; reflexivity.
  - eapply ev_step; [apply ev1, p_hs|]. apply p_emit; reflexivity.
  - apply ev1, p_emit. reflexivity.
Qed.

Lemma read_children_ev c fs st cs : forall m ca tot lr m' r,
  read_children fs st cs m ca tot lr = (m', r) -> evolves c m m'.
Proof.
  induction cs as [|ch cs IH]; intros m ca tot lr m' r H; cbn in H.
  - inversion H; subst. apply ev_refl.
  - destruct ch as [sp lo req perr|].
    + apply ev_then with (m2 := add_adv sp m); [apply p_adv|].
      destruct (get_feature (sp, lo) fs) as [f|].
      * destruct perr.
        -- inversion H; subst. apply ev1, p_emit. reflexivity.
        -- eapply ev_then; [|eapply IH; exact H]. apply p_emit. reflexivity.
      * eapply IH; exact H.
    + inversion H; subst. apply ev_refl.
Qed.

Lemma starttls_negotiate_ev c m m' o : starttls_negotiate c m = (m', o) -> evolves c m m'.
Proof.
  unfold starttls_negotiate.
  destruct (read RPReply (emit (EOut (WElem ns_StartTLS str_starttls)) m)) as [m2 r] eqn:E.
  intro H. apply ev_trans with (m2 := emit (EOut (WElem ns_StartTLS str_starttls)) m);
    [apply ev1, p_emit; reflexivity|].
  eapply ev_trans; [eapply read_ev; exact E|].
  destruct (is_proceed r); inversion H; subst.
  - apply ev1, p_switch.
  - apply ev_refl.
Qed.

Lemma negotiate_one_ev c m f m' o : negotiate_one c m f = (m', o) -> evolves c m m'.
Proof.
  unfold negotiate_one. destruct (f_kind f).
  - intro H; inversion H; subst. eapply ev_step; [apply ev1, p_outs|]. apply p_emit. reflexivity.
  - destruct (starttls_negotiate c m) as [m1 o1] eqn:E. intro H; inversion H; subst.
    eapply ev_step; [eapply starttls_negotiate_ev; exact E|]. apply p_emit. reflexivity.
Qed.

Lemma after_pick_ev c m req f m' r : after_pick c m req f = (m', r) -> evolves c m m'.
Proof.
  unfold after_pick. destruct (negotiate_one c m f) as [m1 o] eqn:E.
  intro H. eapply ev_trans; [eapply negotiate_one_ev; exact E|].
  destruct (o_err o).
  - inversion H; subst. apply ev1, p_negd.
  - destruct (o_restart o || req); inversion H; subst;
      (eapply ev_step; [eapply ev_step; [apply ev1, p_bits|apply p_ready]|apply p_negd]).
Qed.

Lemma select_ev c m m' r : select m = (m', r) -> evolves c m m'.
Proof.
  unfold select. destruct (candidates m) as [|e0 cands].
  - intro H; inversion H; subst. apply ev_refl.
  - destruct (m_choices m) as [|ch rest].
    + intro H; inversion H; subst. apply ev_refl.
    + destruct (cache_get ch (e0 :: cands)) as [e|].
      * destruct (fst e && existsb (fun x => negb (fst x)) (e0 :: cands));
          intro H; inversion H; subst; apply ev1, p_choices.
      * intro H; inversion H; subst. apply ev1, p_choices.
Qed.

Lemma init_loop_ev c : forall fuel m forced m' r,
  init_loop fuel c m forced = (m', r) -> evolves c m m'.
Proof.
  induction fuel as [|k IH]; intros m forced m' r H; cbn in H.
  - inversion H; subst. apply ev_refl.
  - destruct forced as [f|].
    + destruct (m_choices m) as [|ch rest].
      * inversion H; subst. apply ev_refl.
      * destruct (negb (bytes_eqb ch (f_space f))).
        -- inversion H; subst. apply ev1, p_choices.
        -- destruct (after_pick c (set_choices rest m) true f) as [m1 r1] eqn:E.
           assert (evolves c m m1) as Hev
             by (eapply ev_then; [apply p_choices|eapply after_pick_ev; exact E]).
           destruct r1 as [[x|]|e|]; inversion H; subst; exact Hev.
    + destruct (select m) as [m1 r1] eqn:E.
      pose proof (select_ev c _ _ _ E) as Hs.
      destruct r1 as [[[req f]|]|e|]; try solve [inversion H; subst; exact Hs].
      destruct (after_pick c m1 req f) as [m2 r2] eqn:E2.
      pose proof (after_pick_ev c _ _ _ _ _ E2) as Hp.
      destruct r2 as [[x|]|e|]; try solve [inversion H; subst; eapply ev_trans; eauto].
      eapply ev_trans; [exact Hs|]. eapply ev_trans; [exact Hp|]. eapply IH; exact H.
Qed.

Lemma normal_path_ev c m m' r : normal_path c m = (m', r) -> evolves c m m'.
Proof.
  unfold normal_path. destruct (m_total m).
  - intro H; inversion H; subst. apply ev_refl.
  - destruct (m_allowed m) eqn:E.
    + intro H; inversion H; subst. apply ev_refl.
    + apply init_loop_ev.
Qed.

Lemma after_read_ev c m first m' r : after_read c m first = (m', r) -> evolves c m m'.
Proof.
  unfold after_read.
  destruct (if first && negb match cache_get ns_StartTLS (m_cache m) with Some _ => true | None => false end
               && negb (has (m_bits m) st_Secure)
            then find_space ns_StartTLS (c_feats c) else None) as [f|].
  - destruct (f_neg f && eligible f (m_bits m)); [apply init_loop_ev|apply normal_path_ev].
  - apply normal_path_ev.
Qed.

Lemma negotiate_features_ev c m first m' r : negotiate_features c m first = (m', r) -> evolves c m m'.
Proof.
  unfold negotiate_features. destruct (read RPFeatures m) as [m1 x] eqn:E.
  pose proof (read_ev c _ _ _ _ E) as H1.
  destruct (features_of x) as [cs|].
  - destruct (read_children (c_feats c) (m_bits m1) cs m1 [] 0 false) as [m2 r2] eqn:E2.
    pose proof (read_children_ev c _ _ _ _ _ _ _ _ _ E2) as H2.
    destruct r2 as [[[ca tot] lr]|e|]; intro H.
    + eapply ev_trans; [exact H1|]. eapply ev_trans; [exact H2|].
      eapply ev_then; [apply p_list|]. eapply after_read_ev; exact H.
    + inversion H; subst. eapply ev_trans; eauto.
    + inversion H; subst. eapply ev_trans; eauto.
  - intro H; inversion H; subst. exact H1.
Qed.

(* the header exchange at the start of negotiator_body *)
Definition headers (c : config) (m : mstate) (ns : nstate) : mstate * res unit :=
  if ns_restart ns then
    match send_header c m with
    | (ma, Good _) => expect_header c ma
    | other => other
    end
  else (m, Good tt).

Lemma headers_ev c m ns m' r : headers c m ns = (m', r) -> evolves c m m'.
Proof.
  unfold headers. destruct (ns_restart ns).
  - destruct (send_header c m) as [ma ra] eqn:E. pose proof (send_header_ev _ _ _ _ E) as H1.
    destruct ra as [u|e|]; intro H.
    + eapply ev_trans; [exact H1|]. eapply expect_header_ev; exact H.
    + inversion H; subst. exact H1.
    + inversion H; subst. exact H1.
  - intro H; inversion H; subst. apply ev_refl.
Qed.

Lemma negotiator_body_unfold c m ns :
  negotiator_body c m ns =
  let '(m1, r1) := headers c m ns in
  match r1 with
  | Good _ =>
      match negotiate_features c m1 (ns_first ns) with
      | (m2, Good (mask, restart)) => (m2, Good (mask, restart, mkNS restart false))
      | (m2, Bad e) => (m2, Bad e)
      | (m2, Stuck) => (m2, Stuck)
      end
  | Bad e => (m1, Bad e)
  | Stuck => (m1, Stuck)
  end.
Proof. reflexivity. Qed.

Lemma negotiator_body_ev c m ns m' r : negotiator_body c m ns = (m', r) -> evolves c m m'.
Proof.
  rewrite negotiator_body_unfold. destruct (headers c m ns) as [m1 r1] eqn:E.
  pose proof (headers_ev _ _ _ _ _ E) as H1.
  destruct r1 as [u|e|].
  - destruct (negotiate_features c m1 (ns_first ns)) as [m2 r2] eqn:E2.
    pose proof (negotiate_features_ev _ _ _ _ _ E2) as H2.
    destruct r2 as [[mask restart]|e|]; intro H; inversion H; subst; eapply ev_trans; eauto.
  - intro H; inversion H; subst. exact H1.
  - intro H; inversion H; subst. exact H1.
Qed.

(* what negotiateSession itself does between two calls of the negotiator *)
Lemma renew_info_ev c m : evolves c m (renew_info m).
Proof. unfold renew_info. destruct (has (m_bits m) st_Ready); [apply ev_refl|apply ev1, p_info]. Qed.

Lemma reset_stream_ev c m : evolves c m (reset_stream m).
Proof. unfold reset_stream. eapply ev_step; [apply ev1, p_negd|apply p_adv]. Qed.

Lemma tee_state_ev c m : evolves c m (tee_state m).
Proof. unfold tee_state. eapply ev_trans; [apply reset_stream_ev|apply renew_info_ev]. Qed.

Lemma next_state_ev c restart mask m : evolves c m (next_state restart mask m).
Proof.
  unfold next_state. destruct restart.
  - eapply ev_trans; [apply reset_stream_ev|]. eapply ev_trans; [apply ev1, p_bits|apply renew_info_ev].
  - apply ev1, p_bits.
Qed.

Lemma fail_state_ev c m : evolves c m (fail_state m).
Proof. apply ev1, p_bits. Qed.

(* ------------------------------------------------------------------ invariants of a run *)

Lemma evolves_inv c (I : mstate -> Prop) :
  (forall m m', prim c m m' -> I m -> I m') ->
  forall m m', evolves c m m' -> I m -> I m'.
Proof. intros Hp m m' H. induction H; eauto. Qed.

Lemma session_loop_inv c (I : mstate -> Prop) :
  (forall m m', prim c m m' -> I m -> I m') ->
  forall fuel tee m data istee, I m -> I (r_state (session_loop fuel tee c m data istee)).
Proof.
  intros Hp. induction fuel as [|k IH]; intros tee m data istee Hm; cbn.
  - exact Hm.
  - destruct (has (m_bits m) st_Ready); [exact Hm|].
    destruct (tee && negb istee).
    + apply IH. exact (evolves_inv c I Hp _ _ (tee_state_ev c m) Hm).
    + destruct (negotiator_body c m (ns_of data)) as [m1 r] eqn:E.
      pose proof (evolves_inv c I Hp _ _ (negotiator_body_ev _ _ _ _ _ E) Hm) as H1.
      destruct r as [[[mask restart] ns1]|e|]; cbn [r_state]; try exact H1.
      * apply IH. exact (evolves_inv c I Hp _ _ (next_state_ev c restart mask m1) H1).
      * exact (evolves_inv c I Hp _ _ (fail_state_ev c m1) H1).
Qed.

(* ------------------------------------------------------------------ list lemmas on traces *)

Lemma switched_app a b : switched (a ++ b) = switched a || switched b.
Proof. unfold switched. apply existsb_app. Qed.

Lemma before_switch_app a b :
  before_switch (a ++ b) = if switched a then before_switch a else a ++ before_switch b.
Proof.
  unfold switched. induction a as [|e a IH]; cbn; [reflexivity|].
  destruct (is_switch e); cbn; [reflexivity|]. rewrite IH. destruct (existsb is_switch a); reflexivity.
Qed.

Lemma after_switch_app a b :
  after_switch (a ++ b) = if switched a then after_switch a ++ b else after_switch b.
Proof.
  unfold switched. induction a as [|e a IH]; cbn; [reflexivity|].
  destruct (is_switch e); cbn; [reflexivity|]. exact IH.
Qed.

Lemma before_switch_id a : switched a = false -> before_switch a = a.
Proof.
  induction a as [|e a IH]; cbn; [reflexivity|].
  destruct (is_switch e); cbn; [discriminate|]. intro H. rewrite IH; auto.
Qed.

Lemma after_switch_none a : switched a = false -> after_switch a = [].
Proof.
  induction a as [|e a IH]; cbn; [reflexivity|].
  destruct (is_switch e); cbn; [discriminate|]. exact IH.
Qed.

Lemma ins_of_app a b : ins_of (a ++ b) = ins_of a ++ ins_of b.
Proof. unfold ins_of. apply flat_map_app. Qed.

Lemma outs_of_app a b : outs_of (a ++ b) = outs_of a ++ outs_of b.
Proof. unfold outs_of. apply flat_map_app. Qed.

Lemma server_names_app a b : server_names (a ++ b) = server_names a ++ server_names b.
Proof. unfold server_names. apply flat_map_app. Qed.

Lemma handshakes_app a b : handshakes (a ++ b) = handshakes a ++ handshakes b.
Proof. unfold handshakes. apply flat_map_app. Qed.

Lemma quiet_facts e : quiet e = true ->
  is_switch e = false /\ ins_of [e] = [] /\ server_names [e] = [].
Proof. destruct e; cbn; intro H; try discriminate; auto. Qed.

(* ------------------------------------------------------------------ accounting of delivered input *)

(* Before a TLS layer exists everything delivered so far plus what is pending
   is the clear-text script and the TLS-layer script is untouched; afterwards
   what was delivered since the switch plus what is pending is the TLS-layer
   script: pending clear text is gone. *)
Definition acct (clear tls : list pitem) (m : mstate) : Prop :=
  let tr := m_tr m in
  if switched tr
  then (exists rest, ins_of (before_switch tr) ++ rest = clear) /\
       m_tlsin m = [] /\
       exists rest, ins_of (after_switch tr) ++ rest = tls /\ (m_in m = rest \/ m_in m = [])
  else ins_of tr ++ m_in m = clear /\ m_tlsin m = tls.

Lemma acct_prim c clear tls m m' : prim c m m' -> acct clear tls m -> acct clear tls m'.
Proof.
  intros Hp. destruct Hp as [e m Hq| | | | | | |rp it rest m Hin|m| | |]; try (intro H; exact H).
  - (* quiet event *)
    destruct (quiet_facts e Hq) as (Hs & Hi & _).
    unfold acct; cbn [m_tr emit m_in m_tlsin].
    rewrite switched_app, before_switch_app, after_switch_app. cbn [switched existsb]. rewrite Hs.
    destruct (switched (m_tr m)) eqn:Esw; cbn [orb].
    + rewrite ins_of_app, Hi, app_nil_r. auto.
    + rewrite ins_of_app, Hi, app_nil_r. auto.
  - (* an item is delivered *)
    unfold acct; cbn [m_tr emit set_in m_in m_tlsin].
    rewrite switched_app, before_switch_app, after_switch_app. cbn [switched existsb is_switch orb].
    destruct (switched (m_tr m)) eqn:Esw; cbn [orb].
    + intros (Hb & Ht & rest0 & Hr & Hor). split; [exact Hb|]. split; [exact Ht|].
      destruct Hor as [Hor|Hor]; [|rewrite Hin in Hor; discriminate].
      rewrite Hin in Hor. subst rest0. exists rest. split; [|left; reflexivity].
      rewrite ins_of_app. cbn. rewrite <- app_assoc. exact Hr.
    + try rewrite Bool.orb_false_r. intros (Hc & Ht). split; [|exact Ht].
      rewrite ins_of_app. cbn. rewrite <- app_assoc. cbn. rewrite <- Hin. exact Hc.
  - (* the layer is switched *)
    unfold acct; cbn [m_tr emit switch_layer m_in m_tlsin].
    rewrite switched_app, before_switch_app, after_switch_app. cbn [switched existsb is_switch orb].
    destruct (switched (m_tr m)) eqn:Esw; cbn [orb].
    + intros (Hb & Ht & rest0 & Hr & Hor). split; [exact Hb|]. split; [reflexivity|].
      exists rest0. split; [|right; exact Ht].
      rewrite ins_of_app. cbn. rewrite app_nil_r. exact Hr.
    + try rewrite Bool.orb_true_r. intros (Hc & Ht). cbn [before_switch after_switch is_switch].
      rewrite app_nil_r. split; [exists (m_in m); exact Hc|]. split; [reflexivity|].
      exists tls. split; [reflexivity|left; exact Ht].
Qed.

Lemma acct_final clear tls m : acct clear tls m ->
  (exists rest, ins_of (before_switch (m_tr m)) ++ rest = clear) /\
  (exists rest, ins_of (after_switch (m_tr m)) ++ rest = tls).
Proof.
  unfold acct. destruct (switched (m_tr m)) eqn:E.
  - intros (Hb & _ & rest & Hr & _). split; [exact Hb|exists rest; exact Hr].
  - intros (Hc & _). rewrite before_switch_id, after_switch_none by exact E.
    split; [exists (m_in m); exact Hc|exists tls; reflexivity].
Qed.

Lemma run_acct tee c fv bits clear tls outs choices :
  acct clear tls (r_state (run tee c fv bits clear tls outs choices)).
Proof.
  unfold run. apply session_loop_inv with (I := acct clear tls).
  - apply acct_prim.
  - unfold acct, init_state; cbn. auto.
Qed.

(* ------------------------------------------------------------------ the captured variable and the server names *)

Definition name_for (c : config) (fv : option bytes) : bytes :=
  match fv with Some n => n | None => c_domain c end.

Definition fvinv (c : config) (fv : option bytes) (m : mstate) : Prop :=
  m_fv m = fv /\ Forall (fun n => n = name_for c fv) (server_names (m_tr m)).

Lemma fvinv_prim c fv m m' : prim c m m' -> fvinv c fv m -> fvinv c fv m'.
Proof.
  intros Hp. destruct Hp as [e m Hq| | | | | | |rp it rest m Hin|m| | |]; try (intro H; exact H).
  - destruct (quiet_facts e Hq) as (_ & _ & Hn).
    unfold fvinv; cbn [m_tr emit m_fv]. rewrite server_names_app, Hn, app_nil_r. auto.
  - unfold fvinv; cbn [m_tr emit set_in m_fv]. rewrite server_names_app. cbn. rewrite app_nil_r. auto.
  - unfold fvinv; cbn [m_tr emit switch_layer m_fv]. rewrite server_names_app. cbn.
    intros (Hf & Hn). split; [exact Hf|]. apply Forall_app. split; [exact Hn|].
    constructor; [|constructor]. unfold tls_name, name_for. rewrite Hf. reflexivity.
Qed.

Lemma run_fvinv tee c fv bits clear tls outs choices :
  fvinv c fv (r_state (run tee c fv bits clear tls outs choices)).
Proof.
  unfold run. apply session_loop_inv with (I := fvinv c fv).
  - apply fvinv_prim.
  - unfold fvinv, init_state; cbn. auto.
Qed.

Lemma run_sessions_names : forall ss fv,
  Forall2 (fun s r => Forall (fun n => n = name_for (s_cfg s) fv) (server_names (trace r)))
          ss (run_sessions fv ss).
Proof.
  induction ss as [|s ss IH]; intro fv; cbn [run_sessions]; constructor.
  - apply (run_fvinv (s_tee s) (s_cfg s) fv).
  - destruct (run_fvinv (s_tee s) (s_cfg s) fv (s_bits s) (s_in s) (s_tls s) (s_outs s) (s_choices s)) as (Hf & _).
    unfold run_sess. rewrite Hf. apply IH.
Qed.

(* ------------------------------------------------------------------ fuel *)

Definition remaining (m : mstate) : nat := length (m_in m) + length (m_tlsin m).

Lemma remaining_prim c m m' : prim c m m' -> remaining m' <= remaining m.
Proof.
  intros Hp. destruct Hp as [e m Hq| | | | | | |rp it rest m Hin|m| | |]; unfold remaining; cbn; try lia.
  rewrite Hin. cbn. lia.
Qed.

Lemma remaining_ev c m m' : evolves c m m' -> remaining m' <= remaining m.
Proof.
  intro H. induction H; [lia|]. pose proof (remaining_prim _ _ _ H0). lia.
Qed.

Lemma negotiate_features_consumes c m first m' x :
  negotiate_features c m first = (m', Good x) -> remaining m' < remaining m.
Proof.
  unfold negotiate_features, read. destruct (m_in m) as [|it rest] eqn:Ein.
  - cbn. discriminate.
  - set (m1 := emit (EIn RPFeatures (m_bits m) it) (set_in rest m)).
    assert (remaining m1 < remaining m) as Hlt by (unfold remaining, m1; cbn; rewrite Ein; cbn; lia).
    destruct (features_of (Some it)) as [cs|]; [|discriminate].
    destruct (read_children (c_feats c) (m_bits m1) cs m1 [] 0 false) as [m2 r2] eqn:E2.
    pose proof (remaining_ev _ _ _ (read_children_ev c _ _ _ _ _ _ _ _ _ E2)) as H2.
    destruct r2 as [[[ca tot] lr]|e|]; [|discriminate|discriminate].
    intro H. pose proof (remaining_ev _ _ _ (after_read_ev _ _ _ _ _ H)) as H3.
    unfold remaining in *; cbn in H3. lia.
Qed.

Lemma negotiator_body_consumes c m ns m' x :
  negotiator_body c m ns = (m', Good x) -> remaining m' < remaining m.
Proof.
  rewrite negotiator_body_unfold. destruct (headers c m ns) as [m1 r1] eqn:E.
  pose proof (remaining_ev _ _ _ (headers_ev _ _ _ _ _ E)) as H1.
  destruct r1 as [u|e|]; [|discriminate|discriminate].
  destruct (negotiate_features c m1 (ns_first ns)) as [m2 r2] eqn:E2.
  destruct r2 as [[mask restart]|e|]; [|discriminate|discriminate].
  pose proof (negotiate_features_consumes _ _ _ _ _ E2) as Hc. intro H; inversion H; subst. lia.
Qed.

Definition measure (tee : bool) (m : mstate) (istee : bool) : nat :=
  2 * remaining m + (if tee && negb istee then 1 else 0).

Lemma session_loop_enough c : forall fuel tee m data istee,
  measure tee m istee < fuel -> r_class (session_loop fuel tee c m data istee) <> RFuel.
Proof.
  induction fuel as [|k IH]; intros tee m data istee Hlt; [lia|]. cbn.
  destruct (has (m_bits m) st_Ready); [cbn; discriminate|].
  destruct (tee && negb istee) eqn:Et.
  - apply IH. unfold measure in *. rewrite Et in Hlt. cbn [negb]. rewrite Bool.andb_false_r.
    pose proof (remaining_ev c _ _ (tee_state_ev c m)). lia.
  - destruct (negotiator_body c m (ns_of data)) as [m1 r] eqn:E.
    destruct r as [[[mask restart] ns1]|e|]; cbn; try discriminate.
    apply IH. pose proof (negotiator_body_consumes _ _ _ _ _ E) as Hc.
    unfold measure in *. rewrite Et in Hlt.
    pose proof (remaining_ev c _ _ (next_state_ev c restart mask m1)) as Hr.
    destruct (tee && negb (if restart then false else istee)); lia.
Qed.

Lemma run_not_fuel tee c fv bits clear tls outs choices :
  r_class (run tee c fv bits clear tls outs choices) <> RFuel.
Proof.
  unfold run. apply session_loop_enough. unfold measure, remaining, fuel_for, init_state; cbn.
  destruct tee; cbn; lia.
Qed.

Lemma session_loop_mono c : forall k tee m data istee j,
  r_class (session_loop k tee c m data istee) <> RFuel ->
  session_loop (k + j) tee c m data istee = session_loop k tee c m data istee.
Proof.
  induction k as [|k IH]; intros tee m data istee j H; [cbn in H; congruence|].
  cbn [Nat.add]. cbn in *.
  destruct (has (m_bits m) st_Ready); [reflexivity|].
  destruct (tee && negb istee).
  - apply IH. exact H.
  - destruct (negotiator_body c m (ns_of data)) as [m1 r].
    destruct r as [[[mask restart] ns1]|e|]; try reflexivity.
    apply IH. exact H.
Qed.

(* ------------------------------------------------------------------ the tee changes nothing *)

(* nothing of an earlier stream is left: true at the start and right after a restart *)
Definition fresh (m : mstate) : Prop :=
  m_negd m = [] /\ m_adv m = [] /\ (has (m_bits m) st_Ready = false -> keep_addr (m_info m) = m_info m).

Lemma tee_state_same m : fresh m -> has (m_bits m) st_Ready = false -> tee_state m = m.
Proof.
  intros (H1 & H2 & H3) Hr. unfold tee_state, renew_info, reset_stream. cbn [m_bits set_adv set_negd].
  rewrite Hr. cbn [m_info set_adv set_negd]. rewrite (H3 Hr). destruct m; cbn in *; subst. reflexivity.
Qed.

Lemma next_state_fresh mask m : fresh (next_state true mask m).
Proof.
  unfold next_state, renew_info, fresh. cbn [m_bits set_bits reset_stream set_adv set_negd].
  destruct (has (N.lor (m_bits m) mask) st_Ready) eqn:E; cbn [m_negd m_adv m_bits m_info set_info set_bits reset_stream set_adv set_negd].
  - repeat split; try reflexivity. rewrite E. discriminate.
  - repeat split; reflexivity.
Qed.

Lemma session_loop_S k tee c m data istee :
  session_loop (S k) tee c m data istee =
  if has (m_bits m) st_Ready then mkR ROk (m_bits m) m
  else if tee && negb istee then
    session_loop k tee c (tee_state m) (Some (ns_of data)) true
  else
    match negotiator_body c m (ns_of data) with
    | (m1, Good (mask, restart, ns1)) =>
        session_loop k tee c (next_state restart mask m1) (Some ns1) (if restart then false else istee)
    | (m1, Bad e) => mkR (RErr e) (m_bits (fail_state m1)) (fail_state m1)
    | (m1, Stuck) => mkR RStuck (m_bits m1) m1
    end.
Proof. reflexivity. Qed.

Lemma tee_sim c : forall k m data data' istee i2,
  ns_of data = ns_of data' ->
  (istee = false -> fresh m) ->
  r_class (session_loop k false c m data' i2) <> RFuel ->
  session_loop (2 * k) true c m data istee = session_loop k false c m data' i2.
Proof.
  induction k as [|k IH]; intros m data data' istee i2 Hns Hneg Hnf; [cbn in Hnf; congruence|].
  replace (2 * S k) with (S (S (2 * k))) by lia.
  rewrite (session_loop_S k) in Hnf |- *. rewrite (session_loop_S (S (2 * k))).
  destruct (has (m_bits m) st_Ready) eqn:Er; [reflexivity|].
  cbn [andb] in Hnf |- *.
  destruct istee; cbn [negb].
  - (* already a teeConn *)
    rewrite Hns. destruct (negotiator_body c m (ns_of data')) as [m1 r] eqn:E.
    destruct r as [[[mask restart] ns1]|e|]; try reflexivity.
    set (m2 := next_state restart mask m1) in *.
    assert (session_loop (2 * k) true c m2 (Some ns1) (if restart then false else true)
            = session_loop k false c m2 (Some ns1) (if restart then false else i2)) as Heq.
    { apply IH; [reflexivity| |exact Hnf]. destruct restart; [intros _; apply next_state_fresh|discriminate]. }
    replace (S (2 * k)) with (2 * k + 1) by lia.
    rewrite session_loop_mono; [exact Heq|]. rewrite Heq. exact Hnf.
  - (* the wrapping call, then the same call as without tee *)
    rewrite (tee_state_same m (Hneg eq_refl) Er).
    rewrite (session_loop_S (2 * k)). rewrite Er. cbn [andb negb ns_of].
    rewrite Hns. destruct (negotiator_body c m (ns_of data')) as [m1 r] eqn:E.
    destruct r as [[[mask restart] ns1]|e|]; try reflexivity.
    apply IH; [reflexivity| |exact Hnf]. destruct restart; [intros _; apply next_state_fresh|discriminate].
Qed.

Lemma run_tee_invariant c fv bits clear tls outs choices :
  run true c fv bits clear tls outs choices = run false c fv bits clear tls outs choices.
Proof.
  pose proof (run_not_fuel true c fv bits clear tls outs choices) as Ht.
  pose proof (run_not_fuel false c fv bits clear tls outs choices) as Hf.
  unfold run in *. set (F := fuel_for clear tls) in *. set (m0 := init_state c fv bits clear tls outs choices) in *.
  rewrite <- (session_loop_mono c F true m0 None false F Ht).
  replace (F + F) with (2 * F) by lia.
  apply tee_sim; [reflexivity|intros _; repeat split; reflexivity|exact Hf].
Qed.
