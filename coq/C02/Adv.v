(* C02/Adv.v — what Session.Feature reports ([m_adv], the keys of s.features)
   comes from the protected stream only: once a TLS layer has been installed,
   every name space the session holds as "advertised" was a child of a
   features list consumed after the switch.  For every configuration.

   The set is emptied by negotiateSession when the negotiator returns a new
   connection, i.e. after the Negotiate call that installed the layer has
   returned all the way up; so the invariant [advinv] is one of the loop head,
   and the call chain is followed once to show that a call during which the
   layer was switched always comes back as "restart the stream"
   ([negotiator_body_adv]). *)
From Coq Require Import ZifyBool ZifyNat ZifyN.
From XV Require Import lib.Bytes gen.NegTables C02.Model C02.Frame.

Arguments N.lor : simpl never.
Arguments N.land : simpl never.

Lemma adv_spaces_app a b : adv_spaces (a ++ b) = adv_spaces a ++ adv_spaces b.
Proof. unfold adv_spaces. apply flat_map_app. Qed.

(* ------------------------------------------------------------------ steps that read no features list *)

(* the advertised set is untouched, and the "handshake pending" flag is raised
   exactly when the layer is switched *)
Definition quietly (m m' : mstate) : Prop :=
  m_adv m' = m_adv m /\
  exists d, m_tr m' = m_tr m ++ d /\ m_hs m' = (m_hs m || switched d) /\ m_info m' = m_info m.

Lemma q_refl m : quietly m m.
Proof. split; [reflexivity|]. exists []. rewrite app_nil_r, Bool.orb_false_r. auto. Qed.

Lemma q_trans m1 m2 m3 : quietly m1 m2 -> quietly m2 m3 -> quietly m1 m3.
Proof.
  intros (Ha & d1 & Ht1 & Hh1 & Hi1) (Hb & d2 & Ht2 & Hh2 & Hi2). split; [congruence|].
  exists (d1 ++ d2). rewrite Ht2, Ht1, app_assoc, Hh2, Hh1, switched_app, Bool.orb_assoc.
  split; [reflexivity|]. split; [reflexivity|congruence].
Qed.

Lemma q_same m m' :
  m_adv m' = m_adv m -> m_tr m' = m_tr m -> m_hs m' = m_hs m -> m_info m' = m_info m -> quietly m m'.
Proof.
  intros Ha Ht Hh Hi. split; [exact Ha|]. exists []. rewrite app_nil_r, Bool.orb_false_r. auto.
Qed.

Lemma q_emit e m : is_switch e = false -> quietly m (emit e m).
Proof.
  intro He. split; [reflexivity|]. exists [e]. cbn [m_tr emit m_hs switched existsb]. rewrite He.
  cbn. rewrite Bool.orb_false_r. auto.
Qed.

Lemma read_q rp m m' r : read rp m = (m', r) -> quietly m m'.
Proof.
  unfold read. destruct (m_in m); intro H; inversion H; subst.
  - apply q_emit. reflexivity.
  - apply q_trans with (m2 := set_in l m); [apply q_same; reflexivity|apply q_emit; reflexivity].
Qed.

(* a result that asks for a stream restart *)
Definition restarting (r : res (N * bool)) : Prop := r = Good (st_Secure, true).

Lemma starttls_negotiate_q c m m' o :
  starttls_negotiate c m = (m', o) ->
  quietly m m' /\ (m_hs m = false -> m_hs m' = true -> o = mkO st_Secure true false).
Proof.
  unfold starttls_negotiate.
  set (ma := emit (EOut (WElem ns_StartTLS str_starttls)) m).
  assert (quietly m ma) as Hqa by (apply q_emit; reflexivity).
  destruct (read RPReply ma) as [m2 r] eqn:E. pose proof (read_q _ _ _ _ E) as Hq2.
  pose proof (q_trans _ _ _ Hqa Hq2) as Hq.
  destruct (is_proceed r); intro H; inversion H; subst.
  - split; [|auto]. eapply q_trans; [exact Hq|].
    split; [reflexivity|]. exists [ESwitch (tls_name c m2)]. cbn. rewrite Bool.orb_true_r. auto.
  - split; [exact Hq|]. intros H0 H1. exfalso.
    assert (m_hs ma = m_hs m) as E1 by reflexivity.
    assert (m_hs m' = m_hs ma) as E2.
    { revert E. unfold read. destruct (m_in ma); intro E; inversion E; subst; reflexivity. }
    congruence.
Qed.

Lemma negotiate_one_q c m f m' o :
  negotiate_one c m f = (m', o) ->
  quietly m m' /\ (m_hs m = false -> m_hs m' = true -> o = mkO st_Secure true false).
Proof.
  unfold negotiate_one. destruct (f_kind f).
  - intro H; inversion H; subst. split.
    + apply q_trans with (m2 := set_outs (tl (m_outs m)) m); [apply q_same; reflexivity|apply q_emit; reflexivity].
    + cbn. congruence.
  - destruct (starttls_negotiate c m) as [m1 o1] eqn:E. destruct (starttls_negotiate_q _ _ _ _ E) as (Hq & Hb).
    intro H; inversion H; subst. split; [eapply q_trans; [exact Hq|apply q_emit; reflexivity]|exact Hb].
Qed.

Lemma after_pick_q c m req f m' r :
  after_pick c m req f = (m', r) ->
  quietly m m' /\ (m_hs m = false -> m_hs m' = true -> r = Good (Some (st_Secure, true))).
Proof.
  unfold after_pick. destruct (negotiate_one c m f) as [m1 o] eqn:E.
  destruct (negotiate_one_q _ _ _ _ _ E) as (Hq & Hb).
  destruct (o_err o) eqn:Ee.
  - intro H; inversion H; subst. split.
    + eapply q_trans; [exact Hq|apply q_same; reflexivity].
    + intros H0 H1. rewrite (Hb H0 H1) in Ee. discriminate.
  - set (m2 := set_ready (m_ready m1 || has (o_mask o) st_Ready)
                         (set_bits (N.lor (m_bits m1) (N.ldiff (o_mask o) st_Ready)) m1)).
    assert (quietly m (set_negd (f_space f :: m_negd m2) m2)) as Hq3
      by (eapply q_trans; [exact Hq|apply q_same; reflexivity]).
    destruct (o_restart o || req) eqn:Er; intro H; inversion H; subst; (split; [exact Hq3|]).
    + intros H0 H1. rewrite (Hb H0 H1). reflexivity.
    + intros H0 H1. rewrite (Hb H0 H1) in Er. discriminate.
Qed.

Lemma select_q m m' r : select m = (m', r) -> quietly m m'.
Proof.
  unfold select. destruct (candidates m) as [|e0 cands]; [intro H; inversion H; subst; apply q_refl|].
  destruct (m_choices m) as [|ch rest]; [intro H; inversion H; subst; apply q_refl|].
  destruct (cache_get ch (e0 :: cands)) as [e|];
    [destruct (fst e && existsb (fun x => negb (fst x)) (e0 :: cands))|];
    intro H; inversion H; subst; apply q_same; reflexivity.
Qed.

Lemma init_loop_q c : forall fuel m forced m' r,
  init_loop fuel c m forced = (m', r) ->
  quietly m m' /\ (m_hs m = false -> m_hs m' = true -> restarting r).
Proof.
  unfold restarting.
  induction fuel as [|k IH]; intros m forced m' r H; cbn [init_loop] in H.
  - inversion H; subst. split; [apply q_refl|congruence].
  - destruct forced as [f|].
    + destruct (m_choices m) as [|ch rest]; [inversion H; subst; split; [apply q_refl|congruence]|].
      assert (quietly m (set_choices rest m)) as Hq0 by (apply q_same; reflexivity).
      destruct (negb (bytes_eqb ch (f_space f))).
      * inversion H; subst. split; [exact Hq0|cbn; congruence].
      * destruct (after_pick c (set_choices rest m) true f) as [m1 r1] eqn:E.
        destruct (after_pick_q _ _ _ _ _ _ E) as (Hq & Hb).
        assert (quietly m m1) as Hq1 by exact (q_trans _ _ _ Hq0 Hq).
        destruct r1 as [[x|]|e|]; inversion H; subst; (split; [exact Hq1|]); intros H0 H1;
          pose proof (Hb H0 H1) as Hx; try discriminate.
        inversion Hx; subst. reflexivity.
    + destruct (select m) as [m1 r1] eqn:Es. pose proof (select_q _ _ _ Es) as Hqs.
      assert (m_hs m1 = m_hs m) as Hhs.
      { revert Es. unfold select. destruct (candidates m) as [|e0 cands]; [intro X; inversion X; reflexivity|].
        destruct (m_choices m) as [|ch rest]; [intro X; inversion X; reflexivity|].
        destruct (cache_get ch (e0 :: cands)) as [e|];
          [destruct (fst e && existsb (fun x => negb (fst x)) (e0 :: cands))|];
          intro X; inversion X; reflexivity. }
      destruct r1 as [[[req f]|]|e|]; try solve [inversion H; subst; split; [exact Hqs|congruence]].
      destruct (after_pick c m1 req f) as [m2 r2] eqn:E.
      destruct (after_pick_q _ _ _ _ _ _ E) as (Hq & Hb).
      assert (quietly m m2) as Hq2 by exact (q_trans _ _ _ Hqs Hq).
      destruct r2 as [[x|]|e|].
      * inversion H; subst. split; [exact Hq2|]. intros H0 H1.
        pose proof (Hb (eq_trans Hhs H0) H1) as Hx. inversion Hx; subst. reflexivity.
      * destruct (IH _ _ _ _ H) as (Hq3 & Hb3). split; [exact (q_trans _ _ _ Hq2 Hq3)|].
        intros H0 H1. apply Hb3; [|exact H1].
        destruct (m_hs m2) eqn:E2; [|reflexivity].
        pose proof (Hb (eq_trans Hhs H0) eq_refl) as Hx. discriminate.
      * inversion H; subst. split; [exact Hq2|]. intros H0 H1.
        pose proof (Hb (eq_trans Hhs H0) H1) as Hx. discriminate.
      * inversion H; subst. split; [exact Hq2|]. intros H0 H1.
        pose proof (Hb (eq_trans Hhs H0) H1) as Hx. discriminate.
Qed.

Lemma normal_path_q c m m' r :
  normal_path c m = (m', r) -> quietly m m' /\ (m_hs m = false -> m_hs m' = true -> restarting r).
Proof.
  unfold normal_path. destruct (m_total m); [intro H; inversion H; subst; split; [apply q_refl|congruence]|].
  destruct (m_allowed m); [intro H; inversion H; subst; split; [apply q_refl|congruence]|].
  apply init_loop_q.
Qed.

Lemma after_read_q c m first m' r :
  after_read c m first = (m', r) -> quietly m m' /\ (m_hs m = false -> m_hs m' = true -> restarting r).
Proof.
  unfold after_read.
  destruct (if first && negb match cache_get ns_StartTLS (m_cache m) with Some _ => true | None => false end
               && negb (has (m_bits m) st_Secure)
            then find_space ns_StartTLS (c_feats c) else None) as [f|].
  - destruct (f_neg f && eligible f (m_bits m)); [apply init_loop_q|apply normal_path_q].
  - apply normal_path_q.
Qed.

(* ------------------------------------------------------------------ reading a features list *)

Lemma read_children_adv fs st cs : forall m ca tot lr m' r,
  read_children fs st cs m ca tot lr = (m', r) ->
  incl (m_adv m') (child_spaces cs ++ m_adv m) /\ (m_hs m' = m_hs m /\ m_info m' = m_info m) /\
  exists d, m_tr m' = m_tr m ++ d /\ switched d = false /\ ins_of d = [].
Proof.
  induction cs as [|ch cs IH]; intros m ca tot lr m' r H; cbn [read_children] in H.
  - inversion H; subst. split; [apply incl_refl|]. split; [auto|]. exists []. rewrite app_nil_r. auto.
  - destruct ch as [sp lo req perr|].
    + cbn [child_spaces flat_map app].
      (* the run stops at mm, or goes on from mm; either way mm is m with sp recorded and maybe an EParse event *)
      assert (forall mm d0, m_adv mm = sp :: m_adv m -> m_hs mm = m_hs m -> m_info mm = m_info m ->
                            m_tr mm = m_tr m ++ d0 -> switched d0 = false -> ins_of d0 = [] ->
                            (mm = m' \/ exists ca' tot' lr', read_children fs st cs mm ca' tot' lr' = (m', r)) ->
                             incl (m_adv m') (sp :: child_spaces cs ++ m_adv m) /\ (m_hs m' = m_hs m /\ m_info m' = m_info m) /\
                             exists d, m_tr m' = m_tr m ++ d /\ switched d = false /\ ins_of d = []) as Hgo.
      { intros mm d0 Ha Hh Hn Ht Hs Hi [Heq|(ca' & tot' & lr' & Hr)].
        - subst mm. rewrite Ha. split.
          + intros x Hx. destruct Hx as [Hx|Hx]; [left; exact Hx|right; apply in_or_app; right; exact Hx].
          + split; [auto|]. exists d0. auto.
        - destruct (IH _ _ _ _ _ _ Hr) as (Hinc & (Hhs & Hin) & d1 & Ht1 & Hs1 & Hi1).
          split.
          + intros x Hx. apply Hinc in Hx. apply in_app_or in Hx. destruct Hx as [Hx|Hx].
            * right. apply in_or_app. left. exact Hx.
            * rewrite Ha in Hx. destruct Hx as [Hx|Hx]; [left; exact Hx|right; apply in_or_app; right; exact Hx].
          + split; [split; congruence|]. exists (d0 ++ d1).
            rewrite Ht1, Ht, app_assoc, switched_app, ins_of_app, Hs, Hs1, Hi, Hi1. auto. }
      destruct (get_feature (sp, lo) fs) as [f|].
      * destruct perr.
        -- apply (Hgo (emit (EParse f) (add_adv sp m)) [EParse f]); try reflexivity. left. inversion H; reflexivity.
        -- apply (Hgo (emit (EParse f) (add_adv sp m)) [EParse f]); try reflexivity. right. eauto.
      * apply (Hgo (add_adv sp m) []); try reflexivity; [cbn; rewrite app_nil_r; reflexivity|]. right. eauto.
    + inversion H; subst. split; [apply incl_appr, incl_refl|]. split; [auto|]. exists []. rewrite app_nil_r. auto.
Qed.

Lemma features_of_some r cs : features_of r = Some cs -> r = Some (mkItem false (PFeatures cs)).
Proof.
  destruct r as [[sp b]|]; [|discriminate]. destruct sp; [discriminate|]. destruct b; try discriminate.
  cbn. intro H; inversion H; subst. reflexivity.
Qed.

(* what one negotiateFeatures call does to the advertised set and the flag *)
Definition step_adv (m m' : mstate) : Prop :=
  exists d, m_tr m' = m_tr m ++ d /\
            incl (m_adv m') (m_adv m ++ adv_spaces (ins_of d)) /\
            m_hs m' = (m_hs m || switched d) /\ m_info m' = m_info m.

Lemma quietly_step m m' : quietly m m' -> step_adv m m'.
Proof.
  intros (Ha & d & Ht & Hh & Hn). exists d. split; [exact Ht|]. split; [|split; [exact Hh|exact Hn]].
  rewrite Ha. apply incl_appl, incl_refl.
Qed.

Lemma step_trans m1 m2 m3 : step_adv m1 m2 -> step_adv m2 m3 -> step_adv m1 m3.
Proof.
  intros (d1 & Ht1 & Hi1 & Hh1 & Hn1) (d2 & Ht2 & Hi2 & Hh2 & Hn2). exists (d1 ++ d2).
  rewrite Ht2, Ht1, app_assoc, Hh2, Hh1, switched_app, Bool.orb_assoc, ins_of_app, adv_spaces_app.
  split; [reflexivity|]. split; [|split; [reflexivity|congruence]].
  intros x Hx. apply Hi2 in Hx. apply in_app_or in Hx. destruct Hx as [Hx|Hx].
  - apply Hi1 in Hx. apply in_app_or in Hx. destruct Hx as [Hx|Hx]; apply in_or_app; [left; exact Hx|].
    right. apply in_or_app. left. exact Hx.
  - apply in_or_app. right. apply in_or_app. right. exact Hx.
Qed.

Lemma negotiate_features_adv c m first m' r :
  negotiate_features c m first = (m', r) ->
  step_adv m m' /\ (m_hs m = false -> m_hs m' = true -> restarting r).
Proof.
  unfold negotiate_features. destruct (read RPFeatures m) as [m1 x] eqn:Er.
  pose proof (read_q _ _ _ _ Er) as Hq1.
  assert (m_hs m1 = m_hs m) as Hh1
    by (revert Er; unfold read; destruct (m_in m); intro X; inversion X; reflexivity).
  destruct (features_of x) as [cs|] eqn:Ef.
  - apply features_of_some in Ef. subst x.
    (* the item just delivered is the features list whose children are read *)
    assert (exists d0, m_tr m1 = m_tr m ++ d0 /\ switched d0 = false /\ adv_spaces (ins_of d0) = child_spaces cs) as (d0 & Ht0 & Hs0 & Ha0).
    { revert Er. unfold read. destruct (m_in m) as [|it rest]; intro X; inversion X; subst.
      eexists. split; [reflexivity|]. split; [reflexivity|]. cbn. rewrite app_nil_r. reflexivity. }
    assert (m_adv m1 = m_adv m) as Had1 by (destruct Hq1 as (Ha & _); exact Ha).
    destruct (read_children (c_feats c) (m_bits m1) cs m1 [] 0 false) as [m2 r2] eqn:Ec.
    destruct (read_children_adv _ _ _ _ _ _ _ _ _ Ec) as (Hinc & (Hh2 & Hn2) & d1 & Ht1 & Hs1 & Hi1).
    assert (step_adv m m2) as Hs2.
    { exists (d0 ++ d1). rewrite Ht1, Ht0, app_assoc, switched_app, Hs0, Hs1, ins_of_app, Hi1, app_nil_r, Ha0.
      split; [reflexivity|]. split; [|split; [rewrite Hh2, Hh1, Bool.orb_false_r; reflexivity|]].
      2:{ destruct Hq1 as (_ & dq & _ & _ & Hnq). congruence. }
      intros y Hy. apply Hinc in Hy. rewrite Had1 in Hy. apply in_app_or in Hy. apply in_or_app. tauto. }
    destruct r2 as [[[ca tot] lr]|e|].
    + intro H. destruct (after_read_q _ _ _ _ _ H) as (Hq3 & Hb3).
      split.
      * eapply step_trans; [exact Hs2|]. apply quietly_step.
        eapply q_trans; [|exact Hq3]. apply q_same; reflexivity.
      * intros H0 H1. apply Hb3; [|exact H1]. cbn [m_hs set_list]. congruence.
    + intro H; inversion H; subst. split; [exact Hs2|]. intros H0 H1. congruence.
    + intro H; inversion H; subst. split; [exact Hs2|]. intros H0 H1. congruence.
  - intro H; inversion H; subst. split; [apply quietly_step; exact Hq1|]. congruence.
Qed.

(* ------------------------------------------------------------------ the handshake flag *)

(* a pending handshake means a TLS layer is there *)
Definition hs_tls (m : mstate) : Prop := m_hs m = true -> m_tls m = true.

Lemma hs_tls_prim c m m' : prim c m m' -> hs_tls m -> hs_tls m'.
Proof.
  intros Hp. destruct Hp; unfold hs_tls; cbn; auto. discriminate.
Qed.

Lemma read_hs rp m m' r : read rp m = (m', r) ->
  m_hs m' = m_hs m /\ m_adv m' = m_adv m /\ m_info m' = m_info m /\
  exists d, m_tr m' = m_tr m ++ d /\ switched d = false /\
            ins_of d = match r with Some it => [it] | None => [] end.
Proof.
  unfold read. destruct (m_in m); intro H; inversion H; subst; cbn [m_hs m_adv m_info m_tr emit set_in];
    (split; [reflexivity|split; [reflexivity|split; [reflexivity|eexists; split; [reflexivity|split; reflexivity]]]]).
Qed.

(* how a header exchange changes s.in.Info: not at all, or by the attributes of
   a stream header delivered during it *)
Definition info_step (c : config) (d : list event) (n n' : info) : Prop :=
  n' = n \/ exists h, In h (headers_of (ins_of d)) /\ (n' = assign h n \/ n' = fix_to c (assign h n)).

Lemma header_of_some r h : header_of r = Some h -> exists sp, r = Some (mkItem sp (PHeader h)).
Proof.
  destruct r as [[sp b]|]; [|discriminate]. destruct b; try discriminate. cbn. intro H; inversion H; subst. eauto.
Qed.

Lemma expect_header_adv c m m' r :
  expect_header c m = (m', r) ->
  m_hs m' = m_hs m /\ m_adv m' = m_adv m /\
  exists d, m_tr m' = m_tr m ++ d /\ switched d = false /\
            info_step c d (m_info m) (m_info m') /\
            (r = Good tt -> n_from (m_info m') = c_loc c /\ n_to (m_info m') = c_orig c).
Proof.
  unfold expect_header. destruct (read RPHeader m) as [m1 x] eqn:Er.
  destruct (read_hs _ _ _ _ Er) as (Hh & Ha & Hn & d & Ht & Hs & Hi).
  destruct (header_of x) as [h|] eqn:Eh.
  - destruct (header_of_some _ _ Eh) as (sp & Hx). subst x.
    assert (In h (headers_of (ins_of d))) as Hin by (rewrite Hi; cbn; auto).
    rewrite Hn. destruct (header_ok c (assign h (m_info m))) eqn:Eok; intro H; inversion H; subst;
      cbn [m_hs m_adv m_tr m_info set_info]; (split; [exact Hh|]); (split; [exact Ha|]); exists d;
      (split; [exact Ht|]); (split; [exact Hs|]).
    + split; [right; exists h; auto|]. intros _.
      unfold header_ok in Eok. apply andb_prop in Eok. destruct Eok as [Eok E5].
      apply andb_prop in Eok. destruct Eok as [_ E4]. apply bytes_eqb_eq in E4.
      unfold fix_to. destruct (is_nil (n_to (assign h (m_info m)))) eqn:En; cbn [n_from n_to].
      * split; [exact E4|reflexivity].
      * split; [exact E4|]. cbn [orb] in E5. apply bytes_eqb_eq in E5. exact E5.
    + split; [right; exists h; auto|discriminate].
  - intro H; inversion H; subst. split; [exact Hh|]. split; [exact Ha|]. exists d.
    split; [exact Ht|]. split; [exact Hs|]. split; [left; exact Hn|discriminate].
Qed.

Lemma info_step_mono c d0 d n n' : info_step c d n n' -> info_step c (d0 ++ d) n n'.
Proof.
  intros [H|(h & Hin & H)]; [left; exact H|]. right. exists h. split; [|exact H].
  rewrite ins_of_app. unfold headers_of. rewrite flat_map_app. apply in_or_app. right. exact Hin.
Qed.

(* the header exchange: no features list is read, no layer is switched, and
   when it succeeds on a restart no handshake is pending any more *)
Lemma headers_adv c m ns m1 r1 :
  headers c m ns = (m1, r1) -> hs_tls m ->
  m_adv m1 = m_adv m /\
  (exists d, m_tr m1 = m_tr m ++ d /\ switched d = false /\
             info_step c d (m_info m) (m_info m1)) /\
  (m_hs m = false -> m_hs m1 = false) /\
  (ns_restart ns = true -> r1 = Good tt -> m_hs m1 = false) /\
  (ns_restart ns = true -> r1 = Good tt -> n_from (m_info m1) = c_loc c /\ n_to (m_info m1) = c_orig c).
Proof.
  unfold headers. intros H Hht. destruct (ns_restart ns).
  - unfold send_header in H. destruct (m_tls m && m_hs m) eqn:Eth.
    + destruct (c_hs_ok c).
      * set (ma := emit (EOut WHeader) (emit (EHandshake true) (set_hs false m))) in H.
        destruct (expect_header_adv _ _ _ _ H) as (Hh & Ha & d & Ht & Hs & Hst & Hok).
        split; [exact Ha|]. split.
        { exists ([EHandshake true; EOut WHeader] ++ d). rewrite Ht. unfold ma. cbn [m_tr emit set_hs].
          rewrite <- !app_assoc. cbn [app]. split; [reflexivity|]. split; [cbn; exact Hs|].
          apply (info_step_mono c [EHandshake true; EOut WHeader]). exact Hst. }
        rewrite Hh. cbn. auto.
      * inversion H; subst. cbn [m_adv m_tr m_hs m_info emit set_hs]. split; [reflexivity|].
        split; [exists [EHandshake false]; repeat split; auto; left; reflexivity|]. split; [auto|split; discriminate].
    + assert (m_hs m = false) as Hf.
      { destruct (m_hs m) eqn:E; [|reflexivity]. rewrite (Hht E) in Eth. discriminate. }
      set (ma := emit (EOut WHeader) m) in H.
      destruct (expect_header_adv _ _ _ _ H) as (Hh & Ha & d & Ht & Hs & Hst & Hok).
      split; [exact Ha|]. split.
      { exists ([EOut WHeader] ++ d). rewrite Ht. unfold ma. cbn [m_tr emit]. rewrite <- app_assoc.
        split; [reflexivity|]. split; [cbn; exact Hs|].
        apply (info_step_mono c [EOut WHeader]). exact Hst. }
      rewrite Hh. cbn [m_hs emit]. auto.
  - inversion H; subst. split; [reflexivity|].
    split; [exists []; rewrite app_nil_r; repeat split; auto; left; reflexivity|]. split; [auto|split; discriminate].
Qed.

(* one negotiator call *)
Lemma negotiator_body_adv c m ns m' r :
  negotiator_body c m ns = (m', r) -> hs_tls m -> (m_hs m = true -> ns_restart ns = true) ->
  exists d, m_tr m' = m_tr m ++ d /\
            incl (m_adv m') (m_adv m ++ adv_spaces (ins_of d)) /\
            info_step c d (m_info m) (m_info m') /\
            (switched d = true -> exists ns1, r = Good (st_Secure, true, ns1)) /\
            (forall mask ns1, r = Good (mask, false, ns1) -> m_hs m' = false) /\
            (forall mask restart ns1, r = Good (mask, restart, ns1) -> ns_restart ns1 = restart) /\
            (forall x, ns_restart ns = true -> r = Good x ->
                       n_from (m_info m') = c_loc c /\ n_to (m_info m') = c_orig c) /\
            (switched d = true -> m_hs m' = true) /\
            (ns_restart ns = false -> m_info m' = m_info m).
Proof.
  rewrite negotiator_body_unfold. intros H Hht Hns.
  destruct (headers c m ns) as [m1 r1] eqn:Eh.
  destruct (headers_adv _ _ _ _ _ Eh Hht) as (Ha1 & (d1 & Ht1 & Hs1 & Hst1) & Hf1 & Hg1 & Haddr).
  destruct r1 as [u|e|].
  - assert (m_hs m1 = false) as Hh1.
    { destruct (m_hs m) eqn:E; [|apply Hf1; reflexivity]. destruct u. apply Hg1; [apply Hns; reflexivity|reflexivity]. }
    destruct (negotiate_features c m1 (ns_first ns)) as [m2 r2] eqn:En.
    destruct (negotiate_features_adv _ _ _ _ _ En) as ((d2 & Ht2 & Hi2 & Hh2 & Hn2) & Hb2).
    rewrite Hh1 in Hh2. cbn [orb] in Hh2.
    assert (m' = m2) as Hm by (destruct r2 as [[mask restart]|e|]; inversion H; subst; reflexivity). subst m2.
    exists (d1 ++ d2). rewrite switched_app, Hs1, ins_of_app, adv_spaces_app. cbn [orb].
    split; [rewrite Ht2, Ht1, app_assoc; reflexivity|].
    split; [intros x Hx; apply Hi2 in Hx; rewrite Ha1 in Hx; apply in_app_or in Hx; apply in_or_app;
            destruct Hx as [Hx|Hx]; [left; exact Hx|right; apply in_or_app; right; exact Hx]|].
    split.
    { rewrite Hn2. destruct Hst1 as [Hx|(h & Hin & Hx)]; [left; exact Hx|]. right. exists h. split; [|exact Hx].
      rewrite ins_of_app. unfold headers_of. rewrite flat_map_app. apply in_or_app. left. exact Hin. }
    split.
    { intro Hsw. rewrite Hsw in Hh2. pose proof (Hb2 Hh1 Hh2) as Hr. unfold restarting in Hr. subst r2. inversion H; subst. eauto. }
    split.
    { intros mask ns1 Hr. destruct r2 as [[mask2 restart2]|e|]; rewrite Hr in H; inversion H; subst.
      destruct (m_hs m') eqn:E; [|reflexivity]. pose proof (Hb2 Hh1 eq_refl) as Hx. unfold restarting in Hx. inversion Hx. }
    split.
    { intros mask restart ns1 Hr. destruct r2 as [[mask2 restart2]|e|]; rewrite Hr in H; inversion H; subst. reflexivity. }
    split.
    { intros x Hr _. rewrite Hn2. destruct u. apply Haddr; [exact Hr|reflexivity]. }
    split.
    { intro Hsw. rewrite Hh2, Hsw. reflexivity. }
    { intro Hnr. rewrite Hn2. revert Eh. unfold headers. rewrite Hnr. intro X; inversion X; reflexivity. }
  - inversion H; subst. exists d1. rewrite Hs1, Ha1. split; [exact Ht1|]. split; [apply incl_appl, incl_refl|].
    split; [exact Hst1|]. split; [discriminate|]. split; [intros; discriminate|]. split; [intros; discriminate|].
    split; [intros; discriminate|]. split; [discriminate|].
    intro Hnr. revert Eh. unfold headers. rewrite Hnr. intro X; inversion X; reflexivity.
  - inversion H; subst. exists d1. rewrite Hs1, Ha1. split; [exact Ht1|]. split; [apply incl_appl, incl_refl|].
    split; [exact Hst1|]. split; [discriminate|]. split; [intros; discriminate|]. split; [intros; discriminate|].
    split; [intros; discriminate|]. split; [discriminate|].
    intro Hnr. revert Eh. unfold headers. rewrite Hnr. intro X; inversion X; reflexivity.
Qed.

(* ------------------------------------------------------------------ the invariants of negotiateSession's loop *)

Definition advinv (m : mstate) : Prop :=
  switched (m_tr m) = true -> incl (m_adv m) (adv_spaces (ins_of (after_switch (m_tr m)))).

Lemma advinv_ext m m' d :
  advinv m -> m_tr m' = m_tr m ++ d -> switched d = false ->
  incl (m_adv m') (m_adv m ++ adv_spaces (ins_of d)) -> advinv m'.
Proof.
  intros Hk Ht Hs Hi. unfold advinv. rewrite Ht, switched_app, Hs, Bool.orb_false_r, after_switch_app.
  intro Hsw. rewrite Hsw, ins_of_app, adv_spaces_app.
  intros x Hx. apply Hi in Hx. apply in_app_or in Hx. apply in_or_app.
  destruct Hx as [Hx|Hx]; [left; apply (Hk Hsw); exact Hx|right; exact Hx].
Qed.

Lemma advinv_empty m : m_adv m = [] -> advinv m.
Proof. intros He _. rewrite He. intros x []. Qed.

(* a field of s.in.Info is zero, or was set by one of some stream headers *)
Definition src (sel : hattrs -> option bytes) (hs : list hattrs) (v : bytes) : Prop :=
  v = [] \/ exists h, In h hs /\ sel h = Some v.

Definition info_from (hs : list hattrs) (n : info) : Prop :=
  src h_id hs (n_id n) /\ src h_ver hs (n_ver n) /\ src h_lang hs (n_lang n) /\ src h_xmlns hs (n_xmlns n).

Lemma src_mono sel hs hs' v : incl hs hs' -> src sel hs v -> src sel hs' v.
Proof. intros Hi [H|(h & Hin & H)]; [left; exact H|right; exists h; auto]. Qed.

Lemma info_from_mono hs hs' n : incl hs hs' -> info_from hs n -> info_from hs' n.
Proof. intros Hi (A & B & C & D). repeat split; eapply src_mono; eauto. Qed.

Lemma src_pick sel hs h old : In h hs -> src sel hs old -> src sel hs (pick (sel h) old).
Proof. intros Hin Ho. unfold pick. destruct (sel h) eqn:E; [right; exists h; auto|exact Ho]. Qed.

Lemma info_from_assign hs h n : In h hs -> info_from hs n -> info_from hs (assign h n).
Proof. intros Hin (A & B & C & D). unfold assign, info_from; cbn. repeat split; apply src_pick; assumption. Qed.

Lemma info_from_fix c hs n : info_from hs n -> info_from hs (fix_to c n).
Proof. unfold fix_to. destruct (is_nil (n_to n)); auto. Qed.

Lemma info_from_keep hs n : info_from hs (keep_addr n).
Proof. unfold info_from, keep_addr; cbn. repeat split; left; reflexivity. Qed.

Definition hdrs_after (m : mstate) : list hattrs := headers_of (ins_of (after_switch (m_tr m))).

(* at the head of the loop; the premise excludes the one state in which the
   stale info of the clear-text stream is still there: layer just installed
   (handshake pending) and the Ready bit already set, so that the loop ends
   without the stream ever being restarted *)
Definition infoinv (m : mstate) : Prop :=
  switched (m_tr m) = true -> (m_hs m = false \/ has (m_bits m) st_Ready = false) ->
  info_from (hdrs_after m) (m_info m).

Lemma info_ext c m m' d :
  (switched (m_tr m) = true -> info_from (hdrs_after m) (m_info m)) ->
  m_tr m' = m_tr m ++ d -> switched d = false -> info_step c d (m_info m) (m_info m') ->
  switched (m_tr m') = true -> info_from (hdrs_after m') (m_info m').
Proof.
  intros Hk Ht Hs Hst. unfold hdrs_after. rewrite Ht, switched_app, Hs, Bool.orb_false_r, after_switch_app.
  intro Hsw. rewrite Hsw, ins_of_app. unfold headers_of. rewrite flat_map_app. fold (headers_of (ins_of d)).
  pose proof (Hk Hsw) as Hold. unfold hdrs_after, headers_of in Hold.
  assert (info_from (flat_map (fun it => match i_body it with PHeader h => [h] | _ => [] end) (ins_of (after_switch (m_tr m)))
                     ++ headers_of (ins_of d)) (m_info m)) as Hold2
    by (eapply info_from_mono; [|exact Hold]; apply incl_appl, incl_refl).
  destruct Hst as [Hx|(h & Hin & [Hx|Hx])]; rewrite Hx.
  - exact Hold2.
  - apply info_from_assign; [apply in_or_app; right; exact Hin|exact Hold2].
  - apply info_from_fix, info_from_assign; [apply in_or_app; right; exact Hin|exact Hold2].
Qed.

Definition addr_ok (c : config) (m : mstate) : Prop :=
  n_from (m_info m) = c_loc c /\ n_to (m_info m) = c_orig c.

Definition loopinv (c : config) (m : mstate) (data : option nstate) : Prop :=
  advinv m /\ infoinv m /\ addr_ok c m /\ hs_tls m /\ (m_hs m = true -> ns_restart (ns_of data) = true).

(* what holds of every state the loop can end in *)
Definition endinv (c : config) (m : mstate) : Prop :=
  advinv m /\
  (switched (m_tr m) = true -> m_hs m = false -> info_from (hdrs_after m) (m_info m)).

Lemma renew_fields m :
  m_tr (renew_info m) = m_tr m /\ m_adv (renew_info m) = m_adv m /\ m_hs (renew_info m) = m_hs m /\
  m_tls (renew_info m) = m_tls m /\ m_bits (renew_info m) = m_bits m /\
  n_from (m_info (renew_info m)) = n_from (m_info m) /\ n_to (m_info (renew_info m)) = n_to (m_info m) /\
  (has (m_bits m) st_Ready = false -> m_info (renew_info m) = keep_addr (m_info m)) /\
  (has (m_bits m) st_Ready = true -> m_info (renew_info m) = m_info m).
Proof. unfold renew_info. destruct (has (m_bits m) st_Ready); cbn; repeat split; auto; discriminate. Qed.

Lemma loop_inv c : forall fuel tee m data istee,
  loopinv c m data ->
  let r := session_loop fuel tee c m data istee in
  endinv c (r_state r) /\ (r_class r = ROk -> addr_ok c (r_state r)).
Proof.
  induction fuel as [|k IH]; intros tee m data istee (Hk & Hi & Had & Hht & Hns).
  - cbn. split; [split; [exact Hk|]|discriminate]. intros Hsw Hh. apply Hi; auto.
  - rewrite session_loop_S. destruct (has (m_bits m) st_Ready) eqn:Er.
    { cbn. split; [split; [exact Hk|]|intros _; exact Had]. intros Hsw Hh. apply Hi; auto. }
    destruct (tee && negb istee).
    + apply IH. unfold tee_state.
      destruct (renew_fields (reset_stream m)) as (F1 & F2 & F3 & F4 & F5 & F6 & F7 & F8 & _).
      split; [apply advinv_empty; rewrite F2; reflexivity|].
      split; [intros _ _; rewrite (F8 Er); apply info_from_keep|].
      split; [unfold addr_ok; rewrite F6, F7; exact Had|].
      split; [unfold hs_tls; rewrite F3, F4; exact Hht|rewrite F3; exact Hns].
    + destruct (negotiator_body c m (ns_of data)) as [m1 r] eqn:Eb.
      destruct (negotiator_body_adv _ _ _ _ _ Eb Hht Hns) as (d & Ht & Hinc & Hst & Hsw & Hnr & Hn1 & Haddr & Hhs1 & Hsame).
      pose proof (evolves_inv c hs_tls (hs_tls_prim c) _ _ (negotiator_body_ev _ _ _ _ _ Eb) Hht) as Hht1.
      assert (switched d = false -> advinv m1 /\ (switched (m_tr m1) = true -> info_from (hdrs_after m1) (m_info m1))) as Hext.
      { intro Hs. split; [apply (advinv_ext m _ d Hk); assumption|].
        apply (info_ext c m m1 d); try assumption. intro Hs0. apply Hi; auto. }
      destruct r as [[[mask restart] ns1]|e|].
      * apply IH. unfold next_state. destruct restart.
        -- set (m3 := set_bits (N.lor (m_bits (reset_stream m1)) mask) (reset_stream m1)).
           destruct (renew_fields m3) as (F1 & F2 & F3 & F4 & F5 & F6 & F7 & F8 & F9).
           split; [apply advinv_empty; rewrite F2; reflexivity|].
           split.
           { intros Hsw3 Hor. destruct (has (m_bits m3) st_Ready) eqn:Er3.
             - rewrite (F9 eq_refl). rewrite F5, Er3, F3 in Hor. destruct Hor as [Hor|Hor]; [|discriminate].
               destruct (switched d) eqn:Ed.
               + assert (m_hs m1 = false) as Hz by exact Hor. rewrite (Hhs1 eq_refl) in Hz. discriminate.
               + destruct (Hext eq_refl) as (_ & Hx). unfold hdrs_after in *. rewrite F1 in *. apply Hx. exact Hsw3.
             - rewrite (F8 eq_refl). apply info_from_keep. }
           split.
           { unfold addr_ok. rewrite F6, F7. change (m_info m3) with (m_info m1).
             destruct (ns_restart (ns_of data)) eqn:En.
             - apply (Haddr _ eq_refl eq_refl).
             - rewrite (Hsame eq_refl). exact Had. }
           split; [unfold hs_tls; rewrite F3, F4; exact Hht1|].
           intros _. cbn [ns_of]. apply (Hn1 _ _ _ eq_refl).
        -- assert (switched d = false) as Hs.
           { destruct (switched d) eqn:E; [|reflexivity]. destruct (Hsw eq_refl) as (n1 & Hx). inversion Hx. }
           destruct (Hext Hs) as (Ha1 & Hi1).
           split; [exact Ha1|]. split; [intros Hsw3 _; apply Hi1; exact Hsw3|].
           split.
           { unfold addr_ok. cbn [m_info set_bits].
             destruct (ns_restart (ns_of data)) eqn:En.
             - apply (Haddr _ eq_refl eq_refl).
             - rewrite (Hsame eq_refl). exact Had. }
           split; [exact Hht1|]. cbn [m_hs set_bits]. rewrite (Hnr _ _ eq_refl). discriminate.
      * assert (switched d = false) as Hs.
        { destruct (switched d) eqn:E; [|reflexivity]. destruct (Hsw eq_refl) as (n1 & Hx). discriminate. }
        destruct (Hext Hs) as (Ha1 & Hi1). cbn [r_state r_class]. split; [|discriminate].
        split; [exact Ha1|]. intros Hsw3 _. apply Hi1. exact Hsw3.
      * assert (switched d = false) as Hs.
        { destruct (switched d) eqn:E; [|reflexivity]. destruct (Hsw eq_refl) as (n1 & Hx). discriminate. }
        destruct (Hext Hs) as (Ha1 & Hi1). cbn [r_state r_class]. split; [|discriminate].
        split; [exact Ha1|]. intros Hsw3 _. apply Hi1. exact Hsw3.
Qed.

Lemma run_endinv tee c fv bits clear tls outs choices :
  let r := run tee c fv bits clear tls outs choices in
  endinv c (r_state r) /\ (r_class r = ROk -> addr_ok c (r_state r)).
Proof.
  unfold run. apply loop_inv. unfold loopinv, advinv, infoinv, addr_ok, hs_tls, init_state; cbn.
  repeat split; intros; discriminate.
Qed.

(* What the session reports as advertised once a TLS layer has been installed
   was advertised by features lists consumed after the switch — which, by
   [run_acct], are items of the TLS-layer script. *)
Lemma run_adv tee c fv bits clear tls outs choices :
  let r := run tee c fv bits clear tls outs choices in
  switched (trace r) = true ->
  incl (m_adv (r_state r)) (adv_spaces (ins_of (after_switch (trace r)))) /\
  incl (m_adv (r_state r)) (adv_spaces tls).
Proof.
  intros r Hsw. destruct (run_endinv tee c fv bits clear tls outs choices) as ((Hk & _) & _). fold r in Hk.
  pose proof (Hk Hsw) as Hi. split; [exact Hi|].
  destruct (acct_final clear tls _ (run_acct tee c fv bits clear tls outs choices)) as (_ & rest & Hr).
  fold r in Hr. unfold trace in *. intros x Hx. apply Hi in Hx. rewrite <- Hr, adv_spaces_app.
  apply in_or_app. left. exact Hx.
Qed.

(* Every data field of Session.In() (id, version, xml:lang, content name space)
   is zero or was set by a stream header consumed after the switch, once the
   handshake of the installed layer has run. *)
Lemma run_info tee c fv bits clear tls outs choices :
  let r := run tee c fv bits clear tls outs choices in
  switched (trace r) = true -> m_hs (r_state r) = false ->
  info_from (headers_of (ins_of (after_switch (trace r)))) (m_info (r_state r)) /\
  info_from (headers_of tls) (m_info (r_state r)).
Proof.
  intros r Hsw Hh. destruct (run_endinv tee c fv bits clear tls outs choices) as ((_ & Hi) & _). fold r in Hi.
  pose proof (Hi Hsw Hh) as Hx. split; [exact Hx|].
  destruct (acct_final clear tls _ (run_acct tee c fv bits clear tls outs choices)) as (_ & rest & Hr).
  fold r in Hr. unfold trace, hdrs_after in *. eapply info_from_mono; [|exact Hx].
  rewrite <- Hr. unfold headers_of. rewrite flat_map_app. apply incl_appl, incl_refl.
Qed.
