(* C02/Adv.v — what Session.Feature reports ([m_adv], the keys of s.features)
   comes from the protected stream only: once a TLS layer has been installed,
   every name space the session holds as "advertised" was a child of a
   features list consumed after the switch.  For every configuration.

   The set is emptied by negotiateSession when the negotiator returns a new
   connection, i.e. after the Negotiate call that installed the layer has
   returned all the way up; so the invariant [advinv] is one of the loop head,
   and the call chain is followed once to show that a call during which the
   layer was switched always comes back as "restart the stream"
   ([negotiator_body_adv]). *)
From Coq Require Import ZifyBool ZifyNat ZifyN.
From XV Require Import lib.Bytes gen.NegTables C02.Model C02.Frame.

Arguments N.lor : simpl never.
Arguments N.land : simpl never.

Lemma adv_spaces_app a b : adv_spaces (a ++ b) = adv_spaces a ++ adv_spaces b.
Proof. unfold adv_spaces. apply flat_map_app. Qed.

(* ------------------------------------------------------------------ steps that read no features list *)

(* the advertised set is untouched, and the "handshake pending" flag is raised
   exactly when the layer is switched *)
Definition quietly (m m' : mstate) : Prop :=
  m_adv m' = m_adv m /\
  exists d, m_tr m' = m_tr m ++ d /\ m_hs m' = (m_hs m || switched d) /\ adv_spaces (ins_of d) = adv_spaces (ins_of d).

Lemma q_refl m : quietly m m.
Proof. split; [reflexivity|]. exists []. rewrite app_nil_r, Bool.orb_false_r. auto. Qed.

Lemma q_trans m1 m2 m3 : quietly m1 m2 -> quietly m2 m3 -> quietly m1 m3.
Proof.
  intros (Ha & d1 & Ht1 & Hh1 & _) (Hb & d2 & Ht2 & Hh2 & _). split; [congruence|].
  exists (d1 ++ d2). rewrite Ht2, Ht1, app_assoc, Hh2, Hh1, switched_app, Bool.orb_assoc. auto.
Qed.

Lemma q_same m m' :
  m_adv m' = m_adv m -> m_tr m' = m_tr m -> m_hs m' = m_hs m -> quietly m m'.
Proof.
  intros Ha Ht Hh. split; [exact Ha|]. exists []. rewrite app_nil_r, Bool.orb_false_r. auto.
Qed.

Lemma q_emit e m : is_switch e = false -> quietly m (emit e m).
Proof.
  intro He. split; [reflexivity|]. exists [e]. cbn [m_tr emit m_hs switched existsb]. rewrite He.
  cbn. rewrite Bool.orb_false_r. auto.
Qed.

Lemma read_q rp m m' r : read rp m = (m', r) -> quietly m m'.
Proof.
  unfold read. destruct (m_in m); intro H; inversion H; subst.
  - apply q_emit. reflexivity.
  - apply q_trans with (m2 := set_in l m); [apply q_same; reflexivity|apply q_emit; reflexivity].
Qed.

(* a result that asks for a stream restart *)
Definition restarting (r : res (N * bool)) : Prop := exists mask, r = Good (mask, true).

Lemma starttls_negotiate_q c m m' o :
  starttls_negotiate c m = (m', o) ->
  quietly m m' /\ (m_hs m = false -> m_hs m' = true -> o_restart o = true /\ o_err o = false).
Proof.
  unfold starttls_negotiate.
  set (ma := emit (EOut (WElem ns_StartTLS str_starttls)) m).
  assert (quietly m ma) as Hqa by (apply q_emit; reflexivity).
  destruct (read RPReply ma) as [m2 r] eqn:E. pose proof (read_q _ _ _ _ E) as Hq2.
  pose proof (q_trans _ _ _ Hqa Hq2) as Hq.
  destruct (is_proceed r); intro H; inversion H; subst.
  - split; [|cbn; auto]. eapply q_trans; [exact Hq|].
    split; [reflexivity|]. exists [ESwitch (tls_name c m2)]. cbn. rewrite Bool.orb_true_r. auto.
  - split; [exact Hq|]. intros H0 H1. destruct Hq as (_ & d & Ht & Hh & _).
    (* no switch happened: every event of d is an EOut / EIn / EEof *)
    exfalso. clear H.
    destruct Hqa as (_ & da & Hta & Hha & _). destruct Hq2 as (_ & db & Htb & Hhb & _).
    assert (m_hs ma = m_hs m) as E1 by reflexivity.
    assert (m_hs m' = m_hs ma) as E2.
    { revert E. unfold read. destruct (m_in ma); intro E; inversion E; subst; reflexivity. }
    congruence.
Qed.

Lemma negotiate_one_q c m f m' o :
  negotiate_one c m f = (m', o) ->
  quietly m m' /\ (m_hs m = false -> m_hs m' = true -> o_restart o = true /\ o_err o = false).
Proof.
  unfold negotiate_one. destruct (f_kind f).
  - intro H; inversion H; subst. split.
    + apply q_trans with (m2 := set_outs (tl (m_outs m)) m); [apply q_same; reflexivity|apply q_emit; reflexivity].
    + cbn. congruence.
  - destruct (starttls_negotiate c m) as [m1 o1] eqn:E. destruct (starttls_negotiate_q _ _ _ _ E) as (Hq & Hb).
    intro H; inversion H; subst. split; [eapply q_trans; [exact Hq|apply q_emit; reflexivity]|exact Hb].
Qed.

Lemma after_pick_q c m req f m' r :
  after_pick c m req f = (m', r) ->
  quietly m m' /\ (m_hs m = false -> m_hs m' = true -> exists mask, r = Good (Some (mask, true))).
Proof.
  unfold after_pick. destruct (negotiate_one c m f) as [m1 o] eqn:E.
  destruct (negotiate_one_q _ _ _ _ _ E) as (Hq & Hb).
  destruct (o_err o) eqn:Ee.
  - intro H; inversion H; subst. split.
    + eapply q_trans; [exact Hq|apply q_same; reflexivity].
    + intros H0 H1. destruct (Hb H0 H1) as (_ & Hx). congruence.
  - set (m2 := set_bits (N.lor (m_bits m1) (o_mask o)) m1).
    assert (quietly m (set_negd (f_space f :: m_negd m2) m2)) as Hq3
      by (eapply q_trans; [exact Hq|apply q_same; reflexivity]).
    destruct (o_restart o || req) eqn:Er; intro H; inversion H; subst; (split; [exact Hq3|]).
    + intros H0 H1. destruct (Hb H0 H1) as (Hx & _). rewrite Hx. eauto.
    + intros H0 H1. destruct (Hb H0 H1) as (Hx & _). rewrite Hx in Er. discriminate.
Qed.

Lemma select_q m m' r : select m = (m', r) -> quietly m m'.
Proof.
  unfold select. destruct (candidates m) as [|e0 cands]; [intro H; inversion H; subst; apply q_refl|].
  destruct (m_choices m) as [|ch rest]; [intro H; inversion H; subst; apply q_refl|].
  destruct (cache_get ch (e0 :: cands)) as [e|];
    [destruct (fst e && existsb (fun x => negb (fst x)) (e0 :: cands))|];
    intro H; inversion H; subst; apply q_same; reflexivity.
Qed.

Lemma hs_of_quiet m m' : quietly m m' -> m_hs m = false -> m_hs m' = false \/ m_hs m' = true.
Proof. intros _ _. destruct (m_hs m'); auto. Qed.

Lemma init_loop_q c : forall fuel m forced m' r,
  init_loop fuel c m forced = (m', r) ->
  quietly m m' /\ (m_hs m = false -> m_hs m' = true -> restarting r).
Proof.
  induction fuel as [|k IH]; intros m forced m' r H; cbn [init_loop] in H.
  - inversion H; subst. split; [apply q_refl|congruence].
  - destruct forced as [f|].
    + destruct (m_choices m) as [|ch rest]; [inversion H; subst; split; [apply q_refl|congruence]|].
      assert (quietly m (set_choices rest m)) as Hq0 by (apply q_same; reflexivity).
      destruct (negb (bytes_eqb ch (f_space f))).
      * inversion H; subst. split; [exact Hq0|cbn; congruence].
      * destruct (after_pick c (set_choices rest m) true f) as [m1 r1] eqn:E.
        destruct (after_pick_q _ _ _ _ _ _ E) as (Hq & Hb).
        assert (quietly m m1) as Hq1 by exact (q_trans _ _ _ Hq0 Hq).
        destruct r1 as [[x|]|e|]; inversion H; subst; (split; [exact Hq1|]); intros H0 H1;
          destruct (Hb H0 H1) as (mask & Hx); try discriminate.
        inversion Hx; subst. exists mask. reflexivity.
    + destruct (select m) as [m1 r1] eqn:Es. pose proof (select_q _ _ _ Es) as Hqs.
      assert (m_hs m1 = m_hs m) as Hhs.
      { revert Es. unfold select. destruct (candidates m) as [|e0 cands]; [intro X; inversion X; reflexivity|].
        destruct (m_choices m) as [|ch rest]; [intro X; inversion X; reflexivity|].
        destruct (cache_get ch (e0 :: cands)) as [e|];
          [destruct (fst e && existsb (fun x => negb (fst x)) (e0 :: cands))|];
          intro X; inversion X; reflexivity. }
      destruct r1 as [[[req f]|]|e|]; try solve [inversion H; subst; split; [exact Hqs|congruence]].
      destruct (after_pick c m1 req f) as [m2 r2] eqn:E.
      destruct (after_pick_q _ _ _ _ _ _ E) as (Hq & Hb).
      assert (quietly m m2) as Hq2 by exact (q_trans _ _ _ Hqs Hq).
      destruct r2 as [[x|]|e|].
      * inversion H; subst. split; [exact Hq2|]. intros H0 H1.
        destruct (Hb (eq_trans Hhs H0) H1) as (mask & Hx). inversion Hx; subst. exists mask. reflexivity.
      * destruct (IH _ _ _ _ H) as (Hq3 & Hb3). split; [exact (q_trans _ _ _ Hq2 Hq3)|].
        intros H0 H1. apply Hb3; [|exact H1].
        destruct (m_hs m2) eqn:E2; [|reflexivity].
        destruct (Hb (eq_trans Hhs H0) eq_refl) as (mask & Hx). discriminate.
      * inversion H; subst. split; [exact Hq2|]. intros H0 H1.
        destruct (Hb (eq_trans Hhs H0) H1) as (mask & Hx). discriminate.
      * inversion H; subst. split; [exact Hq2|]. intros H0 H1.
        destruct (Hb (eq_trans Hhs H0) H1) as (mask & Hx). discriminate.
Qed.

Lemma normal_path_q c m m' r :
  normal_path c m = (m', r) -> quietly m m' /\ (m_hs m = false -> m_hs m' = true -> restarting r).
Proof.
  unfold normal_path. destruct (m_total m); [intro H; inversion H; subst; split; [apply q_refl|congruence]|].
  destruct (m_cache m); [intro H; inversion H; subst; split; [apply q_refl|congruence]|].
  apply init_loop_q.
Qed.

Lemma after_read_q c m first m' r :
  after_read c m first = (m', r) -> quietly m m' /\ (m_hs m = false -> m_hs m' = true -> restarting r).
Proof.
  unfold after_read.
  destruct (if first && negb match cache_get ns_StartTLS (m_cache m) with Some _ => true | None => false end
               && negb (has (m_bits m) st_Secure)
            then find_space ns_StartTLS (c_feats c) else None) as [f|].
  - destruct (f_neg f && eligible f (m_bits m)); [apply init_loop_q|apply normal_path_q].
  - apply normal_path_q.
Qed.

(* ------------------------------------------------------------------ reading a features list *)

Lemma read_children_adv fs st cs : forall m ca tot lr m' r,
  read_children fs st cs m ca tot lr = (m', r) ->
  incl (m_adv m') (child_spaces cs ++ m_adv m) /\ m_hs m' = m_hs m /\
  exists d, m_tr m' = m_tr m ++ d /\ switched d = false /\ ins_of d = [].
Proof.
  induction cs as [|ch cs IH]; intros m ca tot lr m' r H; cbn [read_children] in H.
  - inversion H; subst. split; [apply incl_refl|]. split; [reflexivity|]. exists []. rewrite app_nil_r. auto.
  - destruct ch as [sp lo req perr|].
    + cbn [child_spaces flat_map app].
      assert (forall mm rr, (mm, rr) = (m', r) -> mm = add_adv sp m \/ (exists f, mm = emit (EParse f) (add_adv sp m)) ->
                             incl (m_adv m') (sp :: child_spaces cs ++ m_adv m) /\ m_hs m' = m_hs m /\
                             exists d, m_tr m' = m_tr m ++ d /\ switched d = false /\ ins_of d = []) as Hstop.
      { intros mm rr Heq [Hm|(f & Hm)]; inversion Heq; subst; cbn [m_adv m_hs m_tr emit add_adv set_adv].
        - split; [intros x Hx; destruct Hx as [Hx|Hx]; [left; exact Hx|right; apply in_or_app; right; exact Hx]|].
          split; [reflexivity|]. exists []. rewrite app_nil_r. auto.
        - split; [intros x Hx; destruct Hx as [Hx|Hx]; [left; exact Hx|right; apply in_or_app; right; exact Hx]|].
          split; [reflexivity|]. exists [EParse f]. auto. }
      assert (forall mm d0, m_adv mm = sp :: m_adv m -> m_hs mm = m_hs m -> m_tr mm = m_tr m ++ d0 ->
                            switched d0 = false -> ins_of d0 = [] ->
                            forall ca' tot' lr', read_children fs st cs mm ca' tot' lr' = (m', r) ->
                             incl (m_adv m') (sp :: child_spaces cs ++ m_adv m) /\ m_hs m' = m_hs m /\
                             exists d, m_tr m' = m_tr m ++ d /\ switched d = false /\ ins_of d = []) as Hgo.
      { intros mm d0 Ha Hh Ht Hs Hi ca' tot' lr' Hr.
        destruct (IH _ _ _ _ _ _ Hr) as (Hinc & Hhs & d1 & Ht1 & Hs1 & Hi1).
        split.
        - intros x Hx. apply Hinc in Hx. apply in_app_or in Hx. destruct Hx as [Hx|Hx].
          + right. apply in_or_app. left. exact Hx.
          + rewrite Ha in Hx. destruct Hx as [Hx|Hx]; [left; exact Hx|right; apply in_or_app; right; exact Hx].
        - split; [congruence|]. exists (d0 ++ d1). rewrite Ht1, Ht, app_assoc, switched_app, ins_of_app, Hs, Hs1, Hi, Hi1. auto. }
      destruct (get_feature (sp, lo) fs) as [f|].
      * destruct perr.
        -- eapply Hstop; [exact H|]. right. eauto.
        -- eapply (Hgo (emit (EParse f) (add_adv sp m)) [EParse f]); try reflexivity. exact H.
      * eapply (Hgo (add_adv sp m) []); try reflexivity; [cbn; rewrite app_nil_r; reflexivity|exact H].
    + inversion H; subst. split; [apply incl_appr, incl_refl|]. split; [reflexivity|]. exists []. rewrite app_nil_r. auto.
Qed.

Lemma features_of_some r cs : features_of r = Some cs -> r = Some (mkItem false (PFeatures cs)).
Proof.
  destruct r as [[sp b]|]; [|discriminate]. destruct sp; [discriminate|]. destruct b; try discriminate.
  cbn. intro H; inversion H; subst. reflexivity.
Qed.

(* what one negotiateFeatures call does to the advertised set and the flag *)
Definition step_adv (m m' : mstate) : Prop :=
  exists d, m_tr m' = m_tr m ++ d /\
            incl (m_adv m') (m_adv m ++ adv_spaces (ins_of d)) /\
            m_hs m' = (m_hs m || switched d).

Lemma quietly_step m m' : quietly m m' -> step_adv m m'.
Proof.
  intros (Ha & d & Ht & Hh & _). exists d. split; [exact Ht|]. split; [|exact Hh].
  rewrite Ha. apply incl_appl, incl_refl.
Qed.

Lemma step_trans m1 m2 m3 : step_adv m1 m2 -> step_adv m2 m3 -> step_adv m1 m3.
Proof.
  intros (d1 & Ht1 & Hi1 & Hh1) (d2 & Ht2 & Hi2 & Hh2). exists (d1 ++ d2).
  rewrite Ht2, Ht1, app_assoc, Hh2, Hh1, switched_app, Bool.orb_assoc, ins_of_app, adv_spaces_app.
  split; [reflexivity|]. split; [|reflexivity].
  intros x Hx. apply Hi2 in Hx. apply in_app_or in Hx. destruct Hx as [Hx|Hx].
  - apply Hi1 in Hx. apply in_app_or in Hx. destruct Hx as [Hx|Hx]; apply in_or_app; [left; exact Hx|].
    right. apply in_or_app. left. exact Hx.
  - apply in_or_app. right. apply in_or_app. right. exact Hx.
Qed.

Lemma negotiate_features_adv c m first m' r :
  negotiate_features c m first = (m', r) ->
  step_adv m m' /\ (m_hs m = false -> m_hs m' = true -> restarting r).
Proof.
  unfold negotiate_features. destruct (read RPFeatures m) as [m1 x] eqn:Er.
  pose proof (read_q _ _ _ _ Er) as Hq1.
  assert (m_hs m1 = m_hs m) as Hh1
    by (revert Er; unfold read; destruct (m_in m); intro X; inversion X; reflexivity).
  destruct (features_of x) as [cs|] eqn:Ef.
  - apply features_of_some in Ef. subst x.
    (* the item just delivered is the features list whose children are read *)
    assert (exists d0, m_tr m1 = m_tr m ++ d0 /\ switched d0 = false /\ adv_spaces (ins_of d0) = child_spaces cs) as (d0 & Ht0 & Hs0 & Ha0).
    { revert Er. unfold read. destruct (m_in m) as [|it rest]; intro X; inversion X; subst.
      eexists. split; [reflexivity|]. split; [reflexivity|]. cbn. rewrite app_nil_r. reflexivity. }
    assert (m_adv m1 = m_adv m) as Had1 by (destruct Hq1 as (Ha & _); exact Ha).
    destruct (read_children (c_feats c) (m_bits m1) cs m1 [] 0 false) as [m2 r2] eqn:Ec.
    destruct (read_children_adv _ _ _ _ _ _ _ _ _ Ec) as (Hinc & Hh2 & d1 & Ht1 & Hs1 & Hi1).
    assert (step_adv m m2) as Hs2.
    { exists (d0 ++ d1). rewrite Ht1, Ht0, app_assoc, switched_app, Hs0, Hs1, ins_of_app, Hi1, app_nil_r, Ha0.
      split; [reflexivity|]. split; [|rewrite Hh2, Hh1, Bool.orb_false_r; reflexivity].
      intros y Hy. apply Hinc in Hy. rewrite Had1 in Hy. apply in_app_or in Hy. apply in_or_app. tauto. }
    destruct r2 as [[[ca tot] lr]|e|].
    + intro H. destruct (after_read_q _ _ _ _ _ H) as (Hq3 & Hb3).
      split.
      * eapply step_trans; [exact Hs2|]. apply quietly_step.
        eapply q_trans; [|exact Hq3]. apply q_same; reflexivity.
      * intros H0 H1. apply Hb3; [|exact H1]. cbn [m_hs set_list]. congruence.
    + intro H; inversion H; subst. split; [exact Hs2|]. intros H0 H1. congruence.
    + intro H; inversion H; subst. split; [exact Hs2|]. intros H0 H1. congruence.
  - intro H; inversion H; subst. split; [apply quietly_step; exact Hq1|]. congruence.
Qed.

(* ------------------------------------------------------------------ the handshake flag *)

(* a pending handshake means a TLS layer is there *)
Definition hs_tls (m : mstate) : Prop := m_hs m = true -> m_tls m = true.

Lemma hs_tls_prim c m m' : prim c m m' -> hs_tls m -> hs_tls m'.
Proof.
  intros Hp. destruct Hp; unfold hs_tls; cbn; auto. discriminate.
Qed.

Lemma read_hs rp m m' r : read rp m = (m', r) -> m_hs m' = m_hs m /\ m_adv m' = m_adv m /\
  exists d, m_tr m' = m_tr m ++ d /\ switched d = false.
Proof.
  unfold read. destruct (m_in m); intro H; inversion H; subst; cbn [m_hs m_adv m_tr emit set_in];
    (split; [reflexivity|split; [reflexivity|eexists; split; [reflexivity|reflexivity]]]).
Qed.

(* the header exchange: no features list is read, no layer is switched, and
   when it succeeds on a restart no handshake is pending any more *)
Lemma headers_adv c m ns m1 r1 :
  headers c m ns = (m1, r1) -> hs_tls m ->
  m_adv m1 = m_adv m /\ (exists d, m_tr m1 = m_tr m ++ d /\ switched d = false) /\
  (m_hs m = false -> m_hs m1 = false) /\
  (ns_restart ns = true -> r1 = Good tt -> m_hs m1 = false).
Proof.
  unfold headers. intros H Hht. destruct (ns_restart ns).
  - unfold send_header in H. destruct (m_tls m && m_hs m) eqn:Eth.
    + destruct (c_hs_ok c).
      * set (ma := emit (EOut WHeader) (emit (EHandshake true) (set_hs false m))) in H.
        unfold expect_header in H. destruct (read RPHeader ma) as [mb x] eqn:Er.
        destruct (read_hs _ _ _ _ Er) as (Hh & Ha & d & Ht & Hs). inversion H; subst.
        split; [exact Ha|]. split.
        { exists ([EHandshake true; EOut WHeader] ++ d). rewrite Ht. unfold ma. cbn [m_tr emit set_hs].
          rewrite <- !app_assoc. cbn [app]. split; [reflexivity|]. cbn. exact Hs. }
        rewrite Hh. cbn. auto.
      * inversion H; subst. cbn [m_adv m_tr m_hs emit set_hs]. split; [reflexivity|].
        split; [exists [EHandshake false]; auto|]. split; [auto|discriminate].
    + assert (m_hs m = false) as Hf.
      { destruct (m_hs m) eqn:E; [|reflexivity]. rewrite (Hht E) in Eth. discriminate. }
      set (ma := emit (EOut WHeader) m) in H.
      unfold expect_header in H. destruct (read RPHeader ma) as [mb x] eqn:Er.
      destruct (read_hs _ _ _ _ Er) as (Hh & Ha & d & Ht & Hs). inversion H; subst.
      split; [exact Ha|]. split.
      { exists ([EOut WHeader] ++ d). rewrite Ht. unfold ma. cbn [m_tr emit]. rewrite <- app_assoc.
        split; [reflexivity|]. cbn. exact Hs. }
      rewrite Hh. cbn [m_hs emit]. auto.
  - inversion H; subst. split; [reflexivity|]. split; [exists []; rewrite app_nil_r; auto|]. split; [auto|discriminate].
Qed.

(* one negotiator call *)
Lemma negotiator_body_adv c m ns m' r :
  negotiator_body c m ns = (m', r) -> hs_tls m -> (m_hs m = true -> ns_restart ns = true) ->
  exists d, m_tr m' = m_tr m ++ d /\
            incl (m_adv m') (m_adv m ++ adv_spaces (ins_of d)) /\
            (switched d = true -> exists mask ns1, r = Good (mask, true, ns1)) /\
            (forall mask ns1, r = Good (mask, false, ns1) -> m_hs m' = false) /\
            (forall mask restart ns1, r = Good (mask, restart, ns1) -> ns_restart ns1 = restart).
Proof.
  rewrite negotiator_body_unfold. intros H Hht Hns.
  destruct (headers c m ns) as [m1 r1] eqn:Eh.
  destruct (headers_adv _ _ _ _ _ Eh Hht) as (Ha1 & (d1 & Ht1 & Hs1) & Hf1 & Hg1).
  destruct r1 as [u|e|].
  - assert (m_hs m1 = false) as Hh1.
    { destruct (m_hs m) eqn:E; [|apply Hf1; reflexivity]. destruct u. apply Hg1; [apply Hns; reflexivity|reflexivity]. }
    destruct (negotiate_features c m1 (ns_first ns)) as [m2 r2] eqn:En.
    destruct (negotiate_features_adv _ _ _ _ _ En) as ((d2 & Ht2 & Hi2 & Hh2) & Hb2).
    rewrite Hh1 in Hh2. cbn [orb] in Hh2.
    exists (d1 ++ d2). rewrite switched_app, Hs1, ins_of_app, adv_spaces_app. cbn [orb].
    split; [destruct r2 as [[mask restart]|e|]; inversion H; subst; rewrite Ht2, Ht1, app_assoc; reflexivity|].
    split.
    { assert (m_adv m' = m_adv m2) as Hm by (destruct r2 as [[mask restart]|e|]; inversion H; subst; reflexivity).
      rewrite Hm. intros x Hx. apply Hi2 in Hx. rewrite Ha1 in Hx. apply in_app_or in Hx.
      apply in_or_app. destruct Hx as [Hx|Hx]; [left; exact Hx|right; apply in_or_app; right; exact Hx]. }
    split.
    { intro Hsw. rewrite Hsw in Hh2. destruct (Hb2 Hh1 Hh2) as (mask & Hr). subst r2.
      inversion H; subst. eauto. }
    split.
    { intros mask ns1 Hr. destruct r2 as [[mask2 restart2]|e|]; rewrite Hr in H; inversion H; subst.
      destruct (m_hs m') eqn:E; [|reflexivity]. destruct (Hb2 Hh1 eq_refl) as (mk & Hx). inversion Hx. }
    { intros mask restart ns1 Hr. destruct r2 as [[mask2 restart2]|e|]; rewrite Hr in H; inversion H; subst. reflexivity. }
  - inversion H; subst. exists d1. rewrite Hs1, Ha1. split; [exact Ht1|]. split; [apply incl_appl, incl_refl|].
    split; [discriminate|]. split; intros; discriminate.
  - inversion H; subst. exists d1. rewrite Hs1, Ha1. split; [exact Ht1|]. split; [apply incl_appl, incl_refl|].
    split; [discriminate|]. split; intros; discriminate.
Qed.

(* ------------------------------------------------------------------ the invariant of negotiateSession's loop *)

Definition advinv (m : mstate) : Prop :=
  switched (m_tr m) = true -> incl (m_adv m) (adv_spaces (ins_of (after_switch (m_tr m)))).

Lemma advinv_ext m m' d :
  advinv m -> m_tr m' = m_tr m ++ d -> switched d = false ->
  incl (m_adv m') (m_adv m ++ adv_spaces (ins_of d)) -> advinv m'.
Proof.
  intros Hk Ht Hs Hi. unfold advinv. rewrite Ht, switched_app, Hs, Bool.orb_false_r, after_switch_app.
  intro Hsw. rewrite Hsw, ins_of_app, adv_spaces_app.
  intros x Hx. apply Hi in Hx. apply in_app_or in Hx. apply in_or_app.
  destruct Hx as [Hx|Hx]; [left; apply (Hk Hsw); exact Hx|right; exact Hx].
Qed.

Lemma advinv_empty m : m_adv m = [] -> advinv m.
Proof. intros He _. rewrite He. intros x []. Qed.

Definition loopinv (m : mstate) (data : option nstate) : Prop :=
  advinv m /\ hs_tls m /\ (m_hs m = true -> ns_restart (ns_of data) = true).

Lemma loop_adv c : forall fuel tee m data istee,
  loopinv m data -> advinv (r_state (session_loop fuel tee c m data istee)).
Proof.
  induction fuel as [|k IH]; intros tee m data istee (Hk & Hht & Hns); [exact Hk|].
  rewrite session_loop_S. destruct (has (m_bits m) st_Ready); [exact Hk|].
  destruct (tee && negb istee).
  - apply IH. split; [apply advinv_empty; reflexivity|]. split; [exact Hht|exact Hns].
  - destruct (negotiator_body c m (ns_of data)) as [m1 r] eqn:Eb.
    destruct (negotiator_body_adv _ _ _ _ _ Eb Hht Hns) as (d & Ht & Hi & Hsw & Hnr & Hn1).
    pose proof (evolves_inv c hs_tls (hs_tls_prim c) _ _ (negotiator_body_ev _ _ _ _ _ Eb) Hht) as Hht1.
    destruct r as [[[mask restart] ns1]|e|].
    + apply IH. destruct restart.
      * split; [apply advinv_empty; reflexivity|]. split; [exact Hht1|].
        intros _. cbn [ns_of]. apply (Hn1 _ _ _ eq_refl).
      * split.
        { apply (advinv_ext m _ d Hk); [exact Ht| |exact Hi].
          destruct (switched d) eqn:E; [|reflexivity]. destruct (Hsw eq_refl) as (mk & n1 & Hx). inversion Hx. }
        split; [exact Hht1|]. cbn [m_hs set_bits]. rewrite (Hnr _ _ eq_refl). discriminate.
    + cbn [r_state]. apply (advinv_ext m _ d Hk); [exact Ht| |exact Hi].
      destruct (switched d) eqn:E; [|reflexivity]. destruct (Hsw eq_refl) as (mk & n1 & Hx). discriminate.
    + cbn [r_state]. apply (advinv_ext m _ d Hk); [exact Ht| |exact Hi].
      destruct (switched d) eqn:E; [|reflexivity]. destruct (Hsw eq_refl) as (mk & n1 & Hx). discriminate.
Qed.

(* What the session reports as advertised once a TLS layer has been installed
   was advertised by features lists consumed after the switch — which, by
   [run_acct], are items of the TLS-layer script. *)
Lemma run_adv tee c fv bits clear tls outs choices :
  let r := run tee c fv bits clear tls outs choices in
  switched (trace r) = true ->
  incl (m_adv (r_state r)) (adv_spaces (ins_of (after_switch (trace r)))) /\
  incl (m_adv (r_state r)) (adv_spaces tls).
Proof.
  intros r Hsw.
  assert (advinv (r_state r)) as Hk.
  { unfold r, run. apply loop_adv. split; [intro H; discriminate|]. split; [intro H; discriminate|intro H; discriminate]. }
  pose proof (Hk Hsw) as Hi. split; [exact Hi|].
  destruct (acct_final clear tls _ (run_acct tee c fv bits clear tls outs choices)) as (_ & rest & Hr).
  fold r in Hr. unfold trace in *. intros x Hx. apply Hi in Hx. rewrite <- Hr, adv_spaces_app.
  apply in_or_app. left. exact Hx.
Qed.
