(* C02/Phase.v — the phases of a C02 run.  An automaton over the trace
   ([astep]) says what may happen when: nothing is written in clear text but
   one stream header and then one STARTTLS request; the state bits seen by
   every read and callback in clear text are the initial ones; the only
   Negotiate that runs there is STARTTLS's; a TLS layer is installed only
   after the request; its handshake runs before anything else is written.
   The invariant [linv] ties the automaton's phase to the machine state at the
   head of negotiateSession's loop, for every configuration admitted by
   [c02_config] and every input. *)
From Coq Require Import ZifyBool ZifyNat ZifyN.
From XV Require Import lib.Bytes gen.NegTables C02.Model C02.Frame.

Arguments N.lor : simpl never.
Arguments N.land : simpl never.

(* ------------------------------------------------------------------ bit facts *)

Ltac bitwise :=
  let bi := fresh "bi" in
  apply N.bits_inj; intro bi;
  repeat match goal with
         | H : @eq N _ _ |- _ => apply (f_equal (fun z => N.testbit z bi)) in H; cbn beta in H
         end;
  repeat (rewrite ?N.lor_spec, ?N.land_spec, ?N.bits_0 in * );
  repeat match goal with
         | |- context[N.testbit ?x bi] => destruct (N.testbit x bi)
         | H : context[N.testbit ?x bi] |- _ => destruct (N.testbit x bi)
         end; cbn in *; congruence.

Lemma has_true st m : has st m = true <-> N.land st m = m.
Proof. unfold has. apply N.eqb_eq. Qed.

Lemma has_lor st x m : has st m = true -> has (N.lor st x) m = true.
Proof. rewrite !has_true. intro H. bitwise. Qed.

Lemma has_lor_r st m : has (N.lor st m) m = true.
Proof. rewrite has_true. bitwise. Qed.

Lemma land_sub a b c : N.land a b = 0%N -> N.land c b = c -> N.land a c = 0%N.
Proof. intros H1 H2. bitwise. Qed.

Lemma lor_0_r_ x : N.lor x 0 = x.
Proof. apply N.lor_0_r. Qed.

(* the tables of session.go / starttls.go as the proofs use them *)
Lemma tbl_secure_sub : N.land st_Secure (N.lor gate (N.lor st_Ready st_Received)) = st_Secure.
Proof. reflexivity. Qed.
Lemma tbl_ready_sub : N.land st_Ready (N.lor gate (N.lor st_Ready st_Received)) = st_Ready.
Proof. reflexivity. Qed.
Lemma tbl_gate_sub : N.land gate (N.lor gate (N.lor st_Ready st_Received)) = gate.
Proof. reflexivity. Qed.
Lemma tbl_ready_nz : st_Ready <> 0%N.
Proof. discriminate. Qed.
Lemma tbl_secure_nz : st_Secure <> 0%N.
Proof. discriminate. Qed.
Lemma tbl_secure_ready : N.land st_Secure st_Ready = 0%N.
Proof. reflexivity. Qed.
Lemma tbl_starttls_proh : ft_starttls_proh = st_Secure.
Proof. reflexivity. Qed.
Lemma tbl_starttls_nec : ft_starttls_nec = 0%N.
Proof. reflexivity. Qed.
Lemma tbl_secure_minus_ready : N.ldiff st_Secure st_Ready = st_Secure.
Proof. reflexivity. Qed.

Section Bits.
  Variable b0 : N.
  Hypothesis Hb0 : c02_bits b0 = true.

  Lemma b0_mask : N.land b0 (N.lor gate (N.lor st_Ready st_Received)) = 0%N.
  Proof. unfold c02_bits in Hb0. apply N.eqb_eq. exact Hb0. Qed.

  Lemma b0_ready : has b0 st_Ready = false.
  Proof.
    unfold has. apply N.eqb_neq. rewrite (land_sub _ _ _ b0_mask tbl_ready_sub). intro H. symmetry in H.
    exact (tbl_ready_nz H).
  Qed.

  Lemma b0_secure : has b0 st_Secure = false.
  Proof.
    unfold has. apply N.eqb_neq. rewrite (land_sub _ _ _ b0_mask tbl_secure_sub). intro H. symmetry in H.
    exact (tbl_secure_nz H).
  Qed.

  Lemma b0_gate : N.land b0 gate = 0%N.
  Proof. exact (land_sub _ _ _ b0_mask tbl_gate_sub). Qed.

  Lemma b0s_ready : has (N.lor b0 st_Secure) st_Ready = false.
  Proof.
    unfold has. apply N.eqb_neq.
    assert (N.land (N.lor b0 st_Secure) st_Ready = 0%N) as Hz.
    { pose proof (land_sub _ _ _ b0_mask tbl_ready_sub) as H1. pose proof tbl_secure_ready as H2. bitwise. }
    rewrite Hz. intro H. symmetry in H. exact (tbl_ready_nz H).
  Qed.

  (* a feature that needs Secure or Authn cannot be selected at b0 *)
  Lemma b0_not_eligible f : N.land (f_nec f) gate <> 0%N -> eligible f b0 = false.
  Proof.
    intro Hn. unfold eligible. destruct (has b0 (f_nec f)) eqn:E; [|reflexivity]. exfalso. apply Hn.
    apply has_true in E. pose proof b0_gate as Hg. bitwise.
  Qed.
End Bits.

(* once Secure is set the STARTTLS feature is out *)
Lemma secure_not_eligible f st :
  f_proh f = ft_starttls_proh -> has st st_Secure = true -> eligible f st = false.
Proof.
  intros Hp Hs. unfold eligible, disj. rewrite Hp, tbl_starttls_proh.
  apply has_true in Hs. rewrite Hs. cbn. apply Bool.andb_false_r.
Qed.

(* ------------------------------------------------------------------ admitted configurations *)

Definition is_tls_kind (f : feature) : bool :=
  match f_kind f with KStartTLS => true | KAbstract => false end.

Lemma gated_cases f : gated f = true ->
  (is_tls_kind f = true /\ f_neg f = true /\ f_proh f = ft_starttls_proh /\ f_nec f = ft_starttls_nec
   /\ f_space f = ns_StartTLS) \/
  (is_tls_kind f = false /\ N.land (f_nec f) gate <> 0%N /\ f_space f <> ns_StartTLS).
Proof.
  unfold gated, is_tls_kind. destruct (bytes_eqb (f_space f) ns_StartTLS) eqn:Es.
  - intro H. left. apply bytes_eqb_eq in Es.
    destruct (f_kind f); repeat (apply andb_prop in H; destruct H as [H ?]); try discriminate.
    repeat split; auto; apply N.eqb_eq; assumption.
  - intro H. right. apply andb_prop in H. destruct H as [Hn Hk].
    destruct (f_kind f); try discriminate. repeat split.
    + apply Bool.negb_true_iff in Hn. apply N.eqb_neq. exact Hn.
    + intro He. rewrite He in Es. rewrite (proj2 (bytes_eqb_eq _ _) eq_refl) in Es. discriminate.
Qed.

Lemma get_feature_in n fs f : get_feature n fs = Some f -> In f fs.
Proof.
  induction fs as [|g fs IH]; cbn; [discriminate|].
  destruct (name_eqb (fname g) n); intro H; [inversion H; auto|auto].
Qed.

Lemma find_space_in s fs f : find_space s fs = Some f -> In f fs /\ f_space f = s.
Proof.
  induction fs as [|g fs IH]; cbn; [discriminate|].
  destruct (bytes_eqb (f_space g) s) eqn:E; intro H.
  - inversion H; subst. split; [auto|]. apply bytes_eqb_eq. exact E.
  - destruct (IH H). auto.
Qed.

Section Config.
  Variable c : config.
  Hypothesis Hc : c02_config c = true.
  Variable b0 : N.
  Hypothesis Hb0 : c02_bits b0 = true.

  Lemma cfg_gated f : In f (c_feats c) -> gated f = true.
  Proof.
    unfold c02_config in Hc. apply andb_prop in Hc. destruct Hc as [Hf _].
    rewrite forallb_forall in Hf. apply Hf.
  Qed.

  Lemma cfg_has_tls : exists f, find_space ns_StartTLS (c_feats c) = Some f.
  Proof.
    unfold c02_config in Hc. apply andb_prop in Hc. destruct Hc as [_ Hs].
    destruct (find_space ns_StartTLS (c_feats c)) as [f|]; [eauto|discriminate].
  Qed.

  (* ---------------------------------------------------------------- the automaton *)

  Inductive phase := P0 | P1 | P2 | P3 | P4 | P5.

  Definition astep (p : phase) (e : event) : option phase :=
    match e with
    | EOut w =>
        match p with
        | P0 => match w with WHeader => Some P1 | _ => None end
        | P1 => if witem_eqb w starttls_request then Some P2 else None
        | P4 => Some P4
        | _ => None
        end
    | EIn _ st _ =>
        match p with
        | P0 | P1 | P2 => if N.eqb st b0 then Some p else None
        | _ => Some p
        end
    | EEof _ => Some p
    | EParse _ => Some p
    | ENeg f st _ =>
        match p with
        | P2 | P3 => if N.eqb st b0 && is_tls_kind f then Some p else None
        | P4 => Some P4
        | _ => None
        end
    | ESwitch _ => match p with P2 => Some P3 | _ => None end
    | EHandshake ok => match p with P3 => Some (if ok then P4 else P5) | _ => None end
    end.

  Definition astep' (s : option phase) (e : event) : option phase :=
    match s with Some p => astep p e | None => None end.

  Definition aut (tr : list event) : option phase := fold_left astep' tr (Some P0).

  Lemma aut_snoc tr e : aut (tr ++ [e]) = astep' (aut tr) e.
  Proof. unfold aut. rewrite fold_left_app. reflexivity. Qed.

  Lemma aut_emit e m : aut (m_tr (emit e m)) = astep' (aut (m_tr m)) e.
  Proof. cbn [m_tr emit]. apply aut_snoc. Qed.

  (* ---------------------------------------------------------------- what acceptance means *)

  Definition sw (p : phase) : bool := match p with P3 | P4 | P5 => true | _ => false end.
  Definition couts (p : phase) : list witem :=
    match p with P0 => [] | P1 => [WHeader] | _ => [WHeader; starttls_request] end.
  Definition hsk (p : phase) : list bool :=
    match p with P4 => [true] | P5 => [false] | _ => [] end.

  Definition facts (p : phase) (tr : list event) : Prop :=
    switched tr = sw p /\
    outs_of (before_switch tr) = couts p /\
    handshakes tr = hsk p /\
    Forall (fun st => st = b0) (bits_seen (before_switch tr)) /\
    Forall (fun f => is_tls_kind f = true) (negs_of (before_switch tr)) /\
    length (server_names tr) = (if sw p then 1 else 0).

  Lemma witem_eqb_eq a b : witem_eqb a b = true -> a = b.
  Proof.
    destruct a, b; cbn; try discriminate; auto.
    intro H. apply andb_prop in H. destruct H as [H1 H2].
    apply bytes_eqb_eq in H1. apply bytes_eqb_eq in H2. subst. reflexivity.
  Qed.

  Lemma bits_seen_app a b : bits_seen (a ++ b) = bits_seen a ++ bits_seen b.
  Proof. unfold bits_seen. apply flat_map_app. Qed.
  Lemma negs_of_app a b : negs_of (a ++ b) = negs_of a ++ negs_of b.
  Proof. unfold negs_of. apply flat_map_app. Qed.

  Lemma facts_snoc p tr e p' : facts p tr -> astep p e = Some p' -> facts p' (tr ++ [e]).
  Proof.
    intros (Hsw & Ho & Hh & Hb & Hn & Hc1) Hs.
    assert (sw p = false -> before_switch tr = tr) as Hid
      by (intro Hf; apply before_switch_id; congruence).
    unfold facts.
    rewrite switched_app, before_switch_app, handshakes_app, server_names_app, app_length, Hc1, Hsw, Hh.
    destruct p; cbn [sw] in *; try (rewrite (Hid eq_refl) in Ho, Hb, Hn);
      (destruct e as [rp st it|rp|w|f|f st o|n|ok]; cbn [astep] in Hs;
       try discriminate;
       try (destruct (N.eqb st b0) eqn:Est; [apply N.eqb_eq in Est|]; cbn [andb] in Hs);
       try (destruct (is_tls_kind f) eqn:Ek);
       try (destruct w as [|sp lo]);
       try (destruct (witem_eqb (WElem sp lo) starttls_request) eqn:Ew; [apply witem_eqb_eq in Ew|]);
       try destruct ok;
       try discriminate;
       inversion Hs; subst p'; clear Hs;
       cbn [sw switched existsb is_switch orb before_switch app handshakes server_names length flat_map hsk];
       rewrite ?outs_of_app, ?bits_seen_app, ?negs_of_app, ?app_nil_r, ?Ho;
       cbn [outs_of bits_seen negs_of flat_map app couts];
       rewrite ?app_nil_r, ?Ho, ?Ew;
       repeat split; auto;
       try (apply Forall_app; split; [assumption|repeat constructor; assumption])).
  Qed.

  Lemma aut_facts : forall tr p, aut tr = Some p -> facts p tr.
  Proof.
    induction tr as [|e tr IH] using rev_ind; intros p H.
    - cbn in H. inversion H; subst. unfold facts; cbn. repeat split; constructor.
    - rewrite aut_snoc in H. destruct (aut tr) as [q|]; [|discriminate].
      eapply facts_snoc; [apply IH; reflexivity|exact H].
  Qed.

  (* ---------------------------------------------------------------- clear-text phases *)

  Definition clearp (p : phase) : bool := match p with P0 | P1 | P2 => true | _ => false end.

  Definition clearinv (p : phase) (m : mstate) : Prop :=
    aut (m_tr m) = Some p /\ m_tls m = false /\ m_bits m = b0.

  Lemma read_clear p rp m m' r :
    clearp p = true -> clearinv p m -> read rp m = (m', r) -> clearinv p m'.
  Proof.
    intros Hp (Ha & Ht & Hb). unfold read. destruct (m_in m) as [|it rest]; intro H; inversion H; subst.
    - split; [|auto]. rewrite aut_emit, Ha. reflexivity.
    - split; [|auto]. rewrite aut_emit. cbn [m_tr set_in m_bits]. rewrite Ha, Hb. cbn.
      rewrite N.eqb_refl. destruct p; try discriminate; reflexivity.
  Qed.

  Lemma expect_header_clear p m m' r :
    clearp p = true -> clearinv p m -> expect_header c m = (m', r) -> clearinv p m'.
  Proof.
    intros Hp Hi. unfold expect_header. destruct (read RPHeader m) as [m1 x] eqn:E.
    pose proof (read_clear p _ _ _ _ Hp Hi E) as Hi1.
    destruct (header_of x) as [h|]; [|intro H; inversion H; subst; exact Hi1].
    destruct (header_ok c (assign h (m_info m1))); intro H; inversion H; subst; exact Hi1.
  Qed.

  Lemma send_header_clear m m' r :
    clearinv P0 m -> send_header c m = (m', r) -> clearinv P1 m' /\ r = Good tt.
  Proof.
    intros (Ha & Ht & Hb). unfold send_header. rewrite Ht. cbn [andb].
    intro H; inversion H; subst. split; [|reflexivity]. split; [|auto].
    rewrite aut_emit, Ha. reflexivity.
  Qed.

  (* what is in the cache: configured features *)
  Definition cache_cfg (ca : cache) : Prop := Forall (fun e => In (snd e) (c_feats c)) ca.

  Lemma cache_remove_forall (P : centry -> Prop) s ca : Forall P ca -> Forall P (cache_remove s ca).
  Proof.
    induction 1 as [|e ca He Hca IH]; cbn; [constructor|].
    destruct (bytes_eqb (ckey e) s); [exact IH|constructor; assumption].
  Qed.

  Lemma cache_step_cfg st f req ca : In f (c_feats c) -> cache_cfg ca -> cache_cfg (cache_step st f req ca).
  Proof.
    intros Hin Hca. unfold cache_step, cache_put, cache_cfg. apply Forall_app.
    split; [apply cache_remove_forall; exact Hca|]. constructor; [exact Hin|constructor].
  Qed.

  (* in clear text only the real STARTTLS feature can be selected *)
  Lemma clear_eligible_is_tls f :
    In f (c_feats c) -> eligible f b0 = true -> is_tls_kind f = true /\ f_neg f = true.
  Proof.
    intros Hin He. destruct (gated_cases f (cfg_gated f Hin)) as [(Hk & Hn & _)|(_ & Hnec & _)]; [auto|].
    rewrite (b0_not_eligible b0 Hb0 f Hnec) in He. discriminate.
  Qed.

  Lemma tls_feature_eligible f :
    In f (c_feats c) -> f_space f = ns_StartTLS -> is_tls_kind f = true /\ f_neg f = true /\ eligible f b0 = true.
  Proof.
    intros Hin Hsp. destruct (gated_cases f (cfg_gated f Hin)) as [(Hk & Hn & Hp & Hnec & _)|(_ & _ & Hns)]; [|contradiction].
    split; [exact Hk|]. split; [exact Hn|].
    unfold eligible, has, disj. rewrite Hnec, Hp, tbl_starttls_nec, tbl_starttls_proh, N.land_0_r. cbn [N.eqb andb].
    apply N.eqb_eq. exact (land_sub _ _ _ (b0_mask b0 Hb0) tbl_secure_sub).
  Qed.

  Lemma cache_step_nonempty st f req ca : cache_step st f req ca <> [].
  Proof. unfold cache_step, cache_put. intro H. apply app_eq_nil in H. destruct H; discriminate. Qed.

  Lemma read_children_clear cs : forall m ca tot lr m' r,
    clearinv P1 m -> cache_cfg ca -> (ca <> [] -> tot <> 0) ->
    read_children (c_feats c) b0 cs m ca tot lr = (m', r) ->
    clearinv P1 m' /\
    match r with
    | Good (ca', tot', _) => cache_cfg ca' /\ (ca' <> [] -> tot' <> 0)
    | _ => True
    end.
  Proof.
    induction cs as [|ch cs IH]; intros m ca tot lr m' r Hi Hca Htot H; cbn in H.
    - inversion H; subst. auto.
    - destruct ch as [sp lo req perr|].
      + destruct (get_feature (sp, lo) (c_feats c)) as [f|] eqn:Eg.
        * assert (clearinv P1 (emit (EParse f) (add_adv sp m))) as Hi1.
          { destruct Hi as (Ha & Ht & Hb). split; [|auto]. rewrite aut_emit. cbn [m_tr add_adv set_adv]. rewrite Ha. reflexivity. }
          destruct perr.
          -- inversion H; subst. auto.
          -- eapply IH; [exact Hi1| | |exact H].
             ++ apply cache_step_cfg; [eapply get_feature_in; exact Eg|exact Hca].
             ++ intros _. discriminate.
        * eapply IH; [exact (Hi : clearinv P1 (add_adv sp m))|exact Hca| |exact H]. intros _. discriminate.
      + inversion H; subst. auto.
  Qed.

  (* the layer has been switched and nothing else has happened yet *)
  Definition p3inv (m : mstate) : Prop :=
    aut (m_tr m) = Some P3 /\ m_tls m = true /\ m_hs m = true.

  Lemma is_proceed_some r : is_proceed r = true -> exists it, r = Some it.
  Proof. destruct r; [eauto|discriminate]. Qed.

  Lemma starttls_negotiate_clear m m' o :
    clearinv P1 m -> starttls_negotiate c m = (m', o) ->
    (o = mkO st_Secure true false /\ p3inv m' /\ m_bits m' = b0) \/
    (o = mkO 0%N false true /\ clearinv P2 m').
  Proof.
    intros (Ha & Ht & Hb). unfold starttls_negotiate.
    set (ma := emit (EOut (WElem ns_StartTLS str_starttls)) m).
    assert (clearinv P2 ma) as Hia.
    { split; [|auto]. unfold ma. rewrite aut_emit, Ha. reflexivity. }
    destruct (read RPReply ma) as [m2 r] eqn:E.
    pose proof (read_clear P2 _ _ _ _ eq_refl Hia E) as (Ha2 & Ht2 & Hb2).
    destruct (is_proceed r); intro H; inversion H; subst.
    - left. split; [reflexivity|]. split; [|exact Hb2].
      split; [|auto]. rewrite aut_emit. cbn [m_tr switch_layer]. rewrite Ha2. reflexivity.
    - right. split; [reflexivity|]. split; auto.
  Qed.

  (* after_pick of the STARTTLS feature in clear text: TLS or an error *)
  Definition p3inv' (m : mstate) : Prop := p3inv m /\ m_bits m = N.lor b0 st_Secure.

  Lemma after_pick_clear m req f m' r :
    clearinv P1 m -> is_tls_kind f = true -> after_pick c m req f = (m', r) ->
    (r = Good (Some (st_Secure, true)) /\ p3inv' m') \/
    ((exists e, r = Bad e) /\ clearinv P2 m').
  Proof.
    intros Hi Hk. unfold after_pick, negotiate_one. unfold is_tls_kind in Hk.
    destruct (f_kind f) eqn:Hk'; [discriminate|].
    destruct (starttls_negotiate c m) as [m1 o] eqn:E.
    destruct (starttls_negotiate_clear _ _ _ Hi E) as [(Ho & (Ha & Ht & Hh) & Hb)|(Ho & (Ha & Ht & Hb))]; subst o;
      cbn [o_err o_restart o_mask orb]; intro H; inversion H; subst; clear H.
    - left. split.
      + reflexivity.
      + destruct Hi as (_ & _ & Hbm). split; [split|].
        * cbn [m_tr set_negd set_bits set_ready]. rewrite aut_emit, Ha, Hbm. cbn. rewrite N.eqb_refl.
          unfold is_tls_kind. rewrite Hk'. reflexivity.
        * auto.
        * cbn. rewrite Hb. reflexivity.
    - right. split; [eauto|]. destruct Hi as (_ & _ & Hbm). split; [|auto].
      cbn [m_tr set_negd]. rewrite aut_emit, Ha, Hbm. cbn. rewrite N.eqb_refl.
      unfold is_tls_kind. rewrite Hk'. reflexivity.
  Qed.

  (* ---------------------------------------------------------------- selection, generally *)

  Lemma cache_get_in s ca e : cache_get s ca = Some e -> In e ca.
  Proof.
    induction ca as [|x ca IH]; cbn; [discriminate|].
    destruct (bytes_eqb (ckey x) s); intro H; [inversion H; auto|auto].
  Qed.

  Definition same_but_choices (m m' : mstate) : Prop :=
    m_tr m' = m_tr m /\ m_tls m' = m_tls m /\ m_hs m' = m_hs m /\ m_bits m' = m_bits m /\
    m_negd m' = m_negd m /\ m_cache m' = m_cache m.

  Lemma select_spec m m' r : select m = (m', r) ->
    same_but_choices m m' /\
    match r with
    | Good (Some e) => In e (candidates m)
    | Good None => candidates m = []
    | _ => True
    end.
  Proof.
    unfold select, same_but_choices. destruct (candidates m) as [|e0 cands] eqn:Ec.
    - intro H; inversion H; subst. repeat split; reflexivity.
    - destruct (m_choices m) as [|ch rest].
      + intro H; inversion H; subst. repeat split; reflexivity.
      + destruct (cache_get ch (e0 :: cands)) as [e|] eqn:Eg.
        * destruct (fst e && existsb (fun x => negb (fst x)) (e0 :: cands));
            intro H; inversion H; subst; repeat split; try reflexivity.
          eapply cache_get_in; exact Eg.
        * intro H; inversion H; subst. repeat split; reflexivity.
  Qed.

  Lemma read_negd rp m m' r : read rp m = (m', r) -> m_negd m' = m_negd m.
  Proof. unfold read. destruct (m_in m); intro H; inversion H; subst; reflexivity. Qed.

  Lemma expect_header_negd m m' r : expect_header c m = (m', r) -> m_negd m' = m_negd m.
  Proof.
    unfold expect_header. destruct (read RPHeader m) as [m1 x] eqn:E.
    pose proof (read_negd _ _ _ _ E) as H1.
    destruct (header_of x) as [h|]; [|intro H; inversion H; subst; exact H1].
    destruct (header_ok c (assign h (m_info m1))); intro H; inversion H; subst; exact H1.
  Qed.

  Lemma send_header_negd m m' r : send_header c m = (m', r) -> m_negd m' = m_negd m.
  Proof.
    unfold send_header. destruct (m_tls m && m_hs m); [destruct (c_hs_ok c)|];
      intro H; inversion H; subst; reflexivity.
  Qed.

  Lemma read_children_negd fs st cs : forall m ca tot lr m' r,
    read_children fs st cs m ca tot lr = (m', r) -> m_negd m' = m_negd m.
  Proof.
    induction cs as [|ch cs IH]; intros m ca tot lr m' r H; cbn in H.
    - inversion H; subst. reflexivity.
    - destruct ch as [sp lo req perr|]; [|inversion H; subst; reflexivity].
      destruct (get_feature (sp, lo) fs) as [f|]; [|rewrite (IH _ _ _ _ _ _ H); reflexivity].
      destruct perr; [inversion H; subst; reflexivity|].
      rewrite (IH _ _ _ _ _ _ H). reflexivity.
  Qed.

  (* ---------------------------------------------------------------- the first features list, in clear text *)

  (* how a negotiator call that starts in clear text ends: a TLS layer is
     installed and a restart is due, or it failed in clear text *)
  Definition clear_post (m' : mstate) (r : res (N * bool)) : Prop :=
    match r with
    | Good (mask, restart) => mask = st_Secure /\ restart = true /\ p3inv' m'
    | _ => exists p, (p = P1 \/ p = P2) /\ clearinv p m'
    end.

  Lemma clearinv_same p m m' : same_but_choices m m' -> clearinv p m -> clearinv p m'.
  Proof. intros (Ht & Hl & _ & Hb & _) (Ha & Hl' & Hb'). unfold clearinv. rewrite Ht, Hl, Hb. auto. Qed.

  Lemma pick_clear_post m req f m' r :
    clearinv P1 m -> is_tls_kind f = true -> after_pick c m req f = (m', r) ->
    match r with
    | Good (Some x) => clear_post m' (Good x)
    | Good None => False
    | Bad e => clear_post m' (Bad e)
    | Stuck => False
    end.
  Proof.
    intros Hi Hk H. destruct (after_pick_clear _ _ _ _ _ Hi Hk H) as [(Hr & Hp)|((e & Hr) & Hp)]; subst r; cbn.
    - auto.
    - exists P2. auto.
  Qed.

  Lemma cache_get_key s ca e : cache_get s ca = Some e -> ckey e = s.
  Proof.
    induction ca as [|x ca IH]; cbn [cache_get]; [discriminate|].
    destruct (bytes_eqb (ckey x) s) eqn:E; intro H; [inversion H; subst; apply bytes_eqb_eq; exact E|auto].
  Qed.

  Lemma candidate_clear m e :
    m_bits m = b0 -> cache_cfg (m_cache m) -> In e (candidates m) -> is_tls_kind (snd e) = true.
  Proof.
    intros Hb Hca Hin. unfold candidates in Hin. apply filter_In in Hin. destruct Hin as (Hin & Hcand).
    unfold cache_cfg in Hca. rewrite Forall_forall in Hca. pose proof (Hca _ Hin) as Hf.
    unfold cand in Hcand. apply andb_prop in Hcand. destruct Hcand as (_ & Hel). rewrite Hb in Hel.
    exact (proj1 (clear_eligible_is_tls _ Hf Hel)).
  Qed.

  Lemma advertised_candidate m e :
    m_bits m = b0 -> m_negd m = [] -> cache_cfg (m_cache m) -> cache_get ns_StartTLS (m_cache m) = Some e ->
    candidates m <> [].
  Proof.
    intros Hb Hn Hca Hg. pose proof (cache_get_in _ _ _ Hg) as Hin.
    pose proof (cache_get_key _ _ _ Hg) as Hk.
    unfold cache_cfg in Hca. rewrite Forall_forall in Hca.
    destruct (tls_feature_eligible _ (Hca _ Hin) Hk) as (_ & Hneg & Hel).
    assert (In e (candidates m)) as Hcd.
    { unfold candidates. apply filter_In. split; [exact Hin|]. unfold cand. rewrite Hn, Hb, Hneg, Hel. reflexivity. }
    intro He. rewrite He in Hcd. contradiction.
  Qed.

  Lemma init_loop_clear_none fuel m m' r :
    clearinv P1 m -> m_negd m = [] -> cache_cfg (m_cache m) ->
    (exists e, cache_get ns_StartTLS (m_cache m) = Some e) ->
    init_loop (S fuel) c m None = (m', r) -> clear_post m' r.
  Proof.
    intros Hi Hnegd Hca (e0 & Hadv). cbn [init_loop].
    destruct (select m) as [m1 r1] eqn:Es.
    destruct (select_spec _ _ _ Es) as (Hsame & Hsel).
    pose proof (clearinv_same _ _ _ Hsame Hi) as Hi1.
    assert (m_bits m = b0) as Hb by (destruct Hi as (_ & _ & Hb); exact Hb).
    destruct r1 as [[[req f]|]|e|].
    - pose proof (candidate_clear _ _ Hb Hca Hsel) as Hk. cbn [snd] in Hk.
      destruct (after_pick c m1 req f) as [m2 r2] eqn:Ep.
      pose proof (pick_clear_post _ _ _ _ _ Hi1 Hk Ep) as Hpost.
      destruct r2 as [[x|]|e|]; try contradiction; intro H; inversion H; subst; exact Hpost.
    - exfalso. exact (advertised_candidate _ _ Hb Hnegd Hca Hadv Hsel).
    - intro H; inversion H; subst. exists P1. auto.
    - intro H; inversion H; subst. exists P1. auto.
  Qed.

  Lemma init_loop_clear_forced m f m' r :
    clearinv P1 m -> is_tls_kind f = true ->
    init_loop 1 c m (Some f) = (m', r) -> clear_post m' r.
  Proof.
    intros Hi Hk. cbn [init_loop]. destruct (m_choices m) as [|ch rest].
    - intro H; inversion H; subst. exists P1. auto.
    - assert (clearinv P1 (set_choices rest m)) as Hi1 by exact Hi.
      destruct (negb (bytes_eqb ch (f_space f))).
      + intro H; inversion H; subst. exists P1. auto.
      + destruct (after_pick c (set_choices rest m) true f) as [m2 r2] eqn:Ep.
        pose proof (pick_clear_post _ _ _ _ _ Hi1 Hk Ep) as Hpost.
        destruct r2 as [[x|]|e|]; try contradiction; intro H; inversion H; subst; exact Hpost.
  Qed.

  Lemma after_read_clear m m' r :
    clearinv P1 m -> m_negd m = [] -> cache_cfg (m_cache m) -> (m_cache m <> [] -> m_total m <> 0) ->
    after_read c m true = (m', r) -> clear_post m' r.
  Proof.
    intros Hi Hnegd Hca Htot. unfold after_read.
    assert (m_bits m = b0) as Hb by (destruct Hi as (_ & _ & Hb); exact Hb).
    assert (has (m_bits m) st_Secure = false) as Hsec by (rewrite Hb; apply b0_secure; exact Hb0).
    rewrite Hsec. cbn [andb negb].
    destruct (cache_get ns_StartTLS (m_cache m)) as [e|] eqn:Eg; cbn [negb andb].
    - (* advertised: the selection loop finds it *)
      assert (m_cache m <> []) as Hne by (intro Hn; rewrite Hn in Eg; discriminate).
      unfold normal_path. destruct (m_total m) eqn:Et; [exfalso; exact (Htot Hne eq_refl)|].
      destruct (m_allowed m); [intro H; inversion H; subst; exists P1; auto|].
      apply init_loop_clear_none; eauto.
    - (* not advertised: forced *)
      destruct cfg_has_tls as (f & Ef). rewrite Ef.
      destruct (find_space_in _ _ _ Ef) as (Hin & Hsp).
      destruct (tls_feature_eligible f Hin Hsp) as (Hk & Hn & Hel).
      rewrite Hb, Hn, Hel. apply init_loop_clear_forced; auto.
  Qed.

  Lemma negotiate_features_clear m m' r :
    clearinv P1 m -> m_negd m = [] -> negotiate_features c m true = (m', r) -> clear_post m' r.
  Proof.
    intros Hi Hnegd. unfold negotiate_features.
    destruct (read RPFeatures m) as [m1 x] eqn:Er.
    pose proof (read_clear P1 _ _ _ _ eq_refl Hi Er) as Hi1.
    pose proof (read_negd _ _ _ _ Er) as Hn1.
    destruct (features_of x) as [cs|].
    - assert (m_bits m1 = b0) as Hb1 by (destruct Hi1 as (_ & _ & Hb); exact Hb). rewrite Hb1.
      destruct (read_children (c_feats c) b0 cs m1 [] 0 false) as [m2 r2] eqn:Ec.
      destruct (read_children_clear cs _ _ _ _ _ _ Hi1 (Forall_nil _) (fun H => False_ind _ (H eq_refl)) Ec)
        as (Hi2 & Hr2).
      pose proof (read_children_negd _ _ _ _ _ _ _ _ _ Ec) as Hn2.
      destruct r2 as [[[ca tot] lr]|e|].
      + destruct Hr2 as (Hca & Htot). apply after_read_clear.
        * exact Hi2.
        * cbn [m_negd set_list]. congruence.
        * exact Hca.
        * exact Htot.
      + intro H; inversion H; subst. exists P1. auto.
      + intro H; inversion H; subst. exists P1. auto.
    - intro H; inversion H; subst. exists P1. auto.
  Qed.

  Lemma negotiator_body_clear m m' r :
    clearinv P0 m -> m_negd m = [] -> negotiator_body c m (mkNS true true) = (m', r) ->
    match r with
    | Good (mask, restart, ns1) => mask = st_Secure /\ restart = true /\ ns1 = mkNS true false /\ p3inv' m'
    | _ => exists p, (p = P1 \/ p = P2) /\ clearinv p m'
    end.
  Proof.
    intros Hi Hnegd. rewrite negotiator_body_unfold. unfold headers. cbn [ns_restart ns_first].
    destruct (send_header c m) as [ma ra] eqn:Es.
    destruct (send_header_clear _ _ _ Hi Es) as (Hia & Hra). subst ra.
    pose proof (send_header_negd _ _ _ Es) as Hna.
    destruct (expect_header c ma) as [m1 r1] eqn:Ee.
    pose proof (expect_header_clear P1 _ _ _ eq_refl Hia Ee) as Hi1.
    pose proof (expect_header_negd _ _ _ Ee) as Hn1.
    destruct r1 as [u|e|].
    - destruct (negotiate_features c m1 true) as [m2 r2] eqn:En.
      assert (m_negd m1 = []) as Hn by congruence.
      pose proof (negotiate_features_clear _ _ _ Hi1 Hn En) as Hpost.
      destruct r2 as [[mask restart]|e|]; intro H; inversion H; subst; cbn in Hpost.
      + destruct Hpost as (Hm & Hr & Hp). subst. repeat split; auto; apply Hp.
      + exact Hpost.
      + exact Hpost.
    - intro H; inversion H; subst. exists P1. auto.
    - intro H; inversion H; subst. exists P1. auto.
  Qed.

  (* ---------------------------------------------------------------- over TLS, handshake done *)

  Definition ti (m : mstate) : Prop :=
    aut (m_tr m) = Some P4 /\ m_tls m = true /\ m_hs m = false /\ has (m_bits m) st_Secure = true.

  Lemma ti_emit e m : astep P4 e = Some P4 -> ti m -> ti (emit e m).
  Proof. intros He (Ha & Ht & Hh & Hs). split; [|auto]. rewrite aut_emit, Ha. exact He. Qed.

  Lemma ti_same m m' : same_but_choices m m' -> ti m -> ti m'.
  Proof. intros (Ht & Hl & Hh & Hb & _) (Ha & Hl' & Hh' & Hs). unfold ti. rewrite Ht, Hl, Hh, Hb. auto. Qed.

  Lemma read_ti rp m m' r : ti m -> read rp m = (m', r) -> ti m'.
  Proof.
    intro Hi. unfold read. destruct (m_in m) as [|it rest]; intro H; inversion H; subst.
    - apply ti_emit; [reflexivity|exact Hi].
    - apply ti_emit; [reflexivity|exact Hi].
  Qed.

  Lemma expect_header_ti m m' r : ti m -> expect_header c m = (m', r) -> ti m'.
  Proof.
    intro Hi. unfold expect_header. destruct (read RPHeader m) as [m1 x] eqn:E.
    pose proof (read_ti _ _ _ _ Hi E) as Hi1.
    destruct (header_of x) as [h|]; [|intro H; inversion H; subst; exact Hi1].
    destruct (header_ok c (assign h (m_info m1))); intro H; inversion H; subst; exact Hi1.
  Qed.

  Lemma send_header_ti m m' r : ti m -> send_header c m = (m', r) -> ti m'.
  Proof.
    intros Hi. unfold send_header. destruct Hi as (Ha & Ht & Hh & Hs). rewrite Ht, Hh. cbn [andb].
    intro H; inversion H; subst. apply ti_emit; [reflexivity|]. unfold ti; auto.
  Qed.

  Lemma read_children_ti st cs : forall m ca tot lr m' r,
    ti m -> cache_cfg ca -> read_children (c_feats c) st cs m ca tot lr = (m', r) ->
    ti m' /\ match r with Good (ca', _, _) => cache_cfg ca' | _ => True end.
  Proof.
    induction cs as [|ch cs IH]; intros m ca tot lr m' r Hi Hca H; cbn in H.
    - inversion H; subst. auto.
    - destruct ch as [sp lo req perr|]; [|inversion H; subst; auto].
      assert (ti (add_adv sp m)) as Hi0 by exact Hi.
      destruct (get_feature (sp, lo) (c_feats c)) as [f|] eqn:Eg; [|eapply IH; eauto].
      assert (ti (emit (EParse f) (add_adv sp m))) as Hi1 by (apply ti_emit; [reflexivity|exact Hi0]).
      destruct perr; [inversion H; subst; auto|].
      eapply IH; [exact Hi1| |exact H].
      apply cache_step_cfg; [eapply get_feature_in; exact Eg|exact Hca].
  Qed.

  Lemma after_pick_ti m req f m' r :
    ti m -> is_tls_kind f = false -> after_pick c m req f = (m', r) ->
    ti m' /\ m_cache m' = m_cache m.
  Proof.
    intros Hi Hk. unfold after_pick, negotiate_one. unfold is_tls_kind in Hk.
    destruct (f_kind f); [|discriminate].
    set (o := match m_outs m with [] => default_outcome | o :: _ => o end).
    set (m1 := emit (ENeg f (m_bits m) o) (set_outs (tl (m_outs m)) m)).
    assert (ti m1) as Hi1 by (apply ti_emit; [reflexivity|exact Hi]).
    destruct (o_err o).
    - intro H; inversion H; subst. split; [exact Hi1|reflexivity].
    - assert (ti (set_ready (m_ready m1 || has (o_mask o) st_Ready)
                              (set_bits (N.lor (m_bits m1) (N.ldiff (o_mask o) st_Ready)) m1))) as Hi2.
      { destruct Hi1 as (Ha & Ht & Hh & Hs). unfold ti. cbn [m_tr m_tls m_hs m_bits set_bits set_ready].
        repeat split; auto. apply has_lor. exact Hs. }
      destruct (o_restart o || req); intro H; inversion H; subst; (split; [exact Hi2|reflexivity]).
  Qed.

  Lemma candidate_abstract m e :
    ti m -> cache_cfg (m_cache m) -> In e (candidates m) -> is_tls_kind (snd e) = false.
  Proof.
    intros (_ & _ & _ & Hs) Hca Hin. unfold candidates in Hin. apply filter_In in Hin. destruct Hin as (Hin & Hcand).
    unfold cache_cfg in Hca. rewrite Forall_forall in Hca. pose proof (Hca _ Hin) as Hf.
    unfold cand in Hcand. apply andb_prop in Hcand. destruct Hcand as (_ & Hel).
    destruct (gated_cases _ (cfg_gated _ Hf)) as [(_ & _ & Hp & _)|(Hk & _)]; [|exact Hk].
    rewrite (secure_not_eligible _ _ Hp Hs) in Hel. discriminate.
  Qed.

  Lemma init_loop_ti : forall fuel m m' r,
    ti m -> cache_cfg (m_cache m) -> init_loop fuel c m None = (m', r) -> ti m'.
  Proof.
    induction fuel as [|k IH]; intros m m' r Hi Hca H; cbn [init_loop] in H.
    - inversion H; subst. exact Hi.
    - destruct (select m) as [m1 r1] eqn:Es.
      destruct (select_spec _ _ _ Es) as (Hsame & Hsel).
      pose proof (ti_same _ _ Hsame Hi) as Hi1.
      destruct r1 as [[[req f]|]|e|]; try solve [inversion H; subst; exact Hi1].
      pose proof (candidate_abstract _ _ Hi Hca Hsel) as Hk. cbn [snd] in Hk.
      destruct (after_pick c m1 req f) as [m2 r2] eqn:Ep.
      destruct (after_pick_ti _ _ _ _ _ Hi1 Hk Ep) as (Hi2 & Hc2).
      destruct r2 as [[x|]|e|]; try solve [inversion H; subst; exact Hi2].
      eapply IH; [exact Hi2| |exact H].
      rewrite Hc2. destruct Hsame as (_ & _ & _ & _ & _ & Hc1). rewrite Hc1. exact Hca.
  Qed.

  Lemma after_read_ti m first m' r :
    ti m -> cache_cfg (m_cache m) -> after_read c m first = (m', r) -> ti m'.
  Proof.
    intros Hi Hca. unfold after_read. destruct Hi as (Ha & Ht & Hh & Hs). rewrite Hs.
    cbn [negb]. rewrite Bool.andb_false_r.
    unfold normal_path. destruct (m_total m); [intro H; inversion H; subst; unfold ti; auto|].
    destruct (m_allowed m); [intro H; inversion H; subst; unfold ti; auto|].
    apply init_loop_ti; [unfold ti; auto|exact Hca].
  Qed.

  Lemma negotiate_features_ti m first m' r : ti m -> negotiate_features c m first = (m', r) -> ti m'.
  Proof.
    intro Hi. unfold negotiate_features. destruct (read RPFeatures m) as [m1 x] eqn:Er.
    pose proof (read_ti _ _ _ _ Hi Er) as Hi1.
    destruct (features_of x) as [cs|]; [|intro H; inversion H; subst; exact Hi1].
    destruct (read_children (c_feats c) (m_bits m1) cs m1 [] 0 false) as [m2 r2] eqn:Ec.
    destruct (read_children_ti _ cs _ _ _ _ _ _ Hi1 (Forall_nil _) Ec) as (Hi2 & Hr2).
    destruct r2 as [[[ca tot] lr]|e|]; try solve [intro H; inversion H; subst; exact Hi2].
    apply after_read_ti; [exact Hi2|exact Hr2].
  Qed.

  Lemma negotiator_body_ti m ns m' r : ti m -> negotiator_body c m ns = (m', r) -> ti m'.
  Proof.
    intro Hi. rewrite negotiator_body_unfold. unfold headers.
    assert (forall m1 r1, (if ns_restart ns
                           then match send_header c m with
                                | (ma, Good _) => expect_header c ma
                                | other => other
                                end
                           else (m, Good tt)) = (m1, r1) -> ti m1) as Hh.
    { intros m1 r1. destruct (ns_restart ns); [|intro H; inversion H; subst; exact Hi].
      destruct (send_header c m) as [ma ra] eqn:Es. pose proof (send_header_ti _ _ _ Hi Es) as Hia.
      destruct ra as [u|e|]; intro H; try solve [inversion H; subst; exact Hia].
      eapply expect_header_ti; eauto. }
    destruct (if ns_restart ns then _ else _) as [m1 r1] eqn:E. pose proof (Hh _ _ eq_refl) as Hi1.
    destruct r1 as [u|e|]; try solve [intro H; inversion H; subst; exact Hi1].
    destruct (negotiate_features c m1 (ns_first ns)) as [m2 r2] eqn:En.
    pose proof (negotiate_features_ti _ _ _ _ Hi1 En) as Hi2.
    destruct r2 as [[mask restart]|e|]; intro H; inversion H; subst; exact Hi2.
  Qed.

  (* ---------------------------------------------------------------- right after the switch: the handshake comes first *)

  Definition p3head (m : mstate) : Prop :=
    p3inv m /\ has (m_bits m) st_Secure = true /\ has (m_bits m) st_Ready = false.

  Definition failed_hs (m : mstate) : Prop :=
    aut (m_tr m) = Some P5 /\ has (m_bits m) st_Ready = false.

  Lemma negotiator_body_p3 m ns m' r :
    p3head m -> ns_restart ns = true -> negotiator_body c m ns = (m', r) ->
    (c_hs_ok c = true /\ ti m') \/ ((exists e, r = Bad e) /\ failed_hs m').
  Proof.
    intros ((Ha & Ht & Hh) & Hs & Hr) Hns. rewrite negotiator_body_unfold. unfold headers. rewrite Hns.
    unfold send_header. rewrite Ht, Hh. cbn [andb]. destruct (c_hs_ok c).
    - set (ma := emit (EOut WHeader) (emit (EHandshake true) (set_hs false m))).
      assert (ti ma) as Hia.
      { unfold ma, ti. cbn [m_tls m_hs m_bits emit set_hs]. split; [|auto].
        rewrite !aut_emit. cbn [m_tr set_hs]. rewrite Ha. reflexivity. }
      destruct (expect_header c ma) as [m1 r1] eqn:Ee.
      pose proof (expect_header_ti _ _ _ Hia Ee) as Hi1.
      destruct r1 as [u|e|]; try solve [intro H; inversion H; subst; left; auto].
      destruct (negotiate_features c m1 (ns_first ns)) as [m2 r2] eqn:En.
      pose proof (negotiate_features_ti _ _ _ _ Hi1 En) as Hi2.
      destruct r2 as [[mask restart]|e|]; intro H; inversion H; subst; left; auto.
    - intro H; inversion H; subst. right. split; [eauto|]. split; [|exact Hr].
      rewrite aut_emit. cbn [m_tr set_hs]. rewrite Ha. reflexivity.
  Qed.

  (* ---------------------------------------------------------------- the loop of negotiateSession *)

  Definition linv (m : mstate) (data : option nstate) : Prop :=
    (clearinv P0 m /\ m_negd m = [] /\ ns_of data = mkNS true true) \/
    (p3head m /\ ns_restart (ns_of data) = true) \/
    ti m.

  Definition phase_ok (p : phase) (m : mstate) : Prop :=
    match p with
    | P0 | P1 | P2 => m_bits m = b0 /\ m_tls m = false
    | P3 | P5 => has (m_bits m) st_Ready = false
    | P4 => has (m_bits m) st_Secure = true /\ m_tls m = true /\ m_hs m = false
    end.

  Definition final_ok (r : result) : Prop :=
    exists p, aut (m_tr (r_state r)) = Some p /\ r_bits r = m_bits (r_state r) /\
              phase_ok p (r_state r) /\ (r_class r = ROk -> p = P4 /\ c_hs_ok c = true).

  Lemma lor_twice x y : N.lor (N.lor x y) y = N.lor x y.
  Proof. bitwise. Qed.

  Lemma linv_stop m data cl : linv m data -> cl <> ROk -> final_ok (mkR cl (m_bits m) m).
  Proof.
    intros [((Ha & Ht & Hb) & _)|[(((Ha & Ht & Hh) & Hs & Hr) & _)|(Ha & Ht & Hh & Hs)]] Hcl.
    - exists P0. cbn. repeat split; auto; congruence.
    - exists P3. cbn. repeat split; auto; congruence.
    - exists P4. cbn. repeat split; auto; congruence.
  Qed.

  Lemma ti_stop m cl : ti m -> (cl = ROk -> c_hs_ok c = true) -> final_ok (mkR cl (m_bits m) m).
  Proof. intros (Ha & Ht & Hh & Hs) Hcl. exists P4. cbn. repeat split; auto. Qed.


  Lemma renew_info_same m : same_but_choices m (renew_info m).
  Proof. unfold renew_info, same_but_choices. destruct (has (m_bits m) st_Ready); repeat split; reflexivity. Qed.

  Lemma ti_next m (mask : N) (restart : bool) : ti m -> ti (next_state restart mask m).
  Proof.
    intros (Ha & Ht & Hh & Hs). unfold next_state.
    assert (forall mm, m_tr mm = m_tr m -> m_tls mm = m_tls m -> m_hs mm = m_hs m -> m_bits mm = m_bits m ->
                       ti (set_bits (N.lor (m_bits mm) mask) mm)) as Hgen.
    { intros mm E1 E2 E3 E4. unfold ti. cbn [m_tr m_tls m_hs m_bits set_bits]. rewrite E1, E2, E3, E4.
      repeat split; auto. apply has_lor. exact Hs. }
    destruct restart.
    - eapply ti_same; [apply renew_info_same|]. apply Hgen; reflexivity.
    - apply Hgen; reflexivity.
  Qed.

  Lemma ti_tee m : ti m -> ti (tee_state m).
  Proof. intro H. unfold tee_state. eapply ti_same; [apply renew_info_same|]. exact H. Qed.

  Lemma has_ldiff_other st m : N.land m st_Ready = 0%N -> has st m = true -> has (N.ldiff st st_Ready) m = true.
  Proof.
    rewrite !has_true. intros H1 H2.
    apply N.bits_inj; intro bi.
    apply (f_equal (fun z => N.testbit z bi)) in H1. apply (f_equal (fun z => N.testbit z bi)) in H2.
    cbn beta in *. rewrite ?N.land_spec, ?N.ldiff_spec, ?N.bits_0 in *.
    destruct (N.testbit st bi), (N.testbit m bi), (N.testbit st_Ready bi); cbn in *; congruence.
  Qed.

  Lemma has_ldiff_self st : has (N.ldiff st st_Ready) st_Ready = false.
  Proof.
    unfold has. apply N.eqb_neq. intro H.
    assert (N.land (N.ldiff st st_Ready) st_Ready = 0%N) as Hz.
    { apply N.bits_inj; intro bi. rewrite N.land_spec, N.ldiff_spec, N.bits_0.
      destruct (N.testbit st bi), (N.testbit st_Ready bi); reflexivity. }
    rewrite Hz in H. symmetry in H. exact (tbl_ready_nz H).
  Qed.

  Lemma ldiff_none st : has st st_Ready = false -> N.land st st_Ready = 0%N -> N.ldiff st st_Ready = st.
  Proof.
    intros _ H. apply N.bits_inj; intro bi.
    apply (f_equal (fun z => N.testbit z bi)) in H. cbn beta in H. rewrite ?N.land_spec, ?N.ldiff_spec, ?N.bits_0 in *.
    destruct (N.testbit st bi), (N.testbit st_Ready bi); cbn in *; congruence.
  Qed.

  Lemma ti_fail m e : ti m -> final_ok (mkR (RErr e) (m_bits (fail_state m)) (fail_state m)).
  Proof.
    intros (Ha & Ht & Hh & Hs). exists P4. cbn [r_state r_bits r_class fail_state m_tr m_bits m_tls set_bits phase_ok].
    split; [exact Ha|]. split; [reflexivity|]. split; [|discriminate]. split; [|split; [exact Ht|exact Hh]].
    apply has_ldiff_other; [exact tbl_secure_ready|exact Hs].
  Qed.

  Lemma clearinv_renew p m : clearinv p m -> clearinv p (renew_info m).
  Proof. apply clearinv_same, renew_info_same. Qed.

  Lemma fail_clear p m : clearp p = true -> clearinv p m -> phase_ok p (fail_state m).
  Proof.
    intros Hp (Ha & Ht & Hb).
    assert (m_bits (fail_state m) = b0 /\ m_tls (fail_state m) = false) as Hx.
    { cbn [fail_state m_bits m_tls set_bits]. split; [|exact Ht]. rewrite Hb.
      apply ldiff_none; [apply b0_ready; exact Hb0|].
      exact (land_sub _ _ _ (b0_mask b0 Hb0) tbl_ready_sub). }
    destruct p; try discriminate; exact Hx.
  Qed.

  (* c_hs_ok is a fact about the run once the handshake has happened *)
  Lemma loop_final : forall fuel tee m data istee,
    linv m data -> (ti m -> c_hs_ok c = true) ->
    final_ok (session_loop fuel tee c m data istee).
  Proof.
    induction fuel as [|k IH]; intros tee m data istee Hl Hok.
    - cbn. eapply linv_stop; [exact Hl|discriminate].
    - rewrite session_loop_S.
      destruct (has (m_bits m) st_Ready) eqn:Er.
      { destruct Hl as [((Ha & Ht & Hb) & _)|[((_ & _ & Hr) & _)|Hti]].
        - rewrite Hb, (b0_ready b0 Hb0) in Er. discriminate.
        - congruence.
        - apply ti_stop; [exact Hti|intros _; exact (Hok Hti)]. }
      destruct (tee && negb istee).
      { apply IH.
        - destruct Hl as [(Hcl & _ & Hns)|[(Hp & Hns)|Hti]].
          + left. split; [apply clearinv_renew; exact Hcl|]. split; [|exact Hns].
            unfold tee_state, renew_info. destruct (has (m_bits (reset_stream m)) st_Ready); reflexivity.
          + right; left. split; [|exact Hns]. destruct Hp as ((Ha & Ht & Hh) & Hs & Hr).
            pose proof (renew_info_same (reset_stream m)) as (E1 & E2 & E3 & E4 & _).
            unfold tee_state, p3head, p3inv. rewrite E1, E2, E3, E4. repeat split; auto.
          + right; right. apply ti_tee. exact Hti.
        - intro Hti. apply Hok.
          pose proof (renew_info_same (reset_stream m)) as (E1 & E2 & E3 & E4 & _).
          destruct Hti as (Ha & Ht & Hh & Hs). unfold tee_state in *. rewrite E1 in Ha. rewrite E2 in Ht. rewrite E3 in Hh. rewrite E4 in Hs.
          unfold ti. auto. }
      destruct (negotiator_body c m (ns_of data)) as [m1 r] eqn:Eb.
      destruct Hl as [(Hcl & Hnegd & Hns)|[(Hp & Hns)|Hti]].
      + (* first call: clear text *)
        rewrite Hns in Eb. pose proof (negotiator_body_clear _ _ _ Hcl Hnegd Eb) as Hpost.
        destruct r as [[[mask restart] ns1]|e|].
        * destruct Hpost as (Hm & Hr & Hn1 & (Hp3 & Hb3)). subst mask restart ns1.
          assert (m_bits (next_state true st_Secure m1) = N.lor b0 st_Secure /\
                  m_tr (next_state true st_Secure m1) = m_tr m1 /\ m_tls (next_state true st_Secure m1) = m_tls m1 /\
                  m_hs (next_state true st_Secure m1) = m_hs m1) as (N1 & N2 & N3 & N4).
          { unfold next_state.
            pose proof (renew_info_same (set_bits (N.lor (m_bits (reset_stream m1)) st_Secure) (reset_stream m1))) as (E1 & E2 & E3 & E4 & _).
            rewrite E1, E2, E3, E4. cbn [m_bits m_tr m_tls m_hs set_bits reset_stream set_adv set_negd].
            rewrite Hb3, lor_twice. auto. }
          apply IH.
          -- right; left. split; [|reflexivity]. destruct Hp3 as (Ha3 & Ht3 & Hh3).
             unfold p3head, p3inv. rewrite N1, N2, N3, N4. repeat split; auto.
             ++ apply has_lor_r.
             ++ apply b0s_ready; exact Hb0.
          -- intros (Ha4 & _). destruct Hp3 as (Ha3 & _). rewrite N2 in Ha4. congruence.
        * destruct Hpost as (p & Hp12 & Hci). exists p. cbn [r_state r_bits r_class].
          destruct Hci as (Ha & Ht & Hb).
          split; [exact Ha|]. split; [reflexivity|]. split; [|discriminate].
          apply fail_clear; [destruct Hp12; subst p; reflexivity|unfold clearinv; auto].
        * destruct Hpost as (p & Hp12 & (Ha & Ht & Hb)). exists p. cbn.
          repeat split; auto; try discriminate. destruct Hp12; subst p; cbn; auto.
      + (* first call over TLS: handshake *)
        destruct (negotiator_body_p3 _ _ _ _ Hp Hns Eb) as [(Hhs & Hti1)|((e & He) & (Ha5 & Hr5))].
        * destruct r as [[[mask restart] ns1]|e|].
          -- apply IH; [right; right; apply ti_next; exact Hti1|intros _; exact Hhs].
          -- apply ti_fail; exact Hti1.
          -- apply ti_stop; [exact Hti1|discriminate].
        * subst r. exists P5. cbn [r_state r_bits r_class fail_state m_tr set_bits].
          split; [exact Ha5|]. split; [reflexivity|]. split; [|discriminate].
          cbn [phase_ok m_bits set_bits]. apply has_ldiff_self.
      + (* later calls *)
        pose proof (negotiator_body_ti _ _ _ _ Hti Eb) as Hti1.
        destruct r as [[[mask restart] ns1]|e|].
        * apply IH; [right; right; apply ti_next; exact Hti1|intros _; exact (Hok Hti)].
        * apply ti_fail; exact Hti1.
        * apply ti_stop; [exact Hti1|discriminate].
  Qed.

  Lemma run_final tee fv clear tls outs choices :
    final_ok (run tee c fv b0 clear tls outs choices).
  Proof.
    unfold run. apply loop_final.
    - left. unfold clearinv, init_state; cbn. auto.
    - intros (Ha & _). cbn in Ha. discriminate.
  Qed.
End Config.
