(* C02/Inter.v — one StartTLS feature value shared by sessions whose
   negotiations overlap.  The variable captured by the feature value is global
   state; the sessions take turns, one call of the negotiator (one iteration of
   negotiateSession's loop) at a time, in any order ([sched_run]).  Because no
   primitive step of the model writes the captured variable ([fvinv_prim], and
   the translator fact that StartTLS's Negotiate closure assigns to none of its
   captured variables), every schedule leaves it unchanged, every handshake
   names the session's own domain, and a session that finishes has exactly the
   result it has when run alone. *)
From Coq Require Import ZifyBool ZifyNat ZifyN.
From XV Require Import lib.Bytes gen.NegTables C02.Model C02.Frame.

Arguments N.lor : simpl never.
Arguments N.land : simpl never.

(* ------------------------------------------------------------------ the loop is the iteration of loop_step *)

Lemma session_loop_step k tee c m data istee n :
  session_loop (S k) tee c m data istee =
  match loop_step tee c (mkL m data istee n) with
  | Done r => r
  | Running l => session_loop k tee c (l_m l) (l_data l) (l_istee l)
  end.
Proof.
  rewrite session_loop_S. unfold loop_step. cbn [l_m l_data l_istee].
  destruct (has (m_bits m) st_Ready); [reflexivity|].
  destruct (tee && negb istee); [reflexivity|].
  destruct (negotiator_body c m (ns_of data)) as [m1 [[[mask restart] ns1]|e|]]; reflexivity.
Qed.

Lemma loop_step_done_class tee c l r : loop_step tee c l = Done r -> r_class r <> RFuel.
Proof.
  unfold loop_step. destruct (has (m_bits (l_m l)) st_Ready); [intro H; inversion H; subst; discriminate|].
  destruct (tee && negb (l_istee l)); [discriminate|].
  destruct (negotiator_body c (l_m l) (ns_of (l_data l))) as [m1 [[[mask restart] ns1]|e|]];
    intro H; inversion H; subst; discriminate.
Qed.

(* what a session can have become after some of its steps *)
Inductive reach (tee : bool) (c : config) : lstate -> progress -> Prop :=
| reach_here l : reach tee c l (Running l)
| reach_done l r : loop_step tee c l = Done r -> reach tee c l (Done r)
| reach_next l l' p : loop_step tee c l = Running l' -> reach tee c l' p -> reach tee c l p.

Lemma reach_snoc tee c l0 l : reach tee c l0 (Running l) -> reach tee c l0 (loop_step tee c l).
Proof.
  intro H. remember (Running l) as p eqn:Ep. revert l Ep.
  induction H as [l1|l1 r Hs|l1 l2 p Hs Hr IH]; intros l Ep.
  - inversion Ep; subst. destruct (loop_step tee c l) as [l'|r] eqn:E.
    + eapply reach_next; [exact E|apply reach_here].
    + apply reach_done. exact E.
  - discriminate.
  - eapply reach_next; [exact Hs|]. apply IH. exact Ep.
Qed.

Lemma reach_done_loop tee c l r :
  reach tee c l (Done r) ->
  exists k, session_loop k tee c (l_m l) (l_data l) (l_istee l) = r /\ r_class r <> RFuel.
Proof.
  intro H. remember (Done r) as p eqn:Ep. revert Ep.
  induction H as [l1|l1 r1 Hs|l1 l2 p Hs Hr IH]; intro Ep.
  - discriminate.
  - inversion Ep; subst. exists 1. destruct l1 as [m data istee n]. cbn [l_m l_data l_istee]. rewrite (session_loop_step _ _ _ _ _ _ n), Hs.
    split; [reflexivity|]. eapply loop_step_done_class; exact Hs.
  - destruct (IH Ep) as (k & Hk & Hc). exists (S k). destruct l1 as [m data istee n]. cbn [l_m l_data l_istee].
    rewrite (session_loop_step _ _ _ _ _ _ n), Hs. auto.
Qed.

(* a finished session has the result of the session run alone *)
Lemma reach_done_run tee c fv bits clear tls outs choices r :
  reach tee c (mkL (init_state c fv bits clear tls outs choices) None false 0) (Done r) ->
  r = run tee c fv bits clear tls outs choices.
Proof.
  intro H. destruct (reach_done_loop _ _ _ _ H) as (k & Hk & Hc). cbn [l_m l_data l_istee] in Hk.
  pose proof (run_not_fuel tee c fv bits clear tls outs choices) as Hr. unfold run in *.
  set (F := fuel_for clear tls) in *. set (m0 := init_state c fv bits clear tls outs choices) in *.
  rewrite <- Hk in Hc.
  pose proof (session_loop_mono c k tee m0 None false F Hc) as E1.
  pose proof (session_loop_mono c F tee m0 None false k Hr) as E2.
  replace (F + k) with (k + F) in E2 by lia. congruence.
Qed.

(* ------------------------------------------------------------------ the captured variable under interleaving *)

Lemma loop_step_fvinv c fv tee l : fvinv c fv (l_m l) -> fvinv c fv (pstate (loop_step tee c l)).
Proof.
  intro Hm. unfold loop_step.
  destruct (has (m_bits (l_m l)) st_Ready); [exact Hm|].
  destruct (tee && negb (l_istee l)).
  - cbn [pstate l_m]. exact (evolves_inv c _ (fvinv_prim c fv) _ _ (tee_state_ev c _) Hm).
  - destruct (negotiator_body c (l_m l) (ns_of (l_data l))) as [m1 r] eqn:E.
    pose proof (evolves_inv c _ (fvinv_prim c fv) _ _ (negotiator_body_ev _ _ _ _ _ E) Hm) as H1.
    destruct r as [[[mask restart] ns1]|e|]; cbn [pstate l_m r_state].
    + exact (evolves_inv c _ (fvinv_prim c fv) _ _ (next_state_ev c restart mask m1) H1).
    + exact (evolves_inv c _ (fvinv_prim c fv) _ _ (fail_state_ev c m1) H1).
    + exact H1.
Qed.

Lemma set_fv_same fv m : m_fv m = fv -> set_fv fv m = m.
Proof. destruct m; cbn. intro H; subst. reflexivity. Qed.

(* Whether the features list a session is about to read is its first one is a
   matter of that session's own history: the `first` argument of its next
   negotiateFeatures call is true exactly when it has made no such call yet.
   (negotiatorState travels through the `data` value of the session; nothing
   about it is captured by the Negotiator value.) *)
Definition firstinv (p : progress) : Prop :=
  match p with
  | Running l => next_first l = Nat.eqb (l_calls l) 0
  | Done _ => True
  end.

Lemma loop_step_first tee c l : firstinv (Running l) -> firstinv (loop_step tee c l).
Proof.
  unfold firstinv, next_first, loop_step. intro H.
  destruct (has (m_bits (l_m l)) st_Ready); [exact I|].
  destruct (tee && negb (l_istee l)); [cbn [l_data l_calls ns_of]; exact H|].
  rewrite negotiator_body_unfold.
  destruct (headers c (l_m l) (ns_of (l_data l))) as [m1 [u|e|]]; try exact I.
  destruct (negotiate_features c m1 (ns_first (ns_of (l_data l)))) as [m2 [[mask restart]|e|]]; try exact I.
  reflexivity.
Qed.

(* session s of the schedule corresponds to the session description s0 *)
Definition sinv (fv : option bytes) (s0 : sess) (s : isess) : Prop :=
  is_tee s = s_tee s0 /\ is_cfg s = s_cfg s0 /\
  fvinv (s_cfg s0) fv (pstate (is_prog s)) /\
  reach (s_tee s0) (s_cfg s0)
        (mkL (init_state (s_cfg s0) fv (s_bits s0) (s_in s0) (s_tls s0) (s_outs s0) (s_choices s0)) None false 0)
        (is_prog s) /\
  firstinv (is_prog s).

Lemma step_sess_inv fv s0 s : sinv fv s0 s ->
  fst (step_sess fv s) = fv /\ sinv fv s0 (snd (step_sess fv s)).
Proof.
  intros (Ht & Hc & Hf & Hr & Hfi). unfold step_sess. destruct (is_prog s) as [l|r] eqn:Ep.
  - cbn [pstate] in Hf. destruct Hf as (Hfv & Hn).
    assert (mkL (set_fv fv (l_m l)) (l_data l) (l_istee l) (l_calls l) = l) as El
      by (rewrite (set_fv_same _ _ Hfv); destruct l; reflexivity).
    rewrite El, Ht, Hc. cbn [fst snd].
    pose proof (loop_step_fvinv (s_cfg s0) fv (s_tee s0) l (conj Hfv Hn)) as Hf2.
    split; [exact (proj1 Hf2)|]. unfold sinv. cbn [is_tee is_cfg is_prog].
    split; [reflexivity|]. split; [reflexivity|]. split; [exact Hf2|]. split; [apply reach_snoc; exact Hr|].
    apply loop_step_first. exact Hfi.
  - cbn [fst snd]. split; [reflexivity|]. unfold sinv. rewrite Ep. auto.
Qed.

Lemma step_nth_inv : forall i fv ss0 ss, Forall2 (sinv fv) ss0 ss ->
  fst (step_nth i fv ss) = fv /\ Forall2 (sinv fv) ss0 (snd (step_nth i fv ss)).
Proof.
  intros i fv ss0 ss H. revert i. induction H as [|s0 s ss0 ss Hs Hrest IH]; intro i.
  - destruct i; cbn; split; try reflexivity; constructor.
  - destruct i as [|j]; cbn [step_nth].
    + destruct (step_sess_inv fv s0 s Hs) as (H1 & H2).
      destruct (step_sess fv s) as [fv' s'] eqn:E. cbn [fst snd] in *. split; [exact H1|constructor; assumption].
    + destruct (IH j) as (H1 & H2).
      destruct (step_nth j fv ss) as [fv' rest'] eqn:E. cbn [fst snd] in *. split; [exact H1|constructor; assumption].
Qed.

Lemma sched_run_inv : forall sched fv ss0 ss, Forall2 (sinv fv) ss0 ss ->
  fst (sched_run sched fv ss) = fv /\ Forall2 (sinv fv) ss0 (snd (sched_run sched fv ss)).
Proof.
  induction sched as [|i rest IH]; intros fv ss0 ss H; cbn [sched_run].
  - auto.
  - destruct (step_nth_inv i fv ss0 ss H) as (H1 & H2).
    destruct (step_nth i fv ss) as [fv' ss'] eqn:E. cbn [fst snd] in *. subst fv'. apply IH. exact H2.
Qed.

Lemma start_inv fv : forall ss0, Forall2 (sinv fv) ss0 (map (start_sess fv) ss0).
Proof.
  induction ss0 as [|s0 ss0 IH]; cbn; constructor; [|exact IH].
  unfold sinv, start_sess. cbn [is_tee is_cfg is_prog pstate l_m].
  split; [reflexivity|]. split; [reflexivity|]. split; [unfold fvinv, init_state; cbn; auto|].
  split; [apply reach_here|reflexivity].
Qed.

Lemma Forall2_imp {A B} (P Q : A -> B -> Prop) l l' :
  (forall a b, P a b -> Q a b) -> Forall2 P l l' -> Forall2 Q l l'.
Proof. intros HPQ H. induction H; constructor; auto. Qed.

(* Any schedule of any sessions sharing one feature value: the captured
   variable is what it was, every layer switch of every session was given that
   session's own name (its domain with a nil config), and every session that
   has finished has the result it has when run alone. *)
Lemma interleaved_sessions sched fv ss0 :
  let out := sched_run sched fv (map (start_sess fv) ss0) in
  fst out = fv /\
  Forall2 (fun s0 s =>
             Forall (fun n => n = name_for (s_cfg s0) fv) (server_names (m_tr (pstate (is_prog s)))) /\
             (forall r, is_prog s = Done r -> r = run_sess fv s0) /\
             firstinv (is_prog s))
          ss0 (snd out).
Proof.
  intro out. destruct (sched_run_inv sched fv ss0 _ (start_inv fv ss0)) as (H1 & H2). fold out in H1, H2.
  split; [exact H1|]. eapply Forall2_imp; [|exact H2].
  intros s0 s (Ht & Hc & (Hfv & Hn) & Hr & Hfi). split; [exact Hn|]. split; [|exact Hfi].
  intros r Hd. rewrite Hd in Hr. unfold run_sess. apply reach_done_run. exact Hr.
Qed.
