(* C02/Proofs.v — the statements of C02/Properties.v, derived from the
   configuration-independent invariants (Frame.v) and the phase invariant
   (Phase.v); table lemmas over gen/NegTables.v. *)
From Coq Require Import ZifyBool ZifyNat ZifyN.
From XV Require Import lib.Bytes gen.NegTables gen.C02Restart C02.Model C02.Frame C02.Phase C02.Adv C02.Inter.

(* ------------------------------------------------------------------ tables *)

(* the built-in features as the source declares them *)
Definition sasl_feature : feature :=
  mkF ft_sasl_space ft_sasl_local ft_sasl_nec ft_sasl_proh ft_sasl_negotiable KAbstract.
Definition bind_feature : feature :=
  mkF ft_bind_space ft_bind_local ft_bind_nec ft_bind_proh ft_bind_negotiable KAbstract.

Lemma sasl_requires_secure : N.land ft_sasl_nec st_Secure = st_Secure.
Proof. vm_compute. reflexivity. Qed.

Lemma bind_requires_authn : N.land ft_bind_nec st_Authn = st_Authn.
Proof. vm_compute. reflexivity. Qed.

Lemma starttls_only_when_not_secure : ft_starttls_nec = 0%N /\ ft_starttls_proh = st_Secure /\ ft_starttls_negotiable = true.
Proof. vm_compute. auto. Qed.

(* STARTTLS, SASL and resource binding as declared form an admitted configuration,
   in any order and with any handshake oracle and domain *)
Lemma builtin_features_admitted hs dom loc orig :
  c02_config (mkCfg [starttls_feature; sasl_feature; bind_feature] hs dom loc orig) = true /\
  c02_config (mkCfg [bind_feature; sasl_feature; starttls_feature] hs dom loc orig) = true /\
  gated starttls_feature = true /\ gated sasl_feature = true /\ gated bind_feature = true.
Proof. vm_compute. auto. Qed.

(* session.go's restart block does what [reset_stream] and [switch_layer] model:
   s.features and s.negotiated are each emptied by a loop over themselves, and
   decoder and encoder are made anew on the new connection *)
Definition clears (x : bytes) : bool :=
  existsb (fun p => bytes_eqb (fst p) x && bytes_eqb (snd p) x) restart_clears.

Lemma restart_block_as_modelled :
  clears (str "features") = true /\ clears (str "negotiated") = true /\
  restart_renews_decoder = true /\ restart_renews_encoder = true /\
  mem (str "s.in.Info") restart_resets_info = true /\ mem (str "s.out.Info") restart_resets_info = true.
Proof. vm_compute. repeat split; reflexivity. Qed.

(* starttls.go: the Negotiate closure of StartTLS assigns to none of the
   variables it captures (the model threads the captured state [m_fv] through
   sessions and no primitive step writes it) *)
Lemma starttls_closure_writes_nothing : starttls_negotiate_writes = [].
Proof. vm_compute. reflexivity. Qed.

(* ------------------------------------------------------------------ clear-text wire *)

Lemma prefix_cases p :
  prefix_of witem_eqb (couts p) [WHeader; starttls_request] = true /\
  Forall (fun w => clear_allowed w = true) (couts p).
Proof. destruct p; split; try (vm_compute; reflexivity); repeat constructor. Qed.

Lemma clear_wire tee c fv bits clear tls outs choices :
  c02_config c = true -> c02_bits bits = true ->
  let tr := trace (run tee c fv bits clear tls outs choices) in
  prefix_of witem_eqb (outs_of (before_switch tr)) [WHeader; starttls_request] = true /\
  Forall (fun w => clear_allowed w = true) (outs_of (before_switch tr)).
Proof.
  intros Hc Hb tr. destruct (run_final c Hc bits Hb tee fv clear tls outs choices) as (p & Ha & _).
  destruct (aut_facts bits _ _ Ha) as (_ & Ho & _). unfold tr, trace. rewrite Ho. apply prefix_cases.
Qed.

(* ------------------------------------------------------------------ ready only over TLS *)

Lemma ready_implies_tls tee c fv bits clear tls outs choices :
  c02_config c = true -> c02_bits bits = true ->
  let r := run tee c fv bits clear tls outs choices in
  r_class r = ROk ->
  switched (trace r) = true /\ handshakes (trace r) = [true] /\ c_hs_ok c = true /\
  has (r_bits r) st_Secure = true /\ has (r_bits r) st_Ready = true /\ m_tls (r_state r) = true /\
  server_names (trace r) = [name_for c fv].
Proof.
  intros Hc Hb r Hok. destruct (run_final c Hc bits Hb tee fv clear tls outs choices) as (p & Ha & Hbits & Hph & Hcl).
  fold r in Ha, Hbits, Hph, Hcl. destruct (Hcl Hok) as (Hp & Hhs). subst p.
  destruct (aut_facts bits _ _ Ha) as (Hsw & _ & Hh & _ & _ & Hlen). cbn [phase_ok sw hsk] in Hph, Hsw, Hh, Hlen.
  destruct Hph as (Hsec & Htls & Hhsf). unfold trace. rewrite Hbits. repeat split; auto.
  - (* the loop only stops with ROk when the Ready bit is set *)
    clear - Hok Hbits. unfold r, run in *.
    set (F := fuel_for clear tls) in *. set (m0 := init_state c fv bits clear tls outs choices) in *.
    assert (forall fuel tee m data istee,
               r_class (session_loop fuel tee c m data istee) = ROk ->
               has (m_bits (r_state (session_loop fuel tee c m data istee))) st_Ready = true) as Hgen.
    { clear. induction fuel as [|k IH]; intros tee m data istee; [cbn; discriminate|].
      rewrite session_loop_S. destruct (has (m_bits m) st_Ready) eqn:E; [intros _; exact E|].
      destruct (tee && negb istee); [apply IH|].
      destruct (negotiator_body c m (ns_of data)) as [m1 [[[mask restart] ns1]|e|]]; try (cbn; discriminate).
      apply IH. }
    apply Hgen. exact Hok.
  - destruct (run_fvinv tee c fv bits clear tls outs choices) as (_ & Hn). fold r in Hn. unfold trace in *.
    destruct (server_names (m_tr (r_state r))) as [|n [|n2 l]]; cbn in Hlen; try discriminate.
    inversion Hn; subst. reflexivity.
Qed.

Lemma kind_of_tls f : is_tls_kind f = true -> f_kind f = KStartTLS.
Proof. unfold is_tls_kind. destruct (f_kind f); [discriminate|reflexivity]. Qed.

Lemma no_progress_in_clear tee c fv bits clear tls outs choices :
  c02_config c = true -> c02_bits bits = true ->
  let r := run tee c fv bits clear tls outs choices in
  Forall (fun st => st = bits) (bits_seen (before_switch (trace r))) /\
  Forall (fun f => f_kind f = KStartTLS) (negs_of (before_switch (trace r))) /\
  length (server_names (trace r)) <= 1 /\
  (switched (trace r) = false ->
   r_bits r = bits /\ r_class r <> ROk /\ handshakes (trace r) = [] /\ m_tls (r_state r) = false).
Proof.
  intros Hc Hb r. destruct (run_final c Hc bits Hb tee fv clear tls outs choices) as (p & Ha & Hbits & Hph & Hcl).
  fold r in Ha, Hbits, Hph, Hcl.
  destruct (aut_facts bits _ _ Ha) as (Hsw & _ & Hh & Hbs & Hn & Hlen). unfold trace.
  split; [exact Hbs|]. split.
  { eapply Forall_impl; [|exact Hn]. intros f Hf. apply kind_of_tls. exact Hf. }
  split; [rewrite Hlen; destruct (sw p); lia|].
  intro Hns. rewrite Hns in Hsw.
  destruct p; cbn [sw] in Hsw; try discriminate; cbn [phase_ok hsk] in Hph, Hh; destruct Hph as (Hb0 & Ht);
    (repeat split; [congruence|intro Hok; destruct (Hcl Hok); discriminate|exact Hh|exact Ht]).
Qed.

(* ------------------------------------------------------------------ clear text is not reinterpreted *)

Lemma cleartext_not_reinterpreted tee c fv bits clear tls outs choices :
  let tr := trace (run tee c fv bits clear tls outs choices) in
  (exists rest, ins_of (before_switch tr) ++ rest = clear) /\
  (exists rest, ins_of (after_switch tr) ++ rest = tls).
Proof. intro tr. apply acct_final. apply run_acct. Qed.

(* ------------------------------------------------------------------ server names *)

Lemma servername_is_own_domain ss :
  Forall2 (fun s r => Forall (fun n => n = c_domain (s_cfg s)) (server_names (trace r)))
          ss (run_sessions None ss).
Proof. exact (run_sessions_names ss None). Qed.

Lemma servername_is_configured ss n0 :
  Forall2 (fun s r => Forall (fun n => n = n0) (server_names (trace r)))
          ss (run_sessions (Some n0) ss).
Proof. exact (run_sessions_names ss (Some n0)). Qed.

(* ------------------------------------------------------------------ Session.Feature on the protected stream *)

Lemma features_from_protected_stream_only tee c fv bits clear tls outs choices :
  let r := run tee c fv bits clear tls outs choices in
  switched (trace r) = true ->
  incl (m_adv (r_state r)) (adv_spaces (ins_of (after_switch (trace r)))) /\
  incl (m_adv (r_state r)) (adv_spaces tls).
Proof. exact (run_adv tee c fv bits clear tls outs choices). Qed.

Lemma established_features_from_tls tee c fv bits clear tls outs choices :
  c02_config c = true -> c02_bits bits = true ->
  let r := run tee c fv bits clear tls outs choices in
  r_class r = ROk -> incl (m_adv (r_state r)) (adv_spaces tls).
Proof.
  intros Hc Hb r Hok. destruct (ready_implies_tls tee c fv bits clear tls outs choices Hc Hb Hok) as (Hsw & _).
  exact (proj2 (run_adv tee c fv bits clear tls outs choices Hsw)).
Qed.

(* ------------------------------------------------------------------ Session.In() on the protected stream *)

Lemma info_from_protected_stream_only tee c fv bits clear tls outs choices :
  let r := run tee c fv bits clear tls outs choices in
  switched (trace r) = true -> m_hs (r_state r) = false ->
  info_from (headers_of (ins_of (after_switch (trace r)))) (m_info (r_state r)) /\
  info_from (headers_of tls) (m_info (r_state r)).
Proof. exact (run_info tee c fv bits clear tls outs choices). Qed.

Lemma established_info_from_tls tee c fv bits clear tls outs choices :
  c02_config c = true -> c02_bits bits = true ->
  let r := run tee c fv bits clear tls outs choices in
  r_class r = ROk ->
  info_from (headers_of tls) (m_info (r_state r)) /\
  n_from (m_info (r_state r)) = c_loc c /\ n_to (m_info (r_state r)) = c_orig c.
Proof.
  intros Hc Hb r Hok.
  destruct (run_final c Hc bits Hb tee fv clear tls outs choices) as (p & Ha & _ & Hph & Hcl). fold r in Ha, Hph, Hcl.
  destruct (Hcl Hok) as (Hp & _). subst p. cbn [phase_ok] in Hph. destruct Hph as (_ & _ & Hhs).
  destruct (aut_facts bits _ _ Ha) as (Hsw & _). cbn [sw] in Hsw.
  split; [exact (proj2 (run_info tee c fv bits clear tls outs choices Hsw Hhs))|].
  destruct (run_endinv tee c fv bits clear tls outs choices) as (_ & Haddr). exact (Haddr Hok).
Qed.

(* ------------------------------------------------------------------ overlapping sessions *)

Lemma servername_under_interleaving sched ss :
  let out := sched_run sched None (map (start_sess None) ss) in
  fst out = None /\
  Forall2 (fun s0 s =>
             Forall (fun n => n = c_domain (s_cfg s0)) (server_names (m_tr (pstate (is_prog s)))) /\
             (forall r, is_prog s = Done r -> r = run_sess None s0))
          ss (snd out).
Proof.
  intro out. destruct (interleaved_sessions sched None ss) as (H1 & H2). split; [exact H1|].
  eapply Forall2_imp; [|exact H2]. intros s0 s (A & B & _). auto.
Qed.

Lemma interleaving_changes_nothing sched fv ss :
  let out := sched_run sched fv (map (start_sess fv) ss) in
  fst out = fv /\
  Forall2 (fun s0 s =>
             Forall (fun n => n = name_for (s_cfg s0) fv) (server_names (m_tr (pstate (is_prog s)))) /\
             (forall r, is_prog s = Done r -> r = run_sess fv s0))
          ss (snd out).
Proof.
  intro out. destruct (interleaved_sessions sched fv ss) as (H1 & H2). split; [exact H1|].
  eapply Forall2_imp; [|exact H2]. intros s0 s (A & B & _). auto.
Qed.

(* whatever the other sessions sharing the Negotiator value (and the feature
   value) have done, in whatever order: a session's next features list is
   treated as its first one exactly when the session itself has not negotiated
   one before *)
Lemma first_list_per_session sched fv ss :
  Forall (fun s => match is_prog s with
                   | Running l => next_first l = Nat.eqb (l_calls l) 0
                   | Done _ => True
                   end)
         (snd (sched_run sched fv (map (start_sess fv) ss))).
Proof.
  destruct (interleaved_sessions sched fv ss) as (_ & H2).
  induction H2 as [|s0 s l0 l (_ & _ & Hf) _ IH]; constructor; [exact Hf|exact IH].
Qed.

(* negotiator.go: the closure returned by negotiator() assigns to no captured
   variable but cfg, the stream configuration its user's function returns at
   each call; in particular nothing like "a features list has been seen" is
   kept in the Negotiator value *)
Lemma negotiator_closure_writes_only_cfg :
  forallb (fun v => bytes_eqb v (str "cfg")) negotiator_writes = true.
Proof. vm_compute. reflexivity. Qed.

Lemma no_step_writes_captured c m m' : evolves c m m' -> m_fv m' = m_fv m.
Proof.
  intro H. induction H as [|m1 m2 m3 H12 IH Hp]; [reflexivity|]. rewrite <- IH. destruct Hp; reflexivity.
Qed.
