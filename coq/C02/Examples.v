(* C02/Examples.v — non-vacuity: concrete configurations, bits and scripts that
   satisfy the hypotheses of the theorems and reach every phase. *)
From XV Require Import lib.Bytes gen.NegTables C02.Model C02.Frame C02.Phase C02.Adv C02.Inter C02.Proofs.

Definition dom : bytes := str "example.net".
Definition loc : bytes := str "srv.example.net".
Definition orig : bytes := str "me@example.net".
Definition cfg_ok : config := mkCfg [starttls_feature; sasl_feature; bind_feature] true dom loc orig.
Definition cfg_bad_hs : config := mkCfg [starttls_feature; sasl_feature; bind_feature] false dom loc orig.

Definition hattr (id : bytes) (lang : option bytes) : hattrs :=
  mkH (Some id) (Some str_version) lang (Some ns_client) (Some loc) (Some orig).
Definition hdr := mkItem false (PHeader (hattr (str "s1") (Some (str "en")))).
Definition fl (cs : list fchild) := mkItem false (PFeatures cs).
Definition c_tls (req : bool) := FC ns_StartTLS ft_starttls_local req false.
Definition c_sasl := FC ft_sasl_space ft_sasl_local true false.
Definition c_bind := FC ft_bind_space ft_bind_local true false.
Definition proceed := mkItem false (PElem ns_StartTLS (str "proceed")).
Definition failure := mkItem false (PElem ns_StartTLS (str "failure")).

(* hypotheses are satisfiable: admitted configuration, admitted bits (c2s and s2s) *)
Example ex_config : c02_config cfg_ok = true. Proof. vm_compute. reflexivity. Qed.
Example ex_bits : c02_bits 0%N = true /\ c02_bits st_S2S = true. Proof. vm_compute. auto. Qed.
Example ex_bits_excluded : c02_bits st_Secure = false /\ c02_bits st_Ready = false /\ c02_bits st_Received = false.
Proof. vm_compute. auto. Qed.

(* the happy path: header, required STARTTLS, proceed; over TLS SASL then bind *)
Definition happy := run false cfg_ok None 0%N [hdr; fl [c_tls true]; proceed]
  [hdr; fl [c_sasl]; hdr; fl [c_bind]]
  [mkO st_Authn true false; mkO st_Ready false false]
  [ns_StartTLS; ft_sasl_space; ft_bind_space].

Example ex_happy_ok : r_class happy = ROk /\ r_bits happy = 7%N. Proof. vm_compute. auto. Qed.
Example ex_happy_wire : outs_of (before_switch (trace happy)) = [WHeader; starttls_request].
Proof. vm_compute. reflexivity. Qed.
Example ex_happy_sni : server_names (trace happy) = [dom] /\ handshakes (trace happy) = [true].
Proof. vm_compute. auto. Qed.

(* the three shapes that were defects on the pinned tree, as the repaired code behaves *)
Example ex_optional_failure :
  let r := run false cfg_ok None 0%N [hdr; fl [c_tls false]; failure] [] [] [ns_StartTLS] in
  r_class r = RErr EOther /\ r_bits r = 0%N /\ switched (trace r) = false.
Proof. vm_compute. auto. Qed.

Example ex_empty_list_forces_starttls :
  let r := run true cfg_ok None 0%N [hdr; fl []; proceed] [hdr; fl []] [] [ns_StartTLS] in
  r_class r = ROk /\ switched (trace r) = true /\ outs_of (before_switch (trace r)) = [WHeader; starttls_request].
Proof. vm_compute. auto. Qed.

Example ex_optional_alone_proceed_restarts :
  let r := run false cfg_ok None 0%N [hdr; fl [c_tls false]; proceed] [hdr; fl []] [] [ns_StartTLS] in
  r_class r = ROk /\ handshakes (trace r) = [true] /\ length (ins_of (after_switch (trace r))) = 2.
Proof. vm_compute. auto. Qed.

(* clear text pipelined behind <proceed/> is dropped: the pipelined empty list does not establish the session *)
Example ex_pipelined_dropped :
  let r := run false cfg_ok None 0%N [hdr; fl [c_tls true]; proceed; hdr; fl []] [hdr; fl [c_sasl]] [mkO 0%N false true] [ns_StartTLS; ft_sasl_space] in
  r_class r = RErr EFeature /\ ins_of (after_switch (trace r)) = [hdr; fl [c_sasl]].
Proof. vm_compute. auto. Qed.

(* a failed handshake is an error, never a fall-back to clear text *)
Example ex_handshake_fails :
  let r := run false cfg_bad_hs None 0%N [hdr; fl [c_tls true]; proceed] [hdr; fl []] [] [ns_StartTLS] in
  r_class r = RErr EOther /\ handshakes (trace r) = [false] /\ has (r_bits r) st_Ready = false.
Proof. vm_compute. auto. Qed.

(* one StartTLS(nil) value, three sessions with different domains *)
Definition sess_for (d : bytes) : sess :=
  mkSess false (mkCfg [starttls_feature; sasl_feature; bind_feature] true d loc orig) 0%N
         [hdr; fl [c_tls true]; proceed] [hdr; fl []] [] [ns_StartTLS].
Example ex_reuse :
  map (fun r => server_names (trace r)) (run_sessions None [sess_for (str "a.example"); sess_for (str "b.example"); sess_for (str "c.example")])
  = [[str "a.example"]; [str "b.example"]; [str "c.example"]].
Proof. vm_compute. reflexivity. Qed.

(* the phases of the automaton are all reachable *)
Example ex_phases :
  aut 0%N (trace happy) = Some P4 /\
  aut 0%N (trace (run false cfg_ok None 0%N [hdr; fl [c_tls false]; failure] [] [] [ns_StartTLS])) = Some P2 /\
  aut 0%N (trace (run false cfg_ok None 0%N [hdr] [] [] [])) = Some P1 /\
  aut 0%N (trace (run false cfg_bad_hs None 0%N [hdr; fl [c_tls true]; proceed] [] [] [ns_StartTLS])) = Some P5.
Proof. vm_compute. auto. Qed.

(* what was advertised in clear text only is not reported for the protected stream *)
Definition c_roster := FC (str "urn:xmpp:features:rosterver") (str "ver") false false.
Example ex_clear_features_forgotten :
  let r := run false cfg_ok None 0%N [hdr; fl [c_tls true; c_roster]; proceed] [hdr; fl [c_sasl]; hdr; fl [c_bind]]
               [mkO st_Authn true false; mkO st_Ready false false] [ns_StartTLS; ft_sasl_space; ft_bind_space] in
  r_class r = ROk /\ m_adv (r_state r) = [ft_bind_space] /\
  mem (str "urn:xmpp:features:rosterver") (m_adv (r_state r)) = false /\ mem ns_StartTLS (m_adv (r_state r)) = false.
Proof. vm_compute. auto. Qed.
(* without a restart in between, successive lists accumulate, as in the code *)
Example ex_features_accumulate_without_restart :
  let r := run false cfg_ok None 0%N [hdr; fl [c_tls true; c_roster]; failure] [] [] [ns_StartTLS] in
  m_adv (r_state r) = [str "urn:xmpp:features:rosterver"; ns_StartTLS].
Proof. vm_compute. reflexivity. Qed.

(* a protected header that omits xml:lang: In() reports no language, not the clear-text one;
   one that omits the id or the version is refused *)
Definition hdr_nolang := mkItem false (PHeader (hattr (str "s2") None)).
Definition hdr_noid := mkItem false (PHeader (mkH None (Some str_version) None (Some ns_client) (Some loc) (Some orig))).
Definition hdr_nover := mkItem false (PHeader (mkH (Some (str "s2")) None None (Some ns_client) (Some loc) (Some orig))).
Example ex_info_from_protected_header :
  let r := run false cfg_ok None 0%N [hdr; fl [c_tls true]; proceed] [hdr_nolang; fl []] [] [ns_StartTLS] in
  r_class r = ROk /\ n_id (m_info (r_state r)) = str "s2" /\ n_lang (m_info (r_state r)) = [] /\
  n_from (m_info (r_state r)) = loc /\ n_to (m_info (r_state r)) = orig.
Proof. vm_compute. auto. Qed.
Example ex_protected_header_without_id_or_version_refused :
  r_class (run false cfg_ok None 0%N [hdr; fl [c_tls true]; proceed] [hdr_noid; fl []] [] [ns_StartTLS]) = RErr EOther /\
  r_class (run false cfg_ok None 0%N [hdr; fl [c_tls true]; proceed] [hdr_nover; fl []] [] [ns_StartTLS]) = RErr EOther.
Proof. vm_compute. auto. Qed.

(* two sessions sharing StartTLS(nil), their negotiator calls interleaved: A, B, B, A, A, B, ... *)
Example ex_interleaved :
  let out := sched_run [0; 1; 1; 0; 0; 1; 0; 1; 0; 1] None
                       (map (start_sess None) [sess_for (str "a.example"); sess_for (str "b.example")]) in
  fst out = None /\
  map (fun s => server_names (m_tr (pstate (is_prog s)))) (snd out) = [[str "a.example"]; [str "b.example"]] /\
  map (fun s => match is_prog s with Done r => r_class r | Running _ => RFuel end) (snd out) = [ROk; ROk].
Proof. vm_compute. auto. Qed.
