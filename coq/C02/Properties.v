(* C02/Properties.v — the property theorems of C02 and nothing else.
   "A client asked to use STARTTLS never proceeds in clear text."

   Every theorem quantifies over: the tee setting, the configuration c (any
   list of features admitted by [c02_config]: the real STARTTLS feature and
   otherwise only features that need Secure or Authn; any TLS-handshake oracle;
   any domain), the variable captured by the StartTLS feature value (explicit
   or nil TLS config), the initial state bits admitted by [c02_bits], the
   peer's clear-text script and TLS-layer script (any items: headers good or
   bad, feature lists with any children, stream errors, any element, garbage,
   with or without leading white space, ending anywhere), the scripted outcomes
   of the other features and the observed map-iteration choices. *)
From XV Require Import lib.Bytes gen.NegTables gen.C02Restart C02.Model C02.Frame C02.Phase C02.Adv C02.Inter C02.Proofs.

(* In clear text the session writes nothing but a stream header followed by at
   most one STARTTLS request: what it wrote before a TLS layer was installed is
   a prefix of [header; <starttls/>]. *)
Theorem C02_clear_wire_only_header_and_starttls :
  forall tee c fv bits clear tls outs choices,
  c02_config c = true -> c02_bits bits = true ->
  let tr := trace (run tee c fv bits clear tls outs choices) in
  prefix_of witem_eqb (outs_of (before_switch tr)) [WHeader; starttls_request] = true /\
  Forall (fun w => clear_allowed w = true) (outs_of (before_switch tr)).
Proof. exact clear_wire. Qed.
Print Assumptions C02_clear_wire_only_header_and_starttls.

(* The session is established only over TLS: a result without error means a
   TLS layer was installed, its handshake ran and succeeded (and was given the
   configured name or, with a nil config, the session's own domain), the
   Secure bit is set. *)
Theorem C02_ready_implies_tls :
  forall tee c fv bits clear tls outs choices,
  c02_config c = true -> c02_bits bits = true ->
  let r := run tee c fv bits clear tls outs choices in
  r_class r = ROk ->
  switched (trace r) = true /\ handshakes (trace r) = [true] /\ c_hs_ok c = true /\
  has (r_bits r) st_Secure = true /\ has (r_bits r) st_Ready = true /\ m_tls (r_state r) = true /\
  server_names (trace r) = [name_for c fv].
Proof. exact ready_implies_tls. Qed.
Print Assumptions C02_ready_implies_tls.

(* Until a TLS layer is in place nothing moves: every read and every callback
   sees the initial state bits (so never Ready, Secure or Authn), the only
   Negotiate that runs is STARTTLS's, a TLS layer is installed at most once,
   and a run that never installs one ends with the initial bits, not
   established, with no handshake attempted. *)
Theorem C02_no_progress_in_clear :
  forall tee c fv bits clear tls outs choices,
  c02_config c = true -> c02_bits bits = true ->
  let r := run tee c fv bits clear tls outs choices in
  Forall (fun st => st = bits) (bits_seen (before_switch (trace r))) /\
  Forall (fun f => f_kind f = KStartTLS) (negs_of (before_switch (trace r))) /\
  length (server_names (trace r)) <= 1 /\
  (switched (trace r) = false ->
   r_bits r = bits /\ r_class r <> ROk /\ handshakes (trace r) = [] /\ m_tls (r_state r) = false).
Proof. exact no_progress_in_clear. Qed.
Print Assumptions C02_no_progress_in_clear.

(* The outcome is always a result or an error: the model's fuel never runs out. *)
Theorem C02_outcome_total :
  forall tee c fv bits clear tls outs choices,
  r_class (run tee c fv bits clear tls outs choices) <> RFuel.
Proof. exact run_not_fuel. Qed.
Print Assumptions C02_outcome_total.

(* Clear text is never interpreted as part of the protected stream: what the
   session consumed before the layer switch is a prefix of the clear-text
   script, what it consumed afterwards is a prefix of the TLS-layer script —
   clear-text items still pending at the switch (pipelined behind <proceed/>)
   are never delivered.  For every configuration. *)
Theorem C02_cleartext_not_reinterpreted :
  forall tee c fv bits clear tls outs choices,
  let tr := trace (run tee c fv bits clear tls outs choices) in
  (exists rest, ins_of (before_switch tr) ++ rest = clear) /\
  (exists rest, ins_of (after_switch tr) ++ rest = tls).
Proof. exact cleartext_not_reinterpreted. Qed.
Print Assumptions C02_cleartext_not_reinterpreted.

(* Nor does it survive as state of the protected stream: once a TLS layer has
   been installed, every name space the session reports as advertised
   (Session.Feature, the keys of s.features) was a child of a features list
   consumed after the switch, hence of a features list of the TLS-layer script;
   what the peer advertised in clear text is forgotten.  For every
   configuration, whatever the outcome. *)
Theorem C02_features_from_protected_stream_only :
  forall tee c fv bits clear tls outs choices,
  let r := run tee c fv bits clear tls outs choices in
  switched (trace r) = true ->
  incl (m_adv (r_state r)) (adv_spaces (ins_of (after_switch (trace r)))) /\
  incl (m_adv (r_state r)) (adv_spaces tls).
Proof. exact features_from_protected_stream_only. Qed.
Print Assumptions C02_features_from_protected_stream_only.

(* ... in particular on every established session of an admitted configuration. *)
Theorem C02_established_features_from_tls :
  forall tee c fv bits clear tls outs choices,
  c02_config c = true -> c02_bits bits = true ->
  let r := run tee c fv bits clear tls outs choices in
  r_class r = ROk -> incl (m_adv (r_state r)) (adv_spaces tls).
Proof. exact established_features_from_tls. Qed.
Print Assumptions C02_established_features_from_tls.

(* The same for Session.In() (s.in.Info): once a TLS layer has been installed and
   its handshake has run, the stream id, version, xml:lang and content name
   space the session reports are each zero or the value of that attribute in a
   stream header consumed after the switch, hence in a header of the TLS-layer
   script: an attribute the protected header omits does not keep the value the
   clear-text header gave it.  For every configuration, whatever the outcome.
   (The one state excluded by the second premise — layer installed, handshake
   pending — is a final state only when the Ready bit was set before the
   restart; C02_ready_implies_tls shows that an admitted configuration never
   ends there.) *)
Theorem C02_info_from_protected_stream_only :
  forall tee c fv bits clear tls outs choices,
  let r := run tee c fv bits clear tls outs choices in
  switched (trace r) = true -> m_hs (r_state r) = false ->
  info_from (headers_of (ins_of (after_switch (trace r)))) (m_info (r_state r)) /\
  info_from (headers_of tls) (m_info (r_state r)).
Proof. exact info_from_protected_stream_only. Qed.
Print Assumptions C02_info_from_protected_stream_only.

(* ... on every established session of an admitted configuration, where moreover
   from/to are the addresses the session was created with. *)
Theorem C02_established_info_from_tls :
  forall tee c fv bits clear tls outs choices,
  c02_config c = true -> c02_bits bits = true ->
  let r := run tee c fv bits clear tls outs choices in
  r_class r = ROk ->
  info_from (headers_of tls) (m_info (r_state r)) /\
  n_from (m_info (r_state r)) = c_loc c /\ n_to (m_info (r_state r)) = c_orig c.
Proof. exact established_info_from_tls. Qed.
Print Assumptions C02_established_info_from_tls.

(* One StartTLS(nil) feature value used for any number of sessions, one after
   the other: every handshake of session i is given the domain of session i's
   own address, whatever happened in the sessions before. *)
Theorem C02_servername_is_own_domain :
  forall ss : list sess,
  Forall2 (fun s r => Forall (fun n => n = c_domain (s_cfg s)) (server_names (trace r)))
          ss (run_sessions None ss).
Proof. exact servername_is_own_domain. Qed.
Print Assumptions C02_servername_is_own_domain.

(* The same when the sessions OVERLAP: the captured variable is global state and
   the sessions take turns, one negotiator call at a time, in any order
   (schedule = list of session indices, of any length).  The variable is never
   changed, every layer switch of every session is given that session's own
   domain, and a session that has finished has exactly the result it has when
   run alone. *)
Theorem C02_servername_under_interleaving :
  forall (sched : list nat) (ss : list sess),
  let out := sched_run sched None (map (start_sess None) ss) in
  fst out = None /\
  Forall2 (fun s0 s =>
             Forall (fun n => n = c_domain (s_cfg s0)) (server_names (m_tr (pstate (is_prog s)))) /\
             (forall r, is_prog s = Done r -> r = run_sess None s0))
          ss (snd out).
Proof. exact servername_under_interleaving. Qed.
Print Assumptions C02_servername_under_interleaving.

(* ... for an explicit config too. *)
Theorem C02_interleaving_changes_nothing :
  forall (sched : list nat) fv (ss : list sess),
  let out := sched_run sched fv (map (start_sess fv) ss) in
  fst out = fv /\
  Forall2 (fun s0 s =>
             Forall (fun n => n = name_for (s_cfg s0) fv) (server_names (m_tr (pstate (is_prog s)))) /\
             (forall r, is_prog s = Done r -> r = run_sess fv s0))
          ss (snd out).
Proof. exact interleaving_changes_nothing. Qed.
Print Assumptions C02_interleaving_changes_nothing.

(* The forced STARTTLS attempt on the first features list is a matter of each
   session's own history, also when sessions share one Negotiator value: for
   every schedule, the `first` argument of a session's next negotiateFeatures
   call is true exactly when that session has made no such call yet.  Together
   with C02_interleaving_changes_nothing (a finished session has the result it
   has alone) the clauses proved for one session hold for every session of
   every history.  Read from negotiator.go on every run: the closure returned
   by negotiator() assigns to none of its captured variables but cfg. *)
Theorem C02_first_list_per_session :
  (forall (sched : list nat) fv (ss : list sess),
     Forall (fun s => match is_prog s with
                      | Running l => next_first l = Nat.eqb (l_calls l) 0
                      | Done _ => True
                      end)
            (snd (sched_run sched fv (map (start_sess fv) ss)))) /\
  forallb (fun v => bytes_eqb v (str "cfg")) negotiator_writes = true.
Proof. exact (conj first_list_per_session negotiator_closure_writes_only_cfg). Qed.
Print Assumptions C02_first_list_per_session.

(* At any granularity: no sequence of primitive steps of any model function
   writes the captured variable; and, read from starttls.go on every run, the
   Negotiate closure of StartTLS assigns to none of the variables it captures. *)
Theorem C02_captured_state_never_written :
  (forall c m m', evolves c m m' -> m_fv m' = m_fv m) /\ starttls_negotiate_writes = [].
Proof. exact (conj no_step_writes_captured starttls_closure_writes_nothing). Qed.
Print Assumptions C02_captured_state_never_written.

(* ... and with an explicit config every handshake is given that config's name. *)
Theorem C02_servername_is_configured :
  forall (ss : list sess) n0,
  Forall2 (fun s r => Forall (fun n => n = n0) (server_names (trace r)))
          ss (run_sessions (Some n0) ss).
Proof. exact servername_is_configured. Qed.
Print Assumptions C02_servername_is_configured.

(* Turning on the stream tee changes nothing: the whole result (outcome, final
   state, every event including what is written and read) is the same.  For
   every configuration. *)
Theorem C02_tee_invariant :
  forall c fv bits clear tls outs choices,
  run true c fv bits clear tls outs choices = run false c fv bits clear tls outs choices.
Proof. exact run_tee_invariant. Qed.
Print Assumptions C02_tee_invariant.

(* The premise [c02_config] is met by the code's own features: as declared in
   starttls.go, sasl.go and bind.go (tables regenerated from the source),
   STARTTLS needs nothing and is prohibited once Secure, SASL needs Secure,
   resource binding needs Authn. *)
Theorem C02_builtin_features_admitted :
  forall hs dom loc orig,
  c02_config (mkCfg [starttls_feature; sasl_feature; bind_feature] hs dom loc orig) = true /\
  c02_config (mkCfg [bind_feature; sasl_feature; starttls_feature] hs dom loc orig) = true /\
  gated starttls_feature = true /\ gated sasl_feature = true /\ gated bind_feature = true.
Proof. exact builtin_features_admitted. Qed.
Print Assumptions C02_builtin_features_admitted.

(* The restart block of negotiateSession, as read from session.go on every run,
   is the one the model's [reset_stream] / [switch_layer] stand for: the
   advertised-features map and the negotiated map are each emptied, decoder and
   encoder are renewed on the new connection, and both stream infos are reset
   to their To/From before the negotiator is called again. *)
Theorem C02_restart_block_as_modelled :
  clears (str "features") = true /\ clears (str "negotiated") = true /\
  restart_renews_decoder = true /\ restart_renews_encoder = true /\
  mem (str "s.in.Info") restart_resets_info = true /\ mem (str "s.out.Info") restart_resets_info = true.
Proof. exact restart_block_as_modelled. Qed.
Print Assumptions C02_restart_block_as_modelled.

Theorem C02_sasl_requires_secure : N.land ft_sasl_nec st_Secure = st_Secure.
Proof. exact sasl_requires_secure. Qed.
Print Assumptions C02_sasl_requires_secure.

Theorem C02_bind_requires_authn : N.land ft_bind_nec st_Authn = st_Authn.
Proof. exact bind_requires_authn. Qed.
Print Assumptions C02_bind_requires_authn.
