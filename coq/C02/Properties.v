(* C02/Properties.v — the property theorems of C02 and nothing else.
   "A client asked to use STARTTLS never proceeds in clear text."

   Every theorem quantifies over: the tee setting, the configuration c (any
   list of features admitted by [c02_config]: the real STARTTLS feature and
   otherwise only features that need Secure or Authn; any TLS-handshake oracle;
   any domain), the variable captured by the StartTLS feature value (explicit
   or nil TLS config), the initial state bits admitted by [c02_bits], the
   peer's clear-text script and TLS-layer script (any items: headers good or
   bad, feature lists with any children, stream errors, any element, garbage,
   with or without leading white space, ending anywhere), the scripted outcomes
   of the other features and the observed map-iteration choices. *)
From XV Require Import lib.Bytes gen.NegTables gen.C02Restart C02.Model C02.Frame C02.Phase C02.Adv C02.Proofs.

(* In clear text the session writes nothing but a stream header followed by at
   most one STARTTLS request: what it wrote before a TLS layer was installed is
   a prefix of [header; <starttls/>]. *)
Theorem C02_clear_wire_only_header_and_starttls :
  forall tee c fv bits clear tls outs choices,
  c02_config c = true -> c02_bits bits = true ->
  let tr := trace (run tee c fv bits clear tls outs choices) in
  prefix_of witem_eqb (outs_of (before_switch tr)) [WHeader; starttls_request] = true /\
  Forall (fun w => clear_allowed w = true) (outs_of (before_switch tr)).
Proof. exact clear_wire. Qed.
Print Assumptions C02_clear_wire_only_header_and_starttls.

(* The session is established only over TLS: a result without error means a
   TLS layer was installed, its handshake ran and succeeded (and was given the
   configured name or, with a nil config, the session's own domain), the
   Secure bit is set. *)
Theorem C02_ready_implies_tls :
  forall tee c fv bits clear tls outs choices,
  c02_config c = true -> c02_bits bits = true ->
  let r := run tee c fv bits clear tls outs choices in
  r_class r = ROk ->
  switched (trace r) = true /\ handshakes (trace r) = [true] /\ c_hs_ok c = true /\
  has (r_bits r) st_Secure = true /\ has (r_bits r) st_Ready = true /\ m_tls (r_state r) = true /\
  server_names (trace r) = [name_for c fv].
Proof. exact ready_implies_tls. Qed.
Print Assumptions C02_ready_implies_tls.

(* Until a TLS layer is in place nothing moves: every read and every callback
   sees the initial state bits (so never Ready, Secure or Authn), the only
   Negotiate that runs is STARTTLS's, a TLS layer is installed at most once,
   and a run that never installs one ends with the initial bits, not
   established, with no handshake attempted. *)
Theorem C02_no_progress_in_clear :
  forall tee c fv bits clear tls outs choices,
  c02_config c = true -> c02_bits bits = true ->
  let r := run tee c fv bits clear tls outs choices in
  Forall (fun st => st = bits) (bits_seen (before_switch (trace r))) /\
  Forall (fun f => f_kind f = KStartTLS) (negs_of (before_switch (trace r))) /\
  length (server_names (trace r)) <= 1 /\
  (switched (trace r) = false ->
   r_bits r = bits /\ r_class r <> ROk /\ handshakes (trace r) = [] /\ m_tls (r_state r) = false).
Proof. exact no_progress_in_clear. Qed.
Print Assumptions C02_no_progress_in_clear.

(* The outcome is always a result or an error: the model's fuel never runs out. *)
Theorem C02_outcome_total :
  forall tee c fv bits clear tls outs choices,
  r_class (run tee c fv bits clear tls outs choices) <> RFuel.
Proof. exact run_not_fuel. Qed.
Print Assumptions C02_outcome_total.

(* Clear text is never interpreted as part of the protected stream: what the
   session consumed before the layer switch is a prefix of the clear-text
   script, what it consumed afterwards is a prefix of the TLS-layer script —
   clear-text items still pending at the switch (pipelined behind <proceed/>)
   are never delivered.  For every configuration. *)
Theorem C02_cleartext_not_reinterpreted :
  forall tee c fv bits clear tls outs choices,
  let tr := trace (run tee c fv bits clear tls outs choices) in
  (exists rest, ins_of (before_switch tr) ++ rest = clear) /\
  (exists rest, ins_of (after_switch tr) ++ rest = tls).
Proof. exact cleartext_not_reinterpreted. Qed.
Print Assumptions C02_cleartext_not_reinterpreted.

(* Nor does it survive as state of the protected stream: once a TLS layer has
   been installed, every name space the session reports as advertised
   (Session.Feature, the keys of s.features) was a child of a features list
   consumed after the switch, hence of a features list of the TLS-layer script;
   what the peer advertised in clear text is forgotten.  For every
   configuration, whatever the outcome. *)
Theorem C02_features_from_protected_stream_only :
  forall tee c fv bits clear tls outs choices,
  let r := run tee c fv bits clear tls outs choices in
  switched (trace r) = true ->
  incl (m_adv (r_state r)) (adv_spaces (ins_of (after_switch (trace r)))) /\
  incl (m_adv (r_state r)) (adv_spaces tls).
Proof. exact features_from_protected_stream_only. Qed.
Print Assumptions C02_features_from_protected_stream_only.

(* ... in particular on every established session of an admitted configuration. *)
Theorem C02_established_features_from_tls :
  forall tee c fv bits clear tls outs choices,
  c02_config c = true -> c02_bits bits = true ->
  let r := run tee c fv bits clear tls outs choices in
  r_class r = ROk -> incl (m_adv (r_state r)) (adv_spaces tls).
Proof. exact established_features_from_tls. Qed.
Print Assumptions C02_established_features_from_tls.

(* One StartTLS(nil) feature value used for any number of sessions, one after
   the other: every handshake of session i is given the domain of session i's
   own address, whatever happened in the sessions before. *)
Theorem C02_servername_is_own_domain :
  forall ss : list sess,
  Forall2 (fun s r => Forall (fun n => n = c_domain (s_cfg s)) (server_names (trace r)))
          ss (run_sessions None ss).
Proof. exact servername_is_own_domain. Qed.
Print Assumptions C02_servername_is_own_domain.

(* ... and with an explicit config every handshake is given that config's name. *)
Theorem C02_servername_is_configured :
  forall (ss : list sess) n0,
  Forall2 (fun s r => Forall (fun n => n = n0) (server_names (trace r)))
          ss (run_sessions (Some n0) ss).
Proof. exact servername_is_configured. Qed.
Print Assumptions C02_servername_is_configured.

(* Turning on the stream tee changes nothing: the whole result (outcome, final
   state, every event including what is written and read) is the same.  For
   every configuration. *)
Theorem C02_tee_invariant :
  forall c fv bits clear tls outs choices,
  run true c fv bits clear tls outs choices = run false c fv bits clear tls outs choices.
Proof. exact run_tee_invariant. Qed.
Print Assumptions C02_tee_invariant.

(* The premise [c02_config] is met by the code's own features: as declared in
   starttls.go, sasl.go and bind.go (tables regenerated from the source),
   STARTTLS needs nothing and is prohibited once Secure, SASL needs Secure,
   resource binding needs Authn. *)
Theorem C02_builtin_features_admitted :
  forall hs dom,
  c02_config (mkCfg [starttls_feature; sasl_feature; bind_feature] hs dom) = true /\
  c02_config (mkCfg [bind_feature; sasl_feature; starttls_feature] hs dom) = true /\
  gated starttls_feature = true /\ gated sasl_feature = true /\ gated bind_feature = true.
Proof. exact builtin_features_admitted. Qed.
Print Assumptions C02_builtin_features_admitted.

(* The restart block of negotiateSession, as read from session.go on every run,
   is the one the model's [reset_stream] / [switch_layer] stand for: the
   advertised-features map and the negotiated map are each emptied, decoder and
   encoder are renewed on the new connection. *)
Theorem C02_restart_block_as_modelled :
  clears (str "features") = true /\ clears (str "negotiated") = true /\
  restart_renews_decoder = true /\ restart_renews_encoder = true.
Proof. exact restart_block_as_modelled. Qed.
Print Assumptions C02_restart_block_as_modelled.

Theorem C02_sasl_requires_secure : N.land ft_sasl_nec st_Secure = st_Secure.
Proof. exact sasl_requires_secure. Qed.
Print Assumptions C02_sasl_requires_secure.

Theorem C02_bind_requires_authn : N.land ft_bind_nec st_Authn = st_Authn.
Proof. exact bind_requires_authn. Qed.
Print Assumptions C02_bind_requires_authn.
