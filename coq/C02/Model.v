(* C02/Model.v — C02 is about the shared negotiation model (Neg/Model.v) run as
   an initiator whose configuration contains the real STARTTLS feature
   (KStartTLS) on a connection that is not secure yet.  This file adds the
   pieces specific to C02: projections of a trace (what is written before the
   TLS layer, which server names were used, ...), the model of one feature
   value shared by several sessions, and the case checker used by the
   harness-written case files.  Computable definitions only. *)
From XV Require Import lib.Bytes gen.NegTables Neg.Model.

(* ---- projections of a trace ---- *)

Fixpoint before_switch (tr : list event) : list event :=
  match tr with
  | [] => []
  | ESwitch _ :: _ => []
  | e :: r => e :: before_switch r
  end.

Fixpoint after_switch (tr : list event) : list event :=
  match tr with
  | [] => []
  | ESwitch _ :: r => r
  | _ :: r => after_switch r
  end.

Definition outs_of (tr : list event) : list witem :=
  flat_map (fun e => match e with EOut w => [w] | _ => [] end) tr.

Definition switched (tr : list event) : bool :=
  existsb (fun e => match e with ESwitch _ => true | _ => false end) tr.

Definition server_names (tr : list event) : list bytes :=
  flat_map (fun e => match e with ESwitch n => [n] | _ => [] end) tr.

Definition handshakes (tr : list event) : list bool :=
  flat_map (fun e => match e with EHandshake b => [b] | _ => [] end) tr.

Definition is_callback (e : revent) : bool :=
  match e with RParse _ | RNeg _ _ _ => true | _ => false end.

(* the only things a client may write in clear text *)
Definition clear_allowed (w : witem) : bool :=
  match w with
  | WHeader => true
  | WElem sp lo => bytes_eqb sp ns_StartTLS && bytes_eqb lo str_starttls
  | WFeatures _ _ _ => false
  end.

(* ---- the configurations C02 speaks about ---- *)

(* the STARTTLS feature as starttls.go declares it *)
Definition starttls_feature : feature :=
  mkF ft_starttls_space ft_starttls_local ft_starttls_nec ft_starttls_proh ft_starttls_negotiable KStartTLS true false.

(* a configuration "with STARTTLS and otherwise only features that require a
   secured stream": exactly one feature lives in the STARTTLS name space, it is
   the real one, and every other feature lists Secure or Authn as necessary
   (the built-in SASL needs Secure, resource binding needs Authn, which only
   SASL grants) and cannot grant itself anything in clear text because it never
   runs there. *)
Definition gate : N := N.lor st_Secure st_Authn.

Definition gated (f : feature) : bool :=
  if bytes_eqb (f_space f) ns_StartTLS
  then bytes_eqb (f_local f) ft_starttls_local && N.eqb (f_nec f) ft_starttls_nec && N.eqb (f_proh f) ft_starttls_proh
       && f_neg f && match f_kind f with KStartTLS => true | KAbstract => false end
  else negb (N.eqb (N.land (f_nec f) gate) 0%N)
       && match f_kind f with KAbstract => true | KStartTLS => false end.

Definition c02_config (c : config) : bool :=
  forallb gated (c_feats c) &&
  match find_space ns_StartTLS (c_feats c) with Some _ => true | None => false end.

(* initial state: initiator, neither secure nor authenticated, not ready *)
Definition c02_bits (b : N) : bool :=
  N.eqb (N.land b (N.lor gate (N.lor st_Ready st_Received))) 0%N.

(* ---- one feature value used for several sessions ---- *)

(* what differs from session to session when one StartTLS(nil) value is shared *)
Record sess := mkSess {
  s_domain : bytes; s_bits : N; s_in : list pitem; s_tls : list pitem;
  s_outs : list outcome; s_choices : list bytes; s_hs_ok : bool; s_tee : bool }.

Definition run_sess (feats : list feature) (tlsname : option bytes) (s : sess) : result :=
  run (mkCfg feats (s_tee s) false (s_hs_ok s) (s_domain s) tlsname)
      (s_bits s) (s_in s) (s_tls s) (s_outs s) (s_choices s).

(* the closure state of the feature value (the captured cfg variable) is its
   construction argument and is never written: every session sees [tlsname] *)
Definition run_sessions (feats : list feature) (tlsname : option bytes) (ss : list sess) : list result :=
  map (run_sess feats tlsname) ss.

(* ---- correspondence record ---- *)

Record c2case := mkC2 {
  q_cfg : config; q_bits : N; q_in : list pitem; q_tls : list pitem;
  q_outs : list outcome; q_choices : list bytes;
  y_ok : bool; y_bits : N;
  y_wire : list rwitem;        (* what the peer received before any TLS record *)
  y_cb : list revent;          (* Parse / Negotiate callbacks in order *)
  y_sni : list bytes;          (* server names of the ClientHellos the peer saw *)
  y_hs : list bool }.          (* outcome of each handshake *)

Definition c2_run (k : c2case) : result :=
  run (q_cfg k) (q_bits k) (q_in k) (q_tls k) (q_outs k) (q_choices k).

Definition class_is_ok (c : rclass) : option bool :=
  match c with ROk => Some true | RErr _ => Some false | _ => None end.

Definition c2_ok (k : c2case) : bool :=
  let r := c2_run k in
  let tr := trace r in
  match class_is_ok (r_class r) with
  | Some b => Bool.eqb b (y_ok k)
  | None => false
  end &&
  N.eqb (r_bits r) (y_bits k) &&
  list_eqb rwitem_eqb (map raw_w (outs_of (before_switch tr))) (y_wire k) &&
  list_eqb revent_eqb (filter is_callback (map raw tr)) (y_cb k) &&
  list_eqb bytes_eqb (server_names tr) (y_sni k) &&
  list_eqb Bool.eqb (handshakes tr) (y_hs k).
