(* C02/Model.v — executable model of stream negotiation as run by an INITIATING
   session (NewSession with the default negotiator), for property C02
   "a client asked to use STARTTLS never proceeds in clear text".

   Self-contained on purpose (it started as a copy of the initiator half of
   Neg/Model.v, which belongs to C01): it imports only the tables generated
   from the source (gen/NegTables.v).

   It mirrors, function by function, the code of the verified tree (pinned
   commit + the fix: commits on negotiator.go, starttls.go, features.go):

     session.go     negotiateSession      -> session_loop / run
     negotiator.go  negotiator (closure)  -> the tee-wrapping branch of
                                             session_loop + negotiator_body
     features.go    negotiateFeatures     -> negotiate_features, after_read,
                                             init_loop (selection loop), after_pick
                    readStreamFeatures    -> read_children (+ add_adv: s.features)
     session.go     restart block         -> reset_stream (s.features, s.negotiated emptied)
                    info reset, error exit -> renew_info / keep_addr (s.in.Info), fail_state
     stream/stream.go FromStartElement    -> assign;  internal/stream Expect + address checks -> header_ok, fix_to
     starttls.go    StartTLS.Negotiate    -> starttls_negotiate
     conn.go        teeConn               -> the [istee] flag (a teeConn forwards
                                             every byte unchanged; what it copies
                                             to TeeIn/TeeOut is not part of C02)

   Abstraction boundary.  The peer's input is a list of *items*; every item is
   delivered by exactly one Read of the connection and is consumed whole by one
   read point of the code (or makes that read point fail).  There are two
   scripts: what the peer sends in clear text and what it sends once a TLS
   layer is up.  Clear-text items that are still undelivered when the layer is
   switched model bytes pipelined behind <proceed/>: they sit in the buffer of
   the old xml.Decoder.  What a feature other than STARTTLS returns from
   Negotiate/Parse is an input (scripted outcomes); the order in which Go
   iterates the feature map is an input (choice list) whose legality the model
   checks.  XML tokenisation and TLS itself are not modelled: a stream header
   is the record of its six attributes, each absent or present (addresses are
   compared as canonical strings), the TLS handshake is an oracle ([c_hs_ok])
   that is told a server name.

   The captured variable of the StartTLS feature value (the *tls.Config given
   to xmpp.StartTLS, nil = None) is explicit state [m_fv], threaded from one
   session to the next ([run_sessions]).

   Only computable definitions here; no proofs. *)
From XV Require Import lib.Bytes gen.NegTables.

(* ------------------------------------------------------------------ state bits *)

Definition has (st m : N) : bool := N.eqb (N.land st m) m.        (* st&m == m *)
Definition disj (st m : N) : bool := N.eqb (N.land st m) 0%N.      (* st&m == 0 *)

(* ------------------------------------------------------------------ features *)

Inductive fkind :=
| KAbstract     (* Negotiate is a callback with a scripted outcome and no I/O *)
| KStartTLS.    (* starttls.go's Negotiate, modelled concretely *)

Record feature := mkF {
  f_space : bytes; f_local : bytes;
  f_nec : N; f_proh : N;        (* Necessary, Prohibited *)
  f_neg : bool;                 (* Negotiate != nil *)
  f_kind : fkind }.

Definition name := (bytes * bytes)%type.
Definition fname (f : feature) : name := (f_space f, f_local f).
Definition name_eqb (a b : name) : bool := bytes_eqb (fst a) (fst b) && bytes_eqb (snd a) (snd b).

(* the Necessary/Prohibited test of readStreamFeatures and of the selection loop *)
Definition eligible (f : feature) (st : N) : bool := has st (f_nec f) && disj st (f_proh f).

(* getFeature: first configured feature with that full name *)
Fixpoint get_feature (n : name) (fs : list feature) : option feature :=
  match fs with
  | [] => None
  | f :: r => if name_eqb (fname f) n then Some f else get_feature n r
  end.

(* containsStartTLS: first configured feature in that name space *)
Fixpoint find_space (s : bytes) (fs : list feature) : option feature :=
  match fs with
  | [] => None
  | f :: r => if bytes_eqb (f_space f) s then Some f else find_space s r
  end.

Fixpoint mem (s : bytes) (l : list bytes) : bool :=
  match l with [] => false | x :: r => bytes_eqb x s || mem s r end.

(* streamFeaturesList.cache: map name space -> (req, feature) as an association
   list; insertion replaces an entry with the same key (Go map assignment) *)
Definition centry := (bool * feature)%type.
Definition cache := list centry.
Definition ckey (e : centry) : bytes := f_space (snd e).

Fixpoint cache_remove (s : bytes) (c : cache) : cache :=
  match c with
  | [] => []
  | e :: r => if bytes_eqb (ckey e) s then cache_remove s r else e :: cache_remove s r
  end.
Definition cache_put (e : centry) (c : cache) : cache := cache_remove (ckey e) c ++ [e].
Fixpoint cache_get (s : bytes) (c : cache) : option centry :=
  match c with
  | [] => None
  | e :: r => if bytes_eqb (ckey e) s then Some e else cache_get s r
  end.

(* what a Negotiate call returned: mask, rw != nil, err != nil *)
Record outcome := mkO { o_mask : N; o_restart : bool; o_err : bool }.
Definition default_outcome := mkO 0%N false false.

(* ------------------------------------------------------------------ peer items *)

(* the attributes of a <stream:stream> start tag, each absent or present with a value *)
Record hattrs := mkH {
  h_id : option bytes; h_ver : option bytes; h_lang : option bytes; h_xmlns : option bytes;
  h_from : option bytes; h_to : option bytes }.

(* stream.Info of the input stream (Session.In()): the empty string is the zero value *)
Record info := mkI {
  n_id : bytes; n_ver : bytes; n_lang : bytes; n_xmlns : bytes; n_from : bytes; n_to : bytes }.

(* a child of <stream:features/>: an element (name, what Parse says about it:
   required, error) or character data *)
Inductive fchild := FC (space local : bytes) (req perr : bool) | FCText.

Inductive pbody :=
| PHeader (h : hattrs)
| PFeatures (cs : list fchild)
| PStreamErr
| PElem (space local : bytes)     (* an empty element that is none of the above *)
| PGarbage.                       (* bytes that are not well-formed XML *)

(* i_sp: white space precedes the element *)
Record pitem := mkItem { i_sp : bool; i_body : pbody }.

(* ------------------------------------------------------------------ events *)

(* where the code was reading when an item was delivered *)
Inductive readpoint := RPHeader | RPFeatures | RPReply.

Inductive witem :=
| WHeader
| WElem (space local : bytes).

Inductive event :=
| EIn (rp : readpoint) (st : N) (it : pitem)   (* item delivered; st = state bits at that moment *)
| EEof (rp : readpoint)                         (* the input ended *)
| EOut (w : witem)                              (* written to the peer *)
| EParse (f : feature)                          (* Parse callback ran *)
| ENeg (f : feature) (st : N) (o : outcome)    (* Negotiate ran with session state st and returned o *)
| ESwitch (server_name : bytes)                 (* tls.Client put on the connection, configured with that name *)
| EHandshake (ok : bool).                       (* the TLS handshake ran (at the first write on the new layer) *)

(* ------------------------------------------------------------------ configuration, machine state *)

Record config := mkCfg {
  c_feats : list feature;
  c_hs_ok : bool;               (* oracle: the TLS handshake succeeds *)
  c_domain : bytes;             (* domainpart of the session's local address *)
  c_loc : bytes;                (* location: the address of the server the session talks to *)
  c_orig : bytes                (* origin: the session's own address (c_domain is its domainpart) *) }.

(* negotiatorState: doRestart, !started *)
Record nstate := mkNS { ns_restart : bool; ns_first : bool }.

Record mstate := mkM {
  m_bits : N;                   (* s.state *)
  m_negd : list bytes;          (* s.negotiated (keys) *)
  m_cache : cache;              (* the current streamFeaturesList *)
  m_total : nat;
  m_lreq : bool;
  m_in : list pitem;            (* input not yet delivered, current layer *)
  m_tlsin : list pitem;         (* input the peer will send once a TLS layer is up *)
  m_tls : bool;                 (* a TLS layer is installed *)
  m_hs : bool;                  (* its handshake has not run yet *)
  m_outs : list outcome;        (* scripted outcomes of abstract Negotiate calls *)
  m_choices : list bytes;       (* observed map-iteration choices (name spaces) *)
  m_fv : option bytes;          (* the variable captured by the StartTLS feature value: ServerName of its config, None = nil *)
  m_adv : list bytes;           (* s.features (keys): what Session.Feature reports as advertised for the current stream *)
  m_info : info;                (* s.in.Info: what Session.In() reports *)
  m_allowed : nat;              (* streamFeaturesList.allowed: cached features negotiable when the list was read *)
  m_ready : bool;               (* negotiateFeatures' `ready`: a feature negotiated from this list reported Ready *)
  m_tr : list event             (* events so far, oldest first *) }.

Definition emit (e : event) (m : mstate) : mstate :=
  mkM (m_bits m) (m_negd m) (m_cache m) (m_total m) (m_lreq m) (m_in m) (m_tlsin m) (m_tls m) (m_hs m)
      (m_outs m) (m_choices m) (m_fv m) (m_adv m) (m_info m) (m_allowed m) (m_ready m) (m_tr m ++ [e]).
Definition set_bits (b : N) (m : mstate) : mstate :=
  mkM b (m_negd m) (m_cache m) (m_total m) (m_lreq m) (m_in m) (m_tlsin m) (m_tls m) (m_hs m)
      (m_outs m) (m_choices m) (m_fv m) (m_adv m) (m_info m) (m_allowed m) (m_ready m) (m_tr m).
Definition set_negd (l : list bytes) (m : mstate) : mstate :=
  mkM (m_bits m) l (m_cache m) (m_total m) (m_lreq m) (m_in m) (m_tlsin m) (m_tls m) (m_hs m)
      (m_outs m) (m_choices m) (m_fv m) (m_adv m) (m_info m) (m_allowed m) (m_ready m) (m_tr m).
(* a new streamFeaturesList; negotiateFeatures' `ready` starts out false *)
Definition set_list (c : cache) (t : nat) (al : nat) (r : bool) (m : mstate) : mstate :=
  mkM (m_bits m) (m_negd m) c t r (m_in m) (m_tlsin m) (m_tls m) (m_hs m)
      (m_outs m) (m_choices m) (m_fv m) (m_adv m) (m_info m) al false (m_tr m).
Definition set_ready (b : bool) (m : mstate) : mstate :=
  mkM (m_bits m) (m_negd m) (m_cache m) (m_total m) (m_lreq m) (m_in m) (m_tlsin m) (m_tls m) (m_hs m)
      (m_outs m) (m_choices m) (m_fv m) (m_adv m) (m_info m) (m_allowed m) b (m_tr m).
Definition set_in (i : list pitem) (m : mstate) : mstate :=
  mkM (m_bits m) (m_negd m) (m_cache m) (m_total m) (m_lreq m) i (m_tlsin m) (m_tls m) (m_hs m)
      (m_outs m) (m_choices m) (m_fv m) (m_adv m) (m_info m) (m_allowed m) (m_ready m) (m_tr m).
Definition set_outs (o : list outcome) (m : mstate) : mstate :=
  mkM (m_bits m) (m_negd m) (m_cache m) (m_total m) (m_lreq m) (m_in m) (m_tlsin m) (m_tls m) (m_hs m)
      o (m_choices m) (m_fv m) (m_adv m) (m_info m) (m_allowed m) (m_ready m) (m_tr m).
Definition set_choices (c : list bytes) (m : mstate) : mstate :=
  mkM (m_bits m) (m_negd m) (m_cache m) (m_total m) (m_lreq m) (m_in m) (m_tlsin m) (m_tls m) (m_hs m)
      (m_outs m) c (m_fv m) (m_adv m) (m_info m) (m_allowed m) (m_ready m) (m_tr m).
Definition set_adv (a : list bytes) (m : mstate) : mstate :=
  mkM (m_bits m) (m_negd m) (m_cache m) (m_total m) (m_lreq m) (m_in m) (m_tlsin m) (m_tls m) (m_hs m)
      (m_outs m) (m_choices m) (m_fv m) a (m_info m) (m_allowed m) (m_ready m) (m_tr m).
Definition set_fv (fv : option bytes) (m : mstate) : mstate :=
  mkM (m_bits m) (m_negd m) (m_cache m) (m_total m) (m_lreq m) (m_in m) (m_tlsin m) (m_tls m) (m_hs m)
      (m_outs m) (m_choices m) fv (m_adv m) (m_info m) (m_allowed m) (m_ready m) (m_tr m).
Definition set_info (n : info) (m : mstate) : mstate :=
  mkM (m_bits m) (m_negd m) (m_cache m) (m_total m) (m_lreq m) (m_in m) (m_tlsin m) (m_tls m) (m_hs m)
      (m_outs m) (m_choices m) (m_fv m) (m_adv m) n (m_allowed m) (m_ready m) (m_tr m).
(* readStreamFeatures: `s.features[tok.Name.Space] = nil` for every child element, supported or not *)
Definition add_adv (sp : bytes) (m : mstate) : mstate := set_adv (sp :: m_adv m) m.
(* negotiateSession, `if rw != nil`: s.features and s.negotiated are emptied (and the decoder renewed) *)
Definition reset_stream (m : mstate) : mstate := set_adv [] (set_negd [] m).
Definition set_hs (h : bool) (m : mstate) : mstate :=
  mkM (m_bits m) (m_negd m) (m_cache m) (m_total m) (m_lreq m) (m_in m) (m_tlsin m) (m_tls m) h
      (m_outs m) (m_choices m) (m_fv m) (m_adv m) (m_info m) (m_allowed m) (m_ready m) (m_tr m).
(* tls.Client around the connection: whatever clear text the peer had already
   sent is gone with the old decoder (session.go, rw != nil branch: the decoder
   is recreated on the new layer); from now on input comes from the TLS-layer
   script *)
Definition switch_layer (m : mstate) : mstate :=
  mkM (m_bits m) (m_negd m) (m_cache m) (m_total m) (m_lreq m) (m_tlsin m) [] true true
      (m_outs m) (m_choices m) (m_fv m) (m_adv m) (m_info m) (m_allowed m) (m_ready m) (m_tr m).

Inductive eclass :=
| EFeature    (* the error an abstract feature's callback returned *)
| EOther.

(* result of a step: a value, an error, or "the observed choice was not one
   the code could have made / a structural fuel ran out" *)
Inductive res (A : Type) := Good (a : A) | Bad (e : eclass) | Stuck.
Arguments Good {A} a. Arguments Bad {A} e. Arguments Stuck {A}.

(* ------------------------------------------------------------------ reading, headers *)

Definition read (rp : readpoint) (m : mstate) : mstate * option pitem :=
  match m_in m with
  | [] => (emit (EEof rp) m, None)
  | it :: rest => (emit (EIn rp (m_bits m) it) (set_in rest m), Some it)
  end.

(* stream.Info.FromStartElement: only the attributes that are present are assigned *)
Definition pick (a : option bytes) (old : bytes) : bytes := match a with Some v => v | None => old end.
Definition assign (h : hattrs) (n : info) : info :=
  mkI (pick (h_id h) (n_id n)) (pick (h_ver h) (n_ver n)) (pick (h_lang h) (n_lang n))
      (pick (h_xmlns h) (n_xmlns n)) (pick (h_from h) (n_from n)) (pick (h_to h) (n_to n)).

Definition str_version : bytes := str "1.0".
Definition ns_client : bytes := str "jabber:client".
Definition ns_server : bytes := str "jabber:server".
Definition is_nil (b : bytes) : bool := match b with [] => true | _ => false end.

(* internal/stream.Expect (version 1.0, content name space, non-empty id) and
   the negotiator's address checks (from is the location; to is absent/empty or
   the origin) *)
Definition header_ok (c : config) (n : info) : bool :=
  bytes_eqb (n_ver n) str_version &&
  (bytes_eqb (n_xmlns n) ns_client || bytes_eqb (n_xmlns n) ns_server) &&
  negb (is_nil (n_id n)) &&
  bytes_eqb (n_from n) (c_loc c) &&
  (is_nil (n_to n) || bytes_eqb (n_to n) (c_orig c)).

(* `case s.in.Info.To.Equal(jid.JID{}): s.in.Info.To = origin` *)
Definition fix_to (c : config) (n : info) : info :=
  if is_nil (n_to n) then mkI (n_id n) (n_ver n) (n_lang n) (n_xmlns n) (n_from n) (c_orig c) else n.

(* internal/stream.Expect followed by negotiator's address checks: leading
   white space is skipped; a stream header assigns its attributes to s.in.Info
   and is then checked; anything else is an error *)
Definition header_of (r : option pitem) : option hattrs :=
  match r with
  | Some (mkItem _ (PHeader h)) => Some h
  | _ => None
  end.

Definition expect_header (c : config) (m : mstate) : mstate * res unit :=
  let '(m1, r) := read RPHeader m in
  match header_of r with
  | Some h =>
      let n := assign h (m_info m1) in
      if header_ok c n then (set_info (fix_to c n) m1, Good tt) else (set_info n m1, Bad EOther)
  | None => (m1, Bad EOther)
  end.

(* internal/stream.Send.  The first write on a fresh TLS layer runs the handshake. *)
Definition send_header (c : config) (m : mstate) : mstate * res unit :=
  if m_tls m && m_hs m then
    if c_hs_ok c then (emit (EOut WHeader) (emit (EHandshake true) (set_hs false m)), Good tt)
    else (emit (EHandshake false) (set_hs false m), Bad EOther)
  else (emit (EOut WHeader) m, Good tt).

(* ------------------------------------------------------------------ readStreamFeatures *)

(* the effect of one supported, successfully parsed child on the cache: it is
   remembered whether or not its prerequisites hold right now (they are tested
   again when a feature is selected) *)
Definition cache_step (st : N) (f : feature) (req : bool) (ca : cache) : cache := cache_put (req, f) ca.

(* streamFeaturesList.allowed: the supported children whose prerequisites hold
   when the list is read *)
Definition allowed_of (fs : list feature) (st : N) (cs : list fchild) : nat :=
  length (filter (fun ch => match ch with
                            | FC sp lo _ _ => match get_feature (sp, lo) fs with Some f => eligible f st | None => false end
                            | FCText => false
                            end) cs).

Fixpoint read_children (fs : list feature) (st : N) (cs : list fchild) (m : mstate)
         (ca : cache) (tot : nat) (lr : bool) : mstate * res (cache * nat * bool) :=
  match cs with
  | [] => (m, Good (ca, tot, lr))
  | FCText :: _ => (m, Bad EOther)                     (* stream.RestrictedXML *)
  | FC sp lo req perr :: rest =>
      let m0 := add_adv sp m in                         (* recorded before Parse runs *)
      match get_feature (sp, lo) fs with
      | Some f =>
          let m1 := emit (EParse f) m0 in
          if perr then (m1, Bad EFeature)
          else read_children fs st rest m1 (cache_step st f req ca) (S tot) (lr || req)  (* sf.req before the mask test *)
      | None => read_children fs st rest m0 ca (S tot) lr
      end
  end.

(* ------------------------------------------------------------------ Negotiate *)

(* starttls.go Negotiate: the config handed to tls.Client is the captured one,
   or, when that is nil, a default made for THIS session from the domainpart of
   its local address.  The captured variable is not assigned. *)
Definition tls_name (c : config) (m : mstate) : bytes :=
  match m_fv m with Some n => n | None => c_domain c end.

Definition str_proceed : bytes := str "proceed".
Definition str_starttls : bytes := str "starttls".

(* Initiating side: write <starttls/>, read one token; <proceed/> in the TLS
   name space -> tls.Client; anything else is an error. *)
Definition is_proceed (r : option pitem) : bool :=
  match r with
  | Some (mkItem false (PElem sp lo)) => bytes_eqb sp ns_StartTLS && bytes_eqb lo str_proceed
  | _ => false
  end.

Definition starttls_negotiate (c : config) (m : mstate) : mstate * outcome :=
  let '(m2, r) := read RPReply (emit (EOut (WElem ns_StartTLS str_starttls)) m) in
  if is_proceed r then (emit (ESwitch (tls_name c m2)) (switch_layer m2), mkO st_Secure true false)
  else (m2, mkO 0%N false true).

(* one Negotiate call; the ENeg event records the state bits at the call *)
Definition negotiate_one (c : config) (m : mstate) (f : feature) : mstate * outcome :=
  let st := m_bits m in
  match f_kind f with
  | KAbstract =>
      let o := match m_outs m with [] => default_outcome | o :: _ => o end in
      (emit (ENeg f st o) (set_outs (tl (m_outs m)) m), o)
  | KStartTLS =>
      let '(m1, o) := starttls_negotiate c m in
      (emit (ENeg f st o) m1, o)
  end.

Definition feature_err (f : feature) : eclass :=
  match f_kind f with KAbstract => EFeature | KStartTLS => EOther end.

(* the part of the selection loop after a feature was picked:
     mask, rw, err = Negotiate(...)
     if err == nil { ready = ready || mask&Ready == Ready; s.state |= mask &^ Ready }
     s.negotiated[space] = {}; if err != nil || rw != nil || req { break }
   and, after the loop,
     mask &^= Ready; if rw == nil && (ready || !list.req) { mask |= Ready }; return mask, rw, err.
   Returns Good None when the loop goes on. *)
Definition after_pick (c : config) (m : mstate) (req : bool) (f : feature)
  : mstate * res (option (N * bool)) :=
  let '(m1, o) := negotiate_one c m f in
  let mask := N.ldiff (o_mask o) st_Ready in
  let m2 := if o_err o then m1
            else set_ready (m_ready m1 || has (o_mask o) st_Ready) (set_bits (N.lor (m_bits m1) mask) m1) in
  let m3 := set_negd (f_space f :: m_negd m2) m2 in
  if o_err o then (m3, Bad (feature_err f))
  else if o_restart o || req then
    (m3, Good (Some (N.lor mask (if negb (o_restart o) && (m_ready m3 || negb (m_lreq m3)) then st_Ready else 0%N),
                     o_restart o)))
  else (m3, Good None).

(* ------------------------------------------------------------------ selection *)

(* cached features that are not yet negotiated on this stream, can be
   negotiated at all, and whose prerequisites hold now *)
Definition cand (negd : list bytes) (st : N) (e : centry) : bool :=
  negb (mem (ckey e) negd) && f_neg (snd e) && eligible (snd e) st.
Definition candidates (m : mstate) : cache := filter (cand (m_negd m) (m_bits m)) (m_cache m).

(* `for _, v := range list.cache`: Go picks an order; whichever it is, the
   result is a voluntary candidate if there is one, else a required one.  The
   observed pick is taken from the choice list and checked. *)
Definition select (m : mstate) : mstate * res (option centry) :=
  match candidates m with
  | [] => (m, Good None)
  | cands =>
      match m_choices m with
      | [] => (m, Stuck)
      | ch :: rest =>
          let m1 := set_choices rest m in
          match cache_get ch cands with
          | None => (m1, Stuck)
          | Some e => if fst e && existsb (fun x => negb (fst x)) cands then (m1, Stuck)
                      else (m1, Good (Some e))
          end
      end
  end.

Fixpoint init_loop (fuel : nat) (c : config) (m : mstate) (forced : option feature)
  : mstate * res (N * bool) :=
  match fuel with
  | O => (m, Stuck)
  | S k =>
      match forced with
      | Some f =>       (* data = sfData{req: true, feature: startTLS}; the observed pick must be this one *)
          match m_choices m with
          | [] => (m, Stuck)
          | ch :: rest =>
          if negb (bytes_eqb ch (f_space f)) then (set_choices rest m, Stuck) else
          match after_pick c (set_choices rest m) true f with
          | (m1, Good (Some r)) => (m1, Good r)
          | (m1, Good None) => (m1, Stuck)     (* unreachable: req = true always ends the loop *)
          | (m1, Bad e) => (m1, Bad e)
          | (m1, Stuck) => (m1, Stuck)
          end
          end
      | None =>
          match select m with
          | (m1, Good None) => (m1, Good (st_Ready, false))   (* nothing left to negotiate *)
          | (m1, Good (Some (req, f))) =>
              match after_pick c m1 req f with
              | (m2, Good (Some r)) => (m2, Good r)
              | (m2, Good None) => init_loop k c m2 None
              | (m2, Bad e) => (m2, Bad e)
              | (m2, Stuck) => (m2, Stuck)
              end
          | (m1, Bad e) => (m1, Bad e)
          | (m1, Stuck) => (m1, Stuck)
          end
      end
  end.

(* ------------------------------------------------------------------ negotiateFeatures *)

(* the item is a well-formed features list *)
Definition features_of (r : option pitem) : option (list fchild) :=
  match r with
  | Some (mkItem false (PFeatures cs)) => Some cs
  | _ => None
  end.

Definition normal_path (c : config) (m : mstate) : mstate * res (N * bool) :=
  match m_total m, m_allowed m with
  | O, _ => (m, Good (st_Ready, false))
  | _, O => (m, Bad EOther)      (* "features advertised out of order" *)
  | _, _ => init_loop (S (length (m_cache m))) c m None
  end.

(* after the list was read: the forced-STARTTLS rule, the `total == 0` and
   `len(cache) == 0` exits, then the selection loop *)
Definition after_read (c : config) (m : mstate) (first : bool) : mstate * res (N * bool) :=
  let advertised := match cache_get ns_StartTLS (m_cache m) with Some _ => true | None => false end in
  let force := first && negb advertised && negb (has (m_bits m) st_Secure) in
  match (if force then find_space ns_StartTLS (c_feats c) else None) with
  | Some f =>
      if f_neg f && eligible f (m_bits m)               (* startTLS.Negotiate != nil && startTLS.allowed(s.state) *)
      then init_loop 1 c m (Some f)
      else normal_path c m
  | None => normal_path c m
  end.

Definition negotiate_features (c : config) (m : mstate) (first : bool) : mstate * res (N * bool) :=
  let '(m1, r) := read RPFeatures m in
  match features_of r with
  | Some cs =>
      match read_children (c_feats c) (m_bits m1) cs m1 [] 0 false with
      | (m2, Good (ca, tot, lr)) =>
          after_read c (set_list ca tot (allowed_of (c_feats c) (m_bits m1) cs) lr m2) first
      | (m2, Bad e) => (m2, Bad e)
      | (m2, Stuck) => (m2, Stuck)
      end
  | None => (m1, Bad EOther)
  end.

(* ------------------------------------------------------------------ negotiator, negotiateSession *)

(* the negotiator closure after the tee branch: header exchange when a restart
   is due, then negotiateFeatures; returns mask, rw != nil and the new state *)
Definition negotiator_body (c : config) (m : mstate) (ns : nstate) : mstate * res (N * bool * nstate) :=
  let '(m1, r1) :=
    if ns_restart ns then
      match send_header c m with
      | (ma, Good _) => expect_header c ma
      | other => other
      end
    else (m, Good tt) in
  match r1 with
  | Good _ =>
      match negotiate_features c m1 (ns_first ns) with
      | (m2, Good (mask, restart)) => (m2, Good (mask, restart, mkNS restart false))
      | (m2, Bad e) => (m2, Bad e)
      | (m2, Stuck) => (m2, Stuck)
      end
  | Bad e => (m1, Bad e)
  | Stuck => (m1, Stuck)
  end.

(* `if rw != nil { s.in.Info = stream.Info{To: s.in.Info.To, From: s.in.Info.From} ... }`
   at the top of the next iteration: it only happens when there is a next
   iteration, i.e. when the Ready bit is not set *)
Definition keep_addr (n : info) : info := mkI [] [] [] [] (n_from n) (n_to n).
Definition renew_info (m : mstate) : mstate :=
  if has (m_bits m) st_Ready then m else set_info (keep_addr (m_info m)) m.

(* after the tee-wrapping call *)
Definition tee_state (m : mstate) : mstate := renew_info (reset_stream m).

(* after a call that returned mask, rw != nil = restart *)
Definition next_state (restart : bool) (mask : N) (m1 : mstate) : mstate :=
  let m2 := if restart then reset_stream m1 else m1 in
  let m3 := set_bits (N.lor (m_bits m2) mask) m2 in
  if restart then renew_info m3 else m3.

(* `if err != nil { s.state &^= Ready; return s, err }` *)
Definition fail_state (m : mstate) : mstate := set_bits (N.ldiff (m_bits m) st_Ready) m.

Inductive rclass := ROk | RErr (e : eclass) | RFuel | RStuck.
Record result := mkR { r_class : rclass; r_bits : N; r_state : mstate }.

(* `data.(negotiatorState)`: no state passed in = first call *)
Definition ns_of (data : option nstate) : nstate :=
  match data with Some ns => ns | None => mkNS true true end.

(* `for s.state&Ready == 0 { mask, rw, data, err = negotiate(...) ... }`.
   With TeeIn/TeeOut set and a connection that is not a teeConn the negotiator
   returns a wrapped connection, its state and no bits: one extra iteration in
   which the caches are cleared and the decoder renewed.  [tee] is
   StreamConfig.TeeIn != nil || TeeOut != nil. *)
Fixpoint session_loop (fuel : nat) (tee : bool) (c : config) (m : mstate) (data : option nstate) (istee : bool) : result :=
  match fuel with
  | O => mkR RFuel (m_bits m) m
  | S k =>
      if has (m_bits m) st_Ready then mkR ROk (m_bits m) m
      else if tee && negb istee then
        session_loop k tee c (tee_state m) (Some (ns_of data)) true         (* s.Conn() is a teeConn from now on *)
      else
        match negotiator_body c m (ns_of data) with
        | (m1, Good (mask, restart, ns1)) =>
            (* a feature that restarts the stream returns a connection that is not a teeConn *)
            session_loop k tee c (next_state restart mask m1) (Some ns1) (if restart then false else istee)
        | (m1, Bad e) => mkR (RErr e) (m_bits (fail_state m1)) (fail_state m1)
        | (m1, Stuck) => mkR RStuck (m_bits m1) m1
        end
  end.

(* negotiateSession: `s.in.Info.To = origin; s.in.Info.From = location` *)
Definition init_info (c : config) : info := mkI [] [] [] [] (c_loc c) (c_orig c).

Definition init_state (c : config) (fv : option bytes) (bits : N) (clear tls : list pitem) (outs : list outcome) (choices : list bytes) : mstate :=
  mkM bits [] [] 0 false clear tls false false outs choices fv [] (init_info c) 0 false [].

Definition fuel_for (clear tls : list pitem) : nat := 2 * (length clear + length tls) + 4.

Definition run (tee : bool) (c : config) (fv : option bytes) (bits : N) (clear tls : list pitem)
           (outs : list outcome) (choices : list bytes) : result :=
  session_loop (fuel_for clear tls) tee c (init_state c fv bits clear tls outs choices) None false.

Definition trace (r : result) : list event := m_tr (r_state r).

(* ------------------------------------------------------------------ projections of a trace *)

Definition is_switch (e : event) : bool := match e with ESwitch _ => true | _ => false end.

Fixpoint before_switch (tr : list event) : list event :=
  match tr with
  | [] => []
  | e :: r => if is_switch e then [] else e :: before_switch r
  end.

Fixpoint after_switch (tr : list event) : list event :=
  match tr with
  | [] => []
  | e :: r => if is_switch e then r else after_switch r
  end.

Definition switched (tr : list event) : bool := existsb is_switch tr.

Definition outs_of (tr : list event) : list witem :=
  flat_map (fun e => match e with EOut w => [w] | _ => [] end) tr.

(* the items delivered to the session *)
Definition ins_of (tr : list event) : list pitem :=
  flat_map (fun e => match e with EIn _ _ it => [it] | _ => [] end) tr.

Definition server_names (tr : list event) : list bytes :=
  flat_map (fun e => match e with ESwitch n => [n] | _ => [] end) tr.

Definition handshakes (tr : list event) : list bool :=
  flat_map (fun e => match e with EHandshake b => [b] | _ => [] end) tr.

(* the name spaces advertised by the features lists among some items *)
Definition child_spaces (cs : list fchild) : list bytes :=
  flat_map (fun ch => match ch with FC sp _ _ _ => [sp] | FCText => [] end) cs.
Definition adv_spaces (its : list pitem) : list bytes :=
  flat_map (fun it => match i_body it with PFeatures cs => child_spaces cs | _ => [] end) its.

(* the stream headers among some items *)
Definition headers_of (its : list pitem) : list hattrs :=
  flat_map (fun it => match i_body it with PHeader h => [h] | _ => [] end) its.

(* the state bits the code had whenever it looked at input or ran a callback *)
Definition bits_seen (tr : list event) : list N :=
  flat_map (fun e => match e with EIn _ st _ => [st] | ENeg _ st _ => [st] | _ => [] end) tr.

(* the features whose Negotiate ran *)
Definition negs_of (tr : list event) : list feature :=
  flat_map (fun e => match e with ENeg f _ _ => [f] | _ => [] end) tr.

Definition starttls_request : witem := WElem ns_StartTLS str_starttls.

(* the only things a client may write in clear text *)
Definition clear_allowed (w : witem) : bool :=
  match w with
  | WHeader => true
  | WElem sp lo => bytes_eqb sp ns_StartTLS && bytes_eqb lo str_starttls
  end.

Fixpoint prefix_of {A} (eq : A -> A -> bool) (p l : list A) : bool :=
  match p, l with
  | [], _ => true
  | x :: p', y :: l' => eq x y && prefix_of eq p' l'
  | _ :: _, [] => false
  end.

(* ------------------------------------------------------------------ the configurations C02 speaks about *)

(* the STARTTLS feature as starttls.go declares it *)
Definition starttls_feature : feature :=
  mkF ft_starttls_space ft_starttls_local ft_starttls_nec ft_starttls_proh ft_starttls_negotiable KStartTLS.

(* "configured with STARTTLS and otherwise only features that require a
   secured stream": every feature in the STARTTLS name space is the real one,
   and every other feature lists Secure or Authn as necessary (the built-in
   SASL needs Secure, resource binding needs Authn, which only SASL grants). *)
Definition gate : N := N.lor st_Secure st_Authn.

Definition gated (f : feature) : bool :=
  if bytes_eqb (f_space f) ns_StartTLS
  then bytes_eqb (f_local f) ft_starttls_local && N.eqb (f_nec f) ft_starttls_nec && N.eqb (f_proh f) ft_starttls_proh
       && f_neg f && match f_kind f with KStartTLS => true | KAbstract => false end
  else negb (N.eqb (N.land (f_nec f) gate) 0%N)
       && match f_kind f with KAbstract => true | KStartTLS => false end.

Definition c02_config (c : config) : bool :=
  forallb gated (c_feats c) &&
  match find_space ns_StartTLS (c_feats c) with Some _ => true | None => false end.

(* initial state: initiator, neither secure nor authenticated, not ready *)
Definition c02_bits (b : N) : bool :=
  N.eqb (N.land b (N.lor gate (N.lor st_Ready st_Received))) 0%N.

(* ------------------------------------------------------------------ one feature value used for several sessions *)

(* what differs from session to session when one StartTLS value is shared *)
Record sess := mkSess {
  s_tee : bool; s_cfg : config; s_bits : N; s_in : list pitem; s_tls : list pitem;
  s_outs : list outcome; s_choices : list bytes }.

Definition run_sess (fv : option bytes) (s : sess) : result :=
  run (s_tee s) (s_cfg s) fv (s_bits s) (s_in s) (s_tls s) (s_outs s) (s_choices s).

(* the captured variable as the previous session left it is what the next one finds *)
Fixpoint run_sessions (fv : option bytes) (ss : list sess) : list result :=
  match ss with
  | [] => []
  | s :: rest =>
      let r := run_sess fv s in
      r :: run_sessions (m_fv (r_state r)) rest
  end.

(* ------------------------------------------------------------------ one feature value, sessions that overlap *)

(* One iteration of negotiateSession's loop (one call of the negotiator) as a
   step of a session; [session_loop] is its iteration (C02/Inter.v). *)
(* l_calls counts the calls of the negotiator that went past the tee-wrapping
   branch (those that call negotiateFeatures unless the header exchange fails):
   a ghost of the session's own history, used to state C02_first_list_per_session *)
Record lstate := mkL { l_m : mstate; l_data : option nstate; l_istee : bool; l_calls : nat }.
Inductive progress := Running (l : lstate) | Done (r : result).

Definition loop_step (tee : bool) (c : config) (l : lstate) : progress :=
  let m := l_m l in
  if has (m_bits m) st_Ready then Done (mkR ROk (m_bits m) m)
  else if tee && negb (l_istee l) then Running (mkL (tee_state m) (Some (ns_of (l_data l))) true (l_calls l))
  else
    match negotiator_body c m (ns_of (l_data l)) with
    | (m1, Good (mask, restart, ns1)) =>
        Running (mkL (next_state restart mask m1) (Some ns1) (if restart then false else l_istee l) (S (l_calls l)))
    | (m1, Bad e) => Done (mkR (RErr e) (m_bits (fail_state m1)) (fail_state m1))
    | (m1, Stuck) => Done (mkR RStuck (m_bits m1) m1)
    end.

(* a session sharing the feature value with others *)
Record isess := mkIS { is_tee : bool; is_cfg : config; is_prog : progress }.

(* the `first` argument the session's next negotiateFeatures call will get *)
Definition next_first (l : lstate) : bool := ns_first (ns_of (l_data l)).

Definition pstate (p : progress) : mstate :=
  match p with Running l => l_m l | Done r => r_state r end.

(* The variable captured by the feature value is global: a session's step runs
   on the value the variable has NOW (whatever the other sessions have done to
   it meanwhile) and leaves behind what it made of it. *)
Definition step_sess (fv : option bytes) (s : isess) : option bytes * isess :=
  match is_prog s with
  | Done _ => (fv, s)
  | Running l =>
      let p := loop_step (is_tee s) (is_cfg s) (mkL (set_fv fv (l_m l)) (l_data l) (l_istee l) (l_calls l)) in
      (m_fv (pstate p), mkIS (is_tee s) (is_cfg s) p)
  end.

Fixpoint step_nth (i : nat) (fv : option bytes) (ss : list isess) : option bytes * list isess :=
  match ss with
  | [] => (fv, [])
  | s :: rest =>
      match i with
      | O => let '(fv', s') := step_sess fv s in (fv', s' :: rest)
      | S j => let '(fv', rest') := step_nth j fv rest in (fv', s :: rest')
      end
  end.

(* a schedule: which session makes its next step, one after the other *)
Fixpoint sched_run (sched : list nat) (fv : option bytes) (ss : list isess) : option bytes * list isess :=
  match sched with
  | [] => (fv, ss)
  | i :: rest => let '(fv', ss') := step_nth i fv ss in sched_run rest fv' ss'
  end.

Definition start_sess (fv : option bytes) (s : sess) : isess :=
  mkIS (s_tee s) (s_cfg s)
       (Running (mkL (init_state (s_cfg s) fv (s_bits s) (s_in s) (s_tls s) (s_outs s) (s_choices s)) None false 0)).

(* ------------------------------------------------------------------ correspondence record *)

Definition outcome_eqb (a b : outcome) : bool :=
  N.eqb (o_mask a) (o_mask b) && Bool.eqb (o_restart a) (o_restart b) && Bool.eqb (o_err a) (o_err b).

Fixpoint list_eqb {A} (eq : A -> A -> bool) (a b : list A) : bool :=
  match a, b with
  | [], [] => true
  | x :: a', y :: b' => eq x y && list_eqb eq a' b'
  | _, _ => false
  end.

Definition witem_eqb (a b : witem) : bool :=
  match a, b with
  | WHeader, WHeader => true
  | WElem s l, WElem s' l' => bytes_eqb s s' && bytes_eqb l l'
  | _, _ => false
  end.

Definition info_eqb (a b : info) : bool :=
  bytes_eqb (n_id a) (n_id b) && bytes_eqb (n_ver a) (n_ver b) && bytes_eqb (n_lang a) (n_lang b) &&
  bytes_eqb (n_xmlns a) (n_xmlns b) && bytes_eqb (n_from a) (n_from b) && bytes_eqb (n_to a) (n_to b).

(* what the instrumented features log *)
Inductive cb := CParse (n : name) | CNeg (n : name) (st : N) (o : outcome).

Definition cb_eqb (a b : cb) : bool :=
  match a, b with
  | CParse n, CParse n' => name_eqb n n'
  | CNeg n st o, CNeg n' st' o' => name_eqb n n' && N.eqb st st' && outcome_eqb o o'
  | _, _ => false
  end.

Definition callbacks (tr : list event) : list cb :=
  flat_map (fun e => match e with
                     | EParse f => [CParse (fname f)]
                     | ENeg f st o => [CNeg (fname f) st o]
                     | _ => []
                     end) tr.

(* one run of the real NewSession: inputs q_*, observations y_* *)
Record c2case := mkC2 {
  q_tee : bool; q_cfg : config; q_fv : option bytes; q_bits : N;
  q_in : list pitem; q_tls : list pitem;
  q_outs : list outcome; q_choices : list bytes;
  y_ok : bool; y_bits : N;
  y_wire : list witem;         (* what the peer received before any TLS record *)
  y_cb : list cb;              (* Parse / Negotiate callbacks in order *)
  y_sni : list bytes;          (* server names of the ClientHellos the peer saw *)
  y_hs : list bool;            (* outcome of each handshake *)
  y_tlsread : nat;             (* TLS-layer script items the peer got to send *)
  q_univ : list bytes;         (* name spaces for which Session.Feature was asked after NewSession returned *)
  y_feats : list bytes;        (* ... those it reported as advertised *)
  y_info : info }.             (* Session.In(): id, version, xml:lang, xmlns, from, to (compared on established sessions) *)

Definition c2_run (k : c2case) : result :=
  run (q_tee k) (q_cfg k) (q_fv k) (q_bits k) (q_in k) (q_tls k) (q_outs k) (q_choices k).

Definition class_is_ok (c : rclass) : option bool :=
  match c with ROk => Some true | RErr _ => Some false | _ => None end.

Definition c2_ok (k : c2case) : bool :=
  let r := c2_run k in
  let tr := trace r in
  match class_is_ok (r_class r) with
  | Some b => Bool.eqb b (y_ok k)
  | None => false
  end &&
  N.eqb (r_bits r) (y_bits k) &&
  list_eqb witem_eqb (outs_of (before_switch tr)) (y_wire k) &&
  list_eqb cb_eqb (callbacks tr) (y_cb k) &&
  list_eqb bytes_eqb (server_names tr) (y_sni k) &&
  list_eqb Bool.eqb (handshakes tr) (y_hs k) &&
  (let got := ins_of (after_switch tr) in
   Nat.eqb (length got) (y_tlsread k) ||
   (* the peer sends the item after a stream header along with it; when the
      session refuses the header that item was sent but not consumed *)
   (negb (y_ok k) && Nat.eqb (S (length got)) (y_tlsread k) &&
    match rev got with mkItem _ (PHeader _) :: _ => true | _ => false end)) &&
  forallb (fun ns => Bool.eqb (mem ns (m_adv (r_state r))) (mem ns (y_feats k))) (q_univ k) &&
  (negb (y_ok k) || info_eqb (m_info (r_state r)) (y_info k)).

Fixpoint failing {A} (ok : A -> bool) (i : nat) (l : list A) : list nat :=
  match l with
  | [] => []
  | x :: r => if ok x then failing ok (S i) r else i :: failing ok (S i) r
  end.
