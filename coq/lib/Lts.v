(* Lts.v — labelled transition systems given by a partial step function.

   step : state -> label -> option state      (None: the label is not enabled)
   run  : fold of step over a label sequence (a schedule / history)
   reachable, the invariant induction principles (plain and history-indexed),
   and a computable bounded enumeration of the accepted label sequences, used
   by harnesses to derive schedules from a model.  No axioms. *)
From Coq Require Import List.
Import ListNotations.

Section Lts.
  Variable state label : Type.
  Variable step : state -> label -> option state.

  Fixpoint run (s : state) (tr : list label) : option state :=
    match tr with
    | [] => Some s
    | l :: rest => match step s l with
                   | Some s' => run s' rest
                   | None => None
                   end
    end.

  Definition reachable (init s : state) : Prop := exists tr, run init tr = Some s.

  Lemma run_nil : forall s, run s [] = Some s.
  Proof. reflexivity. Qed.

  Lemma run_app : forall tr1 tr2 s,
    run s (tr1 ++ tr2) = match run s tr1 with Some s1 => run s1 tr2 | None => None end.
  Proof.
    induction tr1 as [|l tr1 IH]; intros tr2 s; cbn [run app].
    - reflexivity.
    - destruct (step s l) as [s'|]; [apply IH|reflexivity].
  Qed.

  Lemma run_snoc : forall tr l s,
    run s (tr ++ [l]) = match run s tr with Some s1 => step s1 l | None => None end.
  Proof.
    intros tr l s. rewrite run_app. destruct (run s tr) as [s1|]; [|reflexivity].
    cbn [run]. destruct (step s1 l); reflexivity.
  Qed.

  Lemma run_app_some : forall tr1 tr2 s s2,
    run s (tr1 ++ tr2) = Some s2 -> exists s1, run s tr1 = Some s1 /\ run s1 tr2 = Some s2.
  Proof.
    intros tr1 tr2 s s2 H. rewrite run_app in H.
    destruct (run s tr1) as [s1|]; [|discriminate]. exists s1. split; [reflexivity|exact H].
  Qed.

  Lemma run_snoc_some : forall tr l s s2,
    run s (tr ++ [l]) = Some s2 -> exists s1, run s tr = Some s1 /\ step s1 l = Some s2.
  Proof.
    intros tr l s s2 H. rewrite run_snoc in H.
    destruct (run s tr) as [s1|]; [|discriminate]. exists s1. split; [reflexivity|exact H].
  Qed.

  (* Invariant induction: what holds initially and is preserved by every enabled
     step holds after every accepted label sequence. *)
  Theorem invariant_run : forall (Inv : state -> Prop) init,
    Inv init ->
    (forall s l s', Inv s -> step s l = Some s' -> Inv s') ->
    forall tr s, run init tr = Some s -> Inv s.
  Proof.
    intros Inv init H0 Hstep tr. revert init H0.
    induction tr as [|l tr IH]; intros init H0 s Hrun; cbn [run] in Hrun.
    - injection Hrun as <-. exact H0.
    - destruct (step init l) as [s'|] eqn:E; [|discriminate].
      apply (IH s'); [apply (Hstep init l s' H0 E)|exact Hrun].
  Qed.

  Theorem invariant_reachable : forall (Inv : state -> Prop) init,
    Inv init ->
    (forall s l s', Inv s -> step s l = Some s' -> Inv s') ->
    forall s, reachable init s -> Inv s.
  Proof. intros Inv init H0 Hs s [tr Hr]. exact (invariant_run Inv init H0 Hs tr s Hr). Qed.

  (* History-indexed invariant: Inv relates the label sequence performed so far
     to the state it led to. *)
  Theorem invariant_hist : forall (Inv : list label -> state -> Prop) init,
    Inv [] init ->
    (forall h s l s', run init h = Some s -> Inv h s -> step s l = Some s' -> Inv (h ++ [l]) s') ->
    forall tr s, run init tr = Some s -> Inv tr s.
  Proof.
    intros Inv init H0 Hstep tr.
    induction tr as [|l tr IH] using rev_ind; intros s Hrun.
    - cbn [run] in Hrun. injection Hrun as <-. exact H0.
    - apply run_snoc_some in Hrun. destruct Hrun as [s1 [Hr1 Hs1]].
      exact (Hstep tr s1 l s Hr1 (IH s1 Hr1) Hs1).
  Qed.

  (* Every prefix of an accepted sequence is accepted. *)
  Lemma run_prefix : forall tr1 tr2 s s2,
    run s (tr1 ++ tr2) = Some s2 -> exists s1, run s tr1 = Some s1.
  Proof.
    intros tr1 tr2 s s2 H. apply run_app_some in H. destruct H as [s1 [H _]]. exists s1. exact H.
  Qed.

  (* Bounded enumeration of accepted label sequences over a finite label
     alphabet offered per state: all sequences of length <= n (prefix closed). *)
  Variable offers : state -> list label.

  Fixpoint enumerate_traces (n : nat) (s : state) : list (list label) :=
    match n with
    | O => [[]]
    | S n' =>
        [] :: flat_map (fun l => match step s l with
                                 | Some s' => map (cons l) (enumerate_traces n' s')
                                 | None => []
                                 end) (offers s)
    end.

  Lemma enumerate_traces_sound : forall n s tr,
    In tr (enumerate_traces n s) -> exists s', run s tr = Some s'.
  Proof.
    induction n as [|n IH]; intros s tr Hin; cbn [enumerate_traces] in Hin.
    - destruct Hin as [<-|[]]. exists s. reflexivity.
    - destruct Hin as [<-|Hin]; [exists s; reflexivity|].
      apply in_flat_map in Hin. destruct Hin as [l [_ Hl]].
      destruct (step s l) as [s'|] eqn:E; [|destruct Hl].
      apply in_map_iff in Hl. destruct Hl as [tr' [<- Hin']].
      destruct (IH s' tr' Hin') as [s2 H2]. exists s2. cbn [run]. rewrite E. exact H2.
  Qed.
End Lts.

Arguments run {state label} step s tr.
Arguments reachable {state label} step init s.
Arguments enumerate_traces {state label} step offers n s.
