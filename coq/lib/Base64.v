(* Base64.v — encoding/base64 StdEncoding (RFC 4648 alphabet, '=' padding,
   non-strict trailing bits) on byte strings.

   encode : bytes -> bytes                      (EncodeToString)
   decode : bytes -> option bytes               (DecodeString on newline-free input:
                                                 None = CorruptInputError)
   decode_encode      decode (encode b) = Some b
   encode_app         encode (a ++ b) = encode a ++ encode b   when 3 | length a
   decode_pieces      piecewise decoding; decode_pieces_encode: any way of cutting
                      a byte string into chunks whose lengths (all but the last)
                      are multiples of 3 encodes to pieces that decode, piece by
                      piece, to the original string (the "chunk lemma").
   Bits are handled as tuples of booleans (Byte.to_bits / Byte.of_bits), so the
   round trip needs no arithmetic: a 64-case sweep for the alphabet and
   Byte.of_bits_to_bits for the regrouping. No axioms. *)
From XV Require Import lib.Bytes.

Definition sextet := (bool * bool * bool * bool * bool * bool)%type. (* most significant bit first *)

Definition b64_alphabet : bytes :=
  str "ABCDEFGHIJKLMNOPQRSTUVWXYZabcdefghijklmnopqrstuvwxyz0123456789+/".

Definition b64_pad : byte := "="%byte.

Definition b2n (b : bool) : nat := if b then 1 else 0.

Definition sx_val (s : sextet) : nat :=
  let '(x5, x4, x3, x2, x1, x0) := s in
  b2n x5 * 32 + b2n x4 * 16 + b2n x3 * 8 + b2n x2 * 4 + b2n x1 * 2 + b2n x0.

Definition sx_of (n : nat) : sextet :=
  (Nat.testbit n 5, Nat.testbit n 4, Nat.testbit n 3, Nat.testbit n 2, Nat.testbit n 1, Nat.testbit n 0).

Definition enc6 (s : sextet) : byte := nth (sx_val s) b64_alphabet "A"%byte.

Definition dec6 (c : byte) : option sextet :=
  option_map sx_of (index_where (byte_eqb c) b64_alphabet).

(* bits of a byte, most significant first *)
Definition bits8 (b : byte) : bool * bool * bool * bool * bool * bool * bool * bool :=
  let '(b0, (b1, (b2, (b3, (b4, (b5, (b6, b7))))))) := Byte.to_bits b in
  (b7, b6, b5, b4, b3, b2, b1, b0).

Definition of_bits8 (t : bool * bool * bool * bool * bool * bool * bool * bool) : byte :=
  let '(b7, b6, b5, b4, b3, b2, b1, b0) := t in
  Byte.of_bits (b0, (b1, (b2, (b3, (b4, (b5, (b6, b7))))))).

Definition enc3 (a b c : byte) : bytes :=
  let '(a7, a6, a5, a4, a3, a2, a1, a0) := bits8 a in
  let '(b7, b6, b5, b4, b3, b2, b1, b0) := bits8 b in
  let '(c7, c6, c5, c4, c3, c2, c1, c0) := bits8 c in
  [enc6 (a7, a6, a5, a4, a3, a2); enc6 (a1, a0, b7, b6, b5, b4);
   enc6 (b3, b2, b1, b0, c7, c6); enc6 (c5, c4, c3, c2, c1, c0)].

Definition enc2 (a b : byte) : bytes :=
  let '(a7, a6, a5, a4, a3, a2, a1, a0) := bits8 a in
  let '(b7, b6, b5, b4, b3, b2, b1, b0) := bits8 b in
  [enc6 (a7, a6, a5, a4, a3, a2); enc6 (a1, a0, b7, b6, b5, b4);
   enc6 (b3, b2, b1, b0, false, false); b64_pad].

Definition enc1 (a : byte) : bytes :=
  let '(a7, a6, a5, a4, a3, a2, a1, a0) := bits8 a in
  [enc6 (a7, a6, a5, a4, a3, a2); enc6 (a1, a0, false, false, false, false); b64_pad; b64_pad].

Fixpoint encode (s : bytes) : bytes :=
  match s with
  | [] => []
  | [a] => enc1 a
  | [a; b] => enc2 a b
  | a :: b :: c :: rest => enc3 a b c ++ encode rest
  end.

Definition dec3 (s1 s2 s3 s4 : sextet) : bytes :=
  let '(p5, p4, p3, p2, p1, p0) := s1 in
  let '(q5, q4, q3, q2, q1, q0) := s2 in
  let '(r5, r4, r3, r2, r1, r0) := s3 in
  let '(t5, t4, t3, t2, t1, t0) := s4 in
  [of_bits8 (p5, p4, p3, p2, p1, p0, q5, q4); of_bits8 (q3, q2, q1, q0, r5, r4, r3, r2);
   of_bits8 (r1, r0, t5, t4, t3, t2, t1, t0)].

Definition dec2 (s1 s2 s3 : sextet) : bytes :=
  let '(p5, p4, p3, p2, p1, p0) := s1 in
  let '(q5, q4, q3, q2, q1, q0) := s2 in
  let '(r5, r4, r3, r2, r1, r0) := s3 in
  [of_bits8 (p5, p4, p3, p2, p1, p0, q5, q4); of_bits8 (q3, q2, q1, q0, r5, r4, r3, r2)].

Definition dec1 (s1 s2 : sextet) : bytes :=
  let '(p5, p4, p3, p2, p1, p0) := s1 in
  let '(q5, q4, q3, q2, q1, q0) := s2 in
  [of_bits8 (p5, p4, p3, p2, p1, p0, q5, q4)].

Definition is_nil {A} (l : list A) : bool := match l with [] => true | _ => false end.

(* One-shot decoding of newline-free input. Padding is accepted only in the
   last quantum; any other character outside the alphabet, a quantum cut short
   by the end of the input, or data after the padding is an error. Unused
   trailing bits of a padded quantum are not checked (StdEncoding is not
   Strict). *)
Fixpoint decode (s : bytes) : option bytes :=
  match s with
  | [] => Some []
  | c1 :: c2 :: c3 :: c4 :: rest =>
      match dec6 c1, dec6 c2 with
      | Some s1, Some s2 =>
          match dec6 c3 with
          | Some s3 =>
              match dec6 c4 with
              | Some s4 => option_map (app (dec3 s1 s2 s3 s4)) (decode rest)
              | None => if byte_eqb c4 b64_pad && is_nil rest then Some (dec2 s1 s2 s3) else None
              end
          | None => if byte_eqb c3 b64_pad && byte_eqb c4 b64_pad && is_nil rest
                    then Some (dec1 s1 s2) else None
          end
      | _, _ => None
      end
  | _ => None
  end.

(* Go's decoders skip '\r' and '\n' wherever they occur. *)
Definition is_newline (c : byte) : bool := byte_eqb c "010"%byte || byte_eqb c "013"%byte.
Definition strip_newlines (s : bytes) : bytes := filter (fun c => negb (is_newline c)) s.
Definition decode_go (s : bytes) : option bytes := decode (strip_newlines s).

(* DecodedLen for a padded encoding: the size test of a receiver uses it *)
Definition decoded_len (n : nat) : nat := n / 4 * 3.

(* piecewise decoding: every piece on its own *)
Fixpoint decode_pieces (ps : list bytes) : option bytes :=
  match ps with
  | [] => Some []
  | p :: rest =>
      match decode p, decode_pieces rest with
      | Some a, Some b => Some (a ++ b)
      | _, _ => None
      end
  end.

(* ---- lemmas ---- *)

Lemma dec6_enc6 : forall s, dec6 (enc6 s) = Some s.
Proof.
  intros [[[[[x5 x4] x3] x2] x1] x0].
  destruct x5, x4, x3, x2, x1, x0; vm_compute; reflexivity.
Qed.

Lemma dec6_pad : dec6 b64_pad = None.
Proof. vm_compute. reflexivity. Qed.

Lemma enc6_not_pad : forall s, byte_eqb (enc6 s) b64_pad = false.
Proof.
  intros [[[[[x5 x4] x3] x2] x1] x0].
  destruct x5, x4, x3, x2, x1, x0; vm_compute; reflexivity.
Qed.

Lemma of_bits8_bits8 : forall b, of_bits8 (bits8 b) = b.
Proof.
  intro b. unfold bits8, of_bits8.
  destruct (Byte.to_bits b) as [b0 [b1 [b2 [b3 [b4 [b5 [b6 b7]]]]]]] eqn:E.
  rewrite <- E. apply Byte.of_bits_to_bits.
Qed.

Lemma decode_enc3 : forall a b c rest,
  decode (enc3 a b c ++ rest) = option_map (app [a; b; c]) (decode rest).
Proof.
  intros a b c rest. unfold enc3.
  pose proof (of_bits8_bits8 a) as Ha. pose proof (of_bits8_bits8 b) as Hb. pose proof (of_bits8_bits8 c) as Hc.
  destruct (bits8 a) as [[[[[[[a7 a6] a5] a4] a3] a2] a1] a0].
  destruct (bits8 b) as [[[[[[[b7 b6] b5] b4] b3] b2] b1] b0].
  destruct (bits8 c) as [[[[[[[c7 c6] c5] c4] c3] c2] c1] c0].
  cbn [app decode]. rewrite !dec6_enc6. cbn [dec3]. rewrite Ha, Hb, Hc. reflexivity.
Qed.

Lemma decode_enc2 : forall a b, decode (enc2 a b) = Some [a; b].
Proof.
  intros a b. unfold enc2.
  pose proof (of_bits8_bits8 a) as Ha. pose proof (of_bits8_bits8 b) as Hb.
  destruct (bits8 a) as [[[[[[[a7 a6] a5] a4] a3] a2] a1] a0].
  destruct (bits8 b) as [[[[[[[b7 b6] b5] b4] b3] b2] b1] b0].
  cbn [decode]. rewrite !dec6_enc6, dec6_pad. cbn [byte_eqb is_nil andb dec2].
  replace (Byte.eqb b64_pad b64_pad) with true by reflexivity. cbn [andb].
  rewrite Ha, Hb. reflexivity.
Qed.

Lemma decode_enc1 : forall a, decode (enc1 a) = Some [a].
Proof.
  intros a. unfold enc1.
  pose proof (of_bits8_bits8 a) as Ha.
  destruct (bits8 a) as [[[[[[[a7 a6] a5] a4] a3] a2] a1] a0].
  cbn [decode]. rewrite !dec6_enc6, dec6_pad. cbn [byte_eqb is_nil andb dec1].
  replace (Byte.eqb b64_pad b64_pad) with true by reflexivity. cbn [andb].
  rewrite Ha. reflexivity.
Qed.

(* induction in steps of three *)
Lemma list_ind3 {A} (P : list A -> Prop) :
  P [] -> (forall a, P [a]) -> (forall a b, P [a; b]) ->
  (forall a b c l, P l -> P (a :: b :: c :: l)) -> forall l, P l.
Proof.
  intros H0 H1 H2 H3.
  assert (H : forall n l, length l <= n -> P l).
  { induction n as [|n IH]; intros l Hl.
    - destruct l; [exact H0|cbn in Hl; lia].
    - destruct l as [|a [|b [|c l]]]; [exact H0|apply H1|apply H2|].
      apply H3. apply IH. cbn in Hl. lia. }
  intro l. apply (H (length l)). lia.
Qed.

Theorem decode_encode : forall b, decode (encode b) = Some b.
Proof.
  induction b as [|a|a b|a b c l IH] using list_ind3.
  - reflexivity.
  - apply decode_enc1.
  - apply decode_enc2.
  - change (encode (a :: b :: c :: l)) with (enc3 a b c ++ encode l).
    rewrite decode_enc3, IH. reflexivity.
Qed.

Lemma encode_cons3 : forall a b c l, encode (a :: b :: c :: l) = enc3 a b c ++ encode l.
Proof. reflexivity. Qed.

Lemma enc3_length : forall a b c, length (enc3 a b c) = 4.
Proof.
  intros a b c. unfold enc3.
  destruct (bits8 a) as [[[[[[[a7 a6] a5] a4] a3] a2] a1] a0].
  destruct (bits8 b) as [[[[[[[b7 b6] b5] b4] b3] b2] b1] b0].
  destruct (bits8 c) as [[[[[[[c7 c6] c5] c4] c3] c2] c1] c0]. reflexivity.
Qed.

Lemma enc2_length : forall a b, length (enc2 a b) = 4.
Proof.
  intros a b. unfold enc2.
  destruct (bits8 a) as [[[[[[[a7 a6] a5] a4] a3] a2] a1] a0].
  destruct (bits8 b) as [[[[[[[b7 b6] b5] b4] b3] b2] b1] b0]. reflexivity.
Qed.

Lemma enc1_length : forall a, length (enc1 a) = 4.
Proof.
  intros a. unfold enc1.
  destruct (bits8 a) as [[[[[[[a7 a6] a5] a4] a3] a2] a1] a0]. reflexivity.
Qed.

(* EncodedLen *)
Theorem encode_length : forall b, length (encode b) = 4 * ((length b + 2) / 3).
Proof.
  induction b as [|a|a b|a b c l IH] using list_ind3.
  - reflexivity.
  - cbn [encode]. rewrite enc1_length. reflexivity.
  - cbn [encode]. rewrite enc2_length. reflexivity.
  - rewrite encode_cons3, app_length, enc3_length, IH.
    cbn [length]. replace (S (S (S (length l))) + 2) with (1 * 3 + (length l + 2)) by lia.
    rewrite Nat.div_add_l by lia. lia.
Qed.

Theorem encode_app : forall a b, length a mod 3 = 0 -> encode (a ++ b) = encode a ++ encode b.
Proof.
  induction a as [|x|x y|x y z l IH] using list_ind3; intros b H.
  - reflexivity.
  - cbn in H. discriminate.
  - cbn in H. discriminate.
  - cbn [app]. rewrite !encode_cons3, <- app_assoc. f_equal. apply IH.
    cbn [length] in H. replace (S (S (S (length l)))) with (length l + 1 * 3) in H by lia.
    rewrite Nat.mod_add in H by lia. exact H.
Qed.

(* The chunk lemma. A sender may cut the byte string anywhere and encode every
   chunk on its own (only the last one can need padding when the cuts are at
   multiples of three, but the statement does not even need that): decoding the
   pieces one by one gives back the concatenation. *)
Theorem decode_pieces_encode : forall chunks : list bytes,
  decode_pieces (map encode chunks) = Some (concat chunks).
Proof.
  induction chunks as [|c rest IH]; [reflexivity|].
  cbn [map decode_pieces concat]. rewrite decode_encode, IH. reflexivity.
Qed.

(* ... and when all cuts but the last are at multiples of three the pieces are
   exactly the cuts, at multiples of four, of the encoding of the whole. *)
Theorem encode_concat : forall chunks : list bytes,
  Forall (fun c => length c mod 3 = 0) (removelast chunks) ->
  concat (map encode chunks) = encode (concat chunks).
Proof.
  induction chunks as [|c rest IH]; intro H; [reflexivity|].
  destruct rest as [|c2 rest].
  - cbn. rewrite !app_nil_r. reflexivity.
  - cbn [removelast] in H. inversion H as [|? ? Hc Hr]; subst.
    cbn [map concat]. rewrite encode_app by exact Hc. f_equal. apply IH. exact Hr.
Qed.

Lemma strip_newlines_encode_free : forall s,
  forallb (fun c => negb (is_newline c)) s = true -> strip_newlines s = s.
Proof.
  induction s as [|c s IH]; intro H; [reflexivity|].
  cbn [forallb] in H. apply andb_true_iff in H. destruct H as [Hc Hs].
  cbn [strip_newlines filter]. rewrite Hc. f_equal. apply IH. exact Hs.
Qed.

Lemma enc6_not_newline : forall s, negb (is_newline (enc6 s)) = true.
Proof.
  intros [[[[[x5 x4] x3] x2] x1] x0].
  destruct x5, x4, x3, x2, x1, x0; vm_compute; reflexivity.
Qed.

Lemma encode_no_newline : forall b, forallb (fun c => negb (is_newline c)) (encode b) = true.
Proof.
  assert (Hp : negb (is_newline b64_pad) = true) by (vm_compute; reflexivity).
  induction b as [|a|a b|a b c l IH] using list_ind3.
  - reflexivity.
  - unfold encode, enc1. destruct (bits8 a) as [[[[[[[a7 a6] a5] a4] a3] a2] a1] a0].
    cbn [forallb]. rewrite !enc6_not_newline, Hp. reflexivity.
  - unfold encode, enc2. destruct (bits8 a) as [[[[[[[a7 a6] a5] a4] a3] a2] a1] a0].
    destruct (bits8 b) as [[[[[[[b7 b6] b5] b4] b3] b2] b1] b0].
    cbn [forallb]. rewrite !enc6_not_newline, Hp. reflexivity.
  - rewrite encode_cons3, forallb_app, IH, andb_true_r. unfold enc3.
    destruct (bits8 a) as [[[[[[[a7 a6] a5] a4] a3] a2] a1] a0].
    destruct (bits8 b) as [[[[[[[b7 b6] b5] b4] b3] b2] b1] b0].
    destruct (bits8 c) as [[[[[[[c7 c6] c5] c4] c3] c2] c1] c0].
    cbn [forallb]. rewrite !enc6_not_newline. reflexivity.
Qed.

Theorem decode_go_encode : forall b, decode_go (encode b) = Some b.
Proof.
  intro b. unfold decode_go. rewrite strip_newlines_encode_free by apply encode_no_newline.
  apply decode_encode.
Qed.

Example b64_ex1 : encode (str "hello world") = str "aGVsbG8gd29ybGQ=".
Proof. vm_compute. reflexivity. Qed.
Example b64_ex2 : decode (str "QUJD") = Some (str "ABC") /\ decode (str "QUJDR") = None /\
                  decode (str "QQ==QUJD") = None /\ decode (str "QR==") = Some (str "A") /\
                  decode (str "QUJD!A==") = None /\ decode (str "Q===") = None.
Proof. vm_compute. repeat split; reflexivity. Qed.
